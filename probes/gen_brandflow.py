"""
gen_brandflow — compile-probe generator for the brand-flow half of C12 (lib/eng_tables.py, prop C12).

The corpus is generated from the BrandFlow table the translator extracted
(work/tables/tables.json, key "brandflow"): for every table entry that has a program template — the
two `__CoercePtrInternal` impls behind `unsize!`, `Gc::erase` / `GcWeak::erase`, `Gc::downgrade`,
`GcWeak::upgrade`, `Gc::as_ref`, `Gc::write`, `Gc::unlock`, `DynamicRootSet::fetch` / `try_fetch`,
`Gc::new`, `DynamicRootSet::new`, `GcBuilder::write`, the `RefLock` / `OnceLock` accessors … — the
value obtained *through that entry* is

    ret     returned from `Arena::mutate`                       (outlives the callback)
    static  parked in a `thread_local!` of type `…<'static>`     ('static location)
    cross   used together with ANOTHER arena's `&Mutation`      (different arena; nested callbacks,
            so both brands are in scope and only the brand mismatch can reject the program)

Every one of these programs must be REJECTED by rustc on a correct tree, with a lifetime error.  A
probe is a dict (same shape as probes/gen_tables.py):

    name, prop="C12", entry ("flow: <table entry name>" — spelled like `Table.violations` — or
    "macro: …" / "chain: …" for probes not tied to one entry), role, run, src, externs

    role "attack"  the model's verdict on the entry predicts rustc's: entry ok -> must be rejected;
                   entry violating -> (some shape) accepted, and the accepted program, when run,
                   prints `RESULT unsafe …` and exits with status 42.  `unsafe_gate`: the entry
                   is an `unsafe fn` with a caller-chosen result brand; the expected rejection is
                   E0133 (call to unsafe function), and there is no "use" twin
         "misuse"  must be rejected whatever the table says
         "use"     the legitimate twin of a template (same expression, used inside its callback with
                   its own arena): must compile and print `RESULT safe` — guards against a probe
                   that fails to compile for an unrelated reason

`unsize-weak-demo` is the complete scenario (return + 'static stash + re-brand into a second arena,
upgrade there, root it, let the first arena collect): it shows the run-time consequence.
"""

PRELUDE = r'''#![forbid(unsafe_code)]
#![allow(unused, dead_code)]
use std::{cell::{Cell, Ref, RefMut}, fmt::Debug, rc::Rc};
use gc_arena::{
    barrier::{field, unlock, Write},
    lock::OnceLock,
    unsize, Arena, Collect, DynamicRoot, DynamicRootSet, Gc, GcBuilder, GcWeak, Lock, Mutation, RefLock, Rootable,
};

/// A value whose destructor is observable.
struct Canary {
    alive: Rc<Cell<bool>>,
    value: u64,
}
impl Drop for Canary {
    fn drop(&mut self) {
        self.alive.set(false);
    }
}
impl Debug for Canary {
    fn fmt(&self, f: &mut std::fmt::Formatter<'_>) -> std::fmt::Result {
        write!(f, "Canary({:#x})", self.value)
    }
}

#[derive(Collect)]
#[collect(no_drop)]
struct Obj<'gc> {
    slot: Lock<Option<Gc<'gc, Canary>>>,
    rslot: RefLock<Option<Gc<'gc, Canary>>>,
}

/// Arena 1 owns the canary: one strong edge that can be cut, one weak pointer that stays.
#[derive(Collect)]
#[collect(no_drop)]
struct Owner<'gc> {
    strong: Gc<'gc, Lock<Option<Gc<'gc, Canary>>>>,
    weak: GcWeak<'gc, Canary>,
    obj: Gc<'gc, Obj<'gc>>,
    robj: Gc<'gc, RefLock<Option<Gc<'gc, Canary>>>>,
    once: Gc<'gc, OnceLock<Gc<'gc, Canary>>>,
    set: DynamicRootSet<'gc>,
}

/// Arena 2 is unrelated; it has a slot for a strong pointer to a `Canary` and a canary of its own.
#[derive(Collect)]
#[collect(no_drop)]
struct Thief<'gc> {
    slot: Gc<'gc, Lock<Option<Gc<'gc, Canary>>>>,
    mine: Gc<'gc, Canary>,
}

type Handle = DynamicRoot<Rootable![Gc<'_, Canary>]>;

fn arenas(alive: &Rc<Cell<bool>>) -> (Arena<Rootable![Owner<'_>]>, Arena<Rootable![Thief<'_>]>, Handle) {
    let mut handle = None;
    let arena1 = Arena::<Rootable![Owner<'_>]>::new(|mc| {
        let canary = Gc::new_static(mc, Canary { alive: alive.clone(), value: 0xC0FFEE });
        let set = DynamicRootSet::new(mc);
        handle = Some(set.stash::<Rootable![Gc<'_, Canary>]>(mc, Gc::new(mc, canary)));
        let once = Gc::new(mc, OnceLock::new());
        once.get_or_init(mc, || canary);
        Owner {
            strong: Gc::new(mc, Lock::new(Some(canary))),
            weak: Gc::downgrade(canary),
            obj: Gc::new(mc, Obj { slot: Lock::new(Some(canary)), rslot: RefLock::new(Some(canary)) }),
            robj: Gc::new(mc, RefLock::new(Some(canary))),
            once,
            set,
        }
    });
    let other = Rc::new(Cell::new(true));
    let arena2 = Arena::<Rootable![Thief<'_>]>::new(|mc| Thief {
        slot: Gc::new(mc, Lock::new(None)),
        mine: Gc::new_static(mc, Canary { alive: other.clone(), value: 2 }),
    });
    (arena1, arena2, handle.unwrap())
}

/// Arena 1 forgets the canary (every strong edge is cut, the dynamic root dropped) and collects.
fn forget_and_collect(arena1: &mut Arena<Rootable![Owner<'_>]>, handle: Handle) {
    drop(handle);
    arena1.mutate_root(|mc, root| {
        root.strong.set(mc, None);
        unlock!(Gc::write(mc, root.obj), Obj, slot).set(None);
        *unlock!(Gc::write(mc, root.obj), Obj, rslot).borrow_mut() = None;
        *root.robj.borrow_mut(mc) = None;
        root.once = Gc::new(mc, OnceLock::new());
    });
    arena1.finish_cycle();
    arena1.finish_cycle();
}

fn verdict(escaped: Option<&str>, alive: &Rc<Cell<bool>>) {
    match escaped {
        None => println!("RESULT safe: nothing left its callback (canary alive = {})", alive.get()),
        Some(what) => {
            println!("RESULT unsafe: {what}; the owning arena has since collected: canary alive = {}", alive.get());
            std::process::exit(42);
        }
    }
}
'''

# key -> (self_head, method, trait or None, expression over (mc, root, handle), type with {b} for
#         the brand, description).  `{b}` is replaced by 'b / 'static.
TEMPLATES = [
    ("unsize-gc", "Gc", "__coerce_unchecked", "__CoercePtrInternal",
     "unsize!(root.strong.get().unwrap() => Canary)", "Gc<{b}, Canary>", "unsize! on a Gc (identity coercion)"),
    ("unsize-gc-dyn", "Gc", "__coerce_unchecked", "__CoercePtrInternal",
     "unsize!(root.strong.get().unwrap() => dyn Debug)", "Gc<{b}, dyn Debug>", "unsize! on a Gc (to a trait object)"),
    ("unsize-weak", "GcWeak", "__coerce_unchecked", "__CoercePtrInternal",
     "unsize!(root.weak => Canary)", "GcWeak<{b}, Canary>", "unsize! on a GcWeak (identity coercion)"),
    ("unsize-weak-dyn", "GcWeak", "__coerce_unchecked", "__CoercePtrInternal",
     "unsize!(root.weak => dyn Debug)", "GcWeak<{b}, dyn Debug>", "unsize! on a GcWeak (to a trait object)"),
    ("erase", "Gc", "erase", None, "Gc::erase(root.strong.get().unwrap())", "Gc<{b}, ()>", "Gc::erase"),
    ("weak-erase", "GcWeak", "erase", None, "GcWeak::erase(root.weak)", "GcWeak<{b}, ()>", "GcWeak::erase"),
    ("erase-kind", "GcFat", "erase_kind", None, "Gc::erase_kind(root.strong.get().unwrap())", "Gc<{b}, Canary>", "Gc::erase_kind"),
    ("as-thin", "GcFat", "as_thin", None, "Gc::as_thin(root.strong.get().unwrap())",
     "gc_arena::GcThin<{b}, Canary, (), gc_arena::meta::UnitPtrMeta>", "Gc::as_thin"),
    ("as-fat", "GcThin", "as_fat", None, "Gc::as_fat(Gc::as_thin(root.strong.get().unwrap()))", "Gc<{b}, Canary>", "Gc::as_fat"),
    ("as-thin-ref", "GcThin", "as_thin_ref", None, "Gc::as_thin_ref(Gc::as_thin(root.strong.get().unwrap()))", "&{b} Canary", "Gc::as_thin_ref"),
    ("downgrade", "Gc", "downgrade", None, "Gc::downgrade(root.strong.get().unwrap())", "GcWeak<{b}, Canary>", "Gc::downgrade"),
    ("upgrade", "GcWeak", "upgrade", None, "root.weak.upgrade(mc).unwrap()", "Gc<{b}, Canary>", "GcWeak::upgrade"),
    ("clone", "Gc", "clone", "Clone", "Clone::clone(&root.strong.get().unwrap())", "Gc<{b}, Canary>", "<Gc as Clone>::clone"),
    ("weak-clone", "GcWeak", "clone", "Clone", "Clone::clone(&root.weak)", "GcWeak<{b}, Canary>", "<GcWeak as Clone>::clone"),
    ("as-ref", "Gc", "as_ref", None, "root.strong.get().unwrap().as_ref()", "&{b} Canary", "Gc::as_ref (inherent, &'gc T)"),
    ("write", "Gc", "write", None, "Gc::write(mc, root.obj)", "&{b} Write<Obj<{b}>>", "Gc::write"),
    ("gc-unlock", "Gc", "unlock", None, "root.strong.unlock(mc)", "&{b} Cell<Option<Gc<{b}, Canary>>>", "Gc::unlock"),
    ("borrow", "Gc", "borrow", None, "root.robj.borrow()", "Ref<{b}, Option<Gc<{b}, Canary>>>", "Gc<RefLock<T>>::borrow"),
    ("borrow-mut", "Gc", "borrow_mut", None, "root.robj.borrow_mut(mc)", "RefMut<{b}, Option<Gc<{b}, Canary>>>", "Gc<RefLock<T>>::borrow_mut"),
    ("once-get", "Gc", "get", None, "root.once.get().unwrap()", "&{b} Gc<{b}, Canary>", "Gc<OnceLock<T>>::get"),
    ("fetch", "DynamicRootSet", "fetch", None, "root.set.fetch(&handle)", "Gc<{b}, Gc<{b}, Canary>>", "DynamicRootSet::fetch"),
    ("try-fetch", "DynamicRootSet", "try_fetch", None, "root.set.try_fetch(&handle).unwrap()", "Gc<{b}, Gc<{b}, Canary>>", "DynamicRootSet::try_fetch"),
    ("set-clone", "DynamicRootSet", "clone", "Clone", "Clone::clone(&root.set)", "DynamicRootSet<{b}>", "<DynamicRootSet as Clone>::clone"),
    ("set-new", "DynamicRootSet", "new", None, "DynamicRootSet::new(mc)", "DynamicRootSet<{b}>", "DynamicRootSet::new"),
    ("gc-new", "Gc", "new", None, "Gc::new(mc, root.strong.get().unwrap())", "Gc<{b}, Gc<{b}, Canary>>", "Gc::new"),
    ("builder-write", "GcBuilder", "write", None, "GcBuilder::new().write(mc, root.strong.get().unwrap())", "Gc<{b}, Gc<{b}, Canary>>", "GcBuilder::write"),
    # `unsafe fn`s whose result has a caller-chosen brand: exempt from the flow rule only because safe
    # code cannot call them — rustc must say so (E0133); there is no legitimate twin in safe code
    ("from-ptr", "Gc", "from_ptr", None, "Gc::from_ptr(Gc::as_ptr(root.strong.get().unwrap()))", "Gc<{b}, Canary>", "Gc::from_ptr", "unsafe-gate"),
    ("weak-from-ptr", "GcWeak", "from_ptr", None, "GcWeak::from_ptr(GcWeak::as_ptr(root.weak))", "GcWeak<{b}, Canary>", "GcWeak::from_ptr", "unsafe-gate"),
]

# macro chains and mixed uses that are not one table entry
CHAINS = [
    ("field-unlock", "macro: field!", "field!(Gc::write(mc, root.obj), Obj, slot).unlock()",
     "&{b} Cell<Option<Gc<{b}, Canary>>>", "field!(…).unlock() chain"),
    ("unlock-macro", "macro: unlock!", "unlock!(Gc::write(mc, root.obj), Obj, rslot)",
     "&{b} std::cell::RefCell<Option<Gc<{b}, Canary>>>", "unlock!(…) chain"),
    ("field-write", "macro: field!", "field!(Gc::write(mc, root.obj), Obj, slot)",
     "&{b} Write<Lock<Option<Gc<{b}, Canary>>>>", "field!(…) projection"),
    ("mutation", "chain: &Mutation", "mc", "&{b} Mutation<{b}>", "the Mutation context itself"),
]


def _ty(t, b):
    return t.replace("{b}", b)


def _program(ty, body):
    items = f"""
type Ty<'b> = {_ty(ty, "'b")};
/// Accepts a value only together with the `Mutation` of the SAME arena.
fn need<'b>(_mc: &Mutation<'b>, _v: Ty<'b>) {{}}
thread_local! {{
    static STASH: Cell<Option<{_ty(ty, "'static")}>> = const {{ Cell::new(None) }};
}}
"""
    return PRELUDE + items + f"""
fn main() {{
    let alive = Rc::new(Cell::new(true));
    let (mut arena1, arena2, handle) = arenas(&alive);
    let mut escaped: Option<&str> = None;
{body}
    forget_and_collect(&mut arena1, handle);
    verdict(escaped, &alive);
}}
"""


def _shape(shape, expr, what):
    if shape == "ret":
        return f"""    // RETURN IT FROM THE CALLBACK
    let out = arena1.mutate(|mc, root| {expr});
    let _keep = &out;
    escaped = Some("{what} was returned from Arena::mutate");
"""
    if shape == "static":
        return f"""    // STORE IT IN A 'static LOCATION
    arena1.mutate(|mc, root| STASH.with(|s| s.set(Some({expr}))));
    escaped = Some("{what} was parked in a thread_local of a 'static type");
"""
    if shape == "cross":
        return f"""    // USE IT WITH A DIFFERENT ARENA (both callbacks are running, both brands are in scope)
    arena2.mutate(|mc2, root2| {{
        arena1.mutate(|mc, root| {{
            let v = {expr};
            need(mc2, v);
        }})
    }});
    escaped = Some("{what} of arena 1 was accepted together with arena 2's Mutation");
"""
    if shape == "use":
        return f"""    // legitimate twin: used inside its callback, with its own arena
    arena1.mutate(|mc, root| {{
        let v = {expr};
        need(mc, v);
    }});
"""
    raise ValueError(shape)


DEMO_BODY = r'''    // (1) RETURN IT FROM THE CALLBACK: an "identity unsizing" of the weak pointer re-brands it with a
    //     lifetime of our choosing -- here 'static, so it leaves `mutate`.
    let out: GcWeak<'static, Canary> = arena1.mutate(|_mc, root| unsize!(root.weak => Canary));
    // (2) STORE IT IN A 'static LOCATION.
    STASH.with(|s| s.set(Some(out)));
    // (3) USE IT WITH A DIFFERENT ARENA: re-brand once more, this time to arena 2's 'gc, upgrade it
    //     with arena 2's Mutation and root the resulting strong pointer there.
    arena2.mutate(|mc2, root2| {
        let foreign: GcWeak<'_, Canary> = unsize!(STASH.with(|s| s.take()).unwrap() => Canary);
        let strong: Gc<'_, Canary> = foreign.upgrade(mc2).expect("canary is still live");
        root2.slot.set(mc2, Some(strong));
    });
    // Arena 1 knows nothing about arena 2's root: it forgets the canary and collects.
    forget_and_collect(&mut arena1, handle);
    arena1.mutate(|mc, root| assert!(root.weak.upgrade(mc).is_none()));
    // (4) Consequence: arena 2's root holds a strong, rooted Gc whose target was destroyed.
    let stolen = arena2.mutate(|_mc, root2| root2.slot.get().map(|gc| gc.value));
    match stolen {
        None => println!("RESULT safe: nothing escaped"),
        Some(v) => {
            println!(
                "RESULT unsafe: arena2's root holds a strong Gc<Canary> (value field reads {v:#x}) taken from arena1 through \
                 unsize! on a GcWeak, but arena1 has run the canary's destructor: alive = {}",
                alive.get()
            );
            std::process::exit(42);
        }
    }
'''


def _demo():
    items = """
thread_local! {
    static STASH: Cell<Option<GcWeak<'static, Canary>>> = const { Cell::new(None) };
}
"""
    return PRELUDE + items + """
fn main() {
    let alive = Rc::new(Cell::new(true));
    let (mut arena1, arena2, handle) = arenas(&alive);
""" + DEMO_BODY + "}\n"


def _find(bf, self_head, method, trait):
    for e in bf["entries"]:
        if e["self_head"] == self_head and e["method"] == method and (trait is None or e["trait"] == trait) \
                and (trait is not None or e["trait"] == ""):
            return e
    return None


def c12_probes(bf):
    """Returns (probes, entries_without_template)."""
    probes = []
    covered = set()
    for tpl in TEMPLATES:
        key, sh, m, tr, expr, ty, what = tpl[:7]
        gate = len(tpl) > 7 and tpl[7] == "unsafe-gate"
        e = _find(bf, sh, m, tr)
        if e is None:
            continue
        covered.add(e["name"])
        entry = "flow: " + e["name"]
        for shape in ("ret", "static", "cross"):
            probes.append(dict(name=f"c12-{key}-{shape}", prop="C12", entry=entry, role="attack", run=True, unsafe_gate=gate,
                               src=_program(ty, _shape(shape, expr, f"a value obtained through {what}")), externs=[]))
        if not gate:
            probes.append(dict(name=f"c12-{key}-use", prop="C12", entry=entry, role="use", run=True,
                               src=_program(ty, _shape("use", expr, what)), externs=[]))
        if key == "unsize-weak":
            probes.append(dict(name="c12-unsize-weak-demo", prop="C12", entry=entry, role="attack", run=True, src=_demo(), externs=[], demo=True))
        if key == "upgrade":
            body = """    // USE IT WITH A DIFFERENT ARENA: upgrade arena 1's weak pointer with arena 2's Mutation
    arena2.mutate(|mc2, root2| {
        arena1.mutate(|_mc, root| {
            let strong = root.weak.upgrade(mc2).unwrap();
            root2.slot.set(mc2, Some(strong));
        })
    });
    escaped = Some("arena 1's GcWeak was upgraded with arena 2's Mutation and rooted in arena 2");
"""
            probes.append(dict(name="c12-upgrade-foreign-mutation", prop="C12", entry=entry, role="attack", run=True,
                               src=_program(ty, body), externs=[]))
        if key in ("fetch", "try-fetch"):
            call = "root.set.fetch(&handle)" if key == "fetch" else "root.set.try_fetch(&handle).unwrap()"
            body = f"""    // the pointer fetched from arena 1's root set is stored into arena 2's root
    arena2.mutate(|mc2, root2| {{
        arena1.mutate(|_mc, root| {{
            let v = {call};
            root2.slot.set(mc2, Some(*v));
        }})
    }});
    escaped = Some("a pointer fetched from arena 1's DynamicRootSet was rooted in arena 2");
"""
            probes.append(dict(name=f"c12-{key}-store-foreign", prop="C12", entry=entry, role="attack", run=True,
                               src=_program(ty, body), externs=[]))
    for key, entry, expr, ty, what in CHAINS:
        for shape in ("ret", "static", "cross"):
            probes.append(dict(name=f"c12-{key}-{shape}", prop="C12", entry=entry, role="misuse", run=True,
                               src=_program(ty, _shape(shape, expr, f"a value obtained through {what}")), externs=[]))
        probes.append(dict(name=f"c12-{key}-use", prop="C12", entry=entry, role="use", run=True,
                           src=_program(ty, _shape("use", expr, what)), externs=[]))
    # a pointer of arena 2 stored into an object of arena 1 through the write-capability chains
    for key, store in [("unlock-store-foreign", "unlock!(Gc::write(mc, root.obj), Obj, slot).set(Some(root2.mine));"),
                       ("field-store-foreign", "field!(Gc::write(mc, root.obj), Obj, rslot).unlock().replace(Some(root2.mine));"),
                       ("lock-set-foreign", "root.strong.set(mc, Some(root2.mine));"),
                       ("lock-set-foreign-mutation", "root.strong.set(mc2, root.strong.get());")]:
        body = f"""    arena2.mutate(|mc2, root2| {{
        arena1.mutate(|mc, root| {{
            {store}
        }})
    }});
    escaped = Some("a pointer / Mutation of arena 2 was accepted by a store into arena 1");
"""
        probes.append(dict(name=f"c12-{key}", prop="C12", entry="chain: Write / unlock! / field!", role="misuse", run=True,
                           src=_program("Gc<{b}, Canary>", body), externs=[]))
    missing = []
    for e in bf["entries"]:
        callable_ = (not e["is_unsafe"]) or e["macro_reachable"]
        if callable_ and (e["out_brands"] or [l for l in e["out_refs"] if not l.startswith("_")]) and e["name"] not in covered:
            missing.append(e["name"])
    return probes, missing
