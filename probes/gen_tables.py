"""
gen_tables — compile-probe generator for the table engine (lib/eng_tables.py): C13 (write
capabilities) and C19 static half (conjuring).

The corpus is generated from the tables the translator extracted (work/tables/tables.json): one
group of probes per `Write` constructor, per `DerefWrite` / `IndexWrite` / `as_write` impl, per
`Unlock` impl, per interior-mutability `Collect` impl, the `field!` misuse shapes, and one group per
safe signature returning a `Gc` / `GcWeak` handle on a caller-chosen type.

A probe is a dict:
    name      file-name safe id
    prop      "C13" | "C19"
    entry     the table entry it was generated from, spelled exactly like the corresponding item of
              the Lean side's `Table.violations` ("proj: …", "ctor: …", "sig: …", "field-macro", …)
    role      "attack"  – tries to adopt a pointer without a barrier / to conjure a value; the
                          model's verdict on the table entry predicts rustc's: entry acceptable ->
                          must be rejected; entry violating -> accepted (and, when run, unsafe)
              "misuse"  – a use without the capability; must be rejected whatever the table says
              "use"     – the legitimate twin; must compile (and run without losing the child)
    run       True when the accepted program is also executed (prints `RESULT safe|unsafe|conjured`)
    key       known-defect pattern key this probe demonstrates, if any
    src       the complete Rust program
    externs   extra crates to pass with --extern (e.g. ["hashbrown"])
    also      further table entries the same program is an attack on (the prediction is "accepted" if
              any of `entry`, `also` violates the table hypothesis)
"""

PRELUDE = r'''#![allow(unused, dead_code)]
use gc_arena::{Arena, Collect, Gc, GcWeak, Lock, RefLock, Rootable, Static, barrier::{self, Write, field, unlock}};
use std::cell::{Cell, RefCell};
use std::rc::Rc;
use std::sync::Arc;

thread_local! { static DROPS: Cell<u32> = Cell::new(0); }
/// A value whose destructor is observable. Allocated with `Gc::new_static`.
struct Token(u32);
impl Drop for Token { fn drop(&mut self) { DROPS.with(|d| d.set(d.get() + 1)); } }
type Child<'gc> = Gc<'gc, Token>;
type Slot<'gc> = RefLock<Option<Child<'gc>>>;
fn drops() -> u32 { DROPS.with(|d| d.get()) }
fn verdict(still_stored: bool) {
    let d = drops();
    if still_stored && d > 0 {
        println!("RESULT unsafe: the child's destructor ran ({d}x) while the child is still stored in a reachable object");
    } else {
        println!("RESULT safe: stored={still_stored} drops={d}");
    }
}
'''


SCHEDULES = ("a", "b", "c", "d", "e1", "e2", "e3", "e4", "e5", "f")
SCHEDULE_DOC = """
// The store is run once per schedule, each time in a fresh arena, followed by finish_cycle() x2:
//   a   collector Sleeping
//   b   after finish_marking() (every object Black, phase Marked), inside `mutate`
//   c   same, inside `mutate_root` (the root is flagged for re-tracing while the store happens)
//   d   after finish_marking(), inside `mutate` immediately after a `mutate_root` that only touched a root field
//   eK  after K single-object mark steps (set_pacing + adjust_debt + mark_debt): the parent is traced
//       first (Black) while the filler objects are still gray
//   f   Sweeping (start_sweeping), the child is born during the sweep
// C01 verdict by drop flags only (nothing freed is dereferenced): the child stored in a reachable
// object must be alive, the orphan stored nowhere must be gone.
"""


def _black_parent(root_fields, init, body, check, extra_items=""):
    """Store scenario under the schedule matrix (SCHEDULE_DOC): black parent / white child and the
    other collector states in which a write barrier matters."""
    return PRELUDE + extra_items + SCHEDULE_DOC + f'''
thread_local! {{ static ORPHANS: Cell<u32> = Cell::new(0); }}
/// Allocated in the same callback as the child and stored nowhere.
struct Orphan;
impl Drop for Orphan {{ fn drop(&mut self) {{ ORPHANS.with(|d| d.set(d.get() + 1)); }} }}

#[derive(Collect)]
#[collect(no_drop)]
struct Root<'gc> {{ filler: Vec<Gc<'gc, Slot<'gc>>>, {root_fields}, tick: u32 }}

/// The store under test.
fn store<'gc>(mc: &gc_arena::Mutation<'gc>, root: &'gc Root<'gc>, child: Child<'gc>) {{
{body}
}}

fn run_schedule(s: &str) -> (bool, u32, u32) {{
    DROPS.with(|d| d.set(0));
    ORPHANS.with(|d| d.set(0));
    let mut arena = Arena::<Rootable![Root<'_>]>::new(|mc| Root {{
        filler: (0..6).map(|_| Gc::new(mc, RefLock::new(None))).collect(), {init}, tick: 0 }});
    match s {{
        "a" => {{}}
        "b" | "c" | "d" => {{ let _ = arena.finish_marking(); }}
        "f" => {{ arena.finish_marking().expect("marked").start_sweeping(); }}
        e => {{
            // K single-object mark steps: one unit of debt per step, one unit of credit per traced object
            let k: usize = e[1..].parse().unwrap();
            arena.metrics().set_pacing(gc_arena::metrics::Pacing {{ sleep_factor: 0.5, min_sleep: 0, mark_factor: 0.0, trace_factor: 1.0,
                                                                   keep_factor: 0.0, drop_factor: 0.0, free_factor: 0.0 }});
            let n = arena.metrics().total_gc_count() as f64;
            arena.metrics().adjust_debt(-n);
            for _ in 0..k {{ arena.metrics().adjust_debt(1.0); let _ = arena.mark_debt(); }}
        }}
    }}
    if s == "d" {{ arena.mutate_root(|_, root| {{ root.tick += 1; }}); }}
    if s == "c" {{
        arena.mutate_root(|mc, root| {{
            let root: &Root<'_> = root;
            let child: Child<'_> = Gc::new_static(mc, Token(7));
            let _orphan = Gc::new_static(mc, Orphan);
            store(mc, root, child);
        }});
    }} else {{
        arena.mutate(|mc, root| {{
            let child: Child<'_> = Gc::new_static(mc, Token(7));
            let _orphan = Gc::new_static(mc, Orphan);
            store(mc, root, child);
        }});
    }}
    arena.finish_cycle();
    if drops() > 0 {{
        // the child was destructed: if it is still stored, the collector must not look at the arena
        // again (it would follow a dangling pointer) — stop here and leak the arena
        let still_stored = arena.mutate(|_, root| {{ {check} }});
        if still_stored {{
            std::mem::forget(arena);
            return (true, drops(), 1);
        }}
    }}
    arena.finish_cycle();
    let still_stored = arena.mutate(|_, root| {{ {check} }});
    (still_stored, drops(), ORPHANS.with(|d| d.get()))
}}

fn main() {{
    let mut bad = vec![];
    let mut leaked = vec![];
    for s in [{", ".join('"' + x + '"' for x in SCHEDULES)}] {{
        let (stored, child_drops, orphan_drops) = run_schedule(s);
        if stored && child_drops > 0 {{ bad.push(s); }}
        if orphan_drops != 1 {{ leaked.push(s); }}
    }}
    if !bad.is_empty() {{
        println!("RESULT unsafe: schedule(s) {{bad:?}}: the child's destructor ran while the child is still stored in a reachable object (b/c/d: store after finish_marking() inside mutate / inside mutate_root / inside mutate right after a mutate_root that touched only a root field; a: asleep; eK: after K partial mark steps; f: while sweeping)");
    }} else if !leaked.is_empty() {{
        println!("RESULT unsafe: schedule(s) {{leaked:?}}: the orphan stored nowhere was not destructed exactly once after finish_cycle() x2");
    }} else {{
        println!("RESULT safe: all {len(SCHEDULES)} schedules keep the stored child alive and free the orphan");
    }}
}}
'''


def _compile_only(body, items=""):
    return PRELUDE + items + f'''
fn probe<'gc>(mc: &gc_arena::Mutation<'gc>) {{
{body}
}}
fn main() {{ gc_arena::arena::rootless_mutate(|mc| probe(mc)); }}
'''


def _slug(s):
    out = []
    for ch in s.lower():
        out.append(ch if ch.isalnum() else "-")
    t = "".join(out)
    while "--" in t:
        t = t.replace("--", "-")
    return t.strip("-")[:60]


A_SLOT = ("a: Gc<'gc, Slot<'gc>>", "a: Gc::new(mc, RefLock::new(None))", "root.a.borrow().is_some()")


# ------------------------------------------------------------------------------------------------
# C13
# ------------------------------------------------------------------------------------------------
def c13_probes(dw):
    P = []

    def add(name, entry, role, src, run=False, key=None, externs=()):
        P.append(dict(name="c13-" + name, prop="C13", entry=entry, role=role, run=run, key=key, src=src, externs=list(externs)))

    # ---- constructors --------------------------------------------------------------------------
    for c in dw["ctors"]:
        n, kind = c["name"], c["kind"]
        e = f"ctor: {n}"
        if kind == "assume":
            add("ctor-assume-attack", e, "attack", _black_parent(*A_SLOT[:2], body='''        let w: &Write<Slot<'_>> = Write::assume(root.a.as_ref()); // no `unsafe`, no barrier
        *w.unlock().borrow_mut() = Some(child);''', check=A_SLOT[2]), run=True)
            add("ctor-assume-use", e, "use", _black_parent(*A_SLOT[:2], body='''        mc.backward_barrier(Gc::erase(root.a), None);
        let w: &Write<Slot<'_>> = unsafe { Write::assume(root.a.as_ref()) };
        *w.unlock().borrow_mut() = Some(child);''', check=A_SLOT[2]), run=True)
        elif kind == "fromStatic":
            add("ctor-from-static-attack", e, "attack", _black_parent(*A_SLOT[:2], body='''        let w: &Write<Slot<'_>> = Write::from_static(root.a.as_ref()); // Slot<'gc> is not 'static
        *w.unlock().borrow_mut() = Some(child);''', check=A_SLOT[2]), run=True)
            add("ctor-from-static-use", e, "use", _compile_only('''    let cell = RefCell::new(0i32);
    let w: &Write<RefCell<i32>> = Write::from_static(&cell);
    let _ = &**w;'''))
        elif kind == "fromMut":
            add("ctor-from-mut-attack", e, "misuse", _black_parent(*A_SLOT[:2], body='''        let w: &Write<Slot<'_>> = Write::from_mut(&mut *root.a); // no `&mut` through a Gc
        *w.unlock().borrow_mut() = Some(child);''', check=A_SLOT[2]))
            add("ctor-from-mut-use", e, "use", _black_parent(*A_SLOT[:2], body='''        let mut local: Slot<'_> = RefLock::new(None);
        *Write::from_mut(&mut local).unlock().borrow_mut() = Some(child); // a local: nothing to barrier
        let fresh = Gc::new(mc, local);
        let _ = Gc::write(mc, root.a); // adopt through the barriered parent
        *root.a.borrow_mut(mc) = fresh.borrow().clone();''', check=A_SLOT[2]), run=True)
        elif kind == "fromRefAndPtr":
            add("ctor-from-ref-and-ptr-attack", e, "attack", _black_parent(*A_SLOT[:2], body='''        let r: &Slot<'_> = root.a.as_ref();
        let w: &Write<Slot<'_>> = Write::__from_ref_and_ptr(r, r as *const _); // no `unsafe`
        *w.unlock().borrow_mut() = Some(child);''', check=A_SLOT[2]), run=True)
            add("ctor-from-ref-and-ptr-use", e, "use", _compile_only('''    let cell = RefCell::new(0i32);
    let w: &Write<RefCell<i32>> = unsafe { Write::__from_ref_and_ptr(&cell, &cell as *const _) };
    let _ = &**w;'''))
        elif kind == "gcWrite":
            add("ctor-gc-write-use", e, "use", _black_parent(*A_SLOT[:2], body='''        *Gc::write(mc, root.a).unlock().borrow_mut() = Some(child);''', check=A_SLOT[2]), run=True)
            add("ctor-gc-write-misuse", e, "misuse", _black_parent(*A_SLOT[:2], body='''        let w: &Write<Slot<'_>> = root.a.as_ref(); // a plain reference is not a Write
        *w.unlock().borrow_mut() = Some(child);''', check=A_SLOT[2]))
    add("ctor-struct-literal", "write-not-non-exhaustive", "attack", _compile_only('''    let w = Write { __inner: RefCell::new(0i32) }; // the struct is #[non_exhaustive]
    let _ = &w;'''))

    # ---- DerefWrite ----------------------------------------------------------------------------
    for p in dw["projs"]:
        recv, kind, text = p["recv"], p["kind"], p["text"]
        e = f"proj: {text}"
        if kind == "deref" and recv == "ref":
            add("deref-ref-attack", e, "attack", _black_parent(*A_SLOT[:2], body='''        let mut r: &Slot<'_> = root.a.as_ref(); // a local shared borrow of the black object's value
        *Write::from_mut(&mut r).as_deref().unlock().borrow_mut() = Some(child); // no barrier anywhere''',
                check=A_SLOT[2]), run=True, key="derefwrite-shared-ref")
            add("deref-ref-use", e, "use", _compile_only('''    let cell = RefCell::new(0i32);
    let mut r: &RefCell<i32> = &cell;
    let w: &Write<RefCell<i32>> = Write::from_mut(&mut r).as_deref(); // 'static target: as good as from_static
    *w.borrow_mut() = 1;'''))
        elif kind == "deref" and recv in ("rc", "arc"):
            ty = "Rc" if recv == "rc" else "Arc"
            add(f"deref-{recv}-attack", e, "attack", _black_parent(
                f"x: Gc<'gc, {ty}<Slot<'gc>>>", f"x: Gc::new(mc, {ty}::new(RefLock::new(None)))",
                body=f'''        let y = Gc::new(mc, {ty}::clone(&*root.x)); // a second owner of the same RefLock, freshly allocated
        *Gc::write(mc, y).as_deref().unlock().borrow_mut() = Some(child); // the barrier reaches `y` only''',
                check="root.x.borrow().is_some()"), run=True, key=f"derefwrite-{recv}")
            add(f"deref-{recv}-use", e, "use", _compile_only(f'''    let g = Gc::new(mc, {ty}::new(Static(RefCell::new(0i32))));
    let w: &Write<Static<RefCell<i32>>> = Gc::write(mc, g).as_deref(); // 'static target
    *w.borrow_mut() = 1;'''))
        elif kind == "deref" and recv == "box":
            add("deref-box-use", e, "use", _black_parent(
                "x: Gc<'gc, Box<Slot<'gc>>>", "x: Gc::new(mc, Box::new(RefLock::new(None)))",
                body="        *Gc::write(mc, root.x).as_deref().unlock().borrow_mut() = Some(child);",
                check="root.x.borrow().is_some()"), run=True)
            add("deref-box-misuse", e, "misuse", _black_parent(
                "x: Gc<'gc, Box<Slot<'gc>>>", "x: Gc::new(mc, Box::new(RefLock::new(None)))",
                body='''        let w: &Write<Slot<'_>> = Write::as_deref(root.x.as_ref()); // &Box<_> is not &Write<Box<_>>
        *w.unlock().borrow_mut() = Some(child);''', check="root.x.borrow().is_some()"))
        elif kind == "deref" and recv == "vec":
            add("deref-vec-use", e, "use", _black_parent(
                "x: Gc<'gc, Vec<Slot<'gc>>>", "x: Gc::new(mc, vec![RefLock::new(None)])",
                body="        *Gc::write(mc, root.x).as_deref()[0].unlock().borrow_mut() = Some(child);",
                check="root.x[0].borrow().is_some()"), run=True)
            add("deref-vec-misuse", e, "misuse", _black_parent(
                "x: Gc<'gc, Vec<Slot<'gc>>>", "x: Gc::new(mc, vec![RefLock::new(None)])",
                body='''        let w: &Write<[Slot<'_>]> = Write::as_deref(root.x.as_ref());
        *w[0].unlock().borrow_mut() = Some(child);''', check="root.x[0].borrow().is_some()"))
        elif kind == "index":
            idx = None
            idx_name = "key"
            t = text.replace(" ", "")
            holder = ("x: Gc<'gc, Vec<Slot<'gc>>>", "x: Gc::new(mc, vec![RefLock::new(None)])", "root.x[0].borrow().is_some()")
            pre = "Gc::write(mc, root.x)"
            externs = ()
            if recv == "slice":
                pre = "Gc::write(mc, root.x).as_deref()"
                for pat, ix, nm in (("IndexWrite<usize>", "[0]", "usize"), ("IndexWrite<Range<usize>>", "[0..1][0]", "range"),
                                    ("IndexWrite<RangeFrom<usize>>", "[0..][0]", "rangefrom"),
                                    ("IndexWrite<RangeInclusive<usize>>", "[0..=0][0]", "rangeinclusive"),
                                    ("IndexWrite<RangeTo<usize>>", "[..1][0]", "rangeto"),
                                    ("IndexWrite<RangeToInclusive<usize>>", "[..=0][0]", "rangetoinclusive")):
                    if pat in t:
                        idx, idx_name = ix, nm
            elif recv == "array":
                holder = ("x: Gc<'gc, [Slot<'gc>; 2]>", "x: Gc::new(mc, [RefLock::new(None), RefLock::new(None)])", "root.x[1].borrow().is_some()")
                idx = "[1]"
            elif recv == "vec":
                idx = "[0]"
            elif recv == "vecDeque":
                holder = ("x: Gc<'gc, std::collections::VecDeque<Slot<'gc>>>",
                          "x: Gc::new(mc, std::collections::VecDeque::from(vec![RefLock::new(None)]))", "root.x[0].borrow().is_some()")
                idx = "[0]"
            elif recv == "btreeMap":
                holder = ("x: Gc<'gc, std::collections::BTreeMap<u8, Slot<'gc>>>",
                          "x: Gc::new(mc, std::collections::BTreeMap::from([(1u8, RefLock::new(None))]))", "root.x[&1u8].borrow().is_some()")
                idx = "[&1u8]"
            elif recv == "hashMap":
                holder = ("x: Gc<'gc, std::collections::HashMap<u8, Slot<'gc>>>",
                          "x: Gc::new(mc, std::collections::HashMap::from([(1u8, RefLock::new(None))]))", "root.x[&1u8].borrow().is_some()")
                idx = "[&1u8]"
            elif recv == "hbHashMap":
                holder = ("x: Gc<'gc, hashbrown::HashMap<u8, Slot<'gc>, std::collections::hash_map::RandomState>>",
                          "x: Gc::new(mc, { let mut m = hashbrown::HashMap::with_hasher(std::collections::hash_map::RandomState::new()); m.insert(1u8, RefLock::new(None)); m })",
                          "root.x[&1u8].borrow().is_some()")
                idx = "[&1u8]"
                externs = ("hashbrown",)
            if idx is None:
                continue  # unknown receiver / index type: judged by the table theorem only
            if recv != "slice" and idx in ("[0]", "[1]"):
                idx_name = "usize"
            name = _slug(f"index-{recv}-{idx_name}")
            add(name + "-use", e, "use", _black_parent(holder[0], holder[1],
                body=f"        *{pre}{idx}.unlock().borrow_mut() = Some(child);", check=holder[2]), run=True, externs=externs)
            add(name + "-misuse", e, "misuse", _black_parent(holder[0], holder[1],
                body=f"        let w: &Write<Slot<'_>> = &root.x.as_ref(){idx if recv != 'slice' else idx}; // indexing a plain reference gives no Write\n        *w.unlock().borrow_mut() = Some(child);",
                check=holder[2]), externs=externs)
        elif kind == "asWrite" and recv == "option":
            add("aswrite-option-use", e, "use", _black_parent(
                "x: Gc<'gc, Option<Slot<'gc>>>", "x: Gc::new(mc, Some(RefLock::new(None)))",
                body="        *Gc::write(mc, root.x).as_write().unwrap().unlock().borrow_mut() = Some(child);",
                check="(*root.x).as_ref().unwrap().borrow().is_some()"), run=True)
            add("aswrite-option-misuse", e, "misuse", _black_parent(
                "x: Gc<'gc, Option<Slot<'gc>>>", "x: Gc::new(mc, Some(RefLock::new(None)))",
                body="        *root.x.as_ref().as_write().unwrap().unlock().borrow_mut() = Some(child); // Option has no as_write",
                check="(*root.x).as_ref().unwrap().borrow().is_some()"))
        elif kind == "asWrite" and recv == "result":
            add("aswrite-result-use", e, "use", _black_parent(
                "x: Gc<'gc, Result<Slot<'gc>, Slot<'gc>>>", "x: Gc::new(mc, Err(RefLock::new(None)))",
                body="        *Gc::write(mc, root.x).as_write().err().unwrap().unlock().borrow_mut() = Some(child);",
                check="root.x.as_ref().as_ref().err().unwrap().borrow().is_some()"), run=True)
            add("aswrite-result-misuse", e, "misuse", _black_parent(
                "x: Gc<'gc, Result<Slot<'gc>, Slot<'gc>>>", "x: Gc::new(mc, Err(RefLock::new(None)))",
                body="        *root.x.as_ref().as_write().err().unwrap().unlock().borrow_mut() = Some(child);",
                check="root.x.as_ref().as_ref().err().unwrap().borrow().is_some()"))

    # ---- client-written `Index` impls (downstream crate) ------------------------------------------
    # `IndexWrite<I>: Index<I>` must only ever run upstream's (std's / hashbrown's) `index`.  For each
    # receiver class with IndexWrite entries: the client implements `Index<Through>` (where coherence
    # lets it) looking *through* a `Gc` stored in the container, then indexes a `&Write<container>`
    # with it: the barrier was applied to the container's allocation only.  Must be rejected.
    CLIENT_ITEMS = '''
use std::ops::Index;
use std::borrow::Borrow;
use std::collections::{BTreeMap, HashMap, VecDeque};
/// A client-side index type.
{derive}struct Through;
type GSlot<'gc> = Gc<'gc, Slot<'gc>>;
'''
    by_recv = {}
    for p in dw["projs"]:
        if p["kind"] == "index":
            by_recv.setdefault(p["recv"], []).append(f"proj: {p['text']}")

    def client(recv, tag, derive, impls, holder, body, note, externs=()):
        ents = by_recv.get(recv)
        if not ents:
            return
        src = _black_parent(holder[0], holder[1], body=body, check=holder[2],
                            extra_items=CLIENT_ITEMS.replace("{derive}", derive) + impls)
        P.append(dict(name=f"c13-index-{recv.lower()}-client-index{tag}", prop="C13", entry=ents[0], also=ents[1:], role="attack",
                      run=True, key=None, src=src, externs=list(externs), note=note))

    THROUGH_IMPL = "impl<'gc> Index<Through> for {ty} {{ type Output = Slot<'gc>; fn index(&self, _: Through) -> &Slot<'gc> {{ &*self{first} }} }}\n"
    vec_holder = ("x: Gc<'gc, Vec<GSlot<'gc>>>", "x: Gc::new(mc, vec![Gc::new(mc, RefLock::new(None))])", "root.x[0].borrow().is_some()")
    STORE = ".unlock().borrow_mut() = Some(child); // the barrier reached the container's allocation only"
    client("vec", "", "", THROUGH_IMPL.format(ty="Vec<GSlot<'gc>>", first="[0]"), vec_holder,
           f"        *Gc::write(mc, root.x)[Through]{STORE}", "impl Index<Through> for Vec<Gc<..>>")
    client("slice", "", "", THROUGH_IMPL.format(ty="[GSlot<'gc>]", first="[0]"), vec_holder,
           f"        *Gc::write(mc, root.x).as_deref()[Through]{STORE}", "impl Index<Through> for [Gc<..>]")
    arr_holder = ("x: Gc<'gc, [GSlot<'gc>; 1]>", "x: Gc::new(mc, [Gc::new(mc, RefLock::new(None))])", "root.x[0].borrow().is_some()")
    client("array", "", "", THROUGH_IMPL.format(ty="[GSlot<'gc>; 1]", first="[0]"), arr_holder,
           f"        *Gc::write(mc, root.x)[Through]{STORE}", "impl Index<Through> for [Gc<..>; 1]")
    client("array", "-via-slice", "", THROUGH_IMPL.format(ty="[GSlot<'gc>]", first="[0]"), arr_holder,
           f"        *Gc::write(mc, root.x)[Through]{STORE} // std's array impl forwards to the client's slice impl",
           "impl Index<Through> for [Gc<..>] reached through std's `impl Index<I> for [T; N] where [T]: Index<I>`")
    client("vecDeque", "", "", THROUGH_IMPL.format(ty="VecDeque<GSlot<'gc>>", first="[0]"),
           ("x: Gc<'gc, VecDeque<GSlot<'gc>>>", "x: Gc::new(mc, VecDeque::from(vec![Gc::new(mc, RefLock::new(None))]))", "root.x[0].borrow().is_some()"),
           f"        *Gc::write(mc, root.x)[Through]{STORE}", "impl Index<Through> for VecDeque<Gc<..>>")
    REF_IMPL = "impl<'a, 'gc> Index<&'a Through> for {ty} {{ type Output = Slot<'gc>; fn index(&self, _: &'a Through) -> &Slot<'gc> {{ &*self[&1u8] }} }}\n"
    BORROW = "impl Borrow<Through> for u8 { fn borrow(&self) -> &Through { &Through } }\n"
    for recv, ty, ctor, derive_b, externs in (
            ("btreeMap", "BTreeMap<u8, GSlot<'gc>>", "BTreeMap::from([(1u8, Gc::new(mc, RefLock::new(None)))])", "#[derive(PartialEq, Eq, PartialOrd, Ord)] ", ()),
            ("hashMap", "HashMap<u8, GSlot<'gc>>", "HashMap::from([(1u8, Gc::new(mc, RefLock::new(None)))])", "#[derive(PartialEq, Eq, Hash)] ", ()),
            ("hbHashMap", "hashbrown::HashMap<u8, GSlot<'gc>, std::collections::hash_map::RandomState>",
             "{ let mut m = hashbrown::HashMap::with_hasher(std::collections::hash_map::RandomState::new()); m.insert(1u8, Gc::new(mc, RefLock::new(None))); m }",
             "#[derive(PartialEq, Eq, Hash)] ", ("hashbrown",))):
        holder = (f"x: Gc<'gc, {ty}>", f"x: Gc::new(mc, {ctor})", "root.x[&1u8].borrow().is_some()")
        # (a) the key type does not borrow as `Through`: the client's Index impl is legal, but the
        #     crate's IndexWrite<&Q> impl (whose where-clauses imply upstream's) does not apply
        client(recv, "", "", REF_IMPL.format(ty=ty), holder, f"        *Gc::write(mc, root.x)[&Through]{STORE}",
               f"impl Index<&Through> for {ty.split('<')[0]}<u8, Gc<..>> (u8 does not borrow as Through)", externs)
        # (b) it does: then upstream's Index<&Q> impl applies and the client's overlaps with it
        client(recv, "-with-borrow", derive_b, BORROW + REF_IMPL.format(ty=ty), holder, f"        *Gc::write(mc, root.x)[&Through]{STORE}",
               f"impl Index<&Through> for {ty.split('<')[0]}<u8, Gc<..>> with `u8: Borrow<Through>` (overlaps upstream's impl)", externs)
    # the marker traits themselves must not be implementable without `unsafe`
    P.append(dict(name="c13-marker-client-indexwrite", prop="C13", entry="marker-traits-not-unsafe", role="attack", run=True, key=None, externs=[],
                  src=_black_parent(vec_holder[0], vec_holder[1], check=vec_holder[2],
                                    body=f"        *Gc::write(mc, root.x)[Through]{STORE}",
                                    extra_items=CLIENT_ITEMS.replace("{derive}", "") + THROUGH_IMPL.format(ty="Vec<GSlot<'gc>>", first="[0]")
                                    + "impl<'gc> barrier::IndexWrite<Through> for Vec<GSlot<'gc>> {} // no `unsafe`\n")))
    P.append(dict(name="c13-marker-client-derefwrite", prop="C13", entry="marker-traits-not-unsafe", role="attack", run=True, key=None, externs=[],
                  src=_black_parent("x: Gc<'gc, Ptr<'gc>>", "x: Gc::new(mc, Ptr(Gc::new(mc, RefLock::new(None))))", check="root.x.0.borrow().is_some()",
                                    body=f"        *Gc::write(mc, root.x).as_deref(){STORE}",
                                    extra_items="\n#[derive(Collect)]\n#[collect(no_drop)]\nstruct Ptr<'gc>(Gc<'gc, Slot<'gc>>);\n"
                                    "impl<'gc> std::ops::Deref for Ptr<'gc> { type Target = Slot<'gc>; fn deref(&self) -> &Slot<'gc> { &*self.0 } }\n"
                                    "impl<'gc> barrier::DerefWrite for Ptr<'gc> {} // no `unsafe`\n")))
    # the DerefWrite angle: `Deref` has no type parameter, so no downstream impl on a foreign receiver
    add("deref-vec-client-deref", next((f"proj: {p['text']}" for p in dw["projs"] if p["kind"] == "deref" and p["recv"] == "vec"), "proj: DerefWrite for Vec"),
        "misuse", PRELUDE + "type GSlot<'gc> = Gc<'gc, Slot<'gc>>;\n"
        "impl<'gc> std::ops::Deref for Vec<GSlot<'gc>> { type Target = Slot<'gc>; fn deref(&self) -> &Slot<'gc> { &*self[0] } } // orphan rule\nfn main() {}\n")
    add("deref-box-client-deref", next((f"proj: {p['text']}" for p in dw["projs"] if p["kind"] == "deref" and p["recv"] == "box"), "proj: DerefWrite for Box"),
        "misuse", PRELUDE + "struct Wrap<'gc>(Gc<'gc, Slot<'gc>>);\n"
        "impl<'gc> std::ops::Deref for Box<Wrap<'gc>> { type Target = Slot<'gc>; fn deref(&self) -> &Slot<'gc> { &*self.0 } } // Box<Local> is local, but overlaps std's blanket impl\nfn main() {}\n")

    # ---- Unlock impls --------------------------------------------------------------------------
    for u in dw["unlocks"]:
        ty = u["ty"]
        e = f"unlock: {ty}"
        if ty == "Lock":
            h = ("l: Gc<'gc, Lock<Option<Child<'gc>>>>", "l: Gc::new(mc, Lock::new(None))", "root.l.get().is_some()")
            store, raw = ".set(Some(child))", "as_cell"
        elif ty == "RefLock":
            h = ("l: Gc<'gc, Slot<'gc>>", "l: Gc::new(mc, RefLock::new(None))", "root.l.borrow().is_some()")
            store, raw = ".replace(Some(child))", "as_ref_cell"
        elif ty == "OnceLock":
            h = ("l: Gc<'gc, gc_arena::lock::OnceLock<Child<'gc>>>", "l: Gc::new(mc, gc_arena::lock::OnceLock::new())", "root.l.get().is_some()")
            store, raw = ".set(child).ok()", None
        else:
            continue
        add(f"unlock-{ty.lower()}-use", e, "use", _black_parent(h[0], h[1],
            body=f"        let _ = Gc::write(mc, root.l).unlock(){store};", check=h[2]), run=True)
        add(f"unlock-{ty.lower()}-attack", e, "attack", _black_parent(h[0], h[1],
            body=f"        use gc_arena::barrier::Unlock;\n        let _ = root.l.as_ref().unlock_unchecked(){store}; // no `unsafe`, no barrier", check=h[2]), run=True)
        if raw and any(f["name"] == f"{ty}::{raw}" for f in dw["lock_fns"]):
            add(f"unlock-{ty.lower()}-raw-accessor", f"lockfn: {ty}::{raw}", "attack", _black_parent(h[0], h[1],
                body=f"        let _ = root.l.as_ref().{raw}(){store}; // no `unsafe`, no barrier", check=h[2]), run=True)
    # safe shorthands on Gc<Lock…> must barrier: exercise them in the black-parent scenario
    add("lockfn-gc-reflock-borrow-mut", "lockfn: Gc<RefLock>::borrow_mut", "use", _black_parent(*A_SLOT[:2],
        body="        *root.a.borrow_mut(mc) = Some(child);", check=A_SLOT[2]), run=True)
    add("lockfn-gc-lock-set", "lockfn: Gc<Lock>::set", "use", _black_parent(
        "l: Gc<'gc, Lock<Option<Child<'gc>>>>", "l: Gc::new(mc, Lock::new(None))",
        body="        root.l.set(mc, Some(child));", check="root.l.get().is_some()"), run=True)
    add("lockfn-gc-oncelock-set", "lockfn: Gc<OnceLock>::set", "use", _black_parent(
        "l: Gc<'gc, gc_arena::lock::OnceLock<Child<'gc>>>", "l: Gc::new(mc, gc_arena::lock::OnceLock::new())",
        body="        let _ = root.l.set(mc, child);", check="root.l.get().is_some()"), run=True)

    # ---- field! --------------------------------------------------------------------------------
    foo = '''
struct Foo<'gc> { foo: i32, bar: f64, baz: &'static u32, quux: Gc<'gc, u32> }
'''
    shapes = [
        ("prederef-ref", "fn p<'a, 'gc>(v: &'a Write<&'a Foo<'gc>>) -> &'a Write<i32> { field!(v, Foo, foo) }"),
        ("prederef-gc", "fn p<'a, 'gc>(v: &'a Write<Gc<'gc, Foo<'gc>>>) -> &'a Write<i32> { field!(v, Foo, foo) }"),
        ("postderef-ref", "fn p<'a, 'gc>(v: &'a Write<Foo<'gc>>) -> &'a Write<u32> { field!(v, Foo, baz) }"),
        ("postderef-gc", "fn p<'a, 'gc>(v: &'a Write<Foo<'gc>>) -> &'a Write<u32> { field!(v, Foo, quux) }"),
        ("wrong-type", "fn p<'a, 'gc>(v: &'a Write<Foo<'gc>>) -> &'a Write<i64> { field!(v, Foo, bar) }"),
        ("plain-ref", "fn p<'a, 'gc>(v: &'a Foo<'gc>) -> &'a Write<i32> { field!(v, Foo, foo) }"),
    ]
    for nm, fn in shapes:
        add(f"field-{nm}", "field-macro", "misuse" if nm == "wrong-type" else "attack",
            PRELUDE + foo + fn + "\nfn main() {}\n")
    add("field-use", "field-macro", "use", PRELUDE + foo +
        "fn p<'a, 'gc>(v: &'a Write<Foo<'gc>>) -> &'a Write<i32> { field!(v, Foo, foo) }\nfn main() {}\n")
    holder_items = '''
#[derive(Collect)]
#[collect(no_drop)]
struct Holder<'gc> { slot: Slot<'gc>, n: u8 }
'''
    add("field-unlock-run", "field-macro", "use", _black_parent(
        "h: Gc<'gc, Holder<'gc>>", "h: Gc::new(mc, Holder { slot: RefLock::new(None), n: 0 })",
        body="        *unlock!(Gc::write(mc, root.h), Holder, slot).borrow_mut() = Some(child);",
        check="root.h.slot.borrow().is_some()", extra_items=holder_items), run=True)
    # the client expression must not be evaluated inside the macro's own `unsafe` block: otherwise an
    # unsafe fn (here `Write::assume`, forging a capability with no barrier) is callable from safe code
    add("field-smuggled-unsafe-call", "field-macro", "attack", _black_parent(
        "h: Gc<'gc, Holder<'gc>>", "h: Gc::new(mc, Holder { slot: RefLock::new(None), n: 0 })",
        body="        *field!(Write::assume(root.h.as_ref()), Holder, slot).unlock().borrow_mut() = Some(child); // `Write::assume` is an unsafe fn, no `unsafe` here",
        check="root.h.slot.borrow().is_some()", extra_items=holder_items), run=True)
    add("unlock-macro-smuggled-unsafe-call", "field-macro", "attack", _black_parent(
        "h: Gc<'gc, Holder<'gc>>", "h: Gc::new(mc, Holder { slot: RefLock::new(None), n: 0 })",
        body="        *unlock!(Write::assume(root.h.as_ref()), Holder, slot).borrow_mut() = Some(child);",
        check="root.h.slot.borrow().is_some()", extra_items=holder_items), run=True)
    add("field-through-gc-run", "field-macro", "attack", _black_parent(
        "h: Gc<'gc, Gc<'gc, Holder<'gc>>>", "h: { let inner = Gc::new(mc, Holder { slot: RefLock::new(None), n: 0 }); Gc::new(mc, inner) }",
        body="        *unlock!(Gc::write(mc, root.h), Holder, slot).borrow_mut() = Some(child); // barrier on the outer Gc only",
        check="root.h.slot.borrow().is_some()", extra_items=holder_items), run=True)

    # ---- Cell / RefCell holding a Gc -----------------------------------------------------------
    for c in dw["cells"]:
        short = c["ty"].split("::")[-1]
        if short not in ("Cell", "RefCell"):
            continue
        e = f"cell: {c['ty']}"
        store = "root.h.c.set(Some(child));" if short == "Cell" else "*root.h.c.borrow_mut() = Some(child);"
        check = "{ let v = root.h.c.take(); let s = v.is_some(); root.h.c.set(v); s }" if short == "Cell" else "root.h.c.borrow().is_some()"
        items = f'''
#[derive(Collect)]
#[collect(no_drop)]
struct CellHolder<'gc> {{ c: {short}<Option<Child<'gc>>> }}
'''
        add(f"cell-{short.lower()}-attack", e, "attack", _black_parent(
            "h: Gc<'gc, CellHolder<'gc>>", f"h: Gc::new(mc, CellHolder {{ c: {short}::new(None) }})",
            body=f"        {store} // plain interior mutability: no barrier possible", check=check, extra_items=items), run=True)
        add(f"cell-{short.lower()}-use", e, "use", PRELUDE + f'''
#[derive(Collect)]
#[collect(no_drop)]
struct Plain {{ c: {short}<i32> }}
fn main() {{ gc_arena::arena::rootless_mutate(|mc| {{ let _ = Gc::new(mc, Plain {{ c: {short}::new(1) }}); }}); }}
''')
    return P


# ------------------------------------------------------------------------------------------------
# C19 (static half)
# ------------------------------------------------------------------------------------------------
C19_ITEMS = r'''
/// Uninhabited: no value of this type can ever be constructed.
enum Void {}
mod sealed {
    /// Zero-sized, constructor private to this module.
    pub struct Guard(());
    impl Guard { pub fn exists() -> bool { false } }
}
'''

# body templates: `{T}` is replaced by the requested type; `unit` variants must compile with `()`.
# Each entry: (match on signature name, snippet using `mc`, whether a Finalization context is needed)
C19_TEMPLATES = [
    ("ZstCache<'gc, MAX_ALIGN>::alloc_zst", "let z = gc_arena::zst_cache::ZstCache::<8>::new(mc);\n    let g: Option<Gc<'_, {T}>> = z.alloc_zst::<{T}>();\n    println!(\"RESULT {V}\", g.is_some());", None),
    ("ZstCache<'gc, MAX_ALIGN>::alloc", "let z = gc_arena::zst_cache::ZstCache::<8>::new(mc);\n    let _g: Gc<'_, {T}> = z.alloc(mc, ());", None),
    ("ZstCache<'gc, MAX_ALIGN>::alloc_static", "let z = gc_arena::zst_cache::ZstCache::<8>::new(mc);\n    let _g: Gc<'_, {T}> = z.alloc_static(mc, ());", None),
    ("Gc<'gc, T>::new", "let _g: Gc<'_, {T}> = Gc::new(mc, ());", None),
    ("Gc<'gc, T>::new_static", "let _g: Gc<'_, {T}> = Gc::new_static(mc, ());", None),
    ("<Gc<'gc, T, K> as Clone>::clone", "let g = Gc::new(mc, ());\n    let _h: Gc<'_, {T}> = g.clone();", None),
    ("<Gc<'gc, T, K> as Deref>::deref", "let g = Gc::new(mc, ());\n    let _r: &{T} = &*g;", None),
    ("Gc<'gc, T, K>::downgrade", "let g = Gc::new(mc, ());\n    let _w: GcWeak<'_, {T}> = Gc::downgrade(g);", None),
    ("GcFat<'gc, T, M, P>::erase_kind", "let g = Gc::new(mc, ());\n    let _h: Gc<'_, {T}> = Gc::erase_kind(g);", None),
    ("GcFat<'gc, T, M, P>::as_thin", "let g = Gc::new(mc, ());\n    let _h: gc_arena::GcThin<'_, {T}, (), gc_arena::meta::UnitPtrMeta> = Gc::as_thin(g);", None),
    ("GcThin<'gc, T, M, P>::as_fat", "let g = Gc::as_thin(Gc::new(mc, ()));\n    let _h: Gc<'_, {T}> = Gc::as_fat(g);", None),
    ("GcBuilder<'gc, T, M, P>::write", "let _g: Gc<'_, {T}> = gc_arena::GcBuilder::<{T}>::new().write(mc, ());", None),
    ("<GcWeak<'gc, T, K> as Clone>::clone", "let w = Gc::downgrade(Gc::new(mc, ()));\n    let _v: GcWeak<'_, {T}> = w.clone();", None),
    ("GcWeak<'gc, T, K>::upgrade", "let w = Gc::downgrade(Gc::new(mc, ()));\n    let _g: Option<Gc<'_, {T}>> = w.upgrade(mc);", None),
    ("GcWeak<'gc, T, K>::resurrect", "let w = Gc::downgrade(Gc::new(mc, ()));\n    let _g: Option<Gc<'_, {T}>> = w.resurrect(fc);", "fc"),
    ("DynamicRootSet<'gc>::stash", "let set = gc_arena::DynamicRootSet::new(mc);\n    let _h: gc_arena::DynamicRoot<Rootable![{T}]> = set.stash::<Rootable![{T}]>(mc, Gc::new(mc, ()));", None),
    ("DynamicRootSet<'gc>::fetch", "let set = gc_arena::DynamicRootSet::new(mc);\n    let h = set.stash::<Rootable![()]>(mc, Gc::new(mc, ()));\n    let _g: Gc<'_, {T}> = set.fetch(&h);", None),
    ("DynamicRootSet<'gc>::try_fetch", "let set = gc_arena::DynamicRootSet::new(mc);\n    let h = set.stash::<Rootable![()]>(mc, Gc::new(mc, ()));\n    let _g: Gc<'_, {T}> = set.try_fetch(&h).unwrap();", None),
    ("<DynamicRoot<R> as Clone>::clone", "let set = gc_arena::DynamicRootSet::new(mc);\n    let h = set.stash::<Rootable![()]>(mc, Gc::new(mc, ()));\n    let _k: gc_arena::DynamicRoot<Rootable![{T}]> = h.clone();", None),
    ("GcSliceWithHeaderBuilder<'gc, H, E, M>::write_header", "let _b: gc_arena::slice::GcSliceWithHeaderSliceBuilder<'_, {T}, u8> = gc_arena::GcSliceWithHeaderBuilder::<{T}, u8>::new(0).write_header(());", None),
    ("GcSliceWithHeaderSliceBuilder<'gc, H, Static<E>, M>::unwrap_static_element", "let b = gc_arena::GcSliceWithHeaderBuilder::<(), Static<u8>>::new(0).write_header(());\n    let _c: gc_arena::slice::GcSliceWithHeaderSliceBuilder<'_, {T}, u8> = b.unwrap_static_element();", None),
    ("GcSliceWithHeaderSliceBuilder<'gc, H, E, M>::write_slice_with", "let b = gc_arena::GcSliceWithHeaderBuilder::<(), {T}>::new(1).write_header(());\n    let _g: gc_arena::GcSliceWithHeader<'_, (), {T}> = b.write_slice_with(mc, |_| ());", None),
    ("GcSliceWithHeaderSliceBuilder<'gc, H, E, M>::copy_slice", "let b = gc_arena::GcSliceWithHeaderBuilder::<(), {T}>::new(1).write_header(());\n    let _g: gc_arena::GcSliceWithHeader<'_, (), {T}> = b.copy_slice(mc, &[()]);", None),
    ("GcSlice<'gc, E>::new_slice", "let _g: gc_arena::GcSlice<'_, {T}> = gc_arena::GcSlice::new_slice(mc, &[()]);", None),
    ("GcSlice<'gc, E>::new_slice_static", "let _g: gc_arena::GcSlice<'_, {T}> = gc_arena::GcSlice::new_slice_static(mc, &[()]);", None),
    ("GcSliceBuilder<'gc, E, M>::write_slice_with", "let _g: gc_arena::GcSlice<'_, {T}> = gc_arena::GcSliceBuilder::<{T}>::new(1).write_slice_with(mc, |_| ());", None),
    ("GcSliceBuilder<'gc, E, M>::copy_slice", "let _g: gc_arena::GcSlice<'_, {T}> = gc_arena::GcSliceBuilder::<{T}>::new(1).copy_slice(mc, &[()]);", None),
    ("unsize!", "let g = Gc::new(mc, ());\n    let _d: Gc<'_, {T}> = gc_arena::unsize!(g => {T});", None),
]


def _c19_prog(snippet, T, fc):
    body = snippet.replace("{T}", T).replace("{V}", "conjured={}" if T != "()" else "unit={}")
    items = C19_ITEMS + "\n#[derive(Collect)]\n#[collect(no_drop)]\nstruct R0<'gc> { g: Gc<'gc, ()> }\n"
    if fc:
        return PRELUDE + items + f'''
fn main() {{
    let mut arena = Arena::<Rootable![R0<'_>]>::new(|mc| R0 {{ g: Gc::new(mc, ()) }});
    arena.finish_marking().unwrap().finalize(|fc, _root| {{
    let mc: &gc_arena::Mutation<'_> = fc;
    {body}
    }});
}}
'''
    return PRELUDE + items + f'''
fn main() {{
    gc_arena::arena::rootless_mutate(|mc| {{
    {body}
    }});
}}
'''


def c19_probes(sig):
    P = []
    templ = {t[0]: t for t in C19_TEMPLATES}
    missing = []
    for s in sig["sigs"]:
        if s["is_unsafe"] and s["name"] != "ZstCache<'gc, MAX_ALIGN>::alloc_zst":
            continue
        t = templ.get(s["name"])
        if not t:
            missing.append(s["name"])
            continue
        _, snippet, fc = t
        slug = _slug(s["name"])
        e = f"sig: {s['name']}"
        unit_ok = "{T}" in snippet
        for T, tag in (("Void", "void"), ("sealed::Guard", "sealed")):
            if s["name"] == "unsize!" and T == "sealed::Guard":
                continue
            P.append(dict(name=f"c19-{slug}-{tag}", prop="C19", entry=e, role="attack", run=s["name"].endswith("alloc_zst"),
                          key="conjure-alloc-zst" if s["name"].endswith("alloc_zst") else None,
                          src=_c19_prog(snippet, T, fc), externs=[], sig=s["name"]))
        if unit_ok:
            unit_T = "()" if s["name"] != "unsize!" else "dyn std::fmt::Debug"
            twin = snippet
            if s["name"].endswith("alloc_zst"):
                # the twin must keep compiling once alloc_zst is `unsafe`: the value-taking front end
                twin = templ["ZstCache<'gc, MAX_ALIGN>::alloc"][1]
            P.append(dict(name=f"c19-{slug}-unit", prop="C19", entry=e, role="use", run=False, key=None,
                          src=_c19_prog(twin, unit_T, fc), externs=[], sig=s["name"]))
    return P, missing


# ------------------------------------------------------------------------------------------------
# C16 / C12: branded data hiding in an untraced parameter of a provided `Collect` impl
# ------------------------------------------------------------------------------------------------
HIDDEN_PRELUDE = r'''#![allow(unused, dead_code)]
use gc_arena::{Arena, Collect, Gc, Rootable, Static};
use std::cell::{Cell, RefCell};
use std::hash::{BuildHasher, DefaultHasher, Hasher};
use std::marker::PhantomData;

thread_local! { static SEED_DROPPED: Cell<bool> = Cell::new(false); }
/// Lives in the arena (allocated with `Gc::new_static`); its destructor is observable.
struct Seed { key: u64 }
impl Drop for Seed { fn drop(&mut self) { self.key = 0xDEAD_DEAD; SEED_DROPPED.with(|d| d.set(true)); } }

/// A hasher factory whose state is a `&'gc Seed` borrowed from the arena (`Gc::as_ref`).
#[derive(Clone, Copy)]
struct RefSeeded<'gc> { seed: &'gc Seed }
impl<'gc> BuildHasher for RefSeeded<'gc> {
    type Hasher = DefaultHasher;
    fn build_hasher(&self) -> DefaultHasher { let mut h = DefaultHasher::new(); h.write_u64(self.seed.key); h }
}
/// A hasher factory whose state is a `Gc<'gc, Seed>` that nothing traces.
#[derive(Clone, Copy)]
struct GcSeeded<'gc> { seed: Gc<'gc, Seed> }
impl<'gc> BuildHasher for GcSeeded<'gc> {
    type Hasher = DefaultHasher;
    fn build_hasher(&self) -> DefaultHasher { let mut h = DefaultHasher::new(); h.write_u64(self.seed.key); h }
}
fn verdict(still_stored: bool) {
    let dropped = SEED_DROPPED.with(|d| d.get());
    if still_stored && dropped {
        println!("RESULT unsafe: the seed's destructor ran while a reference to it (produced in an earlier callback) is still stored in, and readable from, the arena root");
    } else {
        println!("RESULT safe: stored={still_stored} dropped={dropped}");
    }
}
'''


def _hidden_prog(holder, build, touch, stored="true"):
    return HIDDEN_PRELUDE + f'''
type Holder<'gc> = {holder};

fn main() {{
    // callback #1 produces the branded value and leaves it in the root
    let mut arena = Arena::<Rootable![Holder<'_>]>::new(|mc| {{
        let seed: Gc<'_, Seed> = Gc::new_static(mc, Seed {{ key: 0x5EED }});
        {build}
    }});
    // nothing the collector can see refers to the seed any more
    arena.finish_cycle();
    // callback #2 finds the value of callback #1 again (it is not dereferenced here)
    let still_stored = arena.mutate(|_, root| {{ {touch}; {stored} }});
    verdict(still_stored);
}}
'''


def hidden_brand_probes(collect):
    """One escape attempt per provided `Collect` impl that has a parameter which is held but not
    traced (hasher states, `Static<T>`, `Cell<T>` / `RefCell<T>`, `&'static T`), in two variants
    (`&'gc Seed`, untraced `Gc<'gc, Seed>`); plus `PhantomData<branded>` as the legitimate twin."""
    P = []
    H = {
        "hashMap": ("std::collections::HashMap<u32, u32, {S}>", "let mut h: Holder<'_> = std::collections::HashMap::with_hasher({s}); h.insert(1, 10); h", "let _ = root.hasher()", ()),
        "hashSet": ("std::collections::HashSet<u32, {S}>", "let mut h: Holder<'_> = std::collections::HashSet::with_hasher({s}); h.insert(1); h", "let _ = root.hasher()", ()),
        "hbHashMap": ("hashbrown::HashMap<u32, u32, {S}>", "let mut h: Holder<'_> = hashbrown::HashMap::with_hasher({s}); h.insert(1, 10); h", "let _ = root.hasher()", ("hashbrown",)),
        "hbHashSet": ("hashbrown::HashSet<u32, {S}>", "let mut h: Holder<'_> = hashbrown::HashSet::with_hasher({s}); h.insert(1); h", "let _ = root.hasher()", ("hashbrown",)),
        "indexMap": ("indexmap::IndexMap<u32, u32, {S}>", "let mut h: Holder<'_> = indexmap::IndexMap::with_hasher({s}); h.insert(1, 10); h", "let _ = root.hasher()", ("indexmap",)),
        "indexSet": ("indexmap::IndexSet<u32, {S}>", "let mut h: Holder<'_> = indexmap::IndexSet::with_hasher({s}); h.insert(1); h", "let _ = root.hasher()", ("indexmap",)),
    }
    V = {
        "staticWrapper": ("Static<{T}>", "Static({v})", "let _ = &root.0"),
        "cell": ("Cell<Option<{T}>>", "Cell::new(Some({v}))", "let _ = root.as_ptr()"),
        "refCell": ("RefCell<Option<{T}>>", "RefCell::new(Some({v}))", "let _ = root.borrow().is_some()"),
    }
    for e in collect["entries"]:
        sk = e["shape"]
        ent = "hidden: " + e["text"]
        also = ["impl: " + e["text"]]
        slug = _slug(sk)

        def add(tag, role, src, externs=(), run=True):
            P.append(dict(name=f"c16-hidden-{slug}-{tag}", prop="C16", entry=ent, also=also, role=role, run=run, key=None, src=src, externs=list(externs)))
        if sk in H:
            holder, build, touch, ext = H[sk]
            add("ref", "attack", _hidden_prog(holder.replace("{S}", "RefSeeded<'gc>"), build.replace("{s}", "RefSeeded { seed: seed.as_ref() }"), touch), ext)
            add("gc", "attack", _hidden_prog(holder.replace("{S}", "GcSeeded<'gc>"), build.replace("{s}", "GcSeeded { seed }"), touch), ext)
            add("static-hasher", "use", _hidden_prog(holder.replace("{S}", "std::collections::hash_map::RandomState"),
                                                    build.replace("{s}", "std::collections::hash_map::RandomState::new()"), touch, stored="false"), ext)
        elif sk in V:
            holder, build, touch = V[sk]
            add("ref", "attack", _hidden_prog(holder.replace("{T}", "&'gc Seed"), build.replace("{v}", "seed.as_ref()"), touch))
            add("gc", "attack", _hidden_prog(holder.replace("{T}", "Gc<'gc, Seed>"), build.replace("{v}", "seed"), touch))
        elif sk == "staticRef":
            add("ref", "attack", _hidden_prog("&'gc Seed", "seed.as_ref()", "let _: &&Seed = root"))
        elif sk == "phantomData":
            # phantom-only: no value is stored, nothing can dangle — must stay accepted
            add("branded-phantom", "use", _hidden_prog("PhantomData<&'gc Seed>", "let _ = seed; PhantomData", "let _ = root", stored="false"))
    return P


# ------------------------------------------------------------------------------------------------
# C12 / C16: the client-instantiated arms of the exported impl-generating macros
# ------------------------------------------------------------------------------------------------
TEMPLATE_PRELUDE = r'''#![allow(unused, dead_code)]
use gc_arena::{Arena, Collect, Gc, GcWeak, RefLock, Rootable, static_collect, collect::{DynCollect, dyn_collect}};
use std::cell::Cell;
use std::rc::Rc;

thread_local! { static DROPPED: Cell<bool> = Cell::new(false); }
/// Lives in the arena (allocated with `Gc::new_static`); its destructor is observable.
struct Tracked { value: u64 }
impl Drop for Tracked { fn drop(&mut self) { self.value = 0xDEAD; DROPPED.with(|d| d.set(true)); } }
'''


def _latch_prog(decl, invoke, root_ty, mk_root, park, still):
    return TEMPLATE_PRELUDE + f'''
{decl}
{invoke}

fn main() {{
    let mut arena = Arena::<Rootable![{root_ty}]>::new(|_| {mk_root});
    // callback #1 produces a `&'gc Tracked` (Gc::as_ref) and parks it in the root
    arena.mutate(|mc, root| {{
        let gc = Gc::new_static(mc, Tracked {{ value: 42 }});
        let r: &Tracked = gc.as_ref();
        {park}
    }});
    // the root claims NEEDS_TRACE = false: the collector cannot see the referent
    arena.finish_cycle();
    // callback #2 finds the reference of callback #1 again (it is NOT dereferenced for the verdict)
    let still_held = arena.mutate(|_, root| {still});
    let dropped = DROPPED.with(|d| d.get());
    if still_held && dropped {{
        println!("RESULT unsafe: a `&'gc Tracked` produced in callback #1 is still held in the root in callback #2 and its referent's destructor has run");
    }} else {{
        println!("RESULT safe: held={{still_held}} dropped={{dropped}}");
    }}
}}
'''


DYN_PROG = TEMPLATE_PRELUDE + r'''
/// Observable through the `Rc` strong count.
#[derive(Collect)]
#[collect(require_static)]
struct Counted(Rc<()>);

{trait_decl}
{invoke}

#[derive(Collect)]
#[collect(no_drop)]
struct Leaf<'gc> { strong: Gc<'gc, Counted>, weak: GcWeak<'gc, Counted> }
{trait_impl}

#[derive(Collect)]
#[collect(no_drop)]
struct Root<'gc> {
    boxed: Box<{dyn_ty}>,
    shared: Rc<{dyn_ty}>,
    nested: Gc<'gc, RefLock<Vec<Option<(u8, Rc<{dyn_ty}>)>>>>,
}

fn main() {
    let counters: Vec<(Rc<()>, Rc<()>)> = (0..3).map(|_| (Rc::new(()), Rc::new(()))).collect();
    let mut arena = Arena::<Rootable![Root<'_>]>::new(|mc| {
        let leaf = |k: usize| Leaf {
            strong: Gc::new(mc, Counted(counters[k].0.clone())),
            weak: Gc::downgrade(Gc::new(mc, Counted(counters[k].1.clone()))),
        };
        Root {
            boxed: Box::new(leaf(0)),
            shared: Rc::new(leaf(1)),
            nested: Gc::new(mc, RefLock::new(vec![None, Some((7, Rc::new(leaf(2)) as Rc<{dyn_anon}>))])),
        }
    });
    arena.finish_cycle();
    arena.finish_cycle();
    // strong children are reachable through the trait objects: they must be alive (count 2);
    // weak targets are only weakly reachable: destructed (count 1) but kept as shells, so the arena
    // still counts 3 strong children + 3 shells + the `nested` allocation
    let strong_alive: Vec<bool> = counters.iter().map(|c| Rc::strong_count(&c.0) == 2).collect();
    let weak_destructed: Vec<bool> = counters.iter().map(|c| Rc::strong_count(&c.1) == 1).collect();
    let allocations = arena.metrics().total_gc_count();
    if strong_alive.iter().all(|b| *b) && weak_destructed.iter().all(|b| *b) && allocations == 7 {
        println!("RESULT safe: strong children alive {strong_alive:?}, weak targets destructed {weak_destructed:?} and kept as shells, {allocations} allocations");
    } else {
        println!("RESULT unsafe: children owned by the trait objects (Box / Rc / Gc<RefLock<Vec<Option<(u8, Rc<dyn>)>>>>) were not traced: strong alive {strong_alive:?} (must all be true), weak destructed {weak_destructed:?}, {allocations} allocations (must be 7: GcWeak targets reported weak stay as shells)");
    }
}
'''


def template_probes(mi):
    """Probes for the rows of Generated/MacroImpls (one group per macro arm that exists)."""
    P = []
    have = {(r["macro"], r["arm"]) for r in mi["rows"]}

    def add(name, prop, macro, arm, role, src):
        if (macro, arm) in have:
            P.append(dict(name=name, prop=prop, entry=f"template: {macro} arm {arm}", role=role, run=True, key=None, src=src, externs=[]))
    # ---- static_collect! (C12): a branded type must not become Collect<'gc> for every brand --------
    add("c12-template-static-collect-generic-latch", "C12", "static_collect", 0, "attack", _latch_prog(
        "/// interior mutability + a *branded* reference: must never be storable in a root\nstruct Latch<'gc, T>(Cell<Option<&'gc T>>);",
        "static_collect!(<T> Latch<'gc, T>); // the documented generic form; the type names the macro's own 'gc",
        "Latch<'_, Tracked>", "Latch(Cell::new(None))", "root.0.set(Some(r));", "root.0.get().is_some()"))
    add("c12-template-static-collect-plain-latch", "C12", "static_collect", 1, "attack", _latch_prog(
        "struct Latch1<'a>(Cell<Option<&'a Tracked>>);",
        "static_collect!(Latch1<'gc>); // plain form; the type names the macro's own 'gc",
        "Latch1<'_>", "Latch1(Cell::new(None))", "root.0.set(Some(r));", "root.0.get().is_some()"))
    add("c12-template-static-collect-generic-static-use", "C12", "static_collect", 0, "use", _latch_prog(
        "struct Plain<T>(Cell<Option<T>>);",
        "static_collect!(<T> Plain<T>); // a 'static instantiation: legitimate",
        "Plain<u64>", "Plain(Cell::new(None))", "root.0.set(Some(r.value));", "false"))
    # ---- dyn_collect! (C16): trait objects in provided containers must be traced ---------------------
    gen = dict(trait_decl="trait Node<'gc, T>: 'gc + DynCollect<'gc> where T: Clone { fn tag(&self) -> Option<T> { None } }",
               invoke="dyn_collect!(<T> dyn Node<'gc, T> where T: Clone); // the generic arm",
               trait_impl="impl<'gc> Node<'gc, u32> for Leaf<'gc> {}", dyn_ty="dyn Node<'gc, u32> + 'gc", dyn_anon="dyn Node<'_, u32> + '_")
    plain = dict(trait_decl="trait Node<'gc>: 'gc + DynCollect<'gc> { fn tag(&self) -> u8 { 0 } }",
                 invoke="dyn_collect!(dyn Node<'gc>); // the plain arm",
                 trait_impl="impl<'gc> Node<'gc> for Leaf<'gc> {}", dyn_ty="dyn Node<'gc> + 'gc", dyn_anon="dyn Node<'_> + '_")
    for nm, arm, d in (("generic", 0, gen), ("plain", 1, plain)):
        src = DYN_PROG
        for k, v in d.items():
            src = src.replace("{" + k + "}", v)
        add(f"c16-template-dyn-collect-{nm}-containers", "C16", "__dyn_collect", arm, "use", src)
    return P
