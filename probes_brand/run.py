"""
run — builds the crate under test as an rlib (never into <repo>/target) and runs the C12 probe
corpus with rustc, 16 probes in parallel, canonicalising each outcome to

    accept | reject:region | reject:trait | reject:type | reject:other(<codes>)

Also usable from the command line:

    python3 run.py [--repo /repo] [--tier quick|thorough] [--table T.json --pred P.json]
"""
import concurrent.futures
import hashlib
import json
import os
import re
import shutil
import subprocess
import sys

ROOT = os.path.dirname(os.path.dirname(os.path.abspath(__file__)))
WORK = os.path.join(ROOT, "work")
ENV = dict(os.environ, CARGO_NET_OFFLINE="true", RUST_BACKTRACE="0")
NCPU = min(16, os.cpu_count() or 4)

REGION_CODES = {
    "E0521", "E0597", "E0716", "E0505", "E0515", "E0495", "E0759", "E0310", "E0311", "E0477", "E0478", "E0491",
    "E0312", "E0623", "E0499", "E0502", "E0506", "E0373", "E0712", "E0713", "E0700", "E0792", "E0803", "E0626",
}
TRAIT_CODES = {"E0277", "E0599"}
TYPE_CODES = {"E0308", "E0271", "E0631"}
REGION_MSGS = ("lifetime may not live long enough", "is not general enough", "higher-ranked lifetime error",
               "borrowed data escapes", "does not live long enough")


def target_dir(repo):
    if os.path.realpath(repo) == "/repo":
        return os.path.join(WORK, "probe-brand-target")
    h = hashlib.sha1(os.path.realpath(repo).encode()).hexdigest()[:10]
    return os.path.join(WORK, f"probe-brand-target-{h}")


def build_rlib(repo):
    """cargo build the crate at `repo` into /verif/work/…; returns (ok, rlib, deps_dir, log)."""
    tdir = target_dir(repo)
    cmd = ["cargo", "build", "--offline", "--manifest-path", os.path.join(repo, "Cargo.toml"),
           "--target-dir", tdir, "--message-format=json-render-diagnostics"]
    p = subprocess.run(cmd, env=ENV, stdout=subprocess.PIPE, stderr=subprocess.PIPE, text=True, errors="replace")
    rlib = None
    for line in p.stdout.splitlines():
        try:
            m = json.loads(line)
        except ValueError:
            continue
        if m.get("reason") == "compiler-artifact" and m.get("target", {}).get("name") == "gc_arena":
            for f in m.get("filenames", []):
                if f.endswith(".rlib"):
                    rlib = f
    deps = os.path.join(tdir, "debug", "deps")
    ok = p.returncode == 0 and rlib is not None and os.path.exists(rlib)
    return ok, rlib, deps, (p.stderr or "")[-4000:]


def classify(rc, stderr):
    if rc == 0:
        return "accept", []
    codes = re.findall(r"error\[(E\d{4})\]", stderr)
    msgs = [l for l in stderr.splitlines() if re.search(r"\berror(\[E\d{4}\])?:", l)]
    plain = [l for l in msgs if "error[" not in l and "aborting due to" not in l and "could not compile" not in l]
    classes = set()
    other = []
    for c in codes:
        if c in REGION_CODES:
            classes.add("region")
        elif c in TRAIT_CODES:
            classes.add("trait")
        elif c in TYPE_CODES:
            classes.add("type")
        else:
            other.append(c)
    for l in plain:
        if any(m in l for m in REGION_MSGS):
            classes.add("region")
        else:
            other.append(l.split("error:", 1)[-1].strip()[:60])
    if other:
        return "reject:other(" + ",".join(sorted(set(other))) + ")", msgs
    for c in ("region", "trait", "type"):
        if c in classes:
            return "reject:" + c, msgs
    return "reject:other(unparsed)", msgs


def rustc_cmd(rlib, deps, src, out_dir, full):
    cmd = ["rustc", "--edition", "2024", "--extern", f"gc_arena={rlib}", "-L", f"dependency={deps}",
           "--error-format=short", "--cap-lints", "allow", "--crate-name", "probe"]
    if full:
        cmd += ["-C", "debuginfo=0", "-o", os.path.join(out_dir, "probe.bin")]
    else:
        cmd += ["--emit=metadata", "--out-dir", out_dir]
    return cmd + [src]


def run_one(p, rlib, deps, pdir):
    d = os.path.join(pdir, p["id"])
    os.makedirs(d, exist_ok=True)
    src = os.path.join(d, "probe.rs")
    with open(src, "w") as f:
        f.write(p["src"])
    full = p.get("run") is not None
    try:
        r = subprocess.run(rustc_cmd(rlib, deps, src, d, full), env=ENV, stdout=subprocess.PIPE, stderr=subprocess.PIPE,
                           text=True, errors="replace", timeout=300)
        outcome, msgs = classify(r.returncode, r.stderr)
    except subprocess.TimeoutExpired:
        outcome, msgs = "reject:other(timeout)", []
    res = dict(id=p["id"], outcome=outcome, messages=msgs[:6])
    if full and outcome == "accept":
        res["exec"] = execute(os.path.join(d, "probe.bin"))
    return res


def execute(exe):
    try:
        r = subprocess.run([exe], env=ENV, stdout=subprocess.PIPE, stderr=subprocess.PIPE, text=True, errors="replace", timeout=20)
        return dict(rc=r.returncode, stdout=r.stdout[-600:], stderr=r.stderr[-600:])
    except subprocess.TimeoutExpired:
        return dict(rc=-999, stdout="", stderr="timeout")
    except OSError as e:
        return dict(rc=-998, stdout="", stderr=repr(e))


def run_exploit(p, rlib, deps, pdir):
    """A negative probe compiled: build its exploit variant fully and run it (dangling use)."""
    d = os.path.join(pdir, p["id"] + ".exploit")
    os.makedirs(d, exist_ok=True)
    src = os.path.join(d, "probe.rs")
    with open(src, "w") as f:
        f.write(p.get("exploit") or p["src"])
    try:
        r = subprocess.run(rustc_cmd(rlib, deps, src, d, True), env=ENV, stdout=subprocess.PIPE, stderr=subprocess.PIPE,
                           text=True, errors="replace", timeout=300)
    except subprocess.TimeoutExpired:
        return None
    if r.returncode != 0:
        return dict(rc=None, stdout="", stderr="exploit variant did not compile: " + r.stderr[-300:])
    return execute(os.path.join(d, "probe.bin"))


def run_probes(probes, rlib, deps, tag="c12"):
    pdir = os.path.join(WORK, "brand", f"probes-{tag}")
    shutil.rmtree(pdir, ignore_errors=True)
    os.makedirs(pdir, exist_ok=True)
    with concurrent.futures.ThreadPoolExecutor(NCPU) as ex:
        results = list(ex.map(lambda p: run_one(p, rlib, deps, pdir), probes))
    return {r["id"]: r for r in results}, pdir


if __name__ == "__main__":
    import argparse
    sys.path.insert(0, os.path.dirname(os.path.abspath(__file__)))
    import gen
    ap = argparse.ArgumentParser()
    ap.add_argument("--repo", default="/repo")
    ap.add_argument("--tier", default="quick")
    ap.add_argument("--table", default=os.path.join(WORK, "brand", "table.json"))
    ap.add_argument("--pred", default=os.path.join(WORK, "brand", "pred.json"))
    a = ap.parse_args()
    ok, rlib, deps, log = build_rlib(a.repo)
    if not ok:
        print("build failed:\n" + log)
        sys.exit(2)
    probes = gen.generate(json.load(open(a.table)), json.load(open(a.pred)), a.tier)
    res, pdir = run_probes(probes, rlib, deps)
    bad = 0
    for p in probes:
        o = res[p["id"]]["outcome"]
        exp = p["predict"]
        okp = (o == "accept") if exp == "accept" else (o.startswith("reject:") and o.split(":", 1)[1] in p["allow"])
        if not okp:
            bad += 1
            print(f"{p['id']}: predicted {exp} ({p['why']}), rustc: {o} {res[p['id']]['messages'][:2]}")
    print(f"{len(probes)} probes, {bad} unexpected; sources under {pdir}")
