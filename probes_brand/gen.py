"""
gen — generator of the adversarial probe corpus for C12 (brand isolation).

Input: the table extracted from /repo's current source (`extract-brand --json`) and what the Lean
model (`Model/Brand.lean`, evaluated by `Predict.lean` on that table) computes for it.
Output: a list of probes, each a complete client program (safe code only) with

  id            file-name-safe identifier
  cls           probe class (escape / cross-arena / variance / tyvariance / auto / collect-static /
                dynroot / smoke)
  negative      True when the *property* says this program must not compile (an escape, a
                cross-arena use, a brand coercion, a thread move)
  predict       "accept" | "reject"   - what the Lean model + table predict rustc does
  why           the table / model fact the prediction was derived from
  allow         error classes accepted for a predicted rejection (region / trait / type)
  twin_of       id of the negative probe this is the positive twin of (twins must compile)
  run           None, or dict(expect="panic"|"ok", stdout=...) for probes that are compiled fully
                and executed (the DynamicRoot wrong-set probes)
  src           the program
  exploit       optional: a variant of the program with a `main` that performs the dangling use,
                compiled and run only when the negative probe unexpectedly compiles

Every probe is generated *from the table*: entry points from `callbacks`, types from `adts`.
"""

PRELUDE = """#![allow(unused, dead_code, unused_imports, unused_mut, unused_variables)]
use gc_arena::barrier::Write;
use gc_arena::lock::RefLock;
use gc_arena::{Arena, Collect, DynamicRoot, DynamicRootSet, Finalization, Gc, GcWeak, Mutation, Rootable, Static};
use std::cell::RefCell;

#[derive(Collect)]
#[collect(no_drop)]
struct Root<'gc> {
    g: Gc<'gc, i32>,
    set: DynamicRootSet<'gc>,
    bag: Gc<'gc, RefLock<Vec<Gc<'gc, i32>>>>,
}
type A = Arena<Rootable![Root<'_>]>;
fn mkroot<'gc>(mc: &Mutation<'gc>) -> Root<'gc> {
    Root { g: Gc::new(mc, 7), set: DynamicRootSet::new(mc), bag: Gc::new(mc, RefLock::new(Vec::new())) }
}
fn mk() -> A {
    Arena::new(|mc| mkroot(mc))
}
"""

# payloads: key -> (expression given `mc` [and `fc` in finalize], type with `{L}` for the brand,
#                   key into the model's payload predictions)
PAYLOADS = {
    "gc": ("Gc::new(mc, 5i32)", "Gc<{L}, i32>"),
    "gcweak": ("Gc::downgrade(Gc::new(mc, 5i32))", "GcWeak<{L}, i32>"),
    "ref": ("Gc::as_ref(Gc::new(mc, 5i32))", "&{L} i32"),
    "mutation": ("mc", "&{L} Mutation<{L}>"),
    "rootset": ("DynamicRootSet::new(mc)", "DynamicRootSet<{L}>"),
    "write": ("Gc::write(mc, Gc::new(mc, 5i32))", "&{L} Write<i32>"),
    "finalization": ("fc", "&{L} Finalization<{L}>"),
}
TWIN_PAYLOAD = ("*Gc::new(mc, 5i32)", "i32")

KINDS = ["ret", "outer", "refcell", "tls", "static", "spawn", "scoped", "channel"]


def entry_shape(cb):
    """How to call an entry point, derived from its table row (argument list, receiver, result)."""
    name = cb["name"]
    args = cb["argsRust"]
    ctx = "Finalization" if "Finalization" in args[0] else "Mutation"
    nargs = len(args)
    ret = cb["retRust"]
    free_ret = ret in cb["outerTys"]                      # `-> T`
    result_ret = ret.startswith("Result<")               # `-> Result<Root, E>`
    consumes = cb["receiver"] in ("self", "mutself")      # `self` / `mut self`
    return dict(name=name, ctx=ctx, nargs=nargs, free_ret=free_ret, result_ret=result_ret,
                consumes=consumes, receiver=cb["receiver"], root_ret=("Rootable" in ret))


def call(cb, body, ret_expr, err_expr=None):
    """Statement that calls the entry point with a closure running `body`; the closure's value is
    `ret_expr` when its result type is free, the designed root otherwise; `err_expr` (for the
    fallible constructors) is returned through `Err`."""
    sh = entry_shape(cb)
    n = sh["name"]
    params = "mc" if sh["nargs"] == 1 else "mc, root"
    pre = ""
    if sh["ctx"] == "Finalization":
        params = "fc" if sh["nargs"] == 1 else "fc, root"
        pre = "let mc: &Mutation<'_> = fc;"
    if sh["root_ret"]:
        tail = "mkroot(mc)"
        if sh["result_ret"]:
            tail = "Ok(mkroot(mc))"
            if err_expr is not None:
                tail = f"if true {{ return Err({err_expr}); }} Ok(mkroot(mc))"
    else:
        tail = ret_expr if ret_expr is not None else "()"
    clo = f"|{params}| {{ {pre} {body} {tail} }}"
    if n == "Arena::new":
        return f"let r = A::new({clo});"
    if n == "Arena::try_new":
        return f"let r = A::try_new({clo});"
    if n == "Arena::map_root":
        return f"let arena = mk(); let r = arena.map_root::<Rootable![Root<'_>]>({clo});"
    if n == "Arena::try_map_root":
        return f"let arena = mk(); let r = arena.try_map_root::<Rootable![Root<'_>], _>({clo});"
    if n == "Arena::mutate":
        return f"let arena = mk(); let r = arena.mutate({clo});"
    if n == "Arena::mutate_root":
        return f"let mut arena = mk(); let r = arena.mutate_root({clo});"
    if n == "MarkedArena::finalize":
        return f"let mut arena = mk(); let marked = arena.finish_marking().unwrap(); let r = marked.finalize({clo});"
    if n == "rootless_mutate":
        return f"let r = gc_arena::arena::rootless_mutate({clo});"
    # an entry point this generator has no dedicated template for (added to the crate later):
    # best effort for borrowing `Arena` methods whose callback result is free
    if n.startswith("Arena::") and sh["receiver"] in ("&self", "&mutself") and not sh["root_ret"] and sh["nargs"] in (1, 2):
        return f"let mut arena = mk(); let r = arena.{n.split('::')[1]}({clo});"
    return None


def fid(s):
    import re
    return re.sub(r"[^a-z0-9]+", "_", s.lower()).strip("_")


def escape_program(cb, kind, expr, ty, unit_err):
    """The program for one (entry point, escape kind, payload).  `ty` has `{L}` for the brand."""
    sh = entry_shape(cb)
    t_static = ty.replace("{L}", "'static")
    t_infer = ty.replace("{L}", "'_")
    items = ""
    if kind == "ret":
        if sh["root_ret"] and not sh["result_ret"]:
            return None
        if sh["root_ret"]:
            c = call(cb, "", None, err_expr=expr)
        else:
            c = call(cb, "", expr)
        body = c
    elif kind == "outer":
        c = call(cb, f"slot = Some({expr});", "()", err_expr=unit_err)
        body = f"let mut slot = None; {c} let _keep = slot;"
    elif kind == "refcell":
        c = call(cb, f"bag.borrow_mut().push({expr});", "()", err_expr=unit_err)
        body = f"let bag: RefCell<Vec<_>> = RefCell::new(Vec::new()); {c} let _keep = bag.borrow().len();"
    elif kind == "tls":
        items = f"thread_local! {{ static TL: RefCell<Vec<{t_static}>> = RefCell::new(Vec::new()); }}\n"
        c = call(cb, f"TL.with(|t| t.borrow_mut().push({expr}));", "()", err_expr=unit_err)
        body = c
    elif kind == "static":
        items = f"static ST: std::sync::Mutex<Vec<{t_static}>> = std::sync::Mutex::new(Vec::new());\n"
        c = call(cb, f"ST.lock().unwrap().push({expr});", "()", err_expr=unit_err)
        body = c
    elif kind == "spawn":
        c = call(cb, f"let v = {expr}; let h = std::thread::spawn(move || {{ let _moved = v; }}); h.join().unwrap();", "()", err_expr=unit_err)
        body = c
    elif kind == "scoped":
        c = call(cb, f"let v = {expr}; std::thread::scope(|s| {{ s.spawn(move || {{ let _moved = v; }}); }});", "()", err_expr=unit_err)
        body = c
    elif kind == "channel":
        c = call(cb, f"let v = {expr}; let (tx, rx) = std::sync::mpsc::channel(); tx.send(v).ok(); "
                     f"std::thread::scope(|s| {{ s.spawn(move || {{ let _got = rx.recv(); }}); }});", "()", err_expr=unit_err)
        body = c
    else:
        return None
    if c is None:
        return None
    return PRELUDE + items + "fn probe() {\n    " + body + "\n}\nfn main() { probe(); }\n"


def escape_exploit(cb, kind, src):
    """Variant of an escape probe (payload `gc`) whose `main` frees the arena and then reads through
    the escaped pointer.  Only built and run when the probe itself unexpectedly compiles."""
    n = cb["name"]
    if kind == "ret" and not entry_shape(cb)["root_ret"]:
        grab = "let g: Gc<'_, i32> = r;"
    elif kind == "outer":
        grab = "let g: Gc<'_, i32> = slot.unwrap();"
    elif kind == "refcell":
        grab = "let g: Gc<'_, i32> = bag.borrow()[0];"
    else:
        return None
    if n in ("Arena::new", "Arena::map_root"):
        free = "drop(r);"
    elif n in ("Arena::try_new", "Arena::try_map_root"):
        free = "drop(r);"
    elif n in ("Arena::mutate", "Arena::mutate_root", "MarkedArena::finalize"):
        free = "drop(arena);"
    else:
        free = ""   # rootless_mutate: the arena is already gone when the call returns
    tail = f" {grab} {free} println!(\"DANGLING-READ through an escaped Gc after its arena was freed: {{:#x}}\", *g);\n}}\nfn main() {{ probe(); }}\n"
    marker = "\n}\nfn main() { probe(); }\n"
    if not src.endswith(marker):
        return None
    body = src[: -len(marker)]
    body = body.replace("let _keep = slot;", "").replace("let _keep = bag.borrow().len();", "")
    return body + tail


def instantiate(adt, lt_names):
    """Concrete instance of a public ADT: lifetimes from `lt_names`, `i32` for plain type
    parameters, a `'static` root for `Rootable`-bounded ones, defaults left out, `8` for consts."""
    if not adt.get("pubPath"):
        return None
    args = [lt_names[i] if i < len(lt_names) else "'static" for i in range(len(adt["lts"]))]
    for p in adt["tys"]:
        if p["hasDefault"]:
            break
        if "Rootable" in p["bounds"]:
            args.append("gc_arena::Rootable![gc_arena::Static<i32>]")
        elif any(b not in ("Collect", "Sized", "Copy", "Clone", "Default") for b in p["bounds"]):
            return None
        else:
            args.append("i32")
    if adt["consts"]:
        if any(p["hasDefault"] for p in adt["tys"]):
            return None
        args += ["8"] * len(adt["consts"])
    return adt["pubPath"] + ("<" + ", ".join(args) + ">" if args else "")


def generate(table, pred, tier="quick"):
    probes = []
    adt_pred = {a["name"]: a for a in pred["adt"]}
    cb_pred = {c["name"]: c for c in pred["callback"]}
    pay_pred = {p["key"]: p for p in pred["payload"]}
    coll_pred = {c["head"]: c for c in pred["collect"]}
    adts = {a["name"]: a for a in table["adts"]}

    def add(**kw):
        kw.setdefault("allow", ["region", "type", "trait"])
        kw.setdefault("twin_of", None)
        kw.setdefault("run", None)
        kw.setdefault("exploit", None)
        probes.append(kw)

    # ---- smoke: the prelude alone must compile (otherwise every twin would fail for one reason)
    add(id="smoke_prelude", cls="smoke", negative=False, predict="accept", why="prelude",
        src=PRELUDE + "fn main() { let a = mk(); let v = a.mutate(|_, r| *r.g); assert_eq!(v, 7); }\n")

    # ---- escapes through every entry point ------------------------------------------------
    for cb in table["callbacks"]:
        if not cb.get("fnPub"):
            continue
        cp = cb_pred.get(cb["name"])
        if cp is None or call(cb, "", "()") is None:
            add(id="entry_" + fid(cb["name"]), cls="escape", negative=False, predict="accept",
                why="entry point shape not known to the probe generator",
                src="compile_error!(\"no probe template for entry point " + cb["name"] + "\");\n")
            continue
        sh = entry_shape(cb)
        hr = cp["binderOk"] and cp["arg0Ok"]
        unit_err = "()" if sh["result_ret"] else None
        pays = [k for k in PAYLOADS if k != "finalization" or sh["ctx"] == "Finalization"]
        for kind in KINDS:
            # positive twin: same shape, a plain copy of the pointee instead of the branded value
            tsrc = escape_program(cb, kind, TWIN_PAYLOAD[0], TWIN_PAYLOAD[1], unit_err)
            if tsrc is None:
                continue
            tid = f"esc_{fid(cb['name'])}_{kind}_twin"
            add(id=tid, cls="escape", negative=False, predict="accept", why="plain i32 copy: nothing branded leaves",
                src=tsrc, entry=cb["name"], kind=kind, payload="i32")
            for pk in pays:
                expr, ty = PAYLOADS[pk]
                src = escape_program(cb, kind, expr, ty, unit_err)
                if src is None:
                    continue
                pp = pay_pred[pk]
                negative = True
                # the context handle itself is a reference: it is pinned by the weaker of the two
                # lifetimes of `&'r Mutation<'gc>`
                bk = cp["brandKind"]
                if pk in ("mutation", "finalization"):
                    order = ["binder", "erased", "other", "outer", "static"]
                    bk = min(bk, cp["refKind"], key=order.index)
                # a context type whose brand can be *lengthened* by subtyping (contra- / bivariant)
                # lets `&Mutation<'gc>` pass for `&Mutation<'static>`: whatever is allocated from it
                # is `'static`-branded
                ctx_name = "Finalization" if sh["ctx"] == "Finalization" else "Mutation"
                cv = adt_pred.get(ctx_name, {}).get("ltVariance", [])
                ctx_flexes = bool(cv) and cv[0][1] in ("contra", "bi")
                if ctx_flexes and pk not in ("mutation", "finalization"):
                    bk = "static"
                if kind == "ret":
                    rej = (cp["ok"] and not (ctx_flexes and pk not in ("mutation", "finalization"))) or (pk in ("mutation", "finalization") and cp["refKind"] in ("binder", "erased"))
                    why = f"callbacks_higher_ranked: {cb['name']}.ok={cp['ok']} (retOk={cp['retOk']})"
                    allow = ["region", "type"]
                elif kind in ("outer", "refcell"):
                    # a brand bound by the binder cannot be named by any outer location; a brand that
                    # is an outer lifetime parameter (or 'static) can
                    rej = bk in ("binder", "erased")
                    why = f"callbacks_higher_ranked: binderOk={cp['binderOk']} arg0Ok={cp['arg0Ok']} brand bound by {bk}"
                    allow = ["region", "type"]
                elif kind == "tls":
                    rej = bk != "static"
                    why = f"brand bound by {bk} (only a 'static brand fits a thread_local)"
                    allow = ["region", "type"]
                elif kind in ("static", "spawn"):
                    rej = bk != "static" or not pp["send"]
                    why = f"brand bound by {bk}; payload Send={pp['send']} (not_send_not_sync)"
                    allow = ["region", "type", "trait"]
                else:  # scoped, channel: only Send matters
                    rej = not pp["send"]
                    why = f"payload Send={pp['send']} (not_send_not_sync)"
                    allow = ["trait"]
                    # a `&'gc T` / `&'gc Write<T>` with `T: Sync` may be read by a scoped thread: not an escape
                    negative = pk not in ("ref", "write")
                add(id=f"esc_{fid(cb['name'])}_{kind}_{pk}", cls="escape", negative=negative,
                    predict="reject" if rej else "accept", why=why, allow=allow, src=src,
                    twin_of=tid, entry=cb["name"], kind=kind, payload=pk,
                    exploit=escape_exploit(cb, kind, src) if pk == "gc" else None)

    # ---- cross-arena use -------------------------------------------------------------------
    def var_of(n):
        v = adt_pred.get(n, {}).get("ltVariance", [])
        return v[0][1] if v else "?"

    def shrinks(n):      # the brand of `n` can be shortened by subtyping
        return var_of(n) in ("co", "bi")

    def flexes(n):       # … or lengthened
        return var_of(n) in ("contra", "bi")
    mut_cb = cb_pred.get("Arena::mutate", {})
    hr_mut = mut_cb.get("binderOk", False) and mut_cb.get("arg0Ok", False)
    vs = {n: var_of(n) for n in ("Gc", "GcWeak", "Mutation", "DynamicRootSet")}
    # Two independent `for<'gc>` brands 'a and 'b are only related to regions local to the inner
    # closure body, to which both can be *shortened*.  What each probe needs to unify, given the
    # model's variances (a pointer allocated from `mca` takes the brand `mca` was coerced to):
    unify = {
        "ptr_eq": shrinks("Mutation") or shrinks("Gc"),
        "alloc_ctx": shrinks("Mutation") or shrinks("Gc"),
        "weak_upgrade": shrinks("Mutation"),
        "barrier": shrinks("Mutation") and shrinks("Gc"),
        "stash": shrinks("Mutation") and shrinks("DynamicRootSet"),
        # storing into B's object graph needs exactly B's brand: only a lengthening coercion helps
        "store": flexes("Mutation") or flexes("Gc"),
        "fetch_other": flexes("Gc"),
    }
    why = f"branded_invariant: model variances in 'gc {vs}; Arena::mutate higher-ranked={hr_mut}"
    nested = {
        "ptr_eq": "let ga = Gc::new(mca, 1i32); let gb = Gc::new(mcb, 2i32); let _same = Gc::ptr_eq(ga, gb);",
        "store": "let ga = Gc::new(mca, 1i32); rb.bag.borrow_mut(mcb).push(ga);",
        "stash": "let ga = Gc::new(mca, 1i32); let _h = rb.set.stash::<Rootable![i32]>(mcb, ga);",
        "barrier": "let ga = Gc::new(mca, 1i32); mcb.backward_barrier(Gc::erase(rb.g), Some(Gc::erase(ga)));",
        "alloc_ctx": "let _mixed: (Gc<'_, i32>, Gc<'_, i32>) = (Gc::new(mca, 1i32), Gc::new(mcb, 2i32)); let v = vec![Gc::new(mca, 1i32), Gc::new(mcb, 2i32)];",
        "weak_upgrade": "let wa = Gc::downgrade(Gc::new(mca, 1i32)); let _up = wa.upgrade(mcb);",
        "fetch_other": "let h = ra.set.stash::<Rootable![i32]>(mca, Gc::new(mca, 1i32)); let ga: Gc<'_, i32> = ra.set.fetch(&h); rb.bag.borrow_mut(mcb).push(ga);",
    }
    twin_body = "let ga = Gc::new(mca, 1i32); let gb = Gc::new(mcb, 2i32); let _sum = *ga + *gb; rb.bag.borrow_mut(mcb).push(gb); let _same = Gc::ptr_eq(gb, rb.g);"
    tid = "cross_nested_twin"
    add(id=tid, cls="cross-arena", negative=False, predict="accept", why="each pointer used with its own arena only",
        src=PRELUDE + "fn probe() { let a = mk(); let b = mk(); a.mutate(|mca, ra| { b.mutate(|mcb, rb| { " + twin_body + " }); }); }\nfn main() { probe(); }\n")
    for k, body in nested.items():
        exploit = None
        if k == "stash":
            exploit = PRELUDE + """fn main() {
    let a = mk(); let b = mk();
    // an object of arena A is registered in arena B's root set ...
    let h = a.mutate(|mca, ra| b.mutate(|mcb, rb| rb.set.stash::<Rootable![i32]>(mcb, Gc::new(mca, 0x5eed_i32))));
    drop(a); // ... arena A frees it ...
    let c = mk(); c.mutate(|mc, _| { for _ in 0..256 { Gc::new(mc, 0x0bad_i32); } }); // (memory re-used)
    let v = b.mutate(|mcb, rb| *rb.set.fetch(&h)); // ... and arena B still hands it out
    println!("DANGLING-READ through arena B of an object freed with arena A: wrote 0x5eed, read {:#x}", v);
}
"""
        if k == "store":
            exploit = PRELUDE + """fn main() {
    let b = mk();
    {
        let a = mk();
        // an object of arena A is stored in arena B's object graph ...
        a.mutate(|mca, ra| b.mutate(|mcb, rb| { rb.bag.borrow_mut(mcb).push(Gc::new(mca, 0x5eed_i32)); }));
    } // ... arena A is dropped and frees it ...
    let c = mk(); c.mutate(|mc, _| { for _ in 0..256 { Gc::new(mc, 0x0bad_i32); } }); // (memory re-used)
    let v = b.mutate(|_, rb| *rb.bag.borrow()[0]); // ... and arena B still reaches it
    println!("DANGLING-READ through arena B of an object freed with arena A: wrote 0x5eed, read {:#x}", v);
}
"""
        add(id=f"cross_nested_{k}", cls="cross-arena", negative=True,
            predict="accept" if (unify[k] or not hr_mut) else "reject",
            why=why, allow=["region", "type"], twin_of=tid, exploit=exploit,
            src=PRELUDE + "fn probe() { let a = mk(); let b = mk(); a.mutate(|mca, ra| { b.mutate(|mcb, rb| { " + body + " }); }); }\nfn main() { probe(); }\n")
    # sequential: carry a pointer from one `mutate` to the next one (of another arena and of the same)
    tid = "cross_seq_twin"
    add(id=tid, cls="cross-arena", negative=False, predict="accept", why="a DynamicRoot is the supported way to carry a pointer across callbacks",
        src=PRELUDE + "fn probe() { let a = mk(); let h = a.mutate(|mc, r| r.set.stash::<Rootable![i32]>(mc, Gc::new(mc, 3))); let v = a.mutate(|mc, r| *r.set.fetch(&h)); assert_eq!(v, 3); }\nfn main() { probe(); }\n")
    seq_rej = bool(mut_cb.get("ok", False))
    for k, (first, second) in {
        "other": ("a", "b"), "same": ("a", "a"),
    }.items():
        add(id=f"cross_seq_{k}", cls="cross-arena", negative=True, predict="reject" if seq_rej else "accept",
            why=f"callbacks_higher_ranked: Arena::mutate.ok={seq_rej}", allow=["region", "type"], twin_of=tid,
            src=PRELUDE + f"fn probe() {{ let a = mk(); let b = mk(); let g = {first}.mutate(|mc, r| r.g); let v = {second}.mutate(|mc, r| {{ r.bag.borrow_mut(mc).push(g); *g }}); }}\nfn main() {{ probe(); }}\n")

    # ---- DynamicRoot fetched from the wrong set: compiles, must panic / Err at run time --------
    # which public functions reach a re-branding site without the identity check (structural rule
    # `Brand.blame`, lifted through private helpers): the model blames them by name
    unchecked = {b for t in pred["transmute"] for b in t.get("blame", [])}
    dyn_main = """fn main() {{
    let a = mk(); let b = mk();
    let h = a.mutate(|mc, r| r.set.stash::<Rootable![i32]>(mc, Gc::new(mc, 0x5eed_i32)));
    {pre}
    let v = {arena}.mutate(|mc, r| {fetch});
    println!("FETCHED {{:?}}", v);
}}
"""
    for fn_, fetch, okv in (("fetch", "*r.set.fetch(&h)", "FETCHED 24301"),
                            ("try_fetch", "r.set.try_fetch(&h).map(|g| *g).ok()", "FETCHED Some(24301)")):
        g = not any(b.split(" ")[0] == f"DynamicRootSet::{fn_}" for b in unchecked)
        tid = f"dynroot_{fn_}_right_set"
        add(id=tid, cls="dynroot", negative=False, predict="accept", why="fetch from the set the root was stashed in",
            run=dict(expect="ok", stdout=okv), src=PRELUDE + dyn_main.format(pre="", arena="a", fetch=fetch))
        for variant, pre in (("live", ""), ("dropped", "drop(a);")):
            if fn_ == "fetch":
                run = dict(expect="panic" if g else "ok", stdout="mismatched root set" if g else "FETCHED")
            else:
                run = dict(expect="ok", stdout="FETCHED None" if g else "FETCHED Some")
            add(id=f"dynroot_{fn_}_wrong_set_{variant}", cls="dynroot", negative=True, predict="accept",
                why=f"transmutes_guarded: every re-branding site reachable from DynamicRootSet::{fn_} is identity-checked = {g} (unchecked: {sorted(unchecked)})",
                twin_of=tid, run=run, must_refuse=True,
                src=PRELUDE + dyn_main.format(pre=pre, arena="b", fetch=fetch))

    # ---- smuggling through the root type: 'static-only Collect impls --------------------------
    smug = {
        "&": ("&'static Gc<'_, i32>", "Box::leak(Box::new(Gc::new(mc, 4)))", "***r",
              "&'static i32", "Box::leak(Box::new(4))", "**r"),
        "Cell": ("std::cell::Cell<Option<Gc<'_, i32>>>", "std::cell::Cell::new(Some(Gc::new(mc, 4)))", "*r.get().unwrap()",
                 "std::cell::Cell<Option<i32>>", "std::cell::Cell::new(Some(4))", "r.get().unwrap()"),
        "RefCell": ("RefCell<Vec<Gc<'_, i32>>>", "RefCell::new(vec![Gc::new(mc, 4)])", "*r.borrow()[0]",
                    "RefCell<Vec<i32>>", "RefCell::new(vec![4])", "r.borrow()[0]"),
        "Static": ("Static<Option<Gc<'_, i32>>>", "Static(Some(Gc::new(mc, 4)))", "*r.0.unwrap()",
                   "Static<Option<i32>>", "Static(Some(4))", "r.0.unwrap()"),
    }
    for head, (bad_t, bad_e, bad_r, ok_t, ok_e, ok_r) in smug.items():
        cp = coll_pred.get(head)
        tid = f"smuggle_{fid(head) or 'ref'}_twin"
        prog = "fn main() {{ let mut a = Arena::<Rootable![{t}]>::new(|mc| {e}); a.finish_cycle(); a.finish_cycle(); let v: i32 = a.mutate(|_, r| {r}); println!(\"READ {{}}\", v); }}\n"
        # exploit variant: collect (the untraced Gc is freed), re-use the memory, then read through the root
        xprog = ("fn main() {{ let mut a = Arena::<Rootable![{t}]>::new(|mc| {e}); a.finish_cycle(); a.finish_cycle(); "
                 "a.mutate(|mc, _| {{ for _ in 0..256 {{ Gc::new(mc, 0x0bad_i32); }} }}); let v: i32 = a.mutate(|_, r| {r}); "
                 "println!(\"DANGLING-READ through a root the collector did not trace: wrote 4, read {{:#x}}\", v); }}\n")
        add(id=tid, cls="collect-static", negative=False, predict="accept", why="the same root shape without a Gc inside",
            src=PRELUDE + prog.format(t=ok_t, e=ok_e, r=ok_r))
        rej = True if cp is None else cp["staticOk"]
        add(id=f"smuggle_{fid(head) or 'ref'}", cls="collect-static", negative=True, predict="reject" if rej else "accept",
            why=f"collect_static_only: impl Collect for {head}… staticOk={None if cp is None else cp['staticOk']}",
            allow=["region", "trait", "type"], twin_of=tid,
            src=PRELUDE + prog.format(t=bad_t, e=bad_e, r=bad_r), exploit=PRELUDE + xprog.format(t=bad_t, e=bad_e, r=bad_r))

    # ---- variance of every lifetime parameter of every nameable type --------------------------
    for a in table["adts"]:
        ap = adt_pred.get(a["name"])
        if not a.get("pubPath") or not a["lts"] or ap is None:
            continue
        for i, (lt, var) in enumerate(ap["ltVariance"]):
            def inst(name):
                return instantiate(a, [name if j == i else "'static" for j in range(len(a["lts"]))])
            long_t, short_t = inst("'long"), inst("'short")
            if long_t is None:
                continue
            is_brand = lt == "gc"
            base = f"var_{fid(a['name'])}_{lt}"
            tid = base + "_twin"
            add(id=tid, cls="variance", negative=False, predict="accept", why="identity",
                src=f"#![allow(unused)]\nfn id<'short, 'long: 'short>(x: {long_t}) -> {long_t} {{ x }}\nfn main() {{}}\n")
            add(id=base + "_shrink", cls="variance", negative=is_brand,
                predict="accept" if var in ("co", "bi") else "reject",
                why=f"model variance of {a['name']} in '{lt} = {var}", allow=["region"], twin_of=tid,
                src=f"#![allow(unused)]\nfn shrink<'short, 'long: 'short>(x: {long_t}) -> {short_t} {{ x }}\nfn main() {{}}\n")
            add(id=base + "_grow", cls="variance", negative=is_brand,
                predict="accept" if var in ("contra", "bi") else "reject",
                why=f"model variance of {a['name']} in '{lt} = {var}", allow=["region"], twin_of=tid,
                src=f"#![allow(unused)]\nfn grow<'short, 'long: 'short>(x: {short_t}) -> {long_t} {{ x }}\nfn main() {{}}\n")
    # contexts are handed out by reference: `&'gc Mutation<'gc>` must not shrink its inner brand either
    for n in ("Mutation", "Finalization"):
        a, ap = adts.get(n), adt_pred.get(n)
        if not a or not ap or not a.get("pubPath") or not ap["ltVariance"]:
            continue
        var = ap["ltVariance"][0][1]
        p = a["pubPath"]
        tid = f"var_ref_{fid(n)}_twin"
        add(id=tid, cls="variance", negative=False, predict="accept", why="outer reference lifetime is covariant",
            src=f"#![allow(unused)]\nfn outer<'short, 'long: 'short>(x: &'long {p}<'long>) -> &'short {p}<'long> {{ x }}\nfn main() {{}}\n")
        add(id=f"var_ref_{fid(n)}_shrink", cls="variance", negative=True, predict="accept" if var in ("co", "bi") else "reject",
            why=f"model variance of {n} in 'gc = {var}", allow=["region"], twin_of=tid,
            src=f"#![allow(unused)]\nfn shrink<'short, 'long: 'short>(x: &'long {p}<'long>) -> &'short {p}<'short> {{ x }}\nfn main() {{}}\n")

    # ---- variance in type parameters (two-sided validation of the model; not a C12 obligation) -
    for a in table["adts"]:
        ap = adt_pred.get(a["name"])
        if not a.get("pubPath") or ap is None or a["consts"]:
            continue
        for i, (tp, var) in enumerate(ap["tyVariance"]):
            p = a["tys"][i]
            if p["bounds"] or p["hasDefault"] or i != 0:
                continue
            if any(q["bounds"] and not q["hasDefault"] for q in a["tys"][1:]):
                continue

            def inst(t0):
                args = ["'g"] * len(a["lts"]) + [t0] + ["i32" for q in a["tys"][1:] if not q["hasDefault"]]
                return a["pubPath"] + "<" + ", ".join(args) + ">"
            base = f"tyvar_{fid(a['name'])}_{fid(tp)}"
            tid = base + "_twin"
            hdr = "#![allow(unused)]\n"
            sig = "<'g, 'short: 'g, 'long: 'short>"  # by reference, so unsized types work
            add(id=tid, cls="tyvariance", negative=False, predict="accept", why="identity",
                src=hdr + f"fn id{sig}(x: &'g {inst(chr(38) + chr(39) + 'long u8')}) -> &'g {inst(chr(38) + chr(39) + 'long u8')} {{ x }}\nfn main() {{}}\n")
            add(id=base + "_shrink", cls="tyvariance", negative=False, predict="accept" if var in ("co", "bi") else "reject",
                why=f"model variance of {a['name']} in {tp} = {var}", allow=["region"], twin_of=tid,
                src=hdr + f"fn shrink{sig}(x: &'g {inst(chr(38) + chr(39) + 'long u8')}) -> &'g {inst(chr(38) + chr(39) + 'short u8')} {{ x }}\nfn main() {{}}\n")
            add(id=base + "_grow", cls="tyvariance", negative=False, predict="accept" if var in ("contra", "bi") else "reject",
                why=f"model variance of {a['name']} in {tp} = {var}", allow=["region"], twin_of=tid,
                src=hdr + f"fn grow{sig}(x: &'g {inst(chr(38) + chr(39) + 'short u8')}) -> &'g {inst(chr(38) + chr(39) + 'long u8')} {{ x }}\nfn main() {{}}\n")

    # ---- builders must be invariant in their value type -------------------------------------------
    # `write` / `write_header` / `write_slice_with` / `copy_slice` carry no `Collect` bound of their own (it is
    # checked when the builder is created), so a builder that is covariant in its value type lets safe code
    # coerce `GcBuilder<'gc, &'static U>` to `GcBuilder<'gc, &'gc U>` and store an untraced `&'gc U` in the arena
    bp = adt_pred.get("GcBuilder")
    if bp is not None:
        var = dict((t, v) for t, v in bp["tyVariance"]).get("T")
        prog = ("#![forbid(unsafe_code)]\nuse gc_arena::{Arena, Gc, GcBuilder, Rootable, Lock, Collect};\n"
                "#[derive(Collect)]\n#[collect(no_drop)]\nstruct Root<'gc> { slot: Gc<'gc, Lock<Option<Gc<'gc, &'gc String>>>> }\n"
                "fn main() {\n    let mut arena = Arena::<Rootable![Root<'_>]>::new(|mc| Root { slot: Gc::new(mc, Lock::new(None)) });\n"
                "    arena.mutate(|mc, root| {\n        let s: Gc<'_, String> = Gc::new_static(mc, String::from(\"hello\"));\n"
                "        let r: &String = s.as_ref();\n        let b: GcBuilder<'_, &'static String> = GcBuilder::new();\n"
                "        let g = b.write(mc, r);\n        root.slot.set(mc, Some(Gc::erase_kind(g)));\n    });\n"
                "    arena.finish_cycle();\n    arena.mutate(|mc, _| { for _ in 0..64 { Gc::new_static(mc, String::from(\"XXXXXXXXXXXXXXXX\")); } });\n"
                "    let ok = arena.mutate(|_, root| **root.slot.get().unwrap() == \"hello\");\n"
                "    println!(\"DANGLING-READ through a &'gc String stored in the arena: the String it points to was collected; reads back as hello: {}\", ok);\n}\n")
        twin = ("#![forbid(unsafe_code)]\nuse gc_arena::{Arena, Gc, GcBuilder, Rootable, Lock, Collect};\n"
                "fn main() { gc_arena::arena::rootless_mutate(|mc| { let b: GcBuilder<'_, &'static str> = GcBuilder::new(); let g = b.write(mc, \"x\"); assert_eq!(*g, \"x\"); }); }\n")
        add(id="builder_value_variance_twin", cls="builder-variance", negative=False, predict="accept", why="a builder for a 'static reference type, used as such", src=twin)
        add(id="builder_value_variance_ref_smuggle", cls="builder-variance", negative=True,
            predict="accept" if var in ("co", "bi") else "reject",
            why=f"model variance of GcBuilder in its value type T = {var}: a covariant builder stores a &'gc String in the arena",
            allow=["region"], twin_of="builder_value_variance_twin", src=prog, exploit=prog)

    # ---- builder rule: one coercion probe per derived row (Brand.Table.builderRows) -------------
    for row in pred.get("builder", []):
        a = adts.get(row["adt"])
        if not a or not a.get("pubPath"):
            add(id=f"builder_{fid(row['adt'])}_{fid(row['param'])}", cls="builder", negative=False, predict="accept",
                why="builder row for a type client code cannot name", src="fn main() {}\n")
            continue

        prow = next((q for q in a["tys"] if q["name"] == row["param"]), None)
        if prow is None or any(b not in ("Collect", "Sized", "Copy", "Clone", "Default") for b in prow["bounds"]):
            continue   # the parameter cannot be instantiated by a plain reference type: no coercion probe
        wrap_root = "Rootable" in prow["bounds"]

        def inst(t0, a=a, row=row, wrap_root=wrap_root):
            args = ["'g"] * len(a["lts"])
            for q in a["tys"]:
                if q["name"] == row["param"]:
                    args.append(f"gc_arena::Rootable![{t0}]" if wrap_root else t0)
                elif q["hasDefault"]:
                    break
                else:
                    args.append("i32")
            args += ["8"] * len(a["consts"])
            return a["pubPath"] + "<" + ", ".join(args) + ">"
        base = f"builder_{fid(row['adt'])}_{fid(row['param'])}"
        tid = base + "_twin"
        hdr = "#![allow(unused)]\n"
        sig = "<'g, 'short: 'g, 'long: 'short>"
        add(id=tid, cls="builder", negative=False, predict="accept", why="identity",
            src=hdr + f"fn id{sig}(x: {inst(chr(38) + chr(39) + 'long u8')}) -> {inst(chr(38) + chr(39) + 'long u8')} {{ x }}\nfn main() {{}}\n")
        exploit = None
        if row["adt"] == "GcBuilder":
            exploit = """#![allow(unused)]
use gc_arena::{Arena, DynamicRootSet, Gc, GcBuilder, Rootable};
fn main() {
    let mut arena = Arena::<Rootable![DynamicRootSet<'_>]>::new(|mc| DynamicRootSet::new(mc));
    let h = arena.mutate(|mc, set| {
        let victim = Gc::new(mc, String::from("victim-victim-victim-victim"));
        let b: GcBuilder<'_, &'static String> = GcBuilder::new(); // `&'static String: Collect` holds
        let b: GcBuilder<'_, &String> = b;                        // covariance: now `&'gc String`
        let g = b.write(mc, Gc::as_ref(victim));                  // an untraced `&'gc String` in the arena
        set.stash::<Rootable!['a => &'a String]>(mc, g)
    });
    arena.finish_cycle(); arena.finish_cycle();                    // `victim` is unreachable for the collector
    arena.mutate(|mc, _| { for _ in 0..256 { Gc::new(mc, String::from("XXXXXXXXXXXXXXXXXXXXXXXXXXX")); } });
    let v = arena.mutate(|_, set| (**set.fetch(&h)).clone());
    println!("DANGLING-READ through a reference stored by a coerced builder: wrote victim-victim-victim-victim, read {:?}", v);
}
"""
        add(id=base + "_shrink", cls="builder", negative=True,
            predict="accept" if row["variance"] in ("co", "bi") else "reject",
            why=f"builders_invariant_in_value_type: model variance of {row['adt']} in {row['param']} = {row['variance']}; stores through {row['storeMethods']}",
            allow=["region"], twin_of=tid, exploit=exploit, adt=row["adt"],
            src=hdr + f"fn shrink{sig}(x: {inst(chr(38) + chr(39) + 'long u8')}) -> {inst(chr(38) + chr(39) + 'short u8')} {{ x }}\nfn main() {{}}\n")

    # ---- Send / Sync of every nameable type ----------------------------------------------------
    must_not = set(pred.get("requiredNotSendSync", []))
    for a in table["adts"]:
        ap = adt_pred.get(a["name"])
        t = instantiate(a, ["'x"] * len(a["lts"]))
        if t is None or ap is None:
            continue
        lt_decl = "<'x>" if a["lts"] else ""
        tid = f"auto_{fid(a['name'])}_twin"
        add(id=tid, cls="auto", negative=False, predict="accept", why="the type is well-formed; i32 is Send + Sync",
            src=f"#![allow(unused)]\nfn assert_send<T: ?Sized + Send>() {{}}\nfn assert_sync<T: ?Sized + Sync>() {{}}\nfn wf{lt_decl}(_: &{t}) {{ assert_send::<i32>(); assert_sync::<i32>(); }}\nfn main() {{}}\n")
        for trait, key in (("Send", "send"), ("Sync", "sync")):
            add(id=f"auto_{fid(a['name'])}_{key}", cls="auto", negative=(a["name"] in must_not or "gc" in a["lts"]),
                predict="accept" if ap[key] else "reject", why=f"model: {a['name']}: {trait} = {ap[key]}", allow=["trait"], twin_of=tid,
                src=f"#![allow(unused)]\nfn assert_{key}<T: ?Sized + {trait}>() {{}}\nfn check{lt_decl}() {{ assert_{key}::<{t}>(); }}\nfn main() {{}}\n")
    # the payload types used by the escape probes, as the model sees them
    for pk, (expr, ty) in PAYLOADS.items():
        pp = pay_pred[pk]
        t = ty.replace("{L}", "'x")
        for trait, key in (("Send", "send"), ("Sync", "sync")):
            add(id=f"auto_payload_{pk}_{key}", cls="auto", negative=False, predict="accept" if pp[key] else "reject",
                why=f"model: {t}: {trait} = {pp[key]}", allow=["trait"],
                src=PRELUDE + f"fn assert_{key}<T: ?Sized + {trait}>() {{}}\nfn check<'x>() {{ assert_{key}::<{t}>(); }}\nfn main() {{}}\n")

    if tier == "thorough":
        # enlarge: every escape also with the value wrapped in Option / tuple / Box / closure capture
        wraps = {"opt": ("Some({e})", "Option<{t}>"), "tup": ("({e}, 1u8)", "({t}, u8)"),
                 "box": ("Box::new({e})", "Box<{t}>"), "vec": ("vec![{e}]", "Vec<{t}>")}
        for cb in table["callbacks"]:
            cp = cb_pred.get(cb["name"])
            if not cb.get("fnPub") or cp is None or call(cb, "", "()") is None:
                continue
            sh = entry_shape(cb)
            hr = cp["binderOk"] and cp["arg0Ok"]
            unit_err = "()" if sh["result_ret"] else None
            for kind in ("ret", "outer", "refcell", "tls"):
                for pk in ("gc", "gcweak", "ref", "mutation", "rootset", "write"):
                    for wk, (we, wt) in wraps.items():
                        expr, ty = PAYLOADS[pk]
                        src = escape_program(cb, kind, we.format(e=expr), wt.format(t=ty), unit_err)
                        if src is None:
                            continue
                        rej = cp["ok"] if kind == "ret" else hr
                        add(id=f"esc_{fid(cb['name'])}_{kind}_{pk}_{wk}", cls="escape", negative=True,
                            predict="reject" if rej else "accept", why=f"callbacks_higher_ranked: {cb['name']}",
                            allow=["region", "type"], twin_of=f"esc_{fid(cb['name'])}_{kind}_twin", src=src,
                            entry=cb["name"], kind=kind, payload=pk + "/" + wk)
    return probes
