import GcArena.Generated.BrandTable
/-!
Prediction script of the C12 engine (`lib/eng_brand.py`).  Not part of the `GcArena` library: it is
run with `lean` against freshly compiled copies of `Model/Brand.lean` and the regenerated
`Generated/BrandTable.lean`, and prints, as tab-separated `key<TAB>json` lines,

* what the Lean model computes for every table entry (variance of each lifetime parameter,
  `Send`/`Sync`, the components of the callback check, …) – the accept / reject predictions for the
  probe corpus are derived from these, and
* for every table theorem of `Props/C12.lean` the list of table entries that violate its
  hypothesis (so that a failing `decide` can be explained).
-/
open GcArena.Brand GcArena.Generated.BrandTable

def q (s : String) : String := "\"" ++ (s.replace "\\" "\\\\").replace "\"" "\\\"" ++ "\""
def jb (b : Bool) : String := if b then "true" else "false"
def jl (xs : List String) : String := "[" ++ ", ".intercalate xs ++ "]"
def vs : Variance → String
  | .bi => "bi" | .co => "co" | .contra => "contra" | .inv => "inv"

/-- Where the brand of the context argument of a callback is bound: by the `for<…>` binder (or
elided, i.e. a fresh higher-ranked lifetime), by an outer lifetime parameter, or `'static`. -/
def brandKind (cb : Callback) : String :=
  match cb.args with
  | .ref _ (.adt _ [l] []) :: _ =>
      (match l with
       | .static => "static"
       | .erased => "erased"
       | .named b => if cb.binder.contains b then "binder" else if cb.outerLts.contains b then "outer" else "other")
  | _ => "other"

/-- Same question for the lifetime of the context *reference* itself (`&'r Mutation<…>`). -/
def refKind (cb : Callback) : String :=
  match cb.args with
  | .ref l _ :: _ =>
      (match l with
       | .static => "static"
       | .erased => "erased"
       | .named b => if cb.binder.contains b then "binder" else if cb.outerLts.contains b then "outer" else "other")
  | _ => "other"

def main : IO Unit := do
  for d in table.adts do
    let vars := d.lts.map (fun a => "[" ++ q a ++ ", " ++ q (vs (table.variance d.name (.lt a))) ++ "]")
    let tvars := d.tys.map (fun a => "[" ++ q a ++ ", " ++ q (vs (table.variance d.name (.ty a))) ++ "]")
    let a := table.autoOf d.name
    IO.println s!"adt\t\{\"name\": {q d.name}, \"ltVariance\": {jl vars}, \"tyVariance\": {jl tvars}, \"send\": {jb a.send}, \"sync\": {jb a.sync}}"
  for cb in table.callbacks do
    let closed := cb.ret.closedUnder cb.outerLts cb.outerTys
    IO.println s!"callback\t\{\"name\": {q cb.name}, \"binderOk\": {jb cb.binderOk}, \"arg0Ok\": {jb cb.arg0Ok}, \"restArgsOk\": {jb cb.restArgsOk}, \"retOk\": {jb cb.retOk}, \"retClosed\": {jb closed}, \"ok\": {jb cb.ok}, \"brand\": {q (cb.brand.getD "")}, \"brandKind\": {q (brandKind cb)}, \"refKind\": {q (refKind cb)}}"
  for ci in table.collectImpls do
    if ci.mustBeStatic then
      IO.println s!"collect\t\{\"head\": {q ci.selfTy.head}, \"file\": {q ci.file}, \"staticOk\": {jb ci.staticOk}}"
  for t in table.transmutesIn "dynamic_roots.rs" do
    IO.println s!"transmute\t\{\"fn\": {q t.fn_}, \"operand\": {q t.operand}, \"introduces\": {jl (t.introduces.map q)}, \"guarded\": {jb t.guardedByContains}, \"rawOnly\": {jb t.rawOnly}, \"ok\": {jb (table.transmuteOk t)}, \"blame\": {jl ((table.blameOf t).map q)}}"
  let k : Ty := .adt "GcKind" [] [.adt "Fat" [] [], .tuple [], .adt "UnitPtrMeta" [] []]
  let payloads : List (String × Ty) := [
    ("gc", .adt "Gc" [.named "x"] [.prim "i32", k]),
    ("gcweak", .adt "GcWeak" [.named "x"] [.prim "i32", k]),
    ("ref", .ref (.named "x") (.prim "i32")),
    ("mutation", .ref (.named "x") (.adt "Mutation" [.named "x"] [])),
    ("rootset", .adt "DynamicRootSet" [.named "x"] []),
    ("write", .ref (.named "x") (.adt "Write" [] [.prim "i32"])),
    ("finalization", .ref (.named "x") (.adt "Finalization" [.named "x"] []))]
  for (key, t) in payloads do
    let a := table.autoOfTy t
    IO.println s!"payload\t\{\"key\": {q key}, \"send\": {jb a.send}, \"sync\": {jb a.sync}}"
  IO.println s!"required\t\{\"notSendSync\": {jl (requiredNotSendSync.map q)}, \"branded\": {jl (requiredBranded.map q)}, \"callbacks\": {jl (requiredCallbacks.map q)}}"
  for r in table.builderRows do
    IO.println s!"builder\t\{\"adt\": {q r.1}, \"param\": {q r.2}, \"variance\": {q (vs (table.variance r.1 (.ty r.2)))}, \"ok\": {jb (table.builderOk r)}, \"storeMethods\": {jl ((table.builderRowMethods r).map q)}}"
  let unc := table.unclassified ++
    (table.adts.flatMap (fun d => (d.fields.filter (fun f => f.ty.hasUnclassified)).map (fun f => d.name ++ "." ++ f.name)))
  IO.println s!"viol\t\{\"theorem\": \"table_classified\", \"entries\": {jl (unc.map q)}}"
  let aliasOk : Bool := match table.findAlias "Invariant" with
    | some al => al.lts == ["a"] && varTy (adtVarOracle table fuel) (.lt "a") .co al.body == .inv
    | none => false
  IO.println s!"viol\t\{\"theorem\": \"invariant_alias\", \"entries\": {jl (if aliasOk then [] else [q "type Invariant<'a>"])}}"
  IO.println s!"viol\t\{\"theorem\": \"branded_invariant\", \"entries\": {jl (table.violInvariant.map q)}}"
  IO.println s!"viol\t\{\"theorem\": \"not_send_not_sync\", \"entries\": {jl (table.violNotSendSync.map q)}}"
  IO.println s!"viol\t\{\"theorem\": \"builders_invariant_in_value_type\", \"entries\": {jl (table.violBuilders.map q)}}"
  IO.println s!"viol\t\{\"theorem\": \"required_builder_rows\", \"entries\": {jl (((requiredBuilderRows.filter (fun r => !(table.builderRows.contains r && table.builderOk r))).map (fun r => r.1 ++ "<" ++ r.2 ++ ">")).map q)}}"
  IO.println s!"viol\t\{\"theorem\": \"brand_sites_behind_callbacks\", \"entries\": {jl (table.violBrandSites.map q)}}"
  let bsp : List String :=
    (if table.brandSources.length < 2 then ["fewer than two brand sources found"] else []) ++
    (if table.brandSites.length < 8 then ["fewer than eight brand-creating sites found"] else []) ++
    (requiredCallbacks.filter (fun n => !(table.brandSites.any (fun b => b.fn_ == n) || table.callSites.any (fun cs => cs.caller == n)))).map (fun n => n ++ " (no brand-creating site)")
  IO.println s!"viol\t\{\"theorem\": \"brand_sites_present\", \"entries\": {jl (bsp.map q)}}"
  IO.println s!"viol\t\{\"theorem\": \"collect_static_impls_present\", \"entries\": {jl (((["&", "Cell", "RefCell", "Static"].filter (fun h => !table.collectImpls.any (fun ci => ci.mustBeStatic && ci.selfTy.head == h))).map (fun h => "impl Collect for " ++ h ++ " (missing)")).map q)}}"
  IO.println s!"viol\t\{\"theorem\": \"rebrand_sites_present\", \"entries\": {jl (((if table.rebrandSites.length < 1 then ["no re-branding site found in dynamic_roots.rs"] else []) ++ (if table.identityChecks < 1 then ["the identity check is applied nowhere"] else [])).map q)}}"
  IO.println s!"viol\t\{\"theorem\": \"identity_check_is_comparison\", \"entries\": {jl (if identityCheckOk table.identityFns then [] else ((table.identityFns.map (fun f => f.qual ++ ": cmp=" ++ f.cmp ++ " lhs=" ++ toString f.lhsDeps ++ " rhs=" ++ toString f.rhsDeps)) ++ ["(contains is not a comparison of self with the handle)"]).map q)}}"
  IO.println s!"viol\t\{\"theorem\": \"no_explicit_auto_impls\", \"entries\": {jl (table.violAutoImpls.map q)}}"
  IO.println s!"viol\t\{\"theorem\": \"callbacks_present\", \"entries\": {jl ((requiredCallbacks.filter (fun n => (table.callbackNamed n).isNone)).map q)}}"
  IO.println s!"viol\t\{\"theorem\": \"callbacks_higher_ranked\", \"entries\": {jl (((table.clientCallbacks.filter (fun cb => !cb.ok)).map (·.name)).map q)}}"
  IO.println s!"viol\t\{\"theorem\": \"collect_static_only\", \"entries\": {jl (table.violCollect.map q)}}"
  IO.println s!"viol\t\{\"theorem\": \"transmutes_guarded\", \"entries\": {jl (table.violTransmutes.map q)}}"
  IO.println s!"viol\t\{\"theorem\": \"write_transparent\", \"entries\": {jl (if table.writeTransparent then [] else [q "Write"])}}"

#eval main
