import GcArena.Model.Conv
/-
  convmodel — line-protocol driver of the conversion model (property C19, dynamic half).

  stdin: one query per line; stdout: exactly one answer line per input line.

    case <target> <chain> <placement> <schedule> <phase> <age>
        target:    sized | array:<n> | slice:<n> | swh:<n> | swa:<n> | str:<n> | dyn | zst:<align> | zc:<align>:<maxalign>
        chain:     `-` or step names joined by `,`:
                   copy erase erase_kind cast from_thin as_thin as_fat ptr ptr_kind thin_ptr unsize
                   downgrade upgrade stash
        placement: conv (only the converted pointer is rooted) | orig (only the original) |
                   both | dyn (the converted pointer is stashed in a DynamicRootSet, the handle is
                   kept outside the arena)
        schedule:  full | inc
        phase:     sleep | mark | sweep | sweepmid  (collector phase when the chain runs)
        age:       fresh | black | ww  (target allocated in the converting callback / earlier and
                   strongly rooted / earlier and only weakly rooted: the chain then starts from the
                   weak pointer); `Conv.scenarioState` maps (phase, age) to live / condemned / dead
        Answer (independent of the schedule, and of phase and age except through that state):
          `ok final=<s|w>/<thin|fat>/<unit|slice|str>/<orig|unit|uns> words=<1|2> dlen=<n|vt|->
              same=1 state=<live|condemned|dead> read=<original value tokens read through the
              final pointer|-> keeps=<0|1> stash=<0|1> up_after=<some|none|na>  (`upgrade` of the rooted converted weak pointer once the value is destructed)
              drops=<at alloc>+<at destruction> as=<name of the type whose destructor ran|->`
          `upgrade-none <index of the refused upgrade> state=… drops=…`
          `ill-typed <index of the first ill-typed step>` | `bad-placement`
    ill <target> <chain> <s|w>  Answer as for `case` without the placement-dependent fields
                                (start pointer strong / weak).
    enum <target> <s|w>         Answer `enum ok` (the harness reports that it could enumerate).
    count <target> <len> <s|w>  Answer `count <number of well-typed chains of exactly that length>`.
    alias <maxalign> <t1> <t2> <same|diff|fresh> <chain1> <chain2>
        two zero-sized values of different types (`z:<align>` / `zn:<align>` unit structs with /
        without destructor, `u:<n>` = `[(); n]`) from the same `ZstCache<maxalign>`, from two caches,
        or the second from `Gc::new`; each converted by its chain.  Answer
        `ok cmp=<tags of the common Rust type|-> eq=<typed ptr_eq|-> eeq=<ptr_eq after erase>` |
        `ill-typed <1|2> <k>`.
    zkeep <holder> <align> <maxalign> <full|inc>
        a `ZstCache<maxalign>` held in the root as <holder> (root | field | option | box | vec |
        tuple), one zero-sized value of that alignment allocated, a collection schedule, then
        `alloc` + `alloc_static` again.  Answer `ok shared=<0|1> kept=<cache block not released>
        same=<same pointer as before|-> count=<allocations alive afterwards, holder's own excluded>`.
    prefix <n> <k>              `Gc::from_ptr` of a `[u8]` prefix (length k) of an allocation of n
                                bytes.  Answer `ok eq=<0|1> weq=<0|1> eeq=<0|1>`.
    zst <size> <align> <maxalign> <alloc|alloc_static>
        Answer `shared=<0|1> fresh=<0|1> drops_now=<n> drops_later=<n> aligned=<0|1>` (aligned:
        is an address that is a multiple of <maxalign> a multiple of <align>, when shared).

  Anything else is answered `bad-query`.  Nothing is ever defaulted.
-/
open GcArena.Conv

def words (s : String) : List String :=
  (s.trimAscii.toString.splitOn " ").filter (· ≠ "")

def parseTarget (s : String) : Option Target :=
  match s.splitOn ":" with
  | ["sized"] => some .sized
  | ["dyn"] => some .dyn
  | ["array", n] => n.toNat?.map .array
  | ["slice", n] => n.toNat?.map .slice
  | ["swh", n] => n.toNat?.map .swh
  -- `swa`: the same target with an over-aligned (align 32) header type on the implementation side;
  -- alignment is not observable in the conversion model (it is C17's subject), so it is `.swh` here
  | ["swa", n] => n.toNat?.map .swh
  | ["str", n] => n.toNat?.map .str
  | ["zst", a] => a.toNat?.map .zst
  | ["zc", a, m] =>
    match a.toNat?, m.toNat? with
    | some a, some m => if zstShared 0 a m then some (.zcached a m) else some (.zst a)
    | _, _ => none
  | _ => none

def parseStep : String → Option Step
  | "copy" => some .copy
  | "erase" => some .erase
  | "erase_kind" => some .eraseKind
  | "cast" => some .cast
  | "from_thin" => some .fromThin
  | "as_thin" => some .asThin
  | "as_fat" => some .asFat
  | "ptr" => some .ptr
  | "ptr_kind" => some .ptrKind
  | "thin_ptr" => some .thinPtr
  | "unsize" => some .unsize
  | "downgrade" => some .downgrade
  | "upgrade" => some .upgrade
  | "stash" => some .stash
  | _ => none

def parseChain (s : String) : Option Chain :=
  if s = "-" then some [] else (s.splitOn ",").mapM parseStep

def showPMeta : PMeta → String
  | .unit => "unit" | .slice => "slice" | .str => "str"

def showTy : Ty → String
  | .orig => "orig" | .unit => "unit" | .uns => "uns"

def showMeta : Meta → String
  | .none => "-" | .len n => toString n | .vtable _ => "vt"

def showShape (t : Target) (p q : PtrVal) : String :=
  let same := if q.obj = p.obj ∧ q.off = p.off then 1 else 0
  s!"final={if q.weak then "w" else "s"}/{if q.thin then "thin" else "fat"}/{showPMeta q.pmeta}/{showTy q.ty} " ++
  s!"words={q.words} dlen={showMeta (derefMeta t q)} same={same}"

def parsePhase : String → Option Phase
  | "sleep" => some .sleep
  | "mark" => some .mark
  | "sweep" => some .sweep
  | "sweepmid" => some .sweepMid
  | _ => none

def parseAge : String → Option Age
  | "fresh" => some .fresh
  | "black" => some .black
  | "ww" => some .ww
  | _ => none

/-- Index of the first step at which the chain stops with `none` (only an `upgrade` can, on a
    well-typed chain). -/
def firstFailure (a : Alloc) : Chain → PtrVal → Nat → Option Nat
  | [], _, _ => none
  | s :: ch, p, k =>
    match step a s p with
    | some q => firstFailure a ch q (k + 1)
    | none => some k

/-- Name of the type whose destructor the harness logs for a target (`-`: nothing to log). -/
def dropTagName : Target → String
  | .sized | .dyn => "Payload"
  | .array n | .slice n | .swh n => if n = 0 then "-" else "Elem"
  | .str _ => "-"
  | .zst a => s!"Z{a}"
  | .zcached a _ => s!"ZC{a}"

/-- Number of original value tokens a dereference of `q` reads (`-`: cannot be dereferenced). -/
def showRead (a : Alloc) (q : PtrVal) : String :=
  let s := store a 0 (List.range a.target.elemCount)
  let q' := if q.weak && a.upgradable then { q with weak := false } else q
  match deref s q' with
  | some (.whole _ ts) | some (.dynOf _ ts) | some (.sliceOf ts) =>
    -- all of them, or the view is not the original value
    if ts = s.tokens then toString ts.length else "bad"
  | some .unit => "0"
  | none => "-"

def answerCase (t : Target) (ch : Chain) (placement : Option String) (ph : Phase) (age : Age) : String :=
  let st := scenarioState ph age
  let a : Alloc := ⟨0, t, st.1, st.2⟩
  let p := if age = .ww then initWeak a else initPtr a
  let stateS := if !st.1 then "dead" else if st.2 then "condemned" else "live"
  let drops := s!"drops={t.dropsAtAlloc}+{t.dropsAtDestruct} as={dropTagName t}"
  match firstIllTyped t ch p 0 with
  | some k => s!"ill-typed {k}"
  | none =>
    match apply a ch p with
    | none =>
      match firstFailure a ch p 0 with
      | some k => s!"upgrade-none {k} state={stateS} {drops}"
      | none => "bad-query"
    | some q =>
      let shape := showShape t p q
      match placement with
      | none => "ok " ++ shape
      | some pl =>
        let stashable := applicable t .stash q
        let keeps? : Option Bool :=
          match pl with
          | "conv" => some (!q.weak)
          | "orig" => some (!p.weak)
          | "both" => some (!q.weak || !p.weak)
          | "dyn" => if stashable then some true else none
          | _ => none
        match keeps? with
        | none => "bad-placement"
        | some keeps =>
          let dead : Alloc := { a with live := false }
          -- observed only when the converted weak pointer itself is rooted
          let up :=
            if q.weak && (pl == "conv" || pl == "both") then
              (match step dead .upgrade q with
               | none => "none"
               | some _ => "some")
            else "na"
          s!"ok {shape} state={stateS} read={showRead a q} keeps={if keeps && st.1 then 1 else 0} " ++
          s!"stash={if stashable then 1 else 0} up_after={up} {drops}"

/-- A zero-sized type of the aliasing grid: `z:<align>` / `zn:<align>` (a unit struct with /
    without a destructor) or `u:<n>` (`[(); n]`).  Returns (target when it gets its own block or
    the cache's block, alignment). -/
def parseZ (s : String) (maxAlign : Nat) : Option (Target × Nat) :=
  match s.splitOn ":" with
  | ["z", a] | ["zn", a] =>
    a.toNat?.bind fun a => if a = 0 then none else
      some (if zstShared 0 a maxAlign then .zcached a maxAlign else .zst a, a)
  | ["u", n] => n.toNat?.map fun n => (.array n, 1)
  | _ => none

def showTags (q : PtrVal) : String :=
  s!"{if q.weak then "w" else "s"}/{if q.thin then "thin" else "fat"}/{showPMeta q.pmeta}/{showTy q.ty}"

/-- `alias`: block ids — cache A = 0, cache B = 10, fresh blocks 1 and 2. -/
def answerAlias (m : Nat) (t1 t2 : Target × Nat) (rel : String) (ch1 ch2 : Chain) : String :=
  let q1? := zstShared 0 t1.2 m
  let q2? := zstShared 0 t2.2 m
  let id1 := if q1? then 0 else 1
  let id2? : Option Nat :=
    match rel with
    | "same" => some (if q2? then 0 else 2)
    | "diff" => some (if q2? then 10 else 2)
    | "fresh" => some 2
    | _ => none
  match id2? with
  | none => "bad-query"
  | some id2 =>
    -- a value that does not come from the cache is an ordinary allocation of its type
    let tgt (t : Target × Nat) (cached : Bool) : Target :=
      match t.1 with
      | .zcached a _ => if cached then t.1 else .zst a
      | x => x
    let a1 : Alloc := ⟨id1, tgt t1 q1?, true, false⟩
    let a2 : Alloc := ⟨id2, tgt t2 (q2? && rel != "fresh"), true, false⟩
    match firstIllTyped a1.target ch1 (initPtr a1) 0, firstIllTyped a2.target ch2 (initPtr a2) 0 with
    | some k, _ => s!"ill-typed 1 {k}"
    | none, some k => s!"ill-typed 2 {k}"
    | none, none =>
      match apply a1 ch1 (initPtr a1), apply a2 ch2 (initPtr a2) with
      | some r1, some r2 =>
        let eeq := if samePtr r1 r2 then 1 else 0
        -- the two ends have the same Rust type iff all tags agree and the static type is not one
        -- of the two (different) allocated types
        let comparable := r1.weak == r2.weak && r1.thin == r2.thin && r1.pmeta == r2.pmeta &&
          r1.ty == r2.ty && r1.ty != .orig
        if comparable then s!"ok cmp={showTags r1} eq={eeq} eeq={eeq}" else s!"ok cmp=- eq=- eeq={eeq}"
      | _, _ => "bad-query"

def answer (ws : List String) : String :=
  match ws with
  | ["case", t, ch, pl, sched, phase, age] =>
    if ¬ (sched = "full" ∨ sched = "inc") then "bad-query"
    else
      match parseTarget t, parseChain ch, parsePhase phase, parseAge age with
      | some t, some ch, some ph, some age => answerCase t ch (some pl) ph age
      | _, _, _, _ => "bad-query"
  | ["ill", t, ch, w] =>
    match parseTarget t, parseChain ch, (if w = "s" then some Age.fresh else if w = "w" then some Age.ww else none) with
    | some t, some ch, some age => answerCase t ch none .sleep age
    | _, _, _ => "bad-query"
  | ["alias", m, t1, t2, rel, ch1, ch2] =>
    match m.toNat? with
    | some m =>
      if m = 0 then "bad-query" else
      match parseZ t1 m, parseZ t2 m, parseChain ch1, parseChain ch2 with
      | some t1, some t2, some ch1, some ch2 => answerAlias m t1 t2 rel ch1 ch2
      | _, _, _, _ => "bad-query"
    | none => "bad-query"
  | ["zkeep", holder, align, maxAlign, sched] =>
    -- a cache held in the root (directly or inside a container / struct field) keeps its block
    -- through any collection schedule; a later `alloc` + `alloc_static` of a qualifying type
    -- return the same pointer again and allocate nothing, of a non-qualifying one two fresh blocks
    if ¬ (["root", "field", "option", "box", "vec", "tuple"].contains holder) ∨ ¬ (sched = "full" ∨ sched = "inc") then
      "bad-query"
    else
      match align.toNat?, maxAlign.toNat? with
      | some align, some maxAlign =>
        if align = 0 ∨ maxAlign = 0 then "bad-query" else
        let c : Cache := ⟨0, maxAlign * 7, maxAlign⟩
        let r1 := c.alloc 1 0 align
        let r2 := c.alloc 2 0 align
        let r3 := c.alloc 3 0 align
        let sh := zstShared 0 align maxAlign
        let same := if sh then (if r2.obj = r1.obj ∧ r3.obj = r1.obj then "1" else "0") else "-"
        let count := 1 + (if r2.fresh then 1 else 0) + (if r3.fresh then 1 else 0)
        s!"ok shared={if sh then 1 else 0} kept=1 same={same} count={count}"
      | _, _ => "bad-query"
  | ["prefix", n, k] =>
    -- `Gc::from_ptr` of a `[u8]` prefix of the same allocation: same (obj, off), other length
    match n.toNat?, k.toNat? with
    | some n, some k =>
      if k ≤ n then
        let p : PtrVal := ⟨0, 0, false, false, .unit, .orig, .len n⟩
        let q : PtrVal := { p with carried := .len k }
        let e := if samePtr p q then 1 else 0
        s!"ok eq={e} weq={e} eeq={e}"
      else "bad-query"
    | _, _ => "bad-query"
  | ["enum", t, w] =>
    -- the harness enumerated the chains the real API accepts for this target without incident
    match parseTarget t with
    | some _ => if w = "s" ∨ w = "w" then "enum ok" else "bad-query"
    | none => "bad-query"
  | ["count", t, n, w] =>
    match parseTarget t, n.toNat?, (if w = "s" then some false else if w = "w" then some true else none) with
    | some t, some n, some weak =>
      let a : Alloc := ⟨0, t, true, false⟩
      s!"count {(chainsOfLen t n (if weak then initWeak a else initPtr a)).length}"
    | _, _, _ => "bad-query"
  | ["zst", size, align, maxAlign, method] =>
    if ¬ (method = "alloc" ∨ method = "alloc_static") then "bad-query" else
    match size.toNat?, align.toNat?, maxAlign.toNat? with
    | some size, some align, some maxAlign =>
      if align = 0 ∨ maxAlign = 0 then "bad-query" else
      let c : Cache := ⟨0, maxAlign * 7, maxAlign⟩
      let r := c.alloc 1 size align
      let sh := zstShared size align maxAlign
      let aligned := if sh then (if c.addr % align = 0 then 1 else 0) else 1
      s!"shared={if sh then 1 else 0} fresh={if r.fresh then 1 else 0} drops_now={r.dropsNow} " ++
      s!"drops_later={r.dropsLater} aligned={aligned}"
    | _, _, _ => "bad-query"
  | _ => "bad-query"

partial def loop (h : IO.FS.Stream) (out : IO.FS.Stream) : IO Unit := do
  let line ← h.getLine
  if line.isEmpty then return
  out.putStrLn (answer (words line))
  loop h out

def main : IO Unit := do
  let stdin ← IO.getStdin
  let stdout ← IO.getStdout
  loop stdin stdout
