import GcArena.Model.DynRoots
/-
  dynmodel — line-protocol driver of the DynamicRootSet model (property C14).

  stdin: one operation per line; stdout: exactly one answer line per input line.
  Sets and handles are named by the caller (any token without blanks); pointers are numbers
  (the id of the stashed payload object).

    reset                      forget everything (start of a new case)          -> ok
    newset <s>                 DynamicRootSet::new                              -> ok
    stash <s> <ptr> <h>        h = s.stash(ptr)                                 -> <index>
    clone <h> <h2>             h2 = h.clone()                                   -> ok
    drop <h>                   drop(h)                                          -> ok
                               (`h.clone_from(&h2)` has no line of its own: `Clone::clone_from` is
                               `*h = h2.clone()`, i.e. for this protocol exactly `drop <h>` followed by
                               `clone <h2> <h>` — the harness op `clonefrom h h2` emits these two lines)
    fetch <s> <h>              s.fetch(&h)                                      -> <ptr> | panic:mismatched root set
    tryfetch <s> <h>           s.try_fetch(&h)                                  -> <ptr> | mismatch
    contains <s> <h>           s.contains(&h)                                   -> true | false
    destroy <s>                the set object is gone (collected / arena dropped;
                               also: unlinked from the root, hence never observable again)
                                                                                -> ok
    dump <s>                   -> slots [V:<next|-> O:<ptr>:<ref_count> …] free <idx|->
                                  | destroyed

  A panic of `add` / `inc` / `dec` is answered `panic:<message>`.  An empty line or a line
  starting with `#` is answered by an empty line / echoed.  Anything else — unknown keyword,
  wrong arity, unknown or re-used name, a number that does not parse, an operation that safe Rust
  cannot express (dead handle, destroyed set as receiver) — is answered `bad-op` and changes
  nothing.  Nothing is ever defaulted.
-/
open GcArena.DynRoots

structure Drv where
  st : State := State.init
  setNames : List (String × Nat) := []
  hNames : List (String × Handle) := []

def words (s : String) : List String :=
  (s.trimAscii.toString.splitOn " ").filter (· ≠ "")

def Drv.set? (d : Drv) (n : String) : Option Nat := d.setNames.lookup n
def Drv.h? (d : Drv) (n : String) : Option Handle := d.hNames.lookup n

def showPanic (f : Fault) : String := "panic:" ++ f.message

def handle (d : Drv) (line : String) : Drv × String :=
  match words line with
  | ["reset"] => ({}, "ok")
  | ["newset", s] =>
    match d.set? s with
    | some _ => (d, "bad-op")
    | none =>
      match step d.st .newSet with
      | .ok st (.set id) => ({ d with st := st, setNames := (s, id) :: d.setNames }, "ok")
      | _ => (d, "bad-op")
  | ["stash", s, p, h] =>
    match d.set? s, p.toNat?, d.h? h with
    | some sid, some ptr, none =>
      match step d.st (.stash sid ptr) with
      | .ok st (.handle hd) => ({ d with st := st, hNames := (h, hd) :: d.hNames }, toString hd.index)
      | .panic f => (d, showPanic f)
      | _ => (d, "bad-op")
    | _, _, _ => (d, "bad-op")
  | ["clone", h, h2] =>
    match d.h? h, d.h? h2 with
    | some hd, none =>
      match step d.st (.clone hd) with
      | .ok st (.handle hd2) => ({ d with st := st, hNames := (h2, hd2) :: d.hNames }, "ok")
      | .panic f => (d, showPanic f)
      | _ => (d, "bad-op")
    | _, _ => (d, "bad-op")
  | ["drop", h] =>
    match d.h? h with
    | some hd =>
      match step d.st (.dropHandle hd) with
      | .ok st _ => ({ d with st := st, hNames := d.hNames.filter (·.1 ≠ h) }, "ok")
      | .panic f => (d, showPanic f)   -- unreachable: theorem C14.no_panic
      | _ => (d, "bad-op")
    | none => (d, "bad-op")
  | ["fetch", s, h] =>
    match d.set? s, d.h? h with
    | some sid, some hd =>
      match step d.st (.fetch sid hd) with
      | .ok _ (.ptr p) => (d, toString p)
      | .panic f => (d, showPanic f)
      | _ => (d, "bad-op")
    | _, _ => (d, "bad-op")
  | ["tryfetch", s, h] =>
    match d.set? s, d.h? h with
    | some sid, some hd =>
      match step d.st (.tryFetch sid hd) with
      | .ok _ (.ptr p) => (d, toString p)
      | .ok _ .mismatch => (d, "mismatch")
      | .panic f => (d, showPanic f)
      | _ => (d, "bad-op")
    | _, _ => (d, "bad-op")
  | ["contains", s, h] =>
    match d.set? s, d.h? h with
    | some sid, some hd =>
      match step d.st (.contains sid hd) with
      | .ok _ (.bool b) => (d, if b then "true" else "false")
      | .panic f => (d, showPanic f)
      | _ => (d, "bad-op")
    | _, _ => (d, "bad-op")
  | ["destroy", s] =>
    match d.set? s with
    | some sid =>
      match step d.st (.destroySet sid) with
      | .ok st _ => ({ d with st := st }, "ok")
      | _ => (d, "bad-op")
    | none => (d, "bad-op")
  | ["dump", s] =>
    match d.set? s with
    | some sid =>
      match d.st.sets[sid]? with
      | some rs => (d, if rs.alive then rs.slots.show else "destroyed")
      | none => (d, "bad-op")
    | none => (d, "bad-op")
  | _ => (d, "bad-op")

partial def loop (stdin stdout : IO.FS.Stream) (d : Drv) : IO Unit := do
  let line ← stdin.getLine
  if line.isEmpty then return ()
  let t := line.trimAscii.toString
  if t.isEmpty then
    stdout.putStrLn ""
    loop stdin stdout d
  else if t.startsWith "#" then
    stdout.putStrLn t
    loop stdin stdout d
  else
    let (d', a) := handle d t
    stdout.putStrLn a
    loop stdin stdout d'

def main : IO Unit := do
  let stdin ← IO.getStdin
  let stdout ← IO.getStdout
  loop stdin stdout {}
  stdout.flush
