import GcArena.Model.Builder
/-
  layoutmodel — line-protocol driver of the layout model (C17) and the builder model (C18).

  stdin: one query per line; stdout: exactly one answer line per input line.

    config <max_size> <hdr_size> <hdr_align> <word>
        must come first: isize::MAX, size/alignment of GcHeader as observed by the harness,
        size_of::<usize>().  Answer `config ok`.
    sized <meta_size> <meta_align> <value_size> <value_align>
    dst <slice|str|swh|slice-direct|str-direct|swh-direct> <h_size> <h_align> <e_size> <e_align> <len>
        Answer `alloc <size> <align> value <off> header <off> meta <off|-> written <ivals|->
        release <size> <align> <base>` (+ ` vsize <n> valign <n> sliceoff <n>` for dst) or `none`.
    pair <sweep|weak-shell|drop-sleep|drop-marked|drop-sweep|builder> (sized … | dst <slice|str|swh> …)
        Answer `alloc <size> <align> release <size> <align>` (C04: what is requested is what is
        released, on every release history) or `none`.
    L from <size> <align> | L array <esize> <ealign> <n> | L extend <s1> <a1> <s2> <a2>
      | L pad <s> <a> | L padneeded <s> <a> <align>
        Answer `ok …` or `none`.
    tag <vtable_addr> <color> <needs_trace> <live>
        Answer `word <w> vtable <addr> color <c> nt <0|1> live <0|1>`.
    builder <gc|slice|swh|str> <plain|static> <h_size> <h_align> <e_size> <e_align> <n> <hdrop>
            <edrop> <action> [arg]
        actions: drop-new | drop-header | manual-drop <k> | panic <k> | complete | copy <m>
                 | assume-init
        Answer `events … | panic=<0|1> link=<n> gcs+<d> debt+<d> left=<n> contents=<ok|->`.

  Anything else — unknown keyword, wrong arity, a number that does not parse, a layout that is
  not the layout of a Rust type, a query before `config` — is answered `bad-query`.  Nothing is
  ever defaulted.
-/
open GcArena.Layout GcArena.Builder

structure Config where
  maxSize : Nat
  hdr : Layout
  word : Nat

def words (s : String) : List String :=
  (s.trimAscii.toString.splitOn " ").filter (· ≠ "")

def nats : List String → Option (List Nat)
  | [] => some []
  | s :: r =>
    match s.toNat?, nats r with
    | some x, some xs => some (x :: xs)
    | _, _ => none

def bit? : Nat → Option Bool
  | 0 => some false
  | 1 => some true
  | _ => none

/-- Merge the metadata interval and the header interval (metadata comes first). -/
def showWritten (mlo mhi hlo hhi : Nat) : String :=
  let iv (a b : Nat) := s!"{a}..{b}"
  if mlo = mhi ∧ hlo = hhi then "-"
  else if mlo = mhi then iv hlo hhi
  else if hlo = hhi then iv mlo mhi
  else if mhi = hlo then iv mlo hhi
  else iv mlo mhi ++ "," ++ iv hlo hhi

def showPlan (c : Config) (k : PtrKind) (ptrMeta : Nat) : Option String :=
  match gcAlloc c.maxSize c.hdr k ptrMeta with
  | none => none
  | some p =>
    let hoff := p.headerOff c.hdr
    let moff := p.metaOff
    let ms := k.pmeta.size
    let metaS := if ms = 0 then "-" else toString moff
    let rel :=
      match gcDealloc c.maxSize c.hdr k (valuePtr 0 p) ptrMeta with
      | some (base, l) => s!"{l.size} {l.align} {base}"
      | none => "panic"
    some (s!"alloc {p.alloc.size} {p.alloc.align} value {p.valueOff} header {hoff} meta {metaS} " ++
      s!"written {showWritten moff (moff + ms) hoff (hoff + c.hdr.size)} release {rel}")

def showLayout : Option Layout → String
  | some l => s!"ok {l.size} {l.align}"
  | none => "none"

def isType (c : Config) (l : Layout) : Bool := decide (IsTypeLayout c.maxSize l)

def parseKind : String → Option BKind
  | "gc" => some .gc
  | "slice" => some .slice
  | "swh" => some .swh
  | "str" => some .str
  | _ => none

/-- Actions of a scenario, after `create` (+ `writeHeader` for swh). -/
def scenario (kind : BKind) (n : Nat) : List String → Option (List Action)
  | ["drop-new"] => if kind = .gc ∨ kind = .swh then some [.create, .drop] else none
  | ["drop-header"] =>
    if kind = .gc then none
    else some ((if kind = .swh then [.create, .writeHeader] else [.create]) ++ [.drop])
  | ["manual-drop", k] =>
    match k.toNat? with
    | some k =>
      if kind = .gc ∨ kind = .str ∨ n < k then none
      else some ((if kind = .swh then [.create, .writeHeader] else [.create]) ++ [.drop])
    | none => none
  | ["panic", k] =>
    match k.toNat? with
    | some k =>
      if kind = .gc ∨ kind = .str then none
      else some ((if kind = .swh then [.create, .writeHeader] else [.create]) ++
        (List.range k).map (fun i => Action.writeElem (100 + i)) ++ [.ctorPanic])
    | none => none
  | ["complete"] =>
    match kind with
    | .gc => some [.create, .write 100]
    | .str => none
    | _ => some ((if kind = .swh then [.create, .writeHeader] else [.create]) ++
        (List.range n).map (fun i => Action.writeElem (100 + i)) ++ [.finish])
  | ["copy", m] =>
    match m.toNat? with
    | some m =>
      if kind = .gc then none
      else some ((if kind = .swh then [.create, .writeHeader] else [.create]) ++
        [.copy ((List.range m).map (fun i => 100 + i))])
    | none => none
  | ["assume-init"] =>
    if kind = .gc then some [.create, .assumeInit]
    else some ((if kind = .swh then [.create, .writeHeader] else [.create]) ++ [.assumeInit])
  | _ => none

def showEvents (hdrop edrop : Bool) (evs : List Event) : String :=
  let rec firstAlloc : List Event → Option Layout
    | [] => none
    | .allocB l :: _ => some l
    | _ :: r => firstAlloc r
  let a := firstAlloc evs
  let parts := evs.filterMap fun e =>
    match e with
    | .allocB l => some s!"alloc={l.size},{l.align}"
    | .deallocB l => some (if a = some l then "dealloc=same" else s!"dealloc={l.size},{l.align}")
    | .dropHeader => if hdrop then some "dropH" else none
    | .dropElem i => if edrop then some s!"dropE{i}" else none
    | .link => none
    | .panic => none
  if parts.isEmpty then "-" else " ".intercalate parts

def answerBuilder (c : Config) (ws : List String) : String :=
  match ws with
  | kind :: variant :: hs :: ha :: es :: ea :: n :: hd :: ed :: act =>
    match parseKind kind, nats [hs, ha, es, ea, n, hd, ed] with
    | some kind, some [hs, ha, es, ea, n, hd, ed] =>
      match bit? hd, bit? ed with
      | some hdrop, some edrop =>
        let cfg : Cfg := ⟨c.maxSize, c.hdr, c.word, kind, ⟨hs, ha⟩, ⟨es, ea⟩, n⟩
        if ¬ (variant = "plain" ∨ variant = "static") then "bad-query"
        else if ¬ (isType c cfg.hl ∧ isType c cfg.el ∧ cfg.wf) then "bad-query"
        else if hdrop ∧ kind ≠ .swh then "bad-query"   -- `()` headers have no destructor
        else if edrop ∧ kind = .str then "bad-query"      -- `u8` has no destructor
        else
          match scenario kind n act with
          | none => "bad-query"
          | some acts =>
            let g0 := 7
            let a0 := 3
            let s := run cfg (initial g0 a0) acts
            if s.stuck then "bad-query" else
            let pan := s.events.any (· == .panic)
            let links := s.events.count .link
            let allocs := (s.events.filter fun e => match e with | .allocB _ => true | _ => false).length
            let deallocs := (s.events.filter fun e => match e with | .deallocB _ => true | _ => false).length
            let contents := if s.stage = .linked then "ok" else "-"
            -- for a sized `T` with a destructor the value itself is the "element"
            s!"events {showEvents hdrop edrop s.events} | panic={if pan then 1 else 0} link={links} " ++
              s!"gcs+{s.gcs - g0} debt+{s.allocated - a0} left={allocs - deallocs} contents={contents}"
      | _, _ => "bad-query"
    | _, _ => "bad-query"
  | _ => "bad-query"

def answer (c : Config) (ws : List String) : String :=
  match ws with
  | ["sized", ms, ma, vs, va] =>
    match nats [ms, ma, vs, va] with
    | some [ms, ma, vs, va] =>
      let pm : Layout := ⟨ms, ma⟩
      let v : Layout := ⟨vs, va⟩
      if isType c pm ∧ isType c v then (showPlan c (customKind pm v) 0).getD "none" else "bad-query"
    | _ => "bad-query"
  | ["dst", kind, hs, ha, es, ea, len] =>
    match nats [hs, ha, es, ea, len] with
    | some [hs, ha, es, ea, len] =>
      let h : Layout := ⟨hs, ha⟩
      let e : Layout := ⟨es, ea⟩
      let okKind :=
        -- `…-direct`: the same `AllocMeta` impl reached directly through
        -- `GcBuilder::new_with_type_and_ptr_meta` (`SlicePtrMeta` = `sliceKind`,
        -- `StrPtrMeta` = `strKind`, `SliceWithHeaderPtrMeta` = `sliceWithHeaderKind`)
        match kind with
        | "slice" | "slice-direct" => h == unitLayout
        | "str" | "str-direct" => h == unitLayout && e == byteLayout
        | "swh" | "swh-direct" => true
        | _ => false
      if okKind && isType c h && isType c e && isType c ⟨c.word, c.word⟩ then
        let k := sliceWithHeaderKind c.maxSize c.word h e
        match showPlan c k len, k.layoutOf len with
        | some s, some v => s ++ s!" vsize {v.size} valign {v.align} sliceoff {sliceFieldOff h e}"
        | _, _ => "none"
      else "bad-query"
    | _ => "bad-query"
  -- C04: alloc / release pairing over a release history (the history does not change the layouts)
  | "pair" :: hist :: rest =>
    if ¬ (hist ∈ ["sweep", "weak-shell", "drop-sleep", "drop-marked", "drop-sweep", "builder"]) then "bad-query"
    else
      let kind? : Option (PtrKind × Nat) :=
        match rest with
        | ["sized", ms, ma, vs, va] =>
          match nats [ms, ma, vs, va] with
          | some [ms, ma, vs, va] =>
            if isType c ⟨ms, ma⟩ ∧ isType c ⟨vs, va⟩ then some (customKind ⟨ms, ma⟩ ⟨vs, va⟩, 0) else none
          | _ => none
        | ["dst", kind, hs, ha, es, ea, len] =>
          match nats [hs, ha, es, ea, len] with
          | some [hs, ha, es, ea, len] =>
            let h : Layout := ⟨hs, ha⟩
            let e : Layout := ⟨es, ea⟩
            let okKind :=
              match kind with
              | "slice" => h == unitLayout
              | "str" => h == unitLayout && e == byteLayout
              | "swh" => true
              | _ => false
            if okKind && isType c h && isType c e && isType c ⟨c.word, c.word⟩ then
              some (sliceWithHeaderKind c.maxSize c.word h e, len)
            else none
          | _ => none
        | _ => none
      match kind? with
      | none => "bad-query"
      | some (k, pm) =>
        match gcAlloc c.maxSize c.hdr k pm with
        | none => "none"
        | some p =>
          match gcDealloc c.maxSize c.hdr k (valuePtr 0 p) pm with
          | some (_, l) => s!"alloc {p.alloc.size} {p.alloc.align} release {l.size} {l.align}"
          | none => s!"alloc {p.alloc.size} {p.alloc.align} release panic"
  | ["L", "from", s, a] =>
    match nats [s, a] with
    | some [s, a] => showLayout (fromSizeAlign c.maxSize s a)
    | _ => "bad-query"
  | ["L", "array", es, ea, n] =>
    match nats [es, ea, n] with
    | some [es, ea, n] => if isType c ⟨es, ea⟩ then showLayout (array c.maxSize ⟨es, ea⟩ n) else "bad-query"
    | _ => "bad-query"
  | ["L", "extend", s1, a1, s2, a2] =>
    match nats [s1, a1, s2, a2] with
    | some [s1, a1, s2, a2] =>
      let l1 : Layout := ⟨s1, a1⟩
      let l2 : Layout := ⟨s2, a2⟩
      if decide (l1.Valid c.maxSize) ∧ decide (l2.Valid c.maxSize) then
        match extend c.maxSize l1 l2 with
        | some (l, off) => s!"ok {l.size} {l.align} {off}"
        | none => "none"
      else "bad-query"
    | _ => "bad-query"
  | ["L", "pad", s, a] =>
    match nats [s, a] with
    | some [s, a] =>
      if decide ((⟨s, a⟩ : Layout).Valid c.maxSize) then showLayout (some (padToAlign ⟨s, a⟩)) else "bad-query"
    | _ => "bad-query"
  | ["L", "padneeded", s, a, al] =>
    match nats [s, a, al] with
    | some [s, a, al] =>
      if decide ((⟨s, a⟩ : Layout).Valid c.maxSize) ∧ isPow2 al then s!"ok {paddingNeededFor ⟨s, a⟩ al}"
      else "bad-query"
    | _ => "bad-query"
  | ["tag", vt, col, nt, lv] =>
    match nats [vt, col, nt, lv] with
    | some [vt, col, nt, lv] =>
      let bits := 8 * c.word
      match bit? nt, bit? lv with
      | some nt, some lv =>
        if vt % vtableAlign = 0 ∧ vt < 2 ^ bits ∧ col < 4 ∧ 4 ≤ bits then
          let w := hdrWord bits vt col nt lv
          s!"word {w} vtable {untag bits w} color {hdrColor w} nt {if hdrNeedsTrace w then 1 else 0} live {if hdrIsLive w then 1 else 0}"
        else "bad-query"
      | _, _ => "bad-query"
    | _ => "bad-query"
  | "builder" :: rest => answerBuilder c rest
  | _ => "bad-query"

partial def loop (h : IO.FS.Stream) (out : IO.FS.Stream) (cfg : Option Config) : IO Unit := do
  let line ← h.getLine
  if line.isEmpty then return
  let ws := words line
  match ws, cfg with
  | ["config", m, hs, ha, w], _ =>
    match nats [m, hs, ha, w] with
    | some [m, hs, ha, w] =>
      let c : Config := ⟨m, ⟨hs, ha⟩, w⟩
      if isType c c.hdr ∧ isType c ⟨w, w⟩ ∧ isPow2 (m + 1) then
        out.putStrLn "config ok"
        loop h out (some c)
      else
        out.putStrLn "bad-query"
        loop h out cfg
    | _ =>
      out.putStrLn "bad-query"
      loop h out cfg
  | _, none =>
    out.putStrLn "bad-query"
    loop h out cfg
  | ws, some c =>
    out.putStrLn (answer c ws)
    loop h out cfg

def main : IO Unit := do
  let stdin ← IO.getStdin
  let stdout ← IO.getStdout
  loop stdin stdout none
