import GcArena.Model.Parse
/-
  gcmodel — line-protocol driver of the collector model (DESIGN §2.2).

  stdin:  `seq <n> …` | `op <arena> <op…>` followed by `obs <ret> | <ev> | <steps> | <snap> | <met>`
          (the implementation's observation of that op) | `end`.
  stdout: one line per sequence: `seq <n> ok ops=<k>` or
          `seq <n> DIFF line=<l> section=<s> op=<…> impl=<…> model=<…>`.
  argv:   `od` (oracle-driven: micro-steps of every collection call are taken from the
          implementation's log, metrics section not compared) or `sd` (self-driven: the model
          computes debt itself; every section compared).
-/
open GcArena

structure DState where
  arenas : Array (Option Arena) := #[]
  seqId : String := "-"
  ops : Nat := 0
  diverged : Bool := false
  nseq : Nat := 0
  ndiff : Nat := 0
  nops : Nat := 0
  pending : Option (Nat × List String × String) := none  -- arena, op words, raw op text
  tol : Bool := false   -- mode `odt`: tolerant metrics comparison
  /-- (arena, object) pairs whose value type has no drop glue (`alloc lockcell` / `alloc oncecell`:
      `Lock<T>` needs `T: Copy`, an empty `OnceLock` holds nothing): the implementation has no
      observable destructor run for them, so the model's `d<id>` event is left out of the `ev`
      comparison.  Their `live` flag is still compared, in the `snap` section of every op. -/
  nodrop : List (Nat × Nat) := []

def sections (s : String) : List String :=
  (s.splitOn " | ").map (fun x => x.trimAscii.toString)

def words (s : String) : List String :=
  (s.trimAscii.toString.splitOn " ").filter (· ≠ "")

def modelObs (a : Arena) (ret : String) (logBefore stepsBefore : Nat) : List String :=
  let c := a.ctx
  let evs := (c.log.take (c.log.length - logBefore)).reverse
  let steps := (c.steps.take (c.steps.length - stepsBefore)).reverse
  let uf := if c.metrics.underflow then " !underflow" else ""
  [ret ++ showErr c.err, showEvents evs, showSteps steps, showSnap a, showMet c.metrics ++ uf]

def sectionNames : List String := ["ret", "ev", "steps", "snap", "met"]

/-- Remove the `d<id>` events of arena `ai`'s drop-glue-free objects from an `ev` section. -/
def hideUnobservableDrops (nodrop : List (Nat × Nat)) (ai : Nat) (ev : String) : String :=
  let ws := (words ev).filter (fun w => !(nodrop.any (fun (a, i) => a == ai && w == s!"d{i}")))
  if ws.isEmpty then "-" else " ".intercalate ws

def hideInObs (nodrop : List (Nat × Nat)) (ai : Nat) (obs : List String) : List String :=
  match obs with
  | r :: ev :: rest => r :: hideUnobservableDrops nodrop ai ev :: rest
  | _ => obs

/-- `key=value` fields of a metrics section. -/
def metFields (s : String) : List (String × String) :=
  (words s).filterMap (fun w => match w.splitOn "=" with
    | [k, v] => some (k, v)
    | _ => none)

/-- Tolerant comparison of two metrics sections (mode `odt`, decimal pacing): counters must be
    equal; the amounts `wake`, `art`, `debt` — exact rationals in the model, f64 in the
    implementation (printed as the exact rational each f64 is) — must agree within
    `2^-30 * max(1, |model value|)`. -/
def metClose (impl model : String) : Bool :=
  let fi := metFields impl
  let fm := metFields model
  fi.length == fm.length && (fi.zip fm).all (fun ((ki, vi), (km, vm)) =>
    ki == km &&
      (if ki == "wake" || ki == "art" || ki == "debt" then
        match parseRat vi, parseRat vm with
        | some a, some b =>
          let d := if a ≤ b then b - a else a - b
          let scale : Rat := if (if b < 0 then -b else b) ≤ 1 then 1 else (if b < 0 then -b else b)
          decide (d * 1073741824 ≤ scale)
        | _, _ => vi == vm
      else vi == vm))

/-- Modes: `sd` compares everything exactly; `od` skips `met` and `steps` (oracle-driven);
    `odt` is `od` with the tolerant metrics comparison. -/
def compareObs (od : Bool) (impl model : List String) (tol : Bool := false) : Option (String × String × String) :=
  let rec go (ns im mo : List String) : Option (String × String × String) :=
    match ns, im, mo with
    | n :: ns, i :: im, m :: mo =>
      let skip := od && (n = "steps" || (n = "met" && !tol))
      let same := if tol && n = "met" then metClose i m else i == m
      if !skip && !same then some (n, i, m) else go ns im mo
    | [], [], [] => none
    | _, _, _ => some ("shape", toString impl.length, toString model.length)
  go sectionNames impl model

def handleObs (od : Bool) (st : DState) (lineNo : Nat) (obs : String) : IO DState := do
  match st.pending with
  | none =>
    IO.println s!"seq {st.seqId} DIFF line={lineNo} section=protocol op=- impl=obs-without-op model=-"
    return { st with diverged := true, ndiff := st.ndiff + 1 }
  | some (ai, ws, raw) =>
    let st := { st with pending := none }
    if st.diverged then return st
    let impl := sections obs
    let report (sec i m : String) : IO DState := do
      IO.println s!"seq {st.seqId} DIFF line={lineNo} section={sec} op={raw} impl={i} model={m}"
      return { st with diverged := true, ndiff := st.ndiff + 1 }
    -- arena creation
    match ws with
    | ["new", n] =>
      match n.toNat? with
      | none => report "parse" raw "-"
      | some n =>
        -- the protocol's `new` = `Arena::new` + `set_pacing(P0)` (harness/src/exec.rs `P0`)
        let p0 : Pacing := { sleepFactor := 1/2, minSleep := 4, markFactor := 1/8, traceFactor := 3/8,
                             keepFactor := 1/16, dropFactor := 1/4, freeFactor := 1/4 }
        let a := ((Arena.new n).step (.setPacing p0)).1
        let arenas := if ai < st.arenas.size then st.arenas.set! ai (some a)
          else (st.arenas ++ Array.replicate (ai - st.arenas.size) none).push (some a)
        let model := modelObs a "ok" 0 0
        match compareObs od impl model st.tol with
        | some (s, i, m) => report s i m
        | none => return { st with arenas := arenas, ops := st.ops + 1, nops := st.nops + 1 }
    | _ =>
      match st.arenas[ai]? with
      | some (some a) =>
        let steps := impl.getD 2 "-"
        match parseOp ws steps od with
        | none => report "parse" raw "-"
        | some op =>
          let lb := a.ctx.log.length
          let sb := a.ctx.steps.length
          let (a', ret) := a.step op
          let nodrop := match ws, ret.toNat? with
            | "alloc" :: "lockcell" :: _, some i => (ai, i) :: st.nodrop
            | "alloc" :: "oncecell" :: _, some i => (ai, i) :: st.nodrop
            | _, _ => st.nodrop
          let model := hideInObs nodrop ai (modelObs a' ret lb sb)
          match compareObs od impl model st.tol with
          | some (s, i, m) => report s i m
          | none =>
            return { st with arenas := st.arenas.set! ai (some a'), ops := st.ops + 1,
                             nops := st.nops + 1, nodrop := nodrop }
      | _ => report "arena" s!"{ai}" "no-such-arena"

partial def loop (od : Bool) (h : IO.FS.Stream) (st : DState) (lineNo : Nat) : IO DState := do
  let line ← h.getLine
  if line.isEmpty then return st
  let l := line.trimAscii.toString
  if l.startsWith "seq " then
    let id := (words l).getD 1 "-"
    loop od h { st with arenas := #[], seqId := id, ops := 0, diverged := false, pending := none,
                        nodrop := [] }
      (lineNo + 1)
  else if l.startsWith "op " then
    match words l with
    | _ :: ai :: ws =>
      match ai.toNat? with
      | some ai => loop od h { st with pending := some (ai, ws, l) } (lineNo + 1)
      | none =>
        IO.println s!"seq {st.seqId} DIFF line={lineNo} section=parse op={l} impl=- model=-"
        loop od h { st with diverged := true, ndiff := st.ndiff + 1 } (lineNo + 1)
    | _ => loop od h st (lineNo + 1)
  else if l.startsWith "obs " then
    let st ← handleObs od st lineNo ((l.drop 4).toString)
    loop od h st (lineNo + 1)
  else if l = "end" then
    if !st.diverged then IO.println s!"seq {st.seqId} ok ops={st.ops}"
    loop od h { st with nseq := st.nseq + 1 } (lineNo + 1)
  else loop od h st (lineNo + 1)

def main (args : List String) : IO UInt32 := do
  let od := args.head? != some "sd"
  let tol := args.head? == some "odt"
  let st ← loop od (← IO.getStdin) { tol := tol } 1
  IO.println s!"summary mode={args.head?.getD "od"} sequences={st.nseq} ops={st.nops} diffs={st.ndiff}"
  return (if st.ndiff = 0 then 0 else 1)
