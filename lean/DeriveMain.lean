import GcArena.Model.Derive
/-!
  derivemodel — line-protocol driver of the `derive(Collect)` model (C15; DESIGN §6 C15).

  stdin, one query per line (S-expressions, `[` `]` are synonyms of `(` `)`):

      case  <name> <ty> <val>     predict NEEDS_TRACE and the reported pointers of a value
      check <name> <ty>           predict only whether the type's derive compiles

      ty      := L | G | W | GS | WS | OS | ON | (P i) | (R s|n ty) | (C con ty*) | (A decl ty*)
                 (R s T) `&'static T`, (R n T) a reference with any other lifetime (`&'gc T`, `&'a T`,
                 `&'gc mut T`): `Collect` iff the lifetime is `'static` and `T: 'static`; never traced
                 L pointer-free `Collect` leaf, G `Gc`, W `GcWeak`, GS / WS `Gc<'gc, Self>` /
                 `GcWeak<'gc, Self>` (same meaning as G / W), OS / ON type without `Collect`
                 impl that is / is not `'static`, (P i) i-th type parameter of the enclosing decl
      con     := option | box | reflock | lock | oncelock | vec | array<n> | tuple | result | map | slicehdr
      decl    := (D struct|enum (attr*) <#lifetimes> <#tparams> drop|nodrop variant*)
      attr    := (opt*)                          one `#[collect(...)]` attribute
      opt     := require_static | no_drop | unsafe_drop | (bound i*) | (gc_lifetime i) | unknown
      variant := (V named|tuple|unit (attr*) field*)
      field   := (F (attr*) ty)
      val     := l | (g id) | (w id) | (o ptr*) | (c (pos val)*) | (a variant val*)
      ptr     := <id>:s | <id>:w

  stdout, one line per query:

      <name> needs_trace=<bool> reported=[<id>:s,<id>:w,…] direct=[…]
            reported = through `Trace::trace` (short-circuit), direct = `Collect::trace`; sorted
      <name> ok needs_trace=<bool>                      (check)
      <name> reject:<class> stage=<compile_error|macro_panic|rustc>
      <name> ill-typed                                  the value is not a value of the type
      bad-query <text>                                  anything that does not parse
-/
open GcArena.Derive

inductive Sexp where
  | atom (s : String)
  | list (xs : List Sexp)
  deriving Inhabited

def tokenize (s : String) : List String := Id.run do
  let mut toks : Array String := #[]
  let mut cur := ""
  for c in s.toList do
    if c == '(' || c == ')' || c == '[' || c == ']' then
      if cur ≠ "" then toks := toks.push cur; cur := ""
      toks := toks.push (if c == '(' || c == '[' then "(" else ")")
    else if c == ' ' || c == '\t' || c == '\r' || c == '\n' then
      if cur ≠ "" then toks := toks.push cur; cur := ""
    else cur := cur.push c
  if cur ≠ "" then toks := toks.push cur
  return toks.toList

/-- Parse one S-expression from the token list; the stack holds the open lists (reversed). -/
partial def parseSexps (toks : List String) (stack : List (List Sexp)) (done : List Sexp) :
    Option (List Sexp) :=
  match toks with
  | [] => if stack.isEmpty then some done.reverse else none
  | "(" :: rest => parseSexps rest ([] :: stack) done
  | ")" :: rest =>
    match stack with
    | [] => none
    | top :: [] => parseSexps rest [] (Sexp.list top.reverse :: done)
    | top :: next :: more => parseSexps rest ((Sexp.list top.reverse :: next) :: more) done
  | t :: rest =>
    match stack with
    | [] => parseSexps rest [] (Sexp.atom t :: done)
    | top :: more => parseSexps rest ((Sexp.atom t :: top) :: more) done

def conOf (s : String) : Option Con :=
  match s with
  | "option" => some .option | "box" => some .box | "reflock" => some .refLock
  | "lock" => some .lock | "oncelock" => some .onceLock | "vec" => some .vec
  | "tuple" => some .tuple | "result" => some .result | "map" => some .map
  | "slicehdr" => some .sliceWithHeader
  | _ => if s.startsWith "array" then (s.drop 5).toNat?.map Con.array else none

def natOf : Sexp → Option Nat
  | .atom s => s.toNat?
  | _ => none

def optOf : Sexp → Option Opt
  | .atom "require_static" => some (.mode .requireStatic)
  | .atom "no_drop" => some (.mode .noDrop)
  | .atom "unsafe_drop" => some (.mode .unsafeDrop)
  | .atom "unknown" => some .unknown
  | .list (.atom "bound" :: is) => (is.mapM natOf).map Opt.bound
  | .list [.atom "gc_lifetime", i] => (natOf i).map Opt.gcLifetime
  | _ => none

def attrOf : Sexp → Option Attr
  | .list os => os.mapM optOf
  | _ => none

def attrsOf : Sexp → Option (List Attr)
  | .list as => as.mapM attrOf
  | _ => none

def styleOf : Sexp → Option Style
  | .atom "named" => some .named | .atom "tuple" => some .tuple | .atom "unit" => some .unit
  | _ => none

mutual
partial def tyOf : Sexp → Option Ty
  | .atom "L" => some .leaf
  | .atom "G" => some .gc
  | .atom "W" => some .weak
  -- `Gc<'gc, Self>` / `GcWeak<'gc, Self>` (also `Gc<'gc, RefLock<Self>>`): a pointer leaf like any
  -- other — `Gc::trace` reports the pointer itself and NEEDS_TRACE is `true` whatever the pointee
  | .atom "GS" => some .gc
  | .atom "WS" => some .weak
  | .atom "OS" => some (.opaque true)
  | .atom "ON" => some (.opaque false)
  | .list [.atom "P", i] => (natOf i).map Ty.param
  | .list [.atom "R", .atom "s", t] => (tyOf t).map (Ty.ref true)
  | .list [.atom "R", .atom "n", t] => (tyOf t).map (Ty.ref false)
  | .list (.atom "C" :: .atom c :: args) => do
      let c ← conOf c
      let args ← args.mapM tyOf
      pure (.con c args)
  | .list (.atom "A" :: d :: args) => do
      let d ← declOf d
      let args ← args.mapM tyOf
      pure (.adt d args)
  | _ => none
partial def declOf : Sexp → Option Decl
  | .list (.atom "D" :: .atom kind :: attrs :: nlt :: ntp :: .atom drop :: vs) => do
      let isEnum ← (match kind with | "struct" => some false | "enum" => some true | _ => none)
      let attrs ← attrsOf attrs
      let nlt ← natOf nlt
      let ntp ← natOf ntp
      let hasDrop ← (match drop with | "drop" => some true | "nodrop" => some false | _ => none)
      let vs ← vs.mapM variantOf
      pure (.mk isEnum attrs nlt ntp hasDrop vs)
  | _ => none
partial def variantOf : Sexp → Option Variant
  | .list (.atom "V" :: st :: attrs :: fs) => do
      let st ← styleOf st
      let attrs ← attrsOf attrs
      let fs ← fs.mapM fieldOf
      pure (.mk st attrs fs)
  | _ => none
partial def fieldOf : Sexp → Option Field
  | .list [.atom "F", attrs, t] => do
      let attrs ← attrsOf attrs
      let t ← tyOf t
      pure (.mk attrs t)
  | _ => none
end

def ptrOf : Sexp → Option Ptr
  | .atom s =>
    match s.splitOn ":" with
    | [i, "s"] => i.toNat?.map (·, false)
    | [i, "w"] => i.toNat?.map (·, true)
    | _ => none
  | _ => none

mutual
partial def valOf : Sexp → Option Val
  | .atom "l" => some .leaf
  | .list [.atom "g", i] => (natOf i).map Val.gc
  | .list [.atom "w", i] => (natOf i).map Val.weak
  | .list (.atom "o" :: ps) => (ps.mapM ptrOf).map Val.opaque
  | .list (.atom "c" :: es) => (es.mapM elemOf).map Val.con
  | .list (.atom "a" :: k :: fs) => do
      let k ← natOf k
      let fs ← fs.mapM valOf
      pure (.adt k fs)
  | _ => none
partial def elemOf : Sexp → Option (Nat × Val)
  | .list [i, v] => do
      let i ← natOf i
      let v ← valOf v
      pure (i, v)
  | _ => none
end

def showPtr (p : Ptr) : String := toString p.1 ++ (if p.2 then ":w" else ":s")

def showPtrs (l : List Ptr) : String := "[" ++ ",".intercalate ((sortPtrs l).map showPtr) ++ "]"

def rejectName : Reject → String
  | .duplicateAttr => "duplicate_attr"
  | .multipleBounds => "multiple_bounds"
  | .multipleGcLifetimes => "multiple_gc_lifetimes"
  | .multipleModes => "multiple_modes"
  | .unknownOption => "unknown_option"
  | .fieldAttrNotRequireStatic => "field_attr"
  | .variantAttr => "variant_attr"
  | .missingMode => "missing_mode"
  | .multipleLifetimes => "multiple_lifetimes"
  | .dropConflict => "drop_conflict"
  | .notStatic => "not_static"
  | .notCollect => "not_collect"
  | .boundUnsatisfied => "bound_unsatisfied"
  | .undeclaredLifetime => "undeclared_lifetime"
  | .arity => "arity"

def stageName : Stage → String
  | .compileError => "compile_error"
  | .macroPanic => "macro_panic"
  | .rustc => "rustc"

def showReject (name : String) (e : Reject) : String :=
  name ++ " reject:" ++ rejectName e ++ " stage=" ++ stageName e.stage

/-- `none` if the (closed) type is `Collect`, the reason otherwise. For a derived ADT at top
level the reason is the derive's own verdict. -/
def verdict (t : Ty) : Option Reject :=
  match t with
  | .adt d args =>
    match deriveCheckIn (Ty.sems [] args) d with
    | .ok _ => none
    | .error e => some e
  | _ => if (t.sem []).collect then none else some .notCollect

def traceDirect (t : Ty) (v : Val) : List Ptr := (t.sem []).trace v

def answer (line : String) : String :=
  match parseSexps (tokenize line) [] [] with
  | some [.atom "case", .atom name, t, v] =>
    match tyOf t, valOf v with
    | some t, some v =>
      match verdict t with
      | some e => showReject name e
      | none =>
        let s := t.sem []
        if !s.check v then name ++ " ill-typed"
        else name ++ " needs_trace=" ++ toString s.needsTrace ++ " reported=" ++ showPtrs (s.visit v)
          ++ " direct=" ++ showPtrs (traceDirect t v)
    | _, _ => "bad-query " ++ line
  | some [.atom "check", .atom name, t] =>
    match tyOf t with
    | some t =>
      match verdict t with
      | some e => showReject name e
      | none => name ++ " ok needs_trace=" ++ toString (t.sem []).needsTrace
    | none => "bad-query " ++ line
  | _ => "bad-query " ++ line

partial def loop (stdin : IO.FS.Stream) (stdout : IO.FS.Stream) : IO Unit := do
  let line ← stdin.getLine
  if line.isEmpty then return ()
  let l := line.trimAscii.toString
  if l ≠ "" && !l.startsWith "#" then
    stdout.putStrLn (answer l)
  loop stdin stdout

def main : IO Unit := do
  let stdin ← IO.getStdin
  let stdout ← IO.getStdout
  loop stdin stdout
  stdout.flush
