/-!
# BrandFlow — where do the brands of a result come from?

Second structural half of C12 (the first is `GcArena.Model.Brand`: variance, auto traits, binders).

`/verif/extract` (module `brandflow.rs`) lists, for the current source tree, every function that code
free of `unsafe` can call — safe `pub` functions, safe trait-impl methods, default trait methods, and
the `unsafe fn`s that an exported `macro_rules!` calls inside its own `unsafe { }` block
(`macroReachable`) — whose result (or an argument handed to a callback parameter) carries a
lifetime, with

* `outBrands` — lifetimes in *brand position* of the result: lifetime argument of a crate type whose
  parameter is a brand (`Gc`, `GcWeak`, `Mutation`, `Finalization`, `DynamicRootSet`, `ZstCache`, …)
  or of a trait reference (`<R as Rootable<'gc>>::Root`);
* `outRefs`  — lifetimes in *reference position* of the result (`&'gc T`, `Ref<'gc, T>`, …);
* `inBrands` / `inLts` — the same for the receiver and the arguments (`Self` expanded); the impl
  header by itself is **not** an input (for `Gc::<'x, T>::from_ptr(p)` the caller picks `'x`), nor
  is the trait reference of an impl header (`impl<'gc, 'w> Tr<GcWeak<'w, U>> for GcWeak<'gc, T>`);
* `introduces` — lifetimes bound by the `for<…>` of a callback parameter and handed to it in brand
  position: the generative entry points (`Arena::new`, `mutate`, …; judged by `Brand.Callback.ok`).

Lifetimes below a raw pointer are not listed (safe code cannot dereference one).  Lifetime parameters
of builder types are *unattached* (`outUnattached`): a builder is not a pointer into an arena, its
parameter only selects the `Mutation` that may finish it; the set of such types is pinned
(`Table.unattachedOk`).

## What is modelled

The calculus below has one kind of datum, a *brand* (`Nat`), standing for the region that a
`for<'gc>` callback of one arena introduces.  A program state records which callbacks are currently
executing (`active`, innermost first), every brand ever introduced (`opened`) and the brands of the
branded values the program can currently use (`held`).  Steps:

* `enter b`  — a generative entry point calls the client's callback with a brand never used before
  and hands it `&Mutation<'b>` / the root (`held` gains `b`);
* `exit`     — the innermost callback returns; values whose type mentions its brand are gone.  This
  is rustc's rule for higher-ranked closures (a type mentioning the bound lifetime cannot be named
  outside, `Brand.binder_closed`, and every branded type is invariant, `branded_invariant`); it is
  the *premise* of the model, not a conclusion;
* `call s σ` — the program calls table entry `s`, instantiating its lifetime parameters by `σ`.
  For every lifetime of `inBrands` it must hold a value of brand `σ l` (one `σ` for all occurrences:
  invariance); every other lifetime is instantiated as the caller likes.  It obtains values of brands
  `σ l` for `l ∈ outBrands`, and for every `l ∈ outRefs` that is a brand of the signature
  (`Sig.outHeld`: a `&'gc T` / `&'gc Write<T>` / `Ref<'gc, T>` is held like a pointer);
* `forget`   — values may be dropped at any time.

`Sig.ok` (for a signature that code without `unsafe` can call) asks three things: every result brand
is the brand of an input (`outBrands ⊆ inBrands`, by name — identity), every reference lifetime of
the result is a lifetime of an input, and the signature mentions one brand only (`singleBrand`: a
function taking a pointer of brand `'gc` and a `Mutation<'m>` could carry the pointer over to `'m`
although `'m` *is* the brand of an input).

Not modelled: reference lifetimes (checked by the same identity rule in `Sig.flowOk`, but covariant
borrows have no place in a calculus of brands), type parameters (C19s), `'a: 'b` bounds (ignored:
for an invariant brand only identity counts).  rustc's type checking itself is trusted.
-/
namespace GcArena.BrandFlow

inductive LtKind where
  | brand | borrow | unattached
  deriving Repr, DecidableEq, BEq

structure Sig where
  name : String
  selfHead : String := ""
  traitName : String := ""
  method : String := ""
  isUnsafe : Bool
  macroReachable : Bool
  hasReceiver : Bool := false
  outBrands : List String
  inBrands : List String
  outRefs : List String := []
  inLts : List String := []
  outUnattached : List String := []
  free : List String := []
  introduces : List String := []
  deriving Repr, DecidableEq

/-- Code without `unsafe` can call it. -/
def Sig.callable (s : Sig) : Bool := !s.isUnsafe || s.macroReachable

/-- All brand lifetimes the signature mentions, inputs and result. -/
def Sig.brands (s : Sig) : List String := s.inBrands ++ s.outBrands

/-- The signature mentions at most one brand: a function that takes values of two brands (say a
`GcWeak<'gc, T>` and a `&Mutation<'m>`) could move a pointer from one arena to the other even though
each result brand is the brand of *some* input. -/
def Sig.singleBrand (s : Sig) : Bool := s.brands.all (fun l => s.brands.all (fun l' => l == l'))

/-- The lifetimes of the values a call hands to the program that belong to an arena: the brands of
its result (`Gc<'gc, T>`, `&Mutation<'gc>`, …) **and** the reference lifetimes of its result that are
a brand of the signature (`&'gc T` from `Gc::as_ref`, `&'gc Write<T>` from `Gc::write`, `Ref<'gc, T>`
from `borrow`, …: a reference into the arena is as much a branded value as a pointer). -/
def Sig.outHeld (s : Sig) : List String :=
  s.outBrands ++ s.outRefs.filter (fun l => s.brands.contains l)

/-- Every brand of the result is the brand of an input; every reference lifetime of the result is a
lifetime of an input; one brand only.  Identity only. -/
def Sig.flowOk (s : Sig) : Bool :=
  s.outBrands.all (fun l => s.inBrands.contains l) && s.outRefs.all (fun l => s.inLts.contains l)
  && s.singleBrand

def Sig.ok (s : Sig) : Bool := !s.callable || s.flowOk

structure Table where
  sigs : List Sig
  /-- (type, lifetime parameter, kind) for every crate type with lifetime parameters -/
  lifetimeParams : List (String × String × LtKind) := []
  /-- (macro, path called in its `unsafe` block, number of scanned functions it resolves to) -/
  macroCalls : List (String × String × Nat) := []
  unclassified : List String := []

/-- The types whose lifetime parameter may be treated as unattached. -/
def allowedUnattached : List String :=
  ["GcBuilder", "GcSliceBuilder", "GcSliceWithHeaderBuilder", "GcSliceWithHeaderSliceBuilder", "GcStrBuilder"]

def Table.unattachedOk (t : Table) : Bool :=
  t.lifetimeParams.all (fun p => p.2.2 != .unattached || allowedUnattached.contains p.1)

/-- The types the property names are classified as branded. -/
def requiredBrandTypes : List String := ["Gc", "GcWeak", "Mutation", "Finalization", "DynamicRootSet"]

def Table.brandTypesOk (t : Table) : Bool :=
  requiredBrandTypes.all (fun n => t.lifetimeParams.any (fun p => p.1 == n && p.2.2 == .brand))

def Table.macrosResolved (t : Table) : Bool := t.macroCalls.all (fun m => m.2.2 != 0)

def Table.ok (t : Table) : Bool :=
  t.unclassified.isEmpty && t.unattachedOk && t.brandTypesOk && t.macrosResolved && t.sigs.all Sig.ok

/-- Human-readable list of what fails (evaluated by the check engine to explain a failing `decide`). -/
def Table.violations (t : Table) : List String :=
  t.unclassified.map (fun u => "unclassified: " ++ u)
  ++ (t.lifetimeParams.filter (fun p => p.2.2 == .unattached && !allowedUnattached.contains p.1)).map
        (fun p => "unattached: " ++ p.1 ++ "<'" ++ p.2.1 ++ ">")
  ++ (requiredBrandTypes.filter (fun n => !t.lifetimeParams.any (fun p => p.1 == n && p.2.2 == .brand))).map
        (fun n => "brand-type: " ++ n)
  ++ (t.macroCalls.filter (fun m => m.2.2 == 0)).map (fun m => "macro-call: " ++ m.1 ++ "! -> " ++ m.2.1)
  ++ (t.sigs.filter (fun s => !s.ok)).map (fun s => "flow: " ++ s.name)

/-- Entry points by (head of the self type, method), for presence checks. -/
def Table.has (t : Table) (selfHead method : String) : Bool :=
  t.sigs.any (fun s => s.selfHead == selfHead && s.method == method)

/-! ## The calculus -/

abbrev Brand := Nat
abbrev Subst := String → Brand

structure State where
  opened : List Brand
  active : List Brand
  held : List Brand

def State.init : State := { opened := [], active := [], held := [] }

inductive Step (T : Table) : State → State → Prop where
  | enter (st : State) (b : Brand) (fresh : b ∉ st.opened) :
      Step T st { opened := b :: st.opened, active := b :: st.active, held := b :: st.held }
  | exit (st : State) (b : Brand) (rest : List Brand) (top : st.active = b :: rest) :
      Step T st { st with active := rest, held := st.held.filter (· != b) }
  | call (st : State) (s : Sig) (σ : Subst) (mem : s ∈ T.sigs) (callable : s.callable = true)
      (inputs : ∀ l ∈ s.inBrands, σ l ∈ st.held) :
      Step T st { st with held := s.outHeld.map σ ++ st.held }
  | forget (st : State) (held' : List Brand) (sub : ∀ b ∈ held', b ∈ st.held) :
      Step T st { st with held := held' }

inductive Reachable (T : Table) : State → Prop where
  | init : Reachable T State.init
  | step {st st' : State} : Reachable T st → Step T st st' → Reachable T st'

end GcArena.BrandFlow
