import GcArena.Model.Heap
/-
  GcArena.Model.Conv — pointer-level model of the conversion API (property C19, dynamic half).

  Mirrors: src/gc.rs (`Gc::{erase, erase_kind, cast, as_thin, as_fat, as_ptr, from_ptr,
  from_ptr_with_kind, as_thin_ptr, from_thin_ptr_with_kind, downgrade}`, `GcKind<Fat|Thin, M, P>`),
  src/gc_weak.rs (`GcWeak::{upgrade, erase, cast, as_ptr, from_ptr, from_ptr_with_kind}`),
  src/unsize.rs (`unsize!`), src/slice.rs (`SlicePtrMeta`, `StrPtrMeta`: the length lives in the
  header, `Thin = ()`), src/meta.rs (`UnitPtrMeta`: sized types only), src/dynamic_roots.rs
  (`stash` / `fetch`: `Gc<'gc, Root<'gc, R>>` of the default kind) and src/zst_cache.rs.

  A pointer value is what a `Gc<'gc, T, K>` / `GcWeak<'gc, T, K>` is made of:
    * the allocation it refers to (`obj`) and the byte offset of the stored address from the
      value address of that allocation (`off`; every pointer the API hands out has `off = 0`),
    * strong or weak,
    * the kind tag `K = GcKind<Fat|Thin, (), P>` (`thin`, `pmeta`),
    * the static pointee type tag (`ty`): the allocated type, `()` after `erase`, or the unsized
      type after `unsize!`,
    * the metadata carried *in the pointer* (`meta`): a length for a fat `[E]` / `str` pointer,
      a vtable for a fat `dyn` pointer, nothing for sized pointees and for every thin pointer.
  The allocation itself (`Alloc`) is never modified by a conversion: its type (hence the
  destructor and `trace` function installed in the header's vtable when it was allocated) and the
  length stored in its header are parameters of `step`, not results.

  This file imports only GcArena.Model.Heap (itself import-free) for `Ptr`, the pointer value the
  collector model stores in slots, so the driver links as a `lean_exe`.
-/
namespace GcArena.Conv

/-- What was allocated: the *original type* of the value. -/
inductive Target where
  /-- `Gc::new(mc, Payload { .. })`: a sized struct with a destructor (implements `Tr`). -/
  | sized
  /-- `Gc::new(mc, [Elem; n])`: sized, unsizes to `[Elem]`. -/
  | array (n : Nat)
  /-- `GcSliceBuilder::new(n).write_slice_with(..)`: `GcFat<[Elem], (), SlicePtrMeta>`. -/
  | slice (n : Nat)
  /-- `GcStr::new_str(mc, s)` with `s.len() = n`: `GcFat<str, (), StrPtrMeta>`. -/
  | str (n : Nat)
  /-- `GcSliceWithHeaderBuilder::<H, E>::new(n)…`: `GcFat<SliceWithHeader<H, E>, (),
      SliceWithHeaderPtrMeta>` — a header value followed by `n` elements; the thin
      representation points at the header (`Thin = H`). -/
  | swh (n : Nat)
  /-- As `sized`, but the chain starts from `unsize!(Gc::new(..) => dyn Tr)`. -/
  | dyn
  /-- `Gc::new(mc, Z)` with `size_of::<Z>() = 0`, `align_of::<Z>() = align`: an ordinary block. -/
  | zst (align : Nat)
  /-- `ZstCache::<maxAlign>::new(mc).alloc(mc, Z)` for a qualifying `Z`: the cache's own block. -/
  | zcached (align maxAlign : Nat)
  deriving DecidableEq, Repr, Inhabited

/-- The `P` parameter of a kind: which `PtrMeta` implementation reads the header. -/
inductive PMeta where
  | unit | slice | str
  deriving DecidableEq, Repr, Inhabited

/-- The static pointee type of a pointer. -/
inductive Ty where
  | orig   -- the allocated type
  | unit   -- `()` (after `erase`)
  | uns    -- `dyn Tr` / `[Elem]` obtained by `unsize!` from a sized allocation
  deriving DecidableEq, Repr, Inhabited

/-- Metadata carried in the pointer itself. -/
inductive Meta where
  | none
  | len (n : Nat)
  /-- vtable of the trait impl of one concrete type, identified by the description of that
      type (set by `unsize!` from the source's static type) -/
  | vtable (of : Target)
  deriving DecidableEq, Repr, Inhabited

namespace Target

/-- `T: Sized` for the allocated type. -/
def isSized : Target → Bool
  | .slice _ | .str _ | .swh _ => false
  | _ => true

/-- The `P` the allocation was made with. -/
def pmeta : Target → PMeta
  | .slice _ | .swh _ => .slice
  | .str _ => .str
  | _ => .unit

/-- The per-value metadata written into the header by `GcPtr::alloc` (`P::PtrMetadata`): the
    length for `SlicePtrMeta` / `StrPtrMeta`, `()` otherwise. -/
def hdrLen : Target → Option Nat
  | .slice n | .str n | .swh n => some n
  | _ => none

/-- Number of destructor runs of the *original type's* tag that destructing the value logs:
    one per struct, one per element, none for `str` bytes and for the cache's `AlignedType`. -/
def dropsAtDestruct : Target → Nat
  | .sized | .dyn | .zst _ => 1
  | .array n | .slice n | .swh n => n
  | .str _ | .zcached _ _ => 0

/-- Destructor runs logged by the allocating call itself: `ZstCache::alloc` takes the value by
    move and, when it returns the shared pointer, lets it go out of scope. -/
def dropsAtAlloc : Target → Nat
  | .zcached _ _ => 1
  | _ => 0

end Target

/-- An allocation: identity, original type, whether its value is still undestructed (`is_live`),
    and whether the sweep in progress will destruct it: `condemned` stands for
    `phase == Phase::Sweep && color == WhiteWeak` of `Context::upgrade` (src/context.rs) — the value
    was only weakly reachable when marking finished and the sweep cursor has not reached it yet. -/
structure Alloc where
  id : Nat
  target : Target
  live : Bool
  condemned : Bool := false
  deriving DecidableEq, Repr, Inhabited

/-- `Context::upgrade`: a weak pointer can be upgraded iff the value is live and not condemned. -/
def Alloc.upgradable (a : Alloc) : Bool := a.live && !a.condemned

structure PtrVal where
  obj : Nat
  off : Nat
  weak : Bool
  thin : Bool
  pmeta : PMeta
  ty : Ty
  carried : Meta
  deriving DecidableEq, Repr, Inhabited

/-- The metadata a *fat* pointer of static type `ty` to an allocation of type `t` carries. -/
def fatMeta (t : Target) : Ty → Meta
  | .unit => .none
  | .orig => match t.hdrLen with
    | some n => .len n
    | none => .none
  | .uns => match t with
    | .array n => .len n
    | _ => .vtable t

/-- The pointer returned by the allocating call. -/
def initPtr (a : Alloc) : PtrVal :=
  match a.target with
  | .dyn => ⟨a.id, 0, false, false, .unit, .uns, .vtable .dyn⟩
  | t => ⟨a.id, 0, false, false, t.pmeta, .orig, fatMeta t .orig⟩

/-- The weak pointer a client holds to a value it allocated in an earlier callback and kept only
    weakly (`Gc::downgrade` of `initPtr`). -/
def initWeak (a : Alloc) : PtrVal := { initPtr a with weak := true }

/-- The conversion steps. -/
inductive Step where
  | copy           -- `let q = p;` (`Copy`) / `p.clone()`
  | erase          -- `Gc::erase` / `GcWeak::erase`
  | eraseKind      -- `Gc::erase_kind`
  | cast           -- `Gc::cast::<T>` / `GcWeak::cast::<T>` back to the (sized) allocated type
  | fromThin       -- `GcThin::<T, (), P>::from_thin_ptr_with_kind(p as *const P::Thin)` from a `()` pointer
  | asThin         -- `Gc::as_thin`
  | asFat          -- `Gc::as_fat`
  | ptr            -- `Gc::from_ptr(Gc::as_ptr(p))` / `GcWeak::from_ptr(GcWeak::as_ptr(p))`
  | ptrKind        -- `from_ptr_with_kind::<same K>(as_ptr(p))`
  | thinPtr        -- `GcThin::from_thin_ptr_with_kind(GcThin::as_thin_ptr(p))`
  | unsize         -- `unsize!(p => dyn Tr)` / `unsize!(p => [Elem])`
  | downgrade      -- `Gc::downgrade`
  | upgrade        -- `GcWeak::upgrade(mc)`
  | stash          -- `let h = set.stash(mc, p); set.fetch(&h)`
  deriving DecidableEq, Repr, Inhabited

def Step.all : List Step :=
  [.copy, .erase, .eraseKind, .cast, .fromThin, .asThin, .asFat, .ptr, .ptrKind, .thinPtr,
   .unsize, .downgrade, .upgrade, .stash]

/-- Is the static pointee type `Sized`? -/
def tySized (t : Target) : Ty → Bool
  | .unit => true
  | .orig => t.isSized
  | .uns => false

/-- `P: PtrMeta<T, ()>` for the pointer's `P` and static type `T` — the bound of `as_thin`.
    `UnitPtrMeta` covers exactly the sized types; `SlicePtrMeta` / `StrPtrMeta` cover `[E]` /
    `str`, and a pointer only has one of those as its `P` when it still has the allocated type. -/
def hasPtrMeta (t : Target) (p : PtrVal) : Bool :=
  match p.pmeta with
  | .unit => tySized t p.ty
  | pm => pm == t.pmeta && p.ty == .orig

/-- The typing discipline: which step the Rust type checker accepts on which pointer shape. It
    does not depend on whether the value is still live. -/
def applicable (t : Target) (s : Step) (p : PtrVal) : Bool :=
  match s with
  | .copy => true
  | .erase => true
  | .eraseKind => !p.weak && !p.thin
  | .cast => !p.thin && t.isSized
  | .fromThin => !p.weak && p.ty == .unit
  | .asThin => !p.weak && !p.thin && hasPtrMeta t p
  | .asFat => !p.weak && p.thin
  | .ptr => true
  | .ptrKind => true
  | .thinPtr => !p.weak && p.thin
  | .unsize => p.ty == .orig && t.isSized
  | .downgrade => !p.weak
  | .upgrade => p.weak
  | .stash => !p.weak && !p.thin && p.pmeta == .unit

/-- What the `as_ptr` of a pointer returns as metadata: the carried one for a fat pointer, the one
    `P::from_thin` rebuilds from the header for a thin pointer. -/
def derefMeta (t : Target) (p : PtrVal) : Meta :=
  if p.thin then
    (match p.pmeta with
     | .unit => .none
     | _ => match t.hdrLen with
       | some n => .len n
       | none => .none)
  else p.carried

/-- What a conversion does to a pointer of a shape it accepts. No step changes `obj` or `off`;
    `upgrade` yields `none` when the value is destructed or condemned. -/
def conv (a : Alloc) (s : Step) (p : PtrVal) : Option PtrVal :=
  match s with
  | .copy => some p
  | .erase => some { p with thin := false, pmeta := .unit, ty := .unit, carried := .none }
  | .eraseKind => some { p with pmeta := .unit }
  | .cast => some { p with ty := .orig, carried := .none }
  | .fromThin => some { p with thin := true, pmeta := a.target.pmeta, ty := .orig, carried := .none }
  | .asThin => some { p with thin := true, carried := .none }
  | .asFat => some { p with thin := false, carried := derefMeta a.target p }
  | .ptr => some { p with thin := false, pmeta := .unit, carried := derefMeta a.target p }
  | .ptrKind => some p
  | .thinPtr => some p
  | .unsize => some { p with thin := false, pmeta := .unit, ty := .uns, carried := fatMeta a.target .uns }
  | .downgrade => some { p with weak := true }
  | .upgrade => if a.upgradable then some { p with weak := false } else none
  | .stash => some p

/-- One conversion. `none`: ill-typed, or an `upgrade` of a pointer whose value is destructed
    or condemned. -/
def step (a : Alloc) (s : Step) (p : PtrVal) : Option PtrVal :=
  if applicable a.target s p then conv a s p else none

abbrev Chain := List Step

/-- Apply a chain left to right. -/
def apply (a : Alloc) : Chain → PtrVal → Option PtrVal
  | [], p => some p
  | s :: ch, p =>
    match step a s p with
    | some q => apply a ch q
    | none => none

/-- Well-typedness of a chain (independent of liveness: computed on a live copy). -/
def wellTyped (t : Target) : Chain → PtrVal → Bool
  | [], _ => true
  | s :: ch, p =>
    applicable t s p &&
      (match step ⟨p.obj, t, true, false⟩ s p with
       | some q => wellTyped t ch q
       | none => false)

/-- Index of the first ill-typed step of a chain, if any. -/
def firstIllTyped (t : Target) : Chain → PtrVal → Nat → Option Nat
  | [], _, _ => none
  | s :: ch, p, k =>
    match step ⟨p.obj, t, true, false⟩ s p with
    | some q => firstIllTyped t ch q (k + 1)
    | none => some k

/-- Shape invariant of the pointers reachable from `initPtr`: the kind is the default one or the
    allocation's own, thin pointers carry nothing, a fat pointer carries exactly the metadata of
    its static type — for `[E]` / `str` the length the allocation was made with. -/
structure WF (a : Alloc) (p : PtrVal) : Prop where
  obj : p.obj = a.id
  off : p.off = 0
  thinMeta : p.thin = true → p.carried = .none
  fat : p.thin = false → p.carried = fatMeta a.target p.ty
  kind : p.pmeta = .unit ∨ (p.pmeta = a.target.pmeta ∧ p.ty = .orig)
  thinKind : p.thin = true → hasPtrMeta a.target p = true
  uns : p.ty = .uns → a.target.isSized = true ∧ p.thin = false ∧ p.pmeta = .unit

/-- The slot content the collector model (`GcArena.Ptr`, Model/Heap) sees when this pointer is
    stored in a traced place: `Collect for Gc<T, K>` is `cc.trace_gc(Gc::erase(*self))`, for
    `GcWeak<T, K>` it is `cc.trace_gc_weak(GcWeak::erase(*self))` — the target and nothing else. -/
def PtrVal.toPtr (p : PtrVal) : GcArena.Ptr :=
  if p.weak then .weak p.obj else .strong p.obj

/-- `Gc::ptr_eq` / `GcWeak::ptr_eq` (`GcPtr::addr_eq`, i.e. `ptr::addr_eq`): same allocation and
    same address; the metadata of wide pointers (length, vtable) and every tag are ignored. -/
def samePtr (p q : PtrVal) : Bool := p.obj == q.obj && p.off == q.off

/-- Size of the pointer in machine words (`size_of::<Gc<T, K>>() / size_of::<usize>()`). -/
def PtrVal.words (p : PtrVal) : Nat :=
  match p.carried with
  | .none => 1
  | _ => 2

/-! ### Values and headers: what a dereference reads and what the release destructs -/

/-- Number of value tokens a value of the allocated type consists of: one per struct, one per
    element / byte (plus the header value of a `SliceWithHeader`), none for a zero-sized value. -/
def Target.elemCount : Target → Nat
  | .sized | .dyn => 1
  | .array n | .slice n | .str n => n
  | .swh n => n + 1
  | .zst _ | .zcached _ _ => 0

/-- How many tokens a reference with length metadata `n` makes visible. -/
def Target.visible (t : Target) (n : Nat) : Nat :=
  match t with
  | .swh _ => n + 1
  | _ => n

/-- The `GcHeader` + per-value metadata `GcPtr::alloc` writes in front of the value
    (src/gc_ptr.rs, `GcPtr::alloc`): the vtable of the *constructed* type — its `drop_value`,
    `trace_value` and `dealloc` entries rebuild the fat pointer from the header only
    (`PtrProps::fat_ptr(TM::TYPE_METADATA, value_ptr)` reads `P::PtrMetadata` at `value_ptr −
    META_HEADER_LAYOUT.size()`) — and, for `[E]` / `str` / `SliceWithHeader`, the length. -/
structure Hdr where
  glue : Nat
  len : Option Nat
  deriving DecidableEq, Repr

/-- A block with its contents: the allocation, the type the value was *constructed* as, its
    value tokens and its header.  `apply` takes only the `Alloc`: no conversion reads or writes a
    `Stored`. -/
structure Stored where
  alloc : Alloc
  tyTag : Nat
  tokens : List Nat
  hdr : Hdr
  deriving DecidableEq, Repr

/-- The allocating call (`GcPtr::alloc::<TM, P>(ptr_meta)` + `write`): the header gets the
    constructed type's vtable and the length the value was allocated with. -/
def store (a : Alloc) (tyTag : Nat) (tokens : List Nat) : Stored :=
  ⟨a, tyTag, tokens, ⟨tyTag, a.target.hdrLen⟩⟩

/-- What a dereference yields. -/
inductive View where
  /-- `&T` of the allocated type: its type and the value tokens visible through the pointer -/
  | whole (tyTag : Nat) (tokens : List Nat)
  /-- `&()` -/
  | unit
  /-- `&dyn Tr` whose vtable is the constructed type's: method calls read that value -/
  | dynOf (tyTag : Nat) (tokens : List Nat)
  /-- `&[E]` obtained by unsizing an array -/
  | sliceOf (tokens : List Nat)
  deriving DecidableEq, Repr

/-- `Deref for Gc<T, K>`: the reference is built from the stored address and the metadata
    `as_ptr` reports (`derefMeta`).  It is a reference to the original value only if that metadata
    is exactly the metadata of the static type for this allocation (`fatMeta`): the original
    length, the constructed type's vtable.  `none`: a weak pointer (no `Deref`), a pointer that
    does not point at the value, or metadata that does not fit — a lost, shortened or inflated
    length, a foreign vtable. -/
def deref (s : Stored) (p : PtrVal) : Option View :=
  if p.weak || p.obj != s.alloc.id || p.off != 0 then none else
  if derefMeta s.alloc.target p != fatMeta s.alloc.target p.ty then none else
  match p.ty, derefMeta s.alloc.target p with
  | .unit, _ => some .unit
  | .orig, .len n => some (.whole s.tyTag (s.tokens.take (s.alloc.target.visible n)))
  | .orig, .none => some (.whole s.tyTag s.tokens)
  | .orig, .vtable _ => none
  | .uns, .len n => some (.sliceOf (s.tokens.take n))
  | .uns, .vtable _ => some (.dynOf s.tyTag s.tokens)
  | .uns, .none => none

/-- The view of the whole original value at static type `ty`. -/
def fullView (s : Stored) : Ty → View
  | .unit => .unit
  | .orig => .whole s.tyTag s.tokens
  | .uns => match s.alloc.target with
    | .array _ => .sliceOf s.tokens
    | _ => .dynOf s.tyTag s.tokens

/-- What the collector does when it destructs the block a pointer refers to (`sweep_one` /
    `DropAll` → `GcPtr::drop_in_place` = `(header().vtable().drop_value)(ptr)`): it finds the header
    `size_of::<GcHeader>()` bytes in front of the pointer's *address* — so the address must be the
    value address — takes the drop glue from the header's vtable and the length from the header's
    metadata slot, and runs that glue on the value.  The pointer's static type, kind and carried
    metadata are not consulted (the collector only ever holds erased `GcPtr<()>`s).
    Result: (glue that runs, tokens it destructs); `none`: no header at that address. -/
def destructVia (s : Stored) (p : PtrVal) : Option (Nat × List Nat) :=
  if p.obj != s.alloc.id || p.off != 0 then none else
  match s.hdr.len with
  | some n => some (s.hdr.glue, s.tokens.take (s.alloc.target.visible n))
  | none => some (s.hdr.glue, s.tokens)

/-- Counter-model (NOT what the implementation does): destruct through the *pointer*, as a
    `Box<T>`-like owner would — glue of the pointer's static type (`()`: nothing to run; `dyn`: the
    vtable's type), length from the metadata the pointer carries (a thin pointer carries none). -/
def destructViaMeta (s : Stored) (p : PtrVal) : Option (Nat × List Nat) :=
  if p.obj != s.alloc.id || p.off != 0 then none else
  match p.ty, p.carried with
  | .unit, _ => some (0, [])
  | .orig, .len n => some (s.tyTag, s.tokens.take (s.alloc.target.visible n))
  | .orig, .none => if s.alloc.target.isSized then some (s.tyTag, s.tokens) else some (s.tyTag, [])
  | .uns, .len n => some (s.tyTag + 1, s.tokens.take n)      -- glue of `[E]`, not of `[E; n]`
  | .uns, .vtable t => if t = s.alloc.target then some (s.tyTag, s.tokens) else none
  | _, _ => none

/-! ### All well-typed chains, in the order shared with the harness -/

/-- All well-typed chains of length exactly `n` from `p` (steps in `Step.all` order, depth
    first), paired with their results. -/
def chainsOfLen (t : Target) : Nat → PtrVal → List (Chain × PtrVal)
  | 0, p => [([], p)]
  | n + 1, p =>
    Step.all.flatMap fun s =>
      match step ⟨p.obj, t, true, false⟩ s p with
      | some q => (chainsOfLen t n q).map fun (ch, r) => (s :: ch, r)
      | none => []

/-! ### Scenarios of the harness: collector phase at conversion time × history of the target -/

/-- Collector phase in which the conversions are executed: asleep; marking; sweeping with the
    cursor at the start of the list; sweeping with the cursor past the target. -/
inductive Phase where
  | sleep | mark | sweep | sweepMid
  deriving DecidableEq, Repr, Inhabited

/-- History of the target: allocated in the converting callback; allocated in an earlier callback
    and strongly rooted since (black ahead of the cursor in `sweep`, white behind it in
    `sweepMid`); allocated in an earlier callback and rooted only weakly since. -/
inductive Age where
  | fresh | black | ww
  deriving DecidableEq, Repr, Inhabited

/-- `(live, condemned)` of the target when the chain runs.  A weakly rooted value is `WhiteWeak`
    ahead of the cursor once marking has finished (condemned), and destructed once the cursor
    has passed it; in every other scenario the value is live and `upgrade` must succeed — a
    white object in `Sweep` is either freshly allocated or already passed by the cursor. -/
def scenarioState : Phase → Age → Bool × Bool
  | .sweep, .ww => (true, true)
  | .sweepMid, .ww => (false, false)
  | _, _ => (true, false)

/-! ### ZstCache -/

/-- The test of `ZstCache::<MAX_ALIGN>::alloc_zst::<T>`. -/
def zstShared (size align maxAlign : Nat) : Bool := size == 0 && decide (align ≤ maxAlign)

/-- A `ZstCache<MAX_ALIGN>`: one block (`cached_ptr`), allocated by `Gc::new_static` for a
    `#[repr(align(MAX_ALIGN))]` unit struct, at `addr`. -/
structure Cache where
  obj : Nat
  addr : Nat
  maxAlign : Nat
  deriving DecidableEq, Repr

/-- Result of `ZstCache::alloc(mc, t)` / `alloc_static(mc, t)`. -/
structure ZstResult where
  /-- the allocation the returned `Gc<T>` refers to -/
  obj : Nat
  /-- was a new block allocated (`Gc::new(mc, t)`) -/
  fresh : Bool
  /-- destructor runs of `t` before the call returns: the value is moved into `alloc`; when the
      shared pointer is returned it is not stored anywhere and goes out of scope there -/
  dropsNow : Nat
  /-- destructor runs of `t` when the returned pointer's allocation is destructed: the shared
      block holds an `AlignedType` (no destructor), a fresh block holds `t` -/
  dropsLater : Nat
  deriving DecidableEq, Repr

/-- `ZstCache::alloc`: `next` is the id a fresh allocation would receive. -/
def Cache.alloc (c : Cache) (next size align : Nat) : ZstResult :=
  if zstShared size align c.maxAlign then ⟨c.obj, false, 1, 0⟩ else ⟨next, true, 0, 1⟩

def isPow2 (n : Nat) : Prop := ∃ k, n = 2 ^ k

end GcArena.Conv
