/-
  GcArena.Model.Metrics — mirrors src/metrics.rs (`Pacing`, `MetricsInner`, `Metrics`).

  Counters are `Nat`; amounts (`wakeup_amount`, `artificial_debt`, factors, debt) are exact
  rationals.  f64 rounding is *modelled, not verified* (DESIGN §9): the correspondence check
  uses dyadic factors for which every f64 operation in `allocation_debt` is exact.
  `usize` subtraction that would wrap / panic sets the sticky `underflow` flag.
-/
namespace GcArena

structure Pacing where
  sleepFactor : Rat
  minSleep : Nat
  markFactor : Rat
  traceFactor : Rat
  keepFactor : Rat
  dropFactor : Rat
  freeFactor : Rat
  deriving Repr, DecidableEq

/-- `Pacing::DEFAULT` of src/metrics.rs (decimal literals read as exact rationals). -/
def Pacing.default : Pacing :=
  { sleepFactor := 1/2, minSleep := 256, markFactor := 1/10, traceFactor := 4/10,
    keepFactor := 5/100, dropFactor := 2/10, freeFactor := 3/10 }

/-- `Pacing::STOP_THE_WORLD`. -/
def Pacing.stopTheWorld : Pacing :=
  { sleepFactor := 1, minSleep := 256, markFactor := 0, traceFactor := 0,
    keepFactor := 0, dropFactor := 0, freeFactor := 0 }

/-- `MetricsInner`. -/
structure Metrics where
  pacing : Pacing
  totalGcs : Nat
  wakeup : Rat
  artificial : Rat
  allocated : Nat
  dropped : Nat
  freed : Nat
  marked : Nat
  traced : Nat
  remembered : Nat
  underflow : Bool
  deriving Repr, DecidableEq

namespace Metrics

/-- `Metrics::new()`: `Default::default()` of every field; `Pacing: Default` is `Pacing::DEFAULT`. -/
def new : Metrics :=
  { pacing := Pacing.default,
    totalGcs := 0, wakeup := 0, artificial := 0, allocated := 0, dropped := 0, freed := 0,
    marked := 0, traced := 0, remembered := 0, underflow := false }

def setPacing (m : Metrics) (p : Pacing) : Metrics := { m with pacing := p }

def adjustDebt (m : Metrics) (amt : Rat) : Metrics := { m with artificial := m.artificial + amt }

def cycleDebits (m : Metrics) : Rat := (m.allocated : Rat) - m.wakeup + m.artificial

def cycleCredits (m : Metrics) : Rat :=
  (m.marked : Rat) * m.pacing.markFactor
  + (m.traced : Rat) * m.pacing.traceFactor
  + (m.remembered : Rat) * m.pacing.keepFactor
  + (m.dropped : Rat) * m.pacing.dropFactor
  + (m.freed : Rat) * m.pacing.freeFactor

/-- `Metrics::allocation_debt`. -/
def allocationDebt (m : Metrics) : Rat :=
  if m.totalGcs = 0 then 0
  else if m.cycleDebits ≤ 0 then 0
  else max (m.cycleDebits - m.cycleCredits) 0

/-- The test `allocation_debt() > 0.0` of `do_collection`. -/
def hasDebt (m : Metrics) : Bool := decide (0 < m.allocationDebt)

/-- `Metrics::finish_cycle(reset_debt)`. -/
def finishCycle (m : Metrics) (resetDebt : Bool) : Metrics :=
  let wakeup := max ((m.remembered : Rat) * m.pacing.sleepFactor) (m.pacing.minSleep : Rat)
  let art := if resetDebt then 0 else m.allocationDebt
  { m with wakeup := wakeup, artificial := art, allocated := 0, dropped := 0, freed := 0,
           marked := 0, traced := 0, remembered := 0 }

def markGcAllocated (m : Metrics) : Metrics :=
  { m with totalGcs := m.totalGcs + 1, allocated := m.allocated + 1 }

def markGcDropped (m : Metrics) : Metrics := { m with dropped := m.dropped + 1 }

/-- `total_gcs - 1` is a plain `usize` subtraction: at zero it panics (debug) or wraps. -/
def markGcFreed (m : Metrics) : Metrics :=
  { m with totalGcs := m.totalGcs - 1, freed := m.freed + 1,
           underflow := m.underflow || (m.totalGcs == 0) }

def markGcMarked (m : Metrics) : Metrics := { m with marked := m.marked + 1 }

def markGcTraced (m : Metrics) : Metrics := { m with traced := m.traced + 1 }

/-- `mark_gc_untraced` after the repair of defect D1: a saturating subtraction
    (`Nat` subtraction truncates at zero).  The pre-repair definition is in `Model/Legacy.lean`. -/
def markGcUntraced (m : Metrics) : Metrics := { m with traced := m.traced - 1 }

def markGcRemembered (m : Metrics) : Metrics := { m with remembered := m.remembered + 1 }

end Metrics
end GcArena
