import GcArena.Model.Arena
/-
  GcArena.Model.Show — canonical text of observations (the line protocol of DESIGN §2.2).
  One representation everywhere; the Rust harness prints the implementation's state in exactly
  this format and the two are compared section by section.
-/
namespace GcArena

def showRat (r : Rat) : String :=
  if r.den = 1 then s!"{r.num}" else s!"{r.num}/{r.den}"

def showColor : Color → String
  | .white => "W" | .whiteWeak => "w" | .gray => "G" | .black => "B"

def showPhase : Phase → String
  | .mark => "M" | .sweep => "S" | .sleep => "Z" | .drop => "D"

def showEvent : Event → String
  | .dropped i => s!"d{i}"
  | .freed i => s!"f{i}"

def showList (xs : List String) : String := "[" ++ ",".intercalate xs ++ "]"

def showObjHdr (c : Ctx) (i : Nat) : String :=
  match c.heap.get i with
  | none => s!"{i}:?"
  | some o =>
    s!"{i}:{showColor o.color}{if o.needsTrace then "t" else "n"}{if o.live then "l" else "d"}"

/-- Snapshot section: everything the `verif_snapshot` hook reports about the `Context`. -/
def showSnap (a : Arena) : String :=
  if !a.alive then "dropped" else
  let c := a.ctx
  let cur := if c.phase = .sweep then s!"{c.pre.length}" else "-"
  let prev := if c.phase = .sweep then
      (match c.pre.getLast? with | some i => s!"{i}" | none => "-") else "-"
  s!"ph={showPhase c.phase} rnt={if c.rootNeedsTrace then 1 else 0} " ++
  s!"all={showList (c.all.map (showObjHdr c))} cur={cur} prev={prev} " ++
  s!"gray={showList (c.gray.reverse.map toString)} again={showList (c.grayAgain.reverse.map toString)} " ++
  s!"cphase={a.collectionPhase}"

/-- Metrics section. -/
def showMet (m : Metrics) : String :=
  s!"tot={m.totalGcs} alloc={m.allocated} drop={m.dropped} free={m.freed} mark={m.marked} " ++
  s!"trac={m.traced} rem={m.remembered} wake={showRat m.wakeup} art={showRat m.artificial} " ++
  s!"debt={showRat m.allocationDebt}"

def showEvents (evs : List Event) : String :=
  if evs.isEmpty then "-" else " ".intercalate (evs.map showEvent)

def showSteps (s : List Char) : String :=
  if s.isEmpty then "-" else String.ofList s

def showErr : Option Fault → String
  | none => ""
  | some .dangling => " !dangling"
  | some .debugAssert => " !debug-assert"
  | some .unreachable => " !unreachable"

end GcArena
