/-
  GcArena.Model.PtrList — the intrusive `all` list of src/context.rs at pointer level:
  the `next` field of every header, `Context::all`, `Context::sweep`, `Context::sweep_prev`,
  and the statements of `Context::link`, the `Mark → Sweep` switch, `Context::sweep_one` and
  `DropAll::drop` that read or write them.  `Proofs/PtrRefine.lean` shows that these pointer
  updates implement the list-level model (`Ctx.pre ++ Ctx.rest`, cursor between them) that all
  other theorems are stated about.
-/
namespace GcArena

/-- The pointer fields.  `sweeping` is `phase == Phase::Sweep`. -/
structure PList where
  next : Nat → Option Nat
  all : Option Nat
  sweep : Option Nat
  sweepPrev : Option Nat
  sweeping : Bool

namespace PList

def empty : PList :=
  { next := fun _ => none, all := none, sweep := none, sweepPrev := none, sweeping := false }

/-- `header.set_next(n)` on object `i`. -/
def setNext (p : PList) (i : Nat) (n : Option Nat) : PList :=
  { p with next := fun j => if j = i then n else p.next j }

/-- `Context::link`:
    ```
    gc_ptr.header().set_next(self.all.get());
    self.all.set(Some(gc_ptr));
    if self.phase == Phase::Sweep && self.sweep_prev.get().is_none() {
        self.sweep_prev.set(self.all.get());
    }
    ``` -/
def link (p : PList) (i : Nat) : PList :=
  let p := p.setNext i p.all
  let p := { p with all := some i }
  if p.sweeping && p.sweepPrev.isNone then { p with sweepPrev := p.all } else p

/-- `cx.switch(Phase::Sweep); cx.sweep = cx.all.get();` -/
def enterSweep (p : PList) : PList := { p with sweeping := true, sweep := p.all }

/-- `Context::sweep_one`, the pointer statements only; `remove s` says whether the object under
    the cursor is white (unlinked and released) or kept (`sweep_prev = Some(sweep)`).
    Returns the object visited, if any. -/
def sweepOne (p : PList) (remove : Nat → Bool) : PList × Option Nat :=
  match p.sweep with
  | none => ({ p with sweepPrev := none }, none)
  | some s =>
    let nxt := p.next s
    let p := { p with sweep := nxt }
    if remove s then
      match p.sweepPrev with
      | some q => (p.setNext q nxt, some s)
      | none => ({ p with all := nxt }, some s)
    else ({ p with sweepPrev := some s }, some s)

/-- `cx.switch(Phase::Sleep)` after `sweep_one` returned `Break`. -/
def endSweep (p : PList) : PList := { p with sweeping := false }

/-- The loop of `DropAll::drop`: `while let Some(p) = cur { cur = p.next(); release(p) }`. -/
def walk (next : Nat → Option Nat) : Nat → Option Nat → List Nat
  | 0, _ => []
  | _ + 1, none => []
  | fuel + 1, some i => i :: walk next fuel (next i)

end PList
end GcArena
