import GcArena.Model.Layout
/-
  GcArena.Model.Builder — executable model of the allocation builders (DESIGN §C18).
  Import-free apart from the layout model.

  Mirrors src/gc.rs (`GcBuilder`: `new_with_type_and_ptr_meta`, `write`, `assume_init`, `Drop`) and
  src/slice.rs (`GcSliceWithHeaderBuilder`, `GcSliceWithHeaderSliceBuilder` with its
  `init_length` and `Drop`, `write_slice_with`, `copy_slice`; `GcSliceBuilder` and `GcStrBuilder`
  which wrap the former with header `()` / element `u8`):

  * `GcBuilder::drop` only deallocates (`self.ptr.dealloc()`): no destructor runs;
  * `GcSliceWithHeaderSliceBuilder::drop` runs `drop_in_place` on a `SliceWithHeader` fat pointer of
    length `init_length` (header first, then elements `0 … init_length-1` in order), then drops
    the inner `GcBuilder` (deallocation);
  * `write_slice_with` bumps `init_length` after every element; a panicking element constructor
    unwinds through the builder's `Drop`;
  * `copy_slice` / `copy_str` assert the length *before* copying; the failing assertion unwinds
    through the builder's `Drop` with `init_length = 0`;
  * `assume_init` sets the live flag and calls `Context::link` (push on the `all` list,
    `Metrics::mark_gc_allocated(1)`); nothing else ever makes the block visible to the arena.

  States `new → headerWritten → elems k → linked`, `drop` from any state; events `allocB`,
  `deallocB layout`, `dropHeader`, `dropElem i`, `link` (plus `panic` marking where unwinding
  starts).
-/
namespace GcArena.Builder

open GcArena.Layout

/-- Which public builder type is used. -/
inductive BKind where
  | gc      -- `GcBuilder<T>` for a sized `T`
  | slice   -- `GcSliceBuilder<E>`
  | swh     -- `GcSliceWithHeaderBuilder<H, E>` / `GcSliceWithHeaderSliceBuilder<H, E>`
  | str     -- `GcStrBuilder`
deriving DecidableEq, Repr

/-- Builder stage. -/
inductive Stage where
  | start                -- nothing created yet
  | new                  -- block allocated, nothing initialised
  | headerWritten        -- `GcSliceWithHeaderSliceBuilder`, `init_length = 0`
  | elems (k : Nat)      -- `init_length = k ≥ 1`
  | linked               -- `assume_init` ran: a `Gc` exists, the builder is consumed
  | dropped              -- the builder was dropped (explicitly or by unwinding)
  | failed               -- `GcPtr::alloc` panicked: no builder ever existed
deriving DecidableEq, Repr

/-- Observable events. -/
inductive Event where
  | allocB (l : Layout)
  | deallocB (l : Layout)
  | dropHeader
  | dropElem (i : Nat)
  | link
  | panic
deriving DecidableEq, Repr

/-- What the client does with the builder. -/
inductive Action where
  | create                   -- `XBuilder::new(n)` (slice / str: includes `write_header(())`)
  | writeHeader              -- `GcSliceWithHeaderBuilder::write_header`
  | writeElem (v : Nat)      -- one iteration of `write_slice_with`: element created and stored
  | ctorPanic                -- `create_element(i)` panics
  | finish                   -- end of the `write_slice_with` loop: `assume_init`
  | assumeInit               -- the client's own `assume_init` (not a safe fn) after initialising by hand
  | write (v : Nat)          -- `GcBuilder::write`
  | copy (src : List Nat)    -- `copy_slice` / `copy_str`
  | drop                     -- the builder goes out of scope
deriving DecidableEq, Repr

/-- Static parameters of one builder. -/
structure Cfg where
  maxSize : Nat
  /-- `Layout::new::<GcHeader>()` -/
  hdr : Layout
  /-- `size_of::<usize>()` -/
  word : Nat
  kind : BKind
  /-- header type `H` (`()` for slice / str; unused for gc) -/
  hl : Layout
  /-- element type `E` (`u8` for str; the value type `T` for gc) -/
  el : Layout
  /-- requested length (0 for gc) -/
  n : Nat

/-- The `AllocMeta` impl the builder uses. -/
def Cfg.pk (c : Cfg) : PtrKind :=
  match c.kind with
  | .gc => sizedKind c.el
  | .slice => sliceKind c.maxSize c.word c.el
  | .swh => sliceWithHeaderKind c.maxSize c.word c.hl c.el
  | .str => strKind c.maxSize c.word

/-- The per-value metadata given to `GcPtr::alloc`. -/
def Cfg.ptrMeta (c : Cfg) : Nat :=
  match c.kind with
  | .gc => 0
  | _ => c.n

/-- Is the configuration one the public API can express? -/
def Cfg.wf (c : Cfg) : Bool :=
  match c.kind with
  | .gc => c.n == 0
  | .slice => c.hl == unitLayout
  | .swh => true
  | .str => c.hl == unitLayout && c.el == byteLayout

/-- Builder + the part of the arena it could influence. -/
structure BState where
  stage : Stage := .start
  /-- events so far, oldest first -/
  events : List Event := []
  /-- values stored so far, in order (ghost: the contents of the value) -/
  written : List Nat := []
  /-- `Metrics::total_gc_count` -/
  gcs : Nat := 0
  /-- `MetricsInner::allocated_gcs` (what `allocation_debt` grows with) -/
  allocated : Nat := 0
  /-- is the block on the arena's `all` list (the only way a collection can reach it) -/
  onAllList : Bool := false
  /-- `GcHeader::is_live` -/
  live : Bool := false
  /-- an action was not applicable in the current stage (not a behaviour of the safe API) -/
  stuck : Bool := false
deriving DecidableEq, Repr

/-- `drop_in_place` of a `SliceWithHeader` of length `initLen`: header, then the prefix. -/
def dropEvents (initLen : Nat) : List Event :=
  .dropHeader :: (List.range initLen).map .dropElem

/-- `GcBuilder::drop` → the `dealloc` vtable entry: layout recomputed from the stored metadata. -/
def deallocEvents (c : Cfg) : List Event :=
  match gcDealloc c.maxSize c.hdr c.pk 0 c.ptrMeta with
  | some (_, l) => [.deallocB l]
  | none => [.panic]

/-- `GcBuilder::assume_init`: `set_live(true)`, `Context::link`. -/
def BState.link (s : BState) : BState :=
  { s with stage := .linked, events := s.events ++ [.link], live := true, onAllList := true,
           gcs := s.gcs + 1, allocated := s.allocated + 1 }

/-- Abandon with `init_length = initLen` (`none`: a bare `GcBuilder`, no destructor runs). -/
def BState.abandon (c : Cfg) (s : BState) (initLen : Option Nat) (panicking : Bool) : BState :=
  { s with stage := .dropped,
           events := s.events ++ (if panicking then [.panic] else []) ++
             (match initLen with | some k => dropEvents k | none => []) ++ deallocEvents c }

def BState.stick (s : BState) : BState := { s with stuck := true }

/-- `init_length` of a stage that holds a `GcSliceWithHeaderSliceBuilder`. -/
def Stage.initLen : Stage → Option Nat
  | .headerWritten => some 0
  | .elems k => some k
  | _ => none

/-- One client action. -/
def step (c : Cfg) (s : BState) (a : Action) : BState :=
  if s.stuck then s else
  match a with
  | .create =>
    match s.stage with
    | .start =>
      match gcAlloc c.maxSize c.hdr c.pk c.ptrMeta with
      | some p =>
        { s with events := s.events ++ [.allocB p.alloc],
                 stage := if c.kind = .slice ∨ c.kind = .str then .headerWritten else .new }
      | none => { s with events := s.events ++ [.panic], stage := .failed }
    | _ => s.stick
  | .writeHeader =>
    match s.stage with
    | .new => if c.kind = .swh then { s with stage := .headerWritten } else s.stick
    | _ => s.stick
  | .writeElem v =>
    if c.kind = .slice ∨ c.kind = .swh then
      match s.stage.initLen with
      | some k => if k < c.n then { s with stage := .elems (k + 1), written := s.written ++ [v] }
                  else s.stick
      | none => s.stick
    else s.stick
  | .ctorPanic =>
    if c.kind = .slice ∨ c.kind = .swh then
      match s.stage.initLen with
      | some k => if k < c.n then s.abandon c (some k) true else s.stick
      | none => s.stick
    else s.stick
  | .finish =>
    if c.kind = .slice ∨ c.kind = .swh then
      match s.stage.initLen with
      | some k => if k = c.n then s.link else s.stick
      | none => s.stick
    else s.stick
  | .assumeInit =>
    match s.stage with
    | .new => if c.kind = .gc then s.link else s.stick
    | .headerWritten => s.link
    | _ => s.stick
  | .write v =>
    match s.stage with
    | .new => if c.kind = .gc then { s with written := [v] }.link else s.stick
    | _ => s.stick
  | .copy src =>
    match s.stage with
    | .headerWritten =>
      if src.length = c.n then { s with written := src }.link
      else s.abandon c (some 0) true
    | _ => s.stick
  | .drop =>
    match s.stage with
    | .new => s.abandon c none false
    | .headerWritten => s.abandon c (some 0) false
    | .elems k => s.abandon c (some k) false
    | _ => s.stick

/-- Run a list of actions from a given arena state. -/
def run (c : Cfg) (s : BState) : List Action → BState
  | [] => s
  | a :: as => run c (step c s a) as

/-- Initial state: no builder, the arena has `gcs` objects and `allocated` allocations this cycle. -/
def initial (gcs allocated : Nat) : BState := { gcs := gcs, allocated := allocated }

end GcArena.Builder
