/-
  GcArena.Model.Layout — executable model, over `Nat`, of the allocation-layout arithmetic of
  gc-arena (DESIGN §C17).  Import-free (core Lean only) so that it links into `layoutmodel`.

  Mirrors, function by function:

  * `core::alloc::Layout`: `from_size_align` (validity, incl. the `isize::MAX` rounding rule with
    `isize::MAX` as the parameter `maxSize`), `new`, `array`, `extend`, `pad_to_align`,
    `padding_needed_for`;
  * src/gc_ptr.rs: `PtrProps::META_HEADER_LAYOUT`, `prefix_header_layout`, the pointer arithmetic
    of `GcPtr::alloc` (value / header / metadata positions), the `dealloc` entry of the vtable
    (layout recomputed from the read-back metadata), `PtrProps::read_ptr_meta` / `fat_ptr`,
    `GcPtr::thin_ptr`, and the `tagged_ptr` module with the masks used by `GcHeader`;
  * src/slice.rs: `SliceWithHeader::layout`, `ptr_to_thin`, `ptr_from_thin` and the three
    `PtrMeta`/`AllocMeta` impls (`SlicePtrMeta`, `StrPtrMeta`, `SliceWithHeaderPtrMeta`);
  * src/meta.rs: `UnitPtrMeta`.

  Everything is a plain `Nat` (no `abbrev`s: they make `omega` lose hypotheses).  `usize`
  wrap-around is not modelled: every sum that Rust computes unchecked is bounded by the
  `Layout` invariant (`size + (align-1) ≤ isize::MAX`), which the model checks explicitly.
-/
namespace GcArena.Layout

/-! ## `core::alloc::Layout` -/

/-- `n` rounded up to the next multiple of `a` (`Layout::size_rounded_up_to_custom_align`:
    `(size + align - 1) & !(align - 1)`; for a power of two `a` this is the same number). -/
def roundUp (n a : Nat) : Nat := (n + (a - 1)) / a * a

/-- `usize::is_power_of_two` (false for 0). -/
def isPow2 (n : Nat) : Bool := 2 ^ n.log2 == n

/-- A `core::alloc::Layout` value. -/
structure Layout where
  size : Nat
  align : Nat
deriving DecidableEq, Repr, Inhabited

/-- The `Layout` type invariant: power-of-two alignment, and the size rounded up to the alignment
    does not exceed `isize::MAX` (= `maxSize`).  `size ≤ isize::MAX - (align - 1)` in std. -/
def Layout.Valid (maxSize : Nat) (l : Layout) : Prop :=
  isPow2 l.align = true ∧ l.size + (l.align - 1) ≤ maxSize

instance (maxSize : Nat) (l : Layout) : Decidable (l.Valid maxSize) := by
  unfold Layout.Valid; exact inferInstance

/-- `Layout::from_size_align`. -/
def fromSizeAlign (maxSize size align : Nat) : Option Layout :=
  if isPow2 align = true ∧ size + (align - 1) ≤ maxSize then some ⟨size, align⟩ else none

/-- `Layout::new::<T>()` for a type of the given size and alignment.  Rust types have a size that
    is a multiple of their alignment; anything else is not the layout of a type. -/
def new (maxSize size align : Nat) : Option Layout :=
  if size % align = 0 then fromSizeAlign maxSize size align else none

/-- `Layout::array::<T>(n)` with `e = Layout::new::<T>()`.  std tests
    `element_size != 0 && n > max_size_for_align(align) / element_size`. -/
def array (maxSize : Nat) (e : Layout) (n : Nat) : Option Layout :=
  if e.size ≠ 0 ∧ n > (maxSize - (e.align - 1)) / e.size then none
  else some ⟨e.size * n, e.align⟩

/-- `Layout::extend`: the combined layout and the offset of `next` inside it. -/
def extend (maxSize : Nat) (l next : Layout) : Option (Layout × Nat) :=
  let offset := roundUp l.size next.align
  match fromSizeAlign maxSize (offset + next.size) (max l.align next.align) with
  | some r => some (r, offset)
  | none => none

/-- `Layout::padding_needed_for`. -/
def paddingNeededFor (l : Layout) (align : Nat) : Nat := roundUp l.size align - l.size

/-- `Layout::pad_to_align`. -/
def padToAlign (l : Layout) : Layout := ⟨roundUp l.size l.align, l.align⟩

/-! ## src/gc_ptr.rs — block layout -/

/-- `PtrProps::META_HEADER_LAYOUT`: the per-value metadata type, extended by `GcHeader`, padded.
    `none` is the `unreachable!()` arm (a compile-time failure, no allocation ever happens). -/
def metaHeaderLayout (maxSize : Nat) (pmeta hdr : Layout) : Option Layout :=
  match extend maxSize pmeta hdr with
  | some (l, _) => some (padToAlign l)
  | none => none

/-- `prefix_header_layout`.  `none` = the `assert!` fails (panic) or `extend` reports
    `LayoutError`; both abort `GcPtr::alloc` before `alloc::alloc` is called. -/
def prefixHeaderLayout (maxSize : Nat) (header value : Layout) : Option (Layout × Nat) :=
  if header.size % header.align ≠ 0 then none else extend maxSize header value

/-- One `P : AllocMeta<T, M>`: the layout of `P::PtrMetadata`, and `P::layout(TYPE_METADATA, ·)`
    as a function of the per-value metadata (abstracted to a `Nat`: a length, or a dummy). -/
structure PtrKind where
  pmeta : Layout
  layoutOf : Nat → Option Layout

/-- `l` is `Layout::new::<T>()` of some Rust type: a valid layout whose size is a multiple of its
    alignment. -/
def IsTypeLayout (maxSize : Nat) (l : Layout) : Prop :=
  l.Valid maxSize ∧ l.size % l.align = 0

instance (maxSize : Nat) (l : Layout) : Decidable (IsTypeLayout maxSize l) := by
  unfold IsTypeLayout; exact inferInstance

/-- What the theorems assume of a `P : AllocMeta`: `P::PtrMetadata` is a type, and whatever
    `P::layout` returns is a `Layout` (the std type invariant). -/
structure PtrKind.Ok (maxSize : Nat) (k : PtrKind) : Prop where
  pmeta : IsTypeLayout maxSize k.pmeta
  value : ∀ m v, k.layoutOf m = some v → v.Valid maxSize

/-- What `GcPtr::alloc` computes before and after calling the allocator. -/
structure Plan where
  /-- layout passed to `alloc::alloc` -/
  alloc : Layout
  /-- `value_offset` -/
  valueOff : Nat
  /-- `META_HEADER_LAYOUT` -/
  mhl : Layout
  /-- the value layout `P::layout(..)` returned -/
  value : Layout
deriving DecidableEq, Repr

/-- The layout part of `GcPtr::alloc::<TM, P>(ptr_meta)`.  `none` = one of the two `expect`s
    panics (no allocation is performed). -/
def gcAlloc (maxSize : Nat) (hdr : Layout) (k : PtrKind) (ptrMeta : Nat) : Option Plan :=
  match metaHeaderLayout maxSize k.pmeta hdr, k.layoutOf ptrMeta with
  | some mhl, some v =>
    match prefixHeaderLayout maxSize mhl v with
    | some (a, off) => some { alloc := a, valueOff := off, mhl := mhl, value := v }
    | none => none
  | _, _ => none

/-- `block.byte_add(value_offset)`. -/
def valuePtr (block : Nat) (p : Plan) : Nat := block + p.valueOff

/-- `value_ptr.byte_sub(size_of::<GcHeader>())` (also `GcPtr::header`).  Truncated subtraction:
    the theorems show `hdr.size ≤ value_ptr - block`, so no truncation ever happens. -/
def headerPtr (hdr : Layout) (value : Nat) : Nat := value - hdr.size

/-- `value_ptr.byte_sub(META_HEADER_LAYOUT.size())` (also `PtrProps::read_ptr_meta`). -/
def metaPtr (mhl : Layout) (value : Nat) : Nat := value - mhl.size

/-- Header position relative to the block start. -/
def Plan.headerOff (p : Plan) (hdr : Layout) : Nat := p.valueOff - hdr.size

/-- Metadata position relative to the block start. -/
def Plan.metaOff (p : Plan) : Nat := p.valueOff - p.mhl.size

/-- Events of `GcPtr::alloc`, as seen by the global allocator. -/
inductive AllocEvent where
  | panic
  | alloc (l : Layout)
deriving DecidableEq, Repr

/-- `GcPtr::alloc` as a trace: the `expect`s run before `alloc::alloc`. -/
def gcAllocTrace (maxSize : Nat) (hdr : Layout) (k : PtrKind) (ptrMeta : Nat) : List AllocEvent :=
  match gcAlloc maxSize hdr k ptrMeta with
  | some p => [.alloc p.alloc]
  | none => [.panic]

/-- The `dealloc` entry of `VtableFor::VTABLE`: given the value pointer and the metadata read
    back from `value_ptr - META_HEADER_LAYOUT.size`, the pointer and layout handed to
    `alloc::dealloc`.  `none` = an `unwrap` panics. -/
def gcDealloc (maxSize : Nat) (hdr : Layout) (k : PtrKind) (value : Nat) (metaRead : Nat) :
    Option (Nat × Layout) :=
  match metaHeaderLayout maxSize k.pmeta hdr, k.layoutOf metaRead with
  | some mhl, some v =>
    match prefixHeaderLayout maxSize mhl v with
    | some (a, off) => some (value - off, a)
    | none => none
  | _, _ => none

/-! ## src/slice.rs and src/meta.rs — value layouts -/

/-- `SliceWithHeader::<H, E>::layout(len)` with `h = Layout::new::<H>()`, `e = Layout::new::<E>()`. -/
def sliceWithHeaderLayout (maxSize : Nat) (h e : Layout) (len : Nat) : Option Layout :=
  match array maxSize e len with
  | some arr =>
    match extend maxSize h arr with
    | some (l, _) => some (padToAlign l)
    | none => none
  | none => none

/-- Offset of the `slice` field of the `#[repr(C)]` struct `SliceWithHeader<H, E>`. -/
def sliceFieldOff (h e : Layout) : Nat := roundUp h.size e.align

/-- `Layout::new::<()>()`. -/
def unitLayout : Layout := ⟨0, 1⟩

/-- `Layout::new::<u8>()`. -/
def byteLayout : Layout := ⟨1, 1⟩

/-- `UnitPtrMeta` for a sized `T` with layout `v` (metadata `()`). -/
def sizedKind (v : Layout) : PtrKind := ⟨unitLayout, fun _ => some v⟩

/-- A user `AllocMeta` impl for a sized `T` storing a per-value metadata type of layout `pmeta`
    and answering `Some(Layout::new::<T>())`. -/
def customKind (pmeta v : Layout) : PtrKind := ⟨pmeta, fun _ => some v⟩

/-- `SliceWithHeaderPtrMeta` for `SliceWithHeader<H, E>` (metadata `usize`, `word` bytes). -/
def sliceWithHeaderKind (maxSize word : Nat) (h e : Layout) : PtrKind :=
  ⟨⟨word, word⟩, sliceWithHeaderLayout maxSize h e⟩

/-- `SlicePtrMeta` for `[E]`: `SliceWithHeader::<(), E>`. -/
def sliceKind (maxSize word : Nat) (e : Layout) : PtrKind :=
  sliceWithHeaderKind maxSize word unitLayout e

/-- `StrPtrMeta`: `SliceWithHeader::<(), u8>`. -/
def strKind (maxSize word : Nat) : PtrKind := sliceKind maxSize word byteLayout

/-! ## Memory cells, metadata read-back, thin / fat pointers -/

/-- Store `vals` at consecutive addresses starting at `lo` (`ptr.write`). -/
def writeCells (m : Nat → Nat) (lo : Nat) (vals : List Nat) : Nat → Nat :=
  fun a => if lo ≤ a ∧ a < lo + vals.length then vals.getD (a - lo) 0 else m a

/-- Read `n` consecutive cells starting at `lo` (`ptr.read`). -/
def readCells (m : Nat → Nat) (lo n : Nat) : List Nat :=
  (List.range n).map (fun i => m (lo + i))

/-- A list of single-cell writes `(address, byte)` applied in order. -/
def applyWrites (m : Nat → Nat) : List (Nat × Nat) → Nat → Nat
  | [] => m
  | (a, v) :: ws => applyWrites (fun x => if x = a then v else m x) ws

/-- A fat pointer to a slice-like value: address and length metadata. -/
structure FatPtr where
  addr : Nat
  len : Nat
deriving DecidableEq, Repr

/-- `SliceWithHeader::ptr_to_thin` (and `SlicePtrMeta` / `StrPtrMeta::to_thin`): a pointer cast. -/
def toThin (f : FatPtr) : Nat := f.addr

/-- `SliceWithHeader::ptr_from_thin`: `slice_from_raw_parts(ptr, len)` then a cast. -/
def fromThin (addr len : Nat) : FatPtr := ⟨addr, len⟩

/-- `PtrProps::read_ptr_meta`: read the metadata cells in front of the header and decode them. -/
def readPtrMeta (m : Nat → Nat) (dec : List Nat → Nat) (mhl pmeta : Layout) (value : Nat) : Nat :=
  dec (readCells m (metaPtr mhl value) pmeta.size)

/-- `PtrProps::fat_ptr` / `GcPtr::fat_ptr`: thin pointer → fat pointer via the stored metadata. -/
def fatPtr (m : Nat → Nat) (dec : List Nat → Nat) (mhl pmeta : Layout) (value : Nat) : FatPtr :=
  fromThin value (readPtrMeta m dec mhl pmeta value)

/-! ## `tagged_ptr` and the `GcHeader` flag bits -/

/-- Mask of the `GcColor` bits in `GcHeader::tagged_vtable`. -/
def colorMask : Nat := 0x3
/-- Mask of the `needs_trace` flag. -/
def needsTraceMask : Nat := 0x4
/-- Mask of the `is_live` flag. -/
def liveMask : Nat := 0x8
/-- `align_of::<GcVtable>()` (`#[repr(align(16))]`). -/
def vtableAlign : Nat := 16

/-- `is_valid_mask::<GcVtable>(mask)`. -/
def isValidMask (mask : Nat) : Bool := decide (mask < vtableAlign)
/-- `is_boolean_mask(mask)`. -/
def isBooleanMask (mask : Nat) : Bool := isPow2 mask

/-- `addr & !mask` on a `bits`-wide `usize`. -/
def andNot (bits addr mask : Nat) : Nat := addr &&& ((2 ^ bits - 1) ^^^ mask)

/-- `tagged_ptr::untag`. -/
def untag (bits addr : Nat) : Nat := andNot bits addr (vtableAlign - 1)
/-- `tagged_ptr::get::<MASK>`. -/
def tagGet (mask addr : Nat) : Nat := addr &&& mask
/-- `tagged_ptr::set::<MASK>`. -/
def tagSet (bits mask addr tag : Nat) : Nat := andNot bits addr mask ||| (tag &&& mask)
/-- `tagged_ptr::get_bool::<MASK>`. -/
def tagGetBool (mask addr : Nat) : Bool := (addr &&& mask) != 0
/-- `tagged_ptr::set_bool::<MASK>`. -/
def tagSetBool (bits mask addr : Nat) (v : Bool) : Nat :=
  andNot bits addr mask ||| (if v then mask else 0)

/-- `GcHeader::color` as the two-bit code (0 white, 1 white-weak, 2 gray, 3 black). -/
def hdrColor (w : Nat) : Nat := tagGet colorMask w
/-- `GcHeader::set_color`. -/
def hdrSetColor (bits w c : Nat) : Nat := tagSet bits colorMask w c
/-- `GcHeader::needs_trace`. -/
def hdrNeedsTrace (w : Nat) : Bool := tagGetBool needsTraceMask w
/-- `GcHeader::set_needs_trace`. -/
def hdrSetNeedsTrace (bits w : Nat) (v : Bool) : Nat := tagSetBool bits needsTraceMask w v
/-- `GcHeader::is_live`. -/
def hdrIsLive (w : Nat) : Bool := tagGetBool liveMask w
/-- `GcHeader::set_live`. -/
def hdrSetLive (bits w : Nat) (v : Bool) : Nat := tagSetBool bits liveMask w v
/-- `GcHeader::new(vtable)`: the untagged vtable address (white, no trace, not live). -/
def hdrNew (vtable : Nat) : Nat := vtable

/-- The word a header holds after `new`, `set_needs_trace`, `set_live`, `set_color`. -/
def hdrWord (bits vtable color : Nat) (needsTrace live : Bool) : Nat :=
  hdrSetColor bits (hdrSetLive bits (hdrSetNeedsTrace bits (hdrNew vtable) needsTrace) live) color

/-! ## `GcHeader` fields and the collector's bookkeeping writes

`GcHeader` (src/gc_ptr.rs) has exactly two fields, each one machine word wide:
`next: Cell<Option<GcPtr>>` and `tagged_vtable: Cell<*const GcVtable>`.  Both are private to
`gc_ptr.rs`; the only code that stores to them is `GcHeader::new` (through
`header_ptr.write(..)` in `GcPtr::alloc`) and the four `&self` mutators `set_next`, `set_color`,
`set_needs_trace`, `set_live`, which `context.rs` / `gc.rs` call through `GcPtr::header()`
(= `value_ptr - size_of::<GcHeader>()`).  The only other store `GcPtr::alloc` performs is
`meta_ptr.write(ptr_meta)`.  These are the `CollectorWrite`s below: each is a store of bytes at
an address computed from the value pointer, the header layout and the field offset.  The field
order of a `repr(Rust)` struct is the compiler's choice, so the offsets are parameters
(`HeaderFields`), constrained only by "a field lies inside its struct" (`HeaderFields.Fits`). -/

/-- Little-endian bytes of a `n`-byte word. -/
def wordBytes : Nat → Nat → List Nat
  | 0, _ => []
  | n + 1, w => (w % 256) :: wordBytes n (w / 256)

/-- The word stored in a list of little-endian bytes. -/
def bytesWord : List Nat → Nat
  | [] => 0
  | b :: bs => b + 256 * bytesWord bs

/-- Load an `n`-byte word (`Cell::get`). -/
def readWord (m : Nat → Nat) (addr n : Nat) : Nat := bytesWord (readCells m addr n)

/-- Where the two fields of `GcHeader` sit inside the struct. -/
structure HeaderFields where
  /-- `size_of::<usize>()` -/
  word : Nat
  /-- offset of `next: Cell<Option<GcPtr>>` -/
  nextOff : Nat
  /-- offset of `tagged_vtable: Cell<*const GcVtable>` -/
  vtableOff : Nat
deriving DecidableEq, Repr

/-- Both fields lie inside a struct of layout `hdr` (true of every Rust struct layout). -/
def HeaderFields.Fits (f : HeaderFields) (hdr : Layout) : Prop :=
  f.nextOff + f.word ≤ hdr.size ∧ f.vtableOff + f.word ≤ hdr.size

instance (f : HeaderFields) (hdr : Layout) : Decidable (f.Fits hdr) := by
  unfold HeaderFields.Fits; exact inferInstance

/-- Declaration order (what rustc 1.95 picks on x86-64; the harness locates the vtable word at
    run time instead of assuming this). -/
def declOrderFields (word : Nat) : HeaderFields := ⟨word, 0, word⟩

/-- The four `&self` mutators of `GcHeader`: the only stores to an allocated block's header after
    `GcPtr::alloc` returned. -/
inductive HeaderWrite where
  /-- `GcHeader::set_color` (the two-bit colour code) -/
  | setColor (c : Nat)
  /-- `GcHeader::set_needs_trace` -/
  | setNeedsTrace (b : Bool)
  /-- `GcHeader::set_live` -/
  | setLive (b : Bool)
  /-- `GcHeader::set_next` (`0` = `None`, otherwise the erased value pointer of the next block) -/
  | setNext (next : Nat)
deriving DecidableEq, Repr

/-- One store: start address and the bytes stored. -/
structure Store where
  lo : Nat
  bytes : List Nat
deriving DecidableEq, Repr

/-- Perform a store. -/
def Store.run (m : Nat → Nat) (s : Store) : Nat → Nat := writeCells m s.lo s.bytes

/-- The store a header mutator performs on the block whose header is at `hp`, given the current
    memory (`Cell::update` reads the tagged word, changes the field's bits, stores it back). -/
def HeaderWrite.store (f : HeaderFields) (bits hp : Nat) (m : Nat → Nat) : HeaderWrite → Store
  | .setColor c =>
    ⟨hp + f.vtableOff, wordBytes f.word (hdrSetColor bits (readWord m (hp + f.vtableOff) f.word) c)⟩
  | .setNeedsTrace b =>
    ⟨hp + f.vtableOff,
      wordBytes f.word (hdrSetNeedsTrace bits (readWord m (hp + f.vtableOff) f.word) b)⟩
  | .setLive b =>
    ⟨hp + f.vtableOff, wordBytes f.word (hdrSetLive bits (readWord m (hp + f.vtableOff) f.word) b)⟩
  | .setNext n => ⟨hp + f.nextOff, wordBytes f.word n⟩

/-- Every store the collector side of the crate performs on one allocated block. -/
inductive CollectorWrite where
  /-- `GcPtr::alloc`: `meta_ptr.write(ptr_meta)` (`enc` = the bytes of the metadata value); precedes
      the initialisation of the value -/
  | writeMeta (enc : List Nat)
  /-- `GcPtr::alloc`: `header_ptr.write(GcHeader::new(vtable))` (`next = None`, untagged vtable) -/
  | headerNew (vtable : Nat)
  /-- one of the four `GcHeader` mutators, called by `context.rs` / `gc.rs` -/
  | header (w : HeaderWrite)
deriving DecidableEq, Repr

/-- The stores of a collector write on the block with value pointer `value`, in order. -/
def CollectorWrite.stores (f : HeaderFields) (bits : Nat) (hdr mhl pmeta : Layout) (value : Nat)
    (m : Nat → Nat) : CollectorWrite → List Store
  | .writeMeta enc => [⟨metaPtr mhl value, enc.take pmeta.size⟩]
  | .headerNew vt =>
    [⟨headerPtr hdr value + f.nextOff, wordBytes f.word 0⟩,
     ⟨headerPtr hdr value + f.vtableOff, wordBytes f.word (hdrNew vt)⟩]
  | .header w => [w.store f bits (headerPtr hdr value) m]

/-- Perform a collector write. -/
def CollectorWrite.apply (f : HeaderFields) (bits : Nat) (hdr mhl pmeta : Layout) (value : Nat)
    (m : Nat → Nat) (w : CollectorWrite) : Nat → Nat :=
  (w.stores f bits hdr mhl pmeta value m).foldl Store.run m

/-- Perform a sequence of collector writes (any number of collections, barriers, links). -/
def runCollector (f : HeaderFields) (bits : Nat) (hdr mhl pmeta : Layout) (value : Nat)
    (m : Nat → Nat) : List CollectorWrite → Nat → Nat
  | [] => m
  | w :: ws => runCollector f bits hdr mhl pmeta value (w.apply f bits hdr mhl pmeta value m) ws

/-- What can happen to an allocated block after `GcPtr::alloc` returned: a header mutator, or the
    mutator storing a byte of the value through the `Gc` (at an offset inside the value: safe
    Rust reaches nothing else through a `&T`). -/
inductive BlockWrite where
  | collector (w : HeaderWrite)
  | mutator (off byte : Nat)
deriving DecidableEq, Repr

/-- Perform one post-allocation write on the block with value pointer `value` and value layout
    `v`. -/
def BlockWrite.apply (f : HeaderFields) (bits : Nat) (hdr v : Layout) (value : Nat)
    (m : Nat → Nat) : BlockWrite → Nat → Nat
  | .collector w => (w.store f bits (headerPtr hdr value) m).run m
  | .mutator off byte => if off < v.size then writeCells m (value + off) [byte] else m

/-- A history of post-allocation writes. -/
def runHistory (f : HeaderFields) (bits : Nat) (hdr v : Layout) (value : Nat)
    (m : Nat → Nat) : List BlockWrite → Nat → Nat
  | [] => m
  | w :: ws => runHistory f bits hdr v value (w.apply f bits hdr v value m) ws

/-- Memory right after `GcPtr::alloc`: metadata written, header initialised. -/
def afterAlloc (f : HeaderFields) (bits : Nat) (hdr mhl pmeta : Layout) (value : Nat)
    (m : Nat → Nat) (enc : List Nat) (vtable : Nat) : Nat → Nat :=
  runCollector f bits hdr mhl pmeta value m [.writeMeta enc, .headerNew vtable]

end GcArena.Layout
