/-!
# Model of `#[derive(Collect)]` (C15)

Executable model of the derive algorithm of `/repo/derive/src/lib.rs` (`collect_derive`), of
`Trace::trace` (the `NEEDS_TRACE` short-circuit of `src/collect.rs`) and of the *shape* of the
provided container impls of `src/collect_impl.rs` / `src/lock.rs` (iterate every stored element,
forward each one to `Trace::trace`; `NEEDS_TRACE` = disjunction over the parameters).

The macro never looks inside a field type: it emits `<#ty as Collect>::NEEDS_TRACE` and
`cc.trace(bi)` and lets rustc resolve them.  The model mirrors that: a declaration `Decl` is first
*resolved* (`Decl.resolve`) by replacing each field type by its meaning `Sem` (is it `Collect`, is
it `'static`, its `NEEDS_TRACE`, its `Collect::trace`, its values) and the derive algorithm
(`macroCheck`, `rustcDef`, `rustcUse`, `needsTraceR`, `traceR`) is a non-recursive function of the
resolved declaration `RDecl`.  Generic parameters are interpreted by dictionary passing
(`Ty.param i` is looked up in the environment `ρ : List Sem`), which is how rustc monomorphises
`T: Collect<'gc>` bounds; a derived ADT is referenced from a type by the declaration itself
(`Ty.adt d args`), so types that are recursive *by value* do not exist in the universe (rustc
rejects them for a `NEEDS_TRACE` const-evaluation cycle; recursion through `Gc` is invisible to
tracing because `Gc::trace` reports the pointer and never looks at the pointee).

Import-free.  Everything is structurally recursive and reduces by `decide` / `rfl`.
-/
namespace GcArena.Derive

/-- A reported / held arena pointer: (pointer id, isWeak). `false` = `Gc` (strong, reported with
`Trace::trace_gc`), `true` = `GcWeak` (reported with `Trace::trace_gc_weak`). -/
abbrev Ptr := Nat × Bool

/-! ## Values and ground truth -/

/-- Values, independent of types.  `opaque held` is a value of a type the collector knows nothing
about (no `Collect` impl); `held` are the arena pointers it may hide.  A provided container holds
`(type-parameter position, element)` pairs: `Ok x ↦ [(0,x)]`, `Err e ↦ [(1,e)]`,
`HashMap {k₁:v₁,…} ↦ [(0,k₁),(1,v₁),…]`, `(a,b,c) ↦ [(0,a),(1,b),(2,c)]`, `vec![x,y] ↦ [(0,x),(0,y)]`.
A derived ADT value is its active variant and that variant's fields in declaration order. -/
inductive Val where
  | leaf
  | gc (id : Nat)
  | weak (id : Nat)
  | opaque (held : List Ptr)
  | con (elems : List (Nat × Val))
  | adt (variant : Nat) (fields : List Val)

mutual
/-- Ground truth: every arena pointer held anywhere inside the value, strong/weak, in storage
order (compared up to permutation). -/
def ptrsOf : Val → List Ptr
  | .leaf => []
  | .gc id => [(id, false)]
  | .weak id => [(id, true)]
  | .opaque held => held
  | .con es => ptrsOfElems es
  | .adt _ fs => ptrsOfList fs
def ptrsOfElems : List (Nat × Val) → List Ptr
  | [] => []
  | e :: es => ptrsOfElem e ++ ptrsOfElems es
def ptrsOfElem : Nat × Val → List Ptr
  | (_, v) => ptrsOf v
def ptrsOfList : List Val → List Ptr
  | [] => []
  | v :: vs => ptrsOf v ++ ptrsOfList vs
end

/-! ## Meaning of a type -/

/-- What rustc knows about a (closed, instantiated) type when it resolves the code the derive
generated: whether `T: Collect<'gc>` holds, whether `T: 'static` holds, `<T as
Collect>::NEEDS_TRACE`, `<T as Collect>::trace` (as the list of pointers reported to the tracer),
and the values of the type (`check`). -/
structure Sem where
  collect : Bool
  static : Bool
  needsTrace : Bool
  trace : Val → List Ptr
  check : Val → Bool

/-- `Trace::trace` of `src/collect.rs`: `if C::NEEDS_TRACE { value.trace(self) }`. -/
def Sem.visit (s : Sem) (v : Val) : List Ptr :=
  if s.needsTrace then s.trace v else []

/-- Pointer-free leaf with a `static_collect!`-style impl (`i32`, `String`, `&'static T`, …). -/
def Sem.leaf : Sem :=
  { collect := true, static := true, needsTrace := false, trace := fun _ => [],
    check := fun v => match v with | .leaf => true | _ => false }

/-- `Gc<'gc, T>`: `cc.trace_gc(Gc::erase(*self))`, default `NEEDS_TRACE = true`. -/
def Sem.gc : Sem :=
  { collect := true, static := false, needsTrace := true,
    trace := fun v => match v with | .gc id => [(id, false)] | _ => [],
    check := fun v => match v with | .gc _ => true | _ => false }

/-- `GcWeak<'gc, T>`: `cc.trace_gc_weak(GcWeak::erase(*self))`. -/
def Sem.weak : Sem :=
  { collect := true, static := false, needsTrace := true,
    trace := fun v => match v with | .weak id => [(id, true)] | _ => [],
    check := fun v => match v with | .weak _ => true | _ => false }

/-- A type without any `Collect` impl (`struct NoImpl;` when `isStatic`, `struct
NoCollectImpl<'a>(&'a bool)` otherwise). -/
def Sem.opaque (isStatic : Bool) : Sem :=
  { collect := false, static := isStatic, needsTrace := false, trace := fun _ => [],
    check := fun v => match v with | .opaque _ => true | _ => false }

/-- `&'lt T` (also `&'lt mut T`).  The only provided impl is `unsafe impl<'gc, T: ?Sized + 'static>
Collect<'gc> for &'static T` with `NEEDS_TRACE = false` and the default (empty) `trace`: a reference
is `Collect` iff its lifetime is `'static` and its referent type is `'static` (the referent need
NOT be `Collect`), it is `'static` under the same condition, and it is never traced.  A value of a
reference type is modelled like an opaque value (`held` = the arena pointers reachable through it);
a `'static` reference is `'static`, hence pointer-free — the same assumption as for `Sem.leaf`.
`&'gc T` / `&'a T` (what `Gc::as_ref` returns) is NOT `Collect`. -/
def Sem.ref (staticLt : Bool) (t : Sem) : Sem :=
  { collect := staticLt && t.static, static := staticLt && t.static, needsTrace := false,
    trace := fun _ => [],
    check := fun v => match v with
      | .opaque held => !(staticLt && t.static) || held.isEmpty
      | _ => false }

instance : Inhabited Sem := ⟨Sem.opaque false⟩

/-- Provided containers, by the shape of what they store. -/
inductive Con where
  | option            -- 0 or 1 element
  | box               -- exactly one element: Box, Rc, Arc
  | refLock           -- exactly one element, traced through `borrow()`
  | lock              -- exactly one element, traced through a copy (`get()`)
  | onceLock          -- 0 or 1 element
  | vec               -- any number: Vec, VecDeque, LinkedList, BinaryHeap, BTreeSet, HashSet, [T], SmallVec …
  | array (n : Nat)   -- exactly n
  | tuple             -- one element per parameter, 0..16 parameters
  | result            -- one element, of parameter 0 (`Ok`) or 1 (`Err`)
  | map               -- alternating key / value: HashMap, BTreeMap, IndexMap, hashbrown::HashMap
  | sliceWithHeader   -- one header (parameter 0) then any number of elements (parameter 1)
  deriving DecidableEq, Repr

def Con.arityOk : Con → Nat → Bool
  | .tuple, n => n ≤ 16
  | .result, n => n == 2
  | .map, n => n == 2
  | .sliceWithHeader, n => n == 2
  | _, n => n == 1

def alternating : List Nat → Bool
  | [] => true
  | 0 :: 1 :: rest => alternating rest
  | _ => false

/-- Which parameter positions the stored elements of a container value may have. -/
def Con.shapeOk : Con → Nat → List Nat → Bool
  | .option, _, ps => ps == [] || ps == [0]
  | .onceLock, _, ps => ps == [] || ps == [0]
  | .box, _, ps => ps == [0]
  | .refLock, _, ps => ps == [0]
  | .lock, _, ps => ps == [0]
  | .vec, _, ps => ps.all (· == 0)
  | .array n, _, ps => ps == List.replicate n 0
  | .tuple, k, ps => ps == List.range k
  | .result, _, ps => ps == [0] || ps == [1]
  | .map, _, ps => alternating ps
  | .sliceWithHeader, _, ps => match ps with
      | 0 :: rest => rest.all (· == 1)
      | _ => false

/-- The body of every provided impl: `for x in self { cc.trace(x) }` over all stored elements, each
at the type of its parameter position. -/
def traceElems (args : List Sem) : List (Nat × Val) → List Ptr
  | [] => []
  | e :: es => (args.getD e.1 default).visit e.2 ++ traceElems args es

def checkElems (args : List Sem) : List (Nat × Val) → Bool
  | [] => true
  | e :: es => (decide (e.1 < args.length) && (args.getD e.1 default).check e.2) && checkElems args es

/-- `impl<T: Collect, …> Collect for C<T, …>` of `collect_impl.rs`: `NEEDS_TRACE = T::NEEDS_TRACE
|| …`, trace = every element through `Trace::trace`. -/
def Sem.con (c : Con) (args : List Sem) : Sem :=
  { collect := c.arityOk args.length && args.all (·.collect),
    static := args.all (·.static),
    needsTrace := args.any (·.needsTrace),
    trace := fun v => match v with | .con es => traceElems args es | _ => [],
    check := fun v => match v with
      | .con es => c.shapeOk args.length (es.map (·.1)) && checkElems args es
      | _ => false }

/-! ## Declarations -/

/-- The three modes of the derive. (`unsafeDrop` is `#[collect(unsafe_drop)]`.) -/
inductive Mode where
  | requireStatic | noDrop | unsafeDrop
  deriving DecidableEq, Repr

/-- One option inside a `#[collect(...)]` attribute.  `bound ps` is `bound = "where P_i:
Collect<'gc>, …"` for `i ∈ ps` (`bound []` is `bound = ""`); `gcLifetime i` names the `i`-th
lifetime parameter; `unknown` is any other identifier. -/
inductive Opt where
  | mode (m : Mode)
  | bound (ps : List Nat)
  | gcLifetime (i : Nat)
  | unknown
  deriving DecidableEq, Repr

/-- One `#[collect(opt, opt, …)]` attribute. -/
abbrev Attr := List Opt

inductive Style where
  | named | tuple | unit
  deriving DecidableEq, Repr

mutual
/-- Type shapes. -/
inductive Ty where
  | leaf                                  -- pointer-free, `Collect`, `'static`
  | gc                                    -- `Gc<'gc, _>`: any pointee, including `Self` / `RefLock<Self>`
  | weak                                  -- `GcWeak<'gc, _>`: any pointee, including `Self`
  | opaque (isStatic : Bool)              -- no `Collect` impl
  | param (i : Nat)                       -- the i-th type parameter of the enclosing declaration
  | ref (staticLt : Bool) (t : Ty)        -- `&'static T` (true) / `&'gc T`, `&'a T`, `&'gc mut T` (false)
  | con (c : Con) (args : List Ty)        -- provided container applied to arguments
  | adt (d : Decl) (args : List Ty)       -- derived ADT applied to type arguments
/-- A field (binding): its `#[collect(..)]` attributes and its type. -/
inductive Field where
  | mk (attrs : List Attr) (ty : Ty)
/-- A variant (a struct is its single variant, as in `synstructure`). -/
inductive Variant where
  | mk (style : Style) (attrs : List Attr) (fields : List Field)
/-- `struct` / `enum` declaration carrying `#[derive(Collect)]`: the `#[collect(..)]` attributes on
the type, the number of lifetime and type parameters, whether the program also contains `impl Drop`
for it, and its variants. -/
inductive Decl where
  | mk (isEnum : Bool) (attrs : List Attr) (lifetimes tparams : Nat) (hasDrop : Bool)
       (variants : List Variant)
end

def Field.attrs : Field → List Attr | .mk a _ => a
def Field.ty : Field → Ty | .mk _ t => t
def Variant.style : Variant → Style | .mk s _ _ => s
def Variant.attrs : Variant → List Attr | .mk _ a _ => a
def Variant.fields : Variant → List Field | .mk _ _ f => f
def Decl.isEnum : Decl → Bool | .mk e _ _ _ _ _ => e
def Decl.attrs : Decl → List Attr | .mk _ a _ _ _ _ => a
def Decl.lifetimes : Decl → Nat | .mk _ _ l _ _ _ => l
def Decl.tparams : Decl → Nat | .mk _ _ _ t _ _ => t
def Decl.hasDrop : Decl → Bool | .mk _ _ _ _ h _ => h
def Decl.variants : Decl → List Variant | .mk _ _ _ _ _ v => v

/-- Declarations after resolving field types to their meaning. -/
structure RField where
  attrs : List Attr
  sem : Sem

structure RVariant where
  style : Style
  attrs : List Attr
  fields : List RField

structure RDecl where
  isEnum : Bool
  attrs : List Attr
  lifetimes : Nat
  tparams : Nat
  hasDrop : Bool
  variants : List RVariant

/-! ## The macro -/

/-- Why a `#[derive(Collect)]` does not compile. -/
inductive Reject where
  -- `syn::Error::to_compile_error()` emitted by the macro
  | duplicateAttr               -- "Cannot specify multiple `#[collect]` attributes! Consider merging them."
  | multipleBounds              -- "multiple bounds specified. `#[collect(...)]` requires one mode …"
  | multipleGcLifetimes         -- "multiple `'gc` lifetimes specified. …"
  | multipleModes               -- "multiple modes specified. …"
  | unknownOption               -- "unknown option. …"
  | fieldAttrNotRequireStatic   -- "Only `#[collect(require_static)]` is supported on a field"
  | variantAttr                 -- "`#[collect]` is not supported on enum variants"
  -- `panic!` inside the macro ("proc-macro derive panicked")
  | missingMode                 -- "deriving `Collect` requires a `#[collect(...)]` attribute"
  | multipleLifetimes           -- "… multiple lifetime parameters requires a `#[collect(gc_lifetime = ...)]` attribute"
  -- raised later by rustc from the generated impls
  | dropConflict                -- E0119 conflicting impls of `__MustNotImplDrop` (`no_drop` + `impl Drop`)
  | notStatic                   -- region error from `FieldTy: 'static` / `Self: 'static`
  | notCollect                  -- E0277 `FieldTy: Collect<'gc>` not satisfied (definition or use site)
  | boundUnsatisfied            -- E0277 a type argument does not satisfy the impl's bounds
  | undeclaredLifetime          -- E0261 `gc_lifetime` names no lifetime parameter of the type
  | arity                       -- E0107 wrong number of type arguments
  deriving DecidableEq, Repr

inductive Stage where
  | compileError | macroPanic | rustc
  deriving DecidableEq, Repr

def Reject.stage : Reject → Stage
  | .duplicateAttr | .multipleBounds | .multipleGcLifetimes | .multipleModes | .unknownOption
  | .fieldAttrNotRequireStatic | .variantAttr => .compileError
  | .missingMode | .multipleLifetimes => .macroPanic
  | .dropConflict | .notStatic | .notCollect | .boundUnsatisfied | .undeclaredLifetime | .arity => .rustc

/-- `find_collect_meta`: the single `#[collect]` attribute, an error if there are several. -/
def findCollectMeta : List Attr → Except Reject (Option Attr)
  | [] => .ok none
  | [a] => .ok (some a)
  | _ :: _ :: _ => .error .duplicateAttr

/-- `mode`, `override_bound`, `gc_lifetime` of `collect_derive`. -/
structure Opts where
  mode : Option Mode := none
  bound : Option (List Nat) := none
  gcLifetime : Option Nat := none
  deriving DecidableEq, Repr

/-- One step of the `parse_nested_meta` closure on the type-level attribute. -/
def parseOpt (o : Opts) : Opt → Except Reject Opts
  | .bound ps => if o.bound.isSome then .error .multipleBounds else .ok { o with bound := some ps }
  | .gcLifetime i =>
      if o.gcLifetime.isSome then .error .multipleGcLifetimes else .ok { o with gcLifetime := some i }
  | .mode m => if o.mode.isSome then .error .multipleModes else .ok { o with mode := some m }
  | .unknown => if o.mode.isSome then .error .multipleModes else .error .unknownOption

def parseOpts (o : Opts) : List Opt → Except Reject Opts
  | [] => .ok o
  | x :: xs => match parseOpt o x with
      | .ok o' => parseOpts o' xs
      | .error e => .error e

/-- Parsing of the type-level `#[collect(...)]` attributes (first error wins, as in the macro). -/
def parseTypeAttrs (attrs : List Attr) : Except Reject Opts :=
  match findCollectMeta attrs with
  | .error e => .error e
  | .ok none => .ok {}
  | .ok (some a) => parseOpts {} a

/-- The field is removed by `impl_struct.filter`: exactly one `#[collect]` attribute whose only
option is `require_static`. -/
def attrsStatic (attrs : List Attr) : Bool := attrs == [[Opt.mode .requireStatic]]

/-- The field stays a binding of the generated `match`. -/
def attrsKept (attrs : List Attr) : Bool := !attrsStatic attrs

/-- The error pushed by the `filter` closure for a field, if any (the field is kept then). -/
def fieldAttrError : List Attr → Option Reject
  | [] => none
  | [a] => if a == [] || a == [Opt.mode .requireStatic] then none else some .fieldAttrNotRequireStatic
  | _ :: _ :: _ => some .duplicateAttr

def RField.kept (f : RField) : Bool := attrsKept f.attrs
def RField.isStatic (f : RField) : Bool := attrsStatic f.attrs

def firstSome : List (Option Reject) → Option Reject
  | [] => none
  | some e :: _ => some e
  | none :: rest => firstSome rest

/-- All bindings of all variants, in order. -/
def RDecl.fields (r : RDecl) : List RField := r.variants.flatMap (·.fields)

/-- First field-attribute error, in declaration order. -/
def fieldErrors (r : RDecl) : Option Reject := firstSome (r.fields.map (fun f => fieldAttrError f.attrs))

/-- "`#[collect]` is not supported on enum variants" (enums only; any `#[collect]` attribute). -/
def variantErrors (r : RDecl) : Option Reject :=
  if r.isEnum && r.variants.any (fun v => !v.attrs.isEmpty) then some .variantAttr else none

/-- The part of `collect_derive` that runs inside the macro: the options and mode on success, the
first observable error otherwise.  A `panic!` aborts the expansion, so the multiple-lifetimes
panic hides the `compile_error!`s collected before it. In `require_static` mode neither fields,
variants nor lifetimes are inspected. -/
def macroCheck (r : RDecl) : Except Reject (Opts × Mode) :=
  match parseTypeAttrs r.attrs with
  | .error e => .error e
  | .ok o =>
    match o.mode with
    | none => .error .missingMode
    | some m =>
      if m = .requireStatic then .ok (o, m)
      else if o.gcLifetime.isNone && decide (2 ≤ r.lifetimes) then .error .multipleLifetimes
      else match fieldErrors r with
        | some e => .error e
        | none => match variantErrors r with
          | some e => .error e
          | none => .ok (o, m)

/-- The mode the macro settled on, if its attribute parsing succeeded. -/
def modeOf (r : RDecl) : Option Mode :=
  match parseTypeAttrs r.attrs with
  | .ok o => o.mode
  | .error _ => none

/-- `needs_trace_expr`: `false || <F1 as Collect>::NEEDS_TRACE || …` over the bindings left after the
`require_static` filter, **all variants**.  `false` in `require_static` mode. -/
def needsTraceR (r : RDecl) : Bool :=
  match modeOf r with
  | some m =>
    if m = .requireStatic then false
    else (r.fields.filter (·.kept)).foldl (fun acc f => acc || f.sem.needsTrace) false
  | none => false

/-- The arm of `match *self { … }` for one variant: `cc.trace(bi)` for every kept binding. -/
def traceFields : List RField → List Val → List Ptr
  | f :: fs, x :: xs => (if f.kept then f.sem.visit x else []) ++ traceFields fs xs
  | _, _ => []

/-- The generated `Collect::trace`: the arm of the ACTIVE variant. Default (empty) `trace` in
`require_static` mode. -/
def traceR (r : RDecl) (v : Val) : List Ptr :=
  match modeOf r with
  | some m =>
    if m = .requireStatic then []
    else match v with
      | .adt k fs => match r.variants[k]? with
        | some vr => traceFields vr.fields fs
        | none => []
      | _ => []
  | none => []

/-- Values of a variant: one value per field, of the field's type; a `require_static` field is
`'static`, hence holds no arena pointer (the explicit hypothesis the derive relies on). -/
def checkFields : List RField → List Val → Bool
  | [], [] => true
  | f :: fs, x :: xs => (f.sem.check x && (!f.isStatic || (ptrsOf x).isEmpty)) && checkFields fs xs
  | _, _ => false

/-- Values of a derived ADT; in `require_static` mode `Self: 'static`, hence pointer-free. -/
def checkR (r : RDecl) (v : Val) : Bool :=
  match v with
  | .adt k fs => match r.variants[k]? with
    | some vr => checkFields vr.fields fs &&
        (!(modeOf r == some .requireStatic) || (ptrsOf v).isEmpty)
    | none => false
  | _ => false

/-! ## What rustc checks on the generated code -/

def firstErr : List (Bool × Reject) → Except Reject Unit
  | [] => .ok ()
  | (true, _) :: rest => firstErr rest
  | (false, e) :: _ => .error e

/-- Definition-site checks on the generated impls (field types resolved under the impl's own
bounds): the `__MustNotImplDrop` conflict, the `gc_lifetime` name, and `FieldTy: Collect<'gc>`
for every binding that is traced. -/
def rustcDef (o : Opts) (m : Mode) (rDef : RDecl) : Except Reject Unit :=
  firstErr
    ([(!(m == .noDrop && rDef.hasDrop), Reject.dropConflict)] ++
     (if m == .requireStatic then [] else
      [(match o.gcLifetime with | some i => decide (i < rDef.lifetimes) | none => true,
        Reject.undeclaredLifetime)] ++
      (rDef.fields.filter (·.kept)).map (fun f => (f.sem.collect, Reject.notCollect))))

/-- Use-site checks at a concrete instantiation `ρ` of the type parameters: number of arguments,
the impl's bounds (default `AddBounds::Generics`: every type parameter `Collect`; with `bound =`
only the listed ones), `Self: 'static` in `require_static` mode, `FieldTy: 'static` for every
`require_static` field, and `FieldTy: Collect<'gc>` for every traced field. -/
def rustcUse (ρ : List Sem) (o : Opts) (m : Mode) (r : RDecl) : Except Reject Unit :=
  firstErr
    ([(ρ.length == r.tparams, Reject.arity)] ++
     (if m == .requireStatic then
        [(r.lifetimes == 0 && ρ.all (·.static), Reject.notStatic)]
      else
        [(match o.bound with
          | none => ρ.all (·.collect)
          | some ps => ps.all (fun i => (ρ.getD i default).collect), Reject.boundUnsatisfied)] ++
        (r.fields.filter (·.isStatic)).map (fun f => (f.sem.static, Reject.notStatic)) ++
        (r.fields.filter (·.kept)).map (fun f => (f.sem.collect, Reject.notCollect))))

/-- Does `#[derive(Collect)]` on the declaration, used at instantiation `ρ`, compile? `rDef` is the
declaration resolved under the impl's own bounds, `rUse` under `ρ`. -/
def deriveCheckR (ρ : List Sem) (rDef rUse : RDecl) : Except Reject Unit :=
  match macroCheck rUse with
  | .error e => .error e
  | .ok (o, m) => match rustcDef o m rDef with
    | .error e => .error e
    | .ok () => rustcUse ρ o m rUse

instance : DecidableEq (Except Reject Unit) := fun a b =>
  match a, b with
  | .ok (), .ok () => isTrue rfl
  | .error e1, .error e2 =>
    if h : e1 = e2 then isTrue (by rw [h]) else isFalse (by intro h'; cases h'; exact h rfl)
  | .ok _, .error _ => isFalse (by intro h; cases h)
  | .error _, .ok _ => isFalse (by intro h; cases h)

def isOk : Except Reject Unit → Bool
  | .ok _ => true
  | .error _ => false

/-- Meaning of a derived ADT at an instantiation. `T<'gc, …>` is `'static` only without lifetime
parameters and with `'static` type arguments. -/
def derivedSem (ρ : List Sem) (rDef rUse : RDecl) : Sem :=
  { collect := isOk (deriveCheckR ρ rDef rUse),
    static := rUse.lifetimes == 0 && ρ.all (·.static),
    needsTrace := needsTraceR rUse,
    trace := traceR rUse,
    check := checkR rUse }

/-- A type parameter as seen inside the impl: `Collect` iff the impl's where-clause says so,
`'static` iff a where-predicate of the impl implies it. -/
def Sem.abstractParam (bounded isStatic : Bool) : Sem :=
  { collect := bounded, static := isStatic, needsTrace := true, trace := fun _ => [],
    check := fun _ => false }

mutual
/-- The type mentions the `i`-th parameter of the enclosing declaration (not looking into the
bodies of nested declarations, whose parameters are their own). -/
def Ty.mentionsParam (i : Nat) : Ty → Bool
  | .param j => i == j
  | .ref _ t => Ty.mentionsParam i t
  | .con _ args => Ty.anyMentionsParam i args
  | .adt _ args => Ty.anyMentionsParam i args
  | _ => false
def Ty.anyMentionsParam (i : Nat) : List Ty → Bool
  | [] => false
  | t :: ts => Ty.mentionsParam i t || Ty.anyMentionsParam i ts
end

/-- The generated impl carries `FieldTy: 'static` for every `require_static` field; rustc
elaborates that into `T: 'static` for every parameter the field type mentions. -/
def paramKnownStatic (d : Decl) (i : Nat) : Bool :=
  d.variants.any (fun v => v.fields.any (fun f => attrsStatic f.attrs && f.ty.mentionsParam i))

/-- The impl's own view of its type parameters.  Tracing modes: `AddBounds::Generics` makes every
parameter `Collect` unless `bound = …` lists the bounded ones; a parameter is `'static` iff a
`require_static` field mentions it.  `require_static` mode: no `Collect` bounds, `Self: 'static`
makes every parameter `'static`.  Nothing is known when the attributes do not parse. -/
def defEnv (d : Decl) : List Sem :=
  (List.range d.tparams).map (fun i =>
    match parseTypeAttrs d.attrs with
    | .ok o =>
      if o.mode = some .requireStatic then Sem.abstractParam false true
      else Sem.abstractParam (match o.bound with | none => true | some ps => ps.contains i)
        (paramKnownStatic d i)
    | .error _ => Sem.abstractParam false false)

mutual
/-- Meaning of a type under an instantiation `ρ` of the enclosing declaration's parameters. -/
def Ty.sem (ρ : List Sem) : Ty → Sem
  | .leaf => Sem.leaf
  | .gc => Sem.gc
  | .weak => Sem.weak
  | .opaque s => Sem.opaque s
  | .param i => ρ.getD i default
  | .ref st t => Sem.ref st (Ty.sem ρ t)
  | .con c args => Sem.con c (Ty.sems ρ args)
  | .adt d args =>
      derivedSem (Ty.sems ρ args) (Decl.resolve (defEnv d) d)
        (Decl.resolve (Ty.sems ρ args) d)
def Ty.sems (ρ : List Sem) : List Ty → List Sem
  | [] => []
  | t :: ts => Ty.sem ρ t :: Ty.sems ρ ts
def Decl.resolve (ρ : List Sem) : Decl → RDecl
  | .mk e a l t h vs => ⟨e, a, l, t, h, Variant.resolves ρ vs⟩
def Variant.resolves (ρ : List Sem) : List Variant → List RVariant
  | [] => []
  | v :: vs => Variant.resolve ρ v :: Variant.resolves ρ vs
def Variant.resolve (ρ : List Sem) : Variant → RVariant
  | .mk s a fs => ⟨s, a, Field.resolves ρ fs⟩
def Field.resolves (ρ : List Sem) : List Field → List RField
  | [] => []
  | f :: fs => Field.resolve ρ f :: Field.resolves ρ fs
def Field.resolve (ρ : List Sem) : Field → RField
  | .mk a t => ⟨a, Ty.sem ρ t⟩
end

/-! ## The derive on declarations -/

/-- The declaration as the impl itself sees it (parameters abstract, bounded by the where-clause). -/
def Decl.resolveDef (d : Decl) : RDecl := d.resolve (defEnv d)

/-- Meaning of `D<args>` where `ρ` is the meaning of `args`. -/
def Decl.sem (ρ : List Sem) (d : Decl) : Sem := derivedSem ρ d.resolveDef (d.resolve ρ)

/-- Does the derive on `d`, instantiated at `ρ`, compile? -/
def deriveCheckIn (ρ : List Sem) (d : Decl) : Except Reject Unit :=
  deriveCheckR ρ d.resolveDef (d.resolve ρ)

/-- `NEEDS_TRACE` of the derived impl at instantiation `ρ`. -/
def needsTraceIn (ρ : List Sem) (d : Decl) : Bool := needsTraceR (d.resolve ρ)

/-- `Collect::trace` of the derived impl at instantiation `ρ`. -/
def traceIn (ρ : List Sem) (d : Decl) (v : Val) : List Ptr := traceR (d.resolve ρ) v

/-- `v` is a value of `D<ρ>`. -/
def HasTypeIn (ρ : List Sem) (v : Val) (d : Decl) : Prop := checkR (d.resolve ρ) v = true

/-- Closed declarations (no type parameters). -/
def deriveCheck (d : Decl) : Except Reject Unit := deriveCheckIn [] d
def needsTraceDerived (d : Decl) : Bool := needsTraceIn [] d
def traceDerived (d : Decl) (v : Val) : List Ptr := traceIn [] d v
def HasType (v : Val) (d : Decl) : Prop := HasTypeIn [] v d

instance (ρ : List Sem) (v : Val) (d : Decl) : Decidable (HasTypeIn ρ v d) := by
  unfold HasTypeIn; infer_instance
instance (v : Val) (d : Decl) : Decidable (HasType v d) := by
  unfold HasType; infer_instance

/-- The field survives the `require_static` filter. -/
def Field.traced (f : Field) : Bool := attrsKept f.attrs

/-! ## Canonical output (driver) -/

def ptrLe (a b : Ptr) : Bool := a.1 < b.1 || (a.1 == b.1 && (!a.2 || b.2))

def sortPtrs (l : List Ptr) : List Ptr := l.mergeSort ptrLe

end GcArena.Derive
