/-!
# Reachability over an extracted call graph (C03 / C20, structural halves)

The translator emits the crate's functions and an over-approximated call graph
(`GcArena/Generated/CallGraph.lean`).  To keep kernel evaluation cheap, node sets are bit masks
(`Nat`; bit `i` = node `i`) and the graph is an adjacency list of successor masks (`adj[a]` has
bit `b` set iff there is an edge `a ⟶ b`); `Nat.testBit`, `&&&`, `|||` are evaluated natively.

Unreachability is settled by evaluation: a mask `s` that contains the roots and is closed under
the edges (`closedB`, one pass over `adj`) contains everything reachable from the roots
(`reach_in_closed`).  `closure` computes such a mask; the generated file also carries one as a
certificate — it is *checked* by `closedB`, never trusted.
-/
namespace GcArena.CallGraphM

inductive Recv
  | none | ref | refMut | value
deriving DecidableEq, Repr

inductive SelfKind
  | arena | markedArena | other
deriving DecidableEq, Repr

/-- Functions the statements name (assigned by the translator from the function's path). -/
inductive Tag
  | none | doCollection | sweepOne | contextDrop | dropAllDrop | gcPtrDropInPlace | gcPtrDealloc
  | contextNew | metricsNew
  /-- private helper of the collector driver: every caller is the driver or another such helper
  (assigned by the translator from the graph; re-checked by `entersOnlyVia`) -/
  | driverPart
deriving DecidableEq, Repr

structure FnInfo where
  name : String           -- for the reader; the predicates use the coded fields
  selfKind : SelfKind     -- impl self type: `Arena`, `MarkedArena`, anything else
  recv : Recv
  clientCallable : Bool   -- `pub` fn of a `pub` type, trait-impl method of a `pub` type, `pub` free fn
  isUnsafe : Bool
  isDropImpl : Bool
  isBuilder : Bool        -- impl self type is one of the `…Builder` types
  makesArena : Bool       -- calls `Context::new` directly (builds a *new* arena / context)
  tag : Tag
deriving DecidableEq, Repr

structure StaticInfo where
  name : String
  module : String
  isMut : Bool
  ty : String
  tracingCallsite : Bool  -- immutable item of a `tracing::` type (log call-site metadata)
deriving DecidableEq, Repr

/-- Adjacency list: `adj[a]` is the mask of the successors of node `a`. -/
abbrev Adj := List Nat

/-- `a ⟶ b` is an edge, and `a` is not one of the `cut` nodes (whose outgoing edges are removed). -/
def Edge (adj : Adj) (cut : Nat) (a b : Nat) : Prop :=
  cut.testBit a = false ∧ ∃ m, adj[a]? = some m ∧ m.testBit b = true

inductive Reach (adj : Adj) (cut : Nat) : Nat → Nat → Prop
  | refl (a : Nat) : Reach adj cut a a
  | step (a b c : Nat) : Edge adj cut a b → Reach adj cut b c → Reach adj cut a c

/-- Forward closedness of mask `s`, checking nodes `i, i+1, …` against the rest of the list. -/
def closedFrom : Adj → Nat → Nat → Nat → Bool
  | [], _, _, _ => true
  | m :: rest, i, cut, s =>
    (!s.testBit i || cut.testBit i || (m &&& s) == m) && closedFrom rest (i + 1) cut s

def closedB (adj : Adj) (cut s : Nat) : Bool := closedFrom adj 0 cut s

/-- Backward closedness: a node with a successor in `t` is in `t`. -/
def backClosedFrom : Adj → Nat → Nat → Bool
  | [], _, _ => true
  | m :: rest, i, t => ((m &&& t) == 0 || t.testBit i) && backClosedFrom rest (i + 1) t

def backClosedB (adj : Adj) (t : Nat) : Bool := backClosedFrom adj 0 t

theorem closedFrom_spec (adj : Adj) (i cut s : Nat) (h : closedFrom adj i cut s = true)
    (k m : Nat) (hk : adj[k]? = some m) (hs : s.testBit (i + k) = true)
    (hc : cut.testBit (i + k) = false) : (m &&& s) = m := by
  induction adj generalizing i k with
  | nil => simp at hk
  | cons m0 rest ih =>
    simp only [closedFrom, Bool.and_eq_true, Bool.or_eq_true, Bool.not_eq_true', beq_iff_eq] at h
    cases k with
    | zero =>
      simp only [List.getElem?_cons_zero, Option.some.injEq] at hk
      subst hk
      simp only [Nat.add_zero] at hs hc
      rcases h.1 with (h1 | h1) | h1
      · rw [hs] at h1; cases h1
      · rw [hc] at h1; cases h1
      · exact h1
    | succ k =>
      simp only [List.getElem?_cons_succ] at hk
      have : i + (k + 1) = (i + 1) + k := by omega
      rw [this] at hs hc
      exact ih (i + 1) h.2 k hk hs hc

theorem mask_sub (m s b : Nat) (h : (m &&& s) = m) (hb : m.testBit b = true) : s.testBit b = true := by
  have : (m &&& s).testBit b = true := by rw [h]; exact hb
  simp only [Nat.testBit_and, Bool.and_eq_true] at this
  exact this.2

/-- A closed mask containing `a` contains everything reachable from `a`. -/
theorem reach_in_closed (adj : Adj) (cut s : Nat) (hc : closedB adj cut s = true) (a b : Nat)
    (ha : s.testBit a = true) (h : Reach adj cut a b) : s.testBit b = true := by
  induction h with
  | refl a => exact ha
  | step a b c hab _ ih =>
    apply ih
    obtain ⟨hcut, m, hm, hb⟩ := hab
    have := closedFrom_spec adj 0 cut s hc a m hm (by simpa using ha) (by simpa using hcut)
    exact mask_sub m s b this hb

theorem backClosedFrom_spec (adj : Adj) (i t : Nat) (h : backClosedFrom adj i t = true)
    (k m : Nat) (hk : adj[k]? = some m) (hne : (m &&& t) ≠ 0) : t.testBit (i + k) = true := by
  induction adj generalizing i k with
  | nil => simp at hk
  | cons m0 rest ih =>
    simp only [backClosedFrom, Bool.and_eq_true, Bool.or_eq_true, beq_iff_eq] at h
    cases k with
    | zero =>
      simp only [List.getElem?_cons_zero, Option.some.injEq] at hk
      subst hk
      rcases h.1 with h1 | h1
      · exact absurd h1 hne
      · simpa using h1
    | succ k =>
      simp only [List.getElem?_cons_succ] at hk
      have : i + (k + 1) = (i + 1) + k := by omega
      rw [this]
      exact ih (i + 1) h.2 k hk

/-- A backward-closed mask containing `b` contains every node from which `b` is reachable
(in the uncut graph). -/
theorem reach_into_back_closed (adj : Adj) (t : Nat) (hc : backClosedB adj t = true) (a b : Nat)
    (hb : t.testBit b = true) (h : Reach adj 0 a b) : t.testBit a = true := by
  induction h with
  | refl a => exact hb
  | step a b c hab _ ih =>
    have hbt := ih hb
    obtain ⟨_, m, hm, hmb⟩ := hab
    have hne : (m &&& t) ≠ 0 := by
      intro h0
      have : (m &&& t).testBit b = true := by
        simp only [Nat.testBit_and, hmb, hbt, Bool.and_self]
      rw [h0] at this
      simp at this
    simpa using backClosedFrom_spec adj 0 t hc a m hm hne

/-- No node outside `inside` has an edge into `parts`: whoever enters `parts` from outside
`inside` … does not exist; `parts` is only entered from `inside`. -/
def entersOnlyViaFrom : Adj → Nat → Nat → Nat → Bool
  | [], _, _, _ => true
  | m :: rest, i, inside, parts =>
    (inside.testBit i || (m &&& parts) == 0) && entersOnlyViaFrom rest (i + 1) inside parts

def entersOnlyVia (adj : Adj) (inside parts : Nat) : Bool := entersOnlyViaFrom adj 0 inside parts

theorem entersOnlyViaFrom_spec (adj : Adj) (i inside parts : Nat)
    (h : entersOnlyViaFrom adj i inside parts = true)
    (k m : Nat) (hk : adj[k]? = some m) (hne : (m &&& parts) ≠ 0) : inside.testBit (i + k) = true := by
  induction adj generalizing i k with
  | nil => simp at hk
  | cons m0 rest ih =>
    simp only [entersOnlyViaFrom, Bool.and_eq_true, Bool.or_eq_true, beq_iff_eq] at h
    cases k with
    | zero =>
      simp only [List.getElem?_cons_zero, Option.some.injEq] at hk
      subst hk
      rcases h.1 with h1 | h1
      · simpa using h1
      · exact absurd h1 hne
    | succ k =>
      simp only [List.getElem?_cons_succ] at hk
      have : i + (k + 1) = (i + 1) + k := by omega
      rw [this]
      exact ih (i + 1) h.2 k hk

/-- If `parts` is only entered from `inside`, every edge into `parts` starts in `inside`. -/
theorem edge_into_parts (adj : Adj) (inside parts : Nat) (hc : entersOnlyVia adj inside parts = true)
    (a b : Nat) (hab : Edge adj 0 a b) (hb : parts.testBit b = true) : inside.testBit a = true := by
  obtain ⟨_, m, hm, hmb⟩ := hab
  have hne : (m &&& parts) ≠ 0 := by
    intro h0
    have : (m &&& parts).testBit b = true := by
      simp only [Nat.testBit_and, hmb, hb, Bool.and_self]
    rw [h0] at this
    simp at this
  simpa using entersOnlyViaFrom_spec adj 0 inside parts hc a m hm hne

/-- Mask of the positions `i, i+1, …` of the functions satisfying `p`. -/
def maskFrom (p : FnInfo → Bool) : List FnInfo → Nat → Nat
  | [], _ => 0
  | f :: rest, i => (if p f then 1 <<< i else 0) ||| maskFrom p rest (i + 1)

def maskWhere (fns : List FnInfo) (p : FnInfo → Bool) : Nat := maskFrom p fns 0

/-- Mask of a list of node ids. -/
def maskOf : List Nat → Nat
  | [] => 0
  | n :: rest => (1 <<< n) ||| maskOf rest

/-- Number of nodes in a mask below `n`. -/
def count (s : Nat) : Nat → Nat
  | 0 => 0
  | n + 1 => (if s.testBit n then 1 else 0) + count s n

/-- One propagation pass: add the successors of every member. -/
def passFrom : Adj → Nat → Nat → Nat → Nat
  | [], _, _, s => s
  | m :: rest, i, cut, s =>
    passFrom rest (i + 1) cut (if s.testBit i && !cut.testBit i then s ||| m else s)

/-- Iterate `passFrom` until nothing is added (at most `fuel` times). -/
def closure (adj : Adj) (cut s : Nat) : Nat → Nat
  | 0 => s
  | fuel + 1 =>
    let s' := passFrom adj 0 cut s
    if s' == s then s else closure adj cut s' fuel

/-- Every member of mask `s` satisfies `p`. -/
def allIn (fns : List FnInfo) (s : Nat) (p : FnInfo → Bool) : Bool :=
  (maskWhere fns (fun f => !p f) &&& s) == 0

/-- External functions that only build fresh values (no global state), or only log. -/
def pureExternal (s : String) : Bool :=
  ["core::cell::Cell::new", "core::cell::UnsafeCell::new", "core::cell::RefCell::new",
   "alloc::vec::Vec::new", "alloc::rc::Rc::new", "alloc::boxed::Box::new",
   "core::default::Default::default", "core::prelude::Default::default",
   "core::clone::Clone::clone"].contains s || (s.toList.take 9 == "tracing::".toList)

end GcArena.CallGraphM
