import GcArena.Model.Driver
/-
  GcArena.Model.Legacy — the PRE-repair definitions of the two model functions whose Rust
  originals were repaired in /repo, kept so that the defects stay recognisable by name
  (`C10.pinned_underflow_witness`, `C09.pinned_stw_witness`) and a regression of either repair
  is recognised for what it is.  Nothing else in the model or the proofs uses this file.

  * D1 (`Metrics::mark_gc_untraced`, src/metrics.rs): `traced_gcs - 1` was a plain `usize`
    subtraction — at zero it panics (debug) or wraps (release).  Repaired to a saturating
    subtraction: `Metrics.markGcUntraced`.
  * D5 (`Context::do_collection`, src/context.rs): the loop's debt test
    `if run_until == PayDebt && !(debt > 0.0) { break }` also fired in `Phase::Sweep` with nothing
    left to sweep, so a call whose sweep released the arena's last allocation (an empty arena
    reports zero debt) returned Sweeping, one step before the `Sweep → Sleep` switch.  Repaired by
    the third conjunct of `Ctx.debtBreak`.
-/
namespace GcArena

/-! ### D1 -/

/-- Pre-repair `mark_gc_untraced`: `traced_gcs - 1` as a plain `usize` subtraction; at zero it
    panics or wraps — recorded in the sticky `underflow` flag, as for `markGcFreed`. -/
def Metrics.markGcUntracedLegacy (m : Metrics) : Metrics :=
  { m with traced := m.traced - 1, underflow := m.underflow || (m.traced == 0) }

namespace Ctx

/-- `Context::make_gray_again` over the pre-repair counter update. -/
def makeGrayAgainLegacy (c : Ctx) (i : Nat) : Ctx :=
  match c.heap.get i with
  | none => c.fail .dangling
  | some o =>
    let c := if o.color = .black then c else c.fail .debugAssert
    let c := c.setObj i { o with color := .gray }
    { c with grayAgain := i :: c.grayAgain, metrics := c.metrics.markGcUntracedLegacy }

/-- `Context::backward_barrier` over the pre-repair counter update. -/
def backwardBarrierLegacy (c : Ctx) (parent : Nat) (child : Option Nat) : Ctx :=
  if c.phase = .mark then
    match c.heap.get parent with
    | none => c.fail .dangling
    | some p =>
      if p.color = .black then
        match child with
        | none => c.makeGrayAgainLegacy parent
        | some ch =>
          match c.heap.get ch with
          | none => c.fail .dangling
          | some co =>
            if co.color = .white || co.color = .whiteWeak then c.makeGrayAgainLegacy parent else c
      else c
  else c

/-! ### D5 -/

/-- Pre-repair debt test of the loop: `if run_until == PayDebt && !(debt > 0.0) { break }`. -/
def debtBreakLegacy (c : Ctx) (ru : RunUntil) : Bool := ru = .payDebt && !c.metrics.hasDebt

/-- `collectLoop` over the pre-repair debt test (otherwise a verbatim copy). -/
def collectLoopLegacy (root : List Slot) (ru : RunUntil) (stop : Stop) (fault : TraceFault) :
    Nat → Ctx → Bool → Nat → Ctx × Exit
  | 0, c, _, _ => (c, .outOfFuel)
  | fuel + 1, c, hasSlept, k =>
    match c.phase with
    | .sleep =>
      let c := c.switch .mark
      if c.debtBreakLegacy ru then (c, .returned) else collectLoopLegacy root ru stop fault fuel c true k
    | .mark =>
      let traces := c.grayRemaining
      let (c, flow) := c.markOne root (faultAt fault k)
      let k := if traces then k + 1 else k
      match flow with
      | .unwind => (c, .unwound)
      | .continue =>
        if c.debtBreakLegacy ru then (c, .returned)
        else collectLoopLegacy root ru stop fault fuel c hasSlept k
      | .break =>
        if stop ≤ Stop.fullyMarked then (c, .returned)
        else
          let c := c.enterSweep
          if c.debtBreakLegacy ru then (c, .returned)
          else collectLoopLegacy root ru stop fault fuel c hasSlept k
    | .sweep =>
      if stop ≤ Stop.atSweep then (c, .returned)
      else
        let (c, flow) := c.sweepOne
        match flow with
        | .break =>
          let c := c.enterSleep hasSlept
          if stop = .finishCycle then (c, .returned)
          else if hasSlept then
            ((if stop = .full then c else c.fail .unreachable), .returned)
          else if c.debtBreakLegacy ru then (c, .returned)
          else collectLoopLegacy root ru stop fault fuel c hasSlept k
        | _ =>
          if c.debtBreakLegacy ru then (c, .returned)
          else collectLoopLegacy root ru stop fault fuel c hasSlept k
    | .drop => (c.fail .unreachable, .returned)

/-- `Context::do_collection` over the pre-repair loop. -/
def doCollectionLegacy (c : Ctx) (root : List Slot) (ru : RunUntil) (stop : Stop)
    (fault : TraceFault) : Ctx × Exit :=
  if ru = .payDebt && !c.metrics.hasDebt then (c, .returned)
  else collectLoopLegacy root ru stop fault (2 * c.fuelBound root + 8) c false 0

end Ctx
end GcArena
