import GcArena.Model.Heap
import GcArena.Model.Metrics
/-
  GcArena.Model.Context — mirrors src/context.rs, function by function.

  List-level view of the `all` list: `all = pre ++ rest`, where `rest` is what the sweep cursor
  still has to visit (`sweep`), `pre` is everything in front of it (objects kept by this sweep and
  objects allocated during it); `sweep_prev = pre.getLast?` while sweeping.  Outside `Phase::Sweep`
  `rest = []`.  (The pointer-level `next`-field surgery is modelled separately in `Model/PtrList.lean`
  and related to this view by the refinement theorems of `Proofs/PtrRefine.lean`.)

  Collector events (`dropped i`: destructor of object `i` ran; `freed i`: block of `i` returned to
  the allocator) are appended to `log`, newest first — a monotone history.
  Conditions under which the real code would touch released memory, trip a `debug_assert!`,
  hit `unreachable!()` or spin are recorded in the sticky `err` field; the safety theorems show
  `err = none` on every run.
-/
namespace GcArena

inductive Phase where
  | mark | sweep | sleep | drop
  deriving DecidableEq, Repr, Inhabited

inductive Fault where
  | dangling      -- header / value of a released or never-allocated object accessed
  | debugAssert   -- a `debug_assert!` of context.rs would fire
  | unreachable   -- `unreachable!()` / `assert!` of context.rs or arena.rs would fire
  deriving DecidableEq, Repr, Inhabited

inductive Event where
  | dropped (i : Nat)
  | freed (i : Nat)
  deriving DecidableEq, Repr, Inhabited

/-- `ControlFlow<()>` plus "the trace call unwound". -/
inductive Flow where
  | continue | break | unwind
  deriving DecidableEq, Repr, Inhabited

structure Ctx where
  phase : Phase
  heap : Heap
  pre : List Nat
  rest : List Nat
  rootNeedsTrace : Bool
  gray : List Nat        -- head = top of the `Vec` used as a stack
  grayAgain : List Nat
  metrics : Metrics
  log : List Event       -- newest first
  steps : List Char      -- micro-step log of the driver loop, newest first (hook: verif_log)
  err : Option Fault
  deriving Repr

namespace Ctx

/-- `Context::new()`. -/
def new : Ctx :=
  { phase := .sleep, heap := Heap.empty, pre := [], rest := [], rootNeedsTrace := true,
    gray := [], grayAgain := [], metrics := Metrics.new, log := [], steps := [], err := none }

def all (c : Ctx) : List Nat := c.pre ++ c.rest

def fail (c : Ctx) (f : Fault) : Ctx :=
  match c.err with
  | none => { c with err := some f }
  | some _ => c

def emit (c : Ctx) (e : Event) : Ctx := { c with log := e :: c.log }

def step (c : Ctx) (ch : Char) : Ctx := { c with steps := ch :: c.steps }

def withMetrics (c : Ctx) (f : Metrics → Metrics) : Ctx := { c with metrics := f c.metrics }

/-- Write the header/value of an allocated object. -/
def setObj (c : Ctx) (i : Nat) (o : Obj) : Ctx := { c with heap := c.heap.set i (some o) }

/-- `header.set_color`. -/
def setColor (c : Ctx) (i : Nat) (col : Color) : Ctx :=
  match c.heap.get i with
  | some o => c.setObj i { o with color := col }
  | none => c.fail .dangling

/-- `Context::root_barrier`. -/
def rootBarrier (c : Ctx) : Ctx :=
  if c.phase = .mark then { c with rootNeedsTrace := true } else c

/-- `Context::gray_remaining`. -/
def grayRemaining (c : Ctx) : Bool :=
  !c.gray.isEmpty || !c.grayAgain.isEmpty || c.rootNeedsTrace

/-- `Context::link` (list level): the new object goes to the head of `all`, in front of the
    sweep cursor.  `o` arrives white, `live` already set by `assume_init`. -/
def link (c : Ctx) (o : Obj) : Ctx × Nat :=
  let i := c.heap.fresh
  ({ c with heap := c.heap.set i (some o), pre := i :: c.pre,
            metrics := c.metrics.markGcAllocated }, i)

/-- `Context::make_gray_again`. -/
def makeGrayAgain (c : Ctx) (i : Nat) : Ctx :=
  match c.heap.get i with
  | none => c.fail .dangling
  | some o =>
    let c := if o.color = .black then c else c.fail .debugAssert
    let c := c.setObj i { o with color := .gray }
    { c with grayAgain := i :: c.grayAgain, metrics := c.metrics.markGcUntraced }

/-- `Context::backward_barrier`. -/
def backwardBarrier (c : Ctx) (parent : Nat) (child : Option Nat) : Ctx :=
  if c.phase = .mark then
    match c.heap.get parent with
    | none => c.fail .dangling
    | some p =>
      if p.color = .black then
        match child with
        | none => c.makeGrayAgain parent
        | some ch =>
          match c.heap.get ch with
          | none => c.fail .dangling
          | some co =>
            if co.color = .white || co.color = .whiteWeak then c.makeGrayAgain parent else c
      else c
  else c

/-- `Context::backward_barrier_weak`. -/
def backwardBarrierWeak (c : Ctx) (parent : Nat) (child : Nat) : Ctx :=
  if c.phase = .mark then
    match c.heap.get parent with
    | none => c.fail .dangling
    | some p =>
      if p.color = .black then
        match c.heap.get child with
        | none => c.fail .dangling
        | some co => if co.color = .white then c.makeGrayAgain parent else c
      else c
  else c

/-- `Context::trace`. -/
def trace (c : Ctx) (i : Nat) : Ctx :=
  match c.heap.get i with
  | none => c.fail .dangling
  | some o =>
    match o.color with
    | .black => c
    | .gray => c
    | col =>
      let c :=
        if o.needsTrace then
          let c := if o.live then c else c.fail .debugAssert
          { (c.setObj i { o with color := .gray }) with gray := i :: c.gray }
        else c.setObj i { o with color := .black }
      if col = .white then c.withMetrics Metrics.markGcMarked else c

/-- `Context::trace_weak`. -/
def traceWeak (c : Ctx) (i : Nat) : Ctx :=
  match c.heap.get i with
  | none => c.fail .dangling
  | some o =>
    if o.color = .white then
      (c.setObj i { o with color := .whiteWeak }).withMetrics Metrics.markGcMarked
    else c

/-- `Context::forward_barrier`. -/
def forwardBarrier (c : Ctx) (parent : Option Nat) (child : Nat) : Ctx :=
  if c.phase = .mark then
    match parent with
    | none => c.trace child
    | some p =>
      match c.heap.get p with
      | none => c.fail .dangling
      | some po => if po.color = .black then c.trace child else c
  else c

/-- `Context::forward_barrier_weak`. -/
def forwardBarrierWeak (c : Ctx) (parent : Option Nat) (child : Nat) : Ctx :=
  if c.phase = .mark then
    match parent with
    | none => c.traceWeak child
    | some p =>
      match c.heap.get p with
      | none => c.fail .dangling
      | some po => if po.color = .black then c.traceWeak child else c
  else c

/-- `Context::upgrade` (reads the header of the target: a released target is a dangling read). -/
def upgrade (c : Ctx) (i : Nat) : Ctx × Bool :=
  match c.heap.get i with
  | none => (c.fail .dangling, false)
  | some o =>
    if !o.live then (c, false)
    else if c.phase = .sweep && o.color = .whiteWeak then (c, false)
    else (c, true)

/-- `Context::resurrect`. -/
def resurrect (c : Ctx) (i : Nat) : Ctx :=
  match c.heap.get i with
  | none => c.fail .dangling
  | some o =>
    let c := if c.phase = .mark then c else c.fail .debugAssert
    let c := if o.live then c else c.fail .debugAssert
    if o.color = .white || o.color = .whiteWeak then
      let c' := { (c.setObj i { o with color := .gray }) with gray := i :: c.gray }
      if o.color = .white then c'.withMetrics Metrics.markGcMarked else c'
    else c

/-- What `Collect::trace` of a value does with one slot (`cc.trace_gc` / `cc.trace_gc_weak`). -/
def traceSlot (c : Ctx) (s : Slot) : Ctx :=
  match s with
  | none => c
  | some (.strong t) => c.trace t
  | some (.weak t) => c.traceWeak t

def traceSlots (c : Ctx) (ss : List Slot) : Ctx := ss.foldl traceSlot c

/-- The "an object was popped" arm of `Context::mark_one`.  `fault = some j`: the object's
    `trace` unwinds after reporting `j` slots; the `DropGuard` then re-queues the object. -/
def markObj (c : Ctx) (i : Nat) (fault : Option Nat) : Ctx × Flow :=
  let c := c.withMetrics Metrics.markGcTraced
  match c.heap.get i with
  | none => (c.fail .dangling, .continue)
  | some o =>
    let c := c.setObj i { o with color := .black }
    let c := if o.live then c else c.fail .debugAssert
    match fault with
    | none => (c.traceSlots o.slots, .continue)
    | some j => ((c.traceSlots (o.slots.take j)).makeGrayAgain i, .unwind)

/-- `Context::mark_one`. -/
def markOne (c : Ctx) (root : List Slot) (fault : Option Nat) : Ctx × Flow :=
  match c.gray with
  | i :: g => ({ c with gray := g }.step 'g').markObj i fault
  | [] =>
    match c.grayAgain with
    | i :: g => ({ c with grayAgain := g }.step 'g').markObj i fault
    | [] =>
      if c.rootNeedsTrace then
        match fault with
        | none => ({ ((c.step 'r').traceSlots root) with rootNeedsTrace := false }, .continue)
        | some j => ((c.step 'r').traceSlots (root.take j), .unwind)
      else (c.step 'b', .break)

/-- `Context::sweep_one`. -/
def sweepOne (c : Ctx) : Ctx × Flow :=
  match c.rest with
  | [] => (c.step 'e', .break)
  | i :: rest' =>
    let c := { c with rest := rest' }.step 'x'
    match c.heap.get i with
    | none => (c.fail .dangling, .continue)
    | some o =>
      match o.color with
      | .white =>
        let c := if o.live then (c.emit (.dropped i)).withMetrics Metrics.markGcDropped else c
        let c := { c with heap := c.heap.set i none }
        ((c.emit (.freed i)).withMetrics Metrics.markGcFreed, .continue)
      | .whiteWeak =>
        let c := { c with pre := c.pre ++ [i] }
        let c :=
          if o.live then
            ((c.setObj i { o with color := .white, live := false, slots := [] }).emit
              (.dropped i)).withMetrics Metrics.markGcDropped
          else c.setObj i { o with color := .white }
        (c.withMetrics Metrics.markGcRemembered, .continue)
      | .black =>
        let c := { c with pre := c.pre ++ [i] }
        ((c.setObj i { o with color := .white }).withMetrics Metrics.markGcRemembered, .continue)
      | .gray => (c.fail .debugAssert, .continue)

/-- `PhaseGuard::switch`. -/
def switch (c : Ctx) (p : Phase) : Ctx :=
  { c with phase := p }.step (match p with | .mark => 'W' | .sweep => 'S' | .sleep => 'Z' | .drop => 'D')

/-- The `Mark → Sweep` transition of `do_collection`: `cx.sweep = cx.all.get()`. -/
def enterSweep (c : Ctx) : Ctx :=
  let c := c.switch .sweep
  { c with rest := c.pre ++ c.rest, pre := [] }

/-- The `Sweep → Sleep` transition of `do_collection`. -/
def enterSleep (c : Ctx) (hasSlept : Bool) : Ctx :=
  let c := c.withMetrics (fun m => m.finishCycle hasSlept)
  { c with rootNeedsTrace := true }.switch .sleep

/-- One object of `DropAll::drop`. -/
def dropOne (c : Ctx) (i : Nat) : Ctx :=
  match c.heap.get i with
  | none => c.fail .dangling
  | some o =>
    let c := if o.live then (c.emit (.dropped i)).withMetrics Metrics.markGcDropped else c
    (({ c with heap := c.heap.set i none }).emit (.freed i)).withMetrics Metrics.markGcFreed

/-- `impl Drop for Context`: walk the whole `all` list. -/
def dropAll (c : Ctx) : Ctx :=
  let c := { c with phase := .drop }
  let c := c.all.foldl dropOne c
  { c with pre := [], rest := [] }

end Ctx
end GcArena
