/-
  GcArena.Model.Heap — object identities, colours, objects and the heap map.

  Mirrors: src/types.rs (GcColor), src/gc_ptr.rs (GcHeader flag bits: colour, needs_trace, is_live).
  Abstraction: an object is its header flags plus the list of pointer-holding slots that its
  `Collect::trace` reports, in trace order.  Addresses are abstracted to never-reused ids.
  This file is import-free (core Lean only) so the driver links as a `lean_exe`.
-/
namespace GcArena

-- Object identities are natural numbers (written `Nat` everywhere: an `abbrev` makes `omega` drop hypotheses).

/-- `GcColor` of src/types.rs. -/
inductive Color where
  | white | whiteWeak | gray | black
  deriving DecidableEq, Repr, Inhabited

/-- A pointer value stored in a slot: `Gc` (strong) or `GcWeak` (weak). -/
inductive Ptr where
  | strong (t : Nat)
  | weak (t : Nat)
  deriving DecidableEq, Repr, Inhabited

def Ptr.target : Ptr → Nat
  | .strong t => t
  | .weak t => t

abbrev Slot := Option Ptr

/-- One allocated Gc block: header flags + what `trace` reports. -/
structure Obj where
  color : Color
  needsTrace : Bool
  live : Bool
  slots : List Slot
  deriving DecidableEq, Repr, Inhabited

/-- The heap: index = object id; `none` = never allocated or already released. -/
structure Heap where
  cells : Array (Option Obj)
  deriving Repr

namespace Heap

def empty : Heap := ⟨#[]⟩

def size (h : Heap) : Nat := h.cells.size

def get (h : Heap) (i : Nat) : Option Obj := (h.cells[i]?).getD none

/-- Total update: writing past the end pads with `none`. -/
def set (h : Heap) (i : Nat) (v : Option Obj) : Heap :=
  if i < h.cells.size then ⟨h.cells.setIfInBounds i v⟩
  else ⟨(h.cells ++ Array.replicate (i - h.cells.size) none).push v⟩

/-- The id the next allocation receives (ids are never reused: `size` only grows). -/
def fresh (h : Heap) : Nat := h.size

end Heap

end GcArena
