/-
  GcArena.Model.DynRoots — literal model of `src/dynamic_roots.rs` (property C14).

  What is modelled, line by line:

  * `Slot` / `Slots` with the free list threaded through the vacant slots and the sentinel
    `NULL_INDEX = usize::MAX`; `Slots::add`, `Slots::inc`, `Slots::dec` with every `panic!`
    (and the implicit bounds check of `self.slots[idx]`, and `Vec::push` running out of
    indices) as an explicit `Except Fault` result.  `ref_count` is an unbounded `Nat`
    (the `checked_add` overflow of `inc` is out of scope).
  * `DynamicRoot` handles as plain data `(set, index, ptr)` plus a *ghost* field `stash`
    (the sequence number of the `stash` call that created the handle; clones inherit it).
    The ghost field is never read by any operation; it only lets theorems speak about
    "handles of the same stash".
  * A system state with any number of root sets.  A set id is its position in `State.sets`;
    sets are never removed from that list, so an id is never reused.  This stands for the
    address of the `Rc<RefCell<Slots>>` allocation: the allocation stays in place while any
    `Weak` exists, so `Weak::as_ptr` of a dropped set never equals `Rc::as_ptr` of a live one
    (the assumption spelled out in `DynamicRootSet::contains`; TRUSTED, see DESIGN §9).
    `alive` is cleared by `destroySet` (the set object was destructed — collected, or its
    arena dropped): `Weak::upgrade` fails afterwards, so `Clone`/`Drop` of handles do not
    touch the table any more.
  * The live handles as a multiset (`List Handle`; clones of a handle are equal values).

  The collector side (`stash` = `backward_barrier(set, Some(root))` then a slot store; the
  set object traces its occupied slots) lives in Model/Context.lean + Proofs/InvRun.lean.
  `Slots.traced` below is exactly the list of pointers `Collect for Slots` reports.

  Well-formed client programs can only name a handle they own and a set they can reach:
  an operation on a handle that is not live, or on a set that does not exist / is destroyed,
  is answered `Res.illFormed` and changes nothing (safe Rust cannot express it).
-/
namespace GcArena.DynRoots

/-- `const NULL_INDEX: Index = usize::MAX` (64-bit target). -/
def nullIndex : Nat := 18446744073709551615

/-- `enum Slot { Vacant { next_free }, Occupied { root, ref_count } }`.  `root` is the identity
of the stashed object. -/
inductive Slot where
  | vacant (nextFree : Nat)
  | occupied (root : Nat) (refCount : Nat)
  deriving DecidableEq, Repr, Inhabited

/-- `struct Slots { slots: Vec<Slot>, next_free: Index }`. -/
structure Slots where
  slots : List Slot
  nextFree : Nat
  deriving DecidableEq, Repr, Inhabited

/-- The ways the Rust code can panic. -/
inductive Fault where
  /-- `panic!("free slot linked list corrupted")` in `Slots::add`. -/
  | freeListCorrupted
  /-- `panic!("taken slot has been improperly freed")` in `Slots::inc` / `Slots::dec`. -/
  | improperlyFreed
  /-- the bounds check of `self.slots[idx]` in `add` / `inc` / `dec`. -/
  | indexOutOfBounds
  /-- `Vec::push` when `usize::MAX` slots exist already (in reality `Vec` gives up far earlier;
  this is what makes `NULL_INDEX` "never a valid index"). -/
  | capacityOverflow
  /-- `panic!("mismatched root set")` in `DynamicRootSet::fetch` — the documented panic. -/
  | mismatchedRootSet
  deriving DecidableEq, Repr, Inhabited

def Fault.message : Fault → String
  | .freeListCorrupted => "free slot linked list corrupted"
  | .improperlyFreed => "taken slot has been improperly freed"
  | .indexOutOfBounds => "index out of bounds"
  | .capacityOverflow => "capacity overflow"
  | .mismatchedRootSet => "mismatched root set"

/-- `Slots::new`. -/
def Slots.new : Slots := ⟨[], nullIndex⟩

/-- `Slots::add`: pop the free list if it is not empty, else push. Returns the index. -/
def Slots.add (s : Slots) (p : Nat) : Except Fault (Slots × Nat) :=
  if s.nextFree ≠ nullIndex then
    let idx := s.nextFree
    match s.slots[idx]? with
    | none => .error .indexOutOfBounds
    | some (.vacant nf) => .ok (⟨s.slots.set idx (.occupied p 0), nf⟩, idx)
    | some (.occupied _ _) => .error .freeListCorrupted
  else if nullIndex ≤ s.slots.length then .error .capacityOverflow
  else .ok (⟨s.slots ++ [.occupied p 0], s.nextFree⟩, s.slots.length)

/-- `Slots::inc`. -/
def Slots.inc (s : Slots) (idx : Nat) : Except Fault Slots :=
  match s.slots[idx]? with
  | none => .error .indexOutOfBounds
  | some (.occupied r c) => .ok ⟨s.slots.set idx (.occupied r (c + 1)), s.nextFree⟩
  | some (.vacant _) => .error .improperlyFreed

/-- `Slots::dec`: a count of 0 means one live reference; dropping it vacates the slot and
pushes it on the free list. -/
def Slots.dec (s : Slots) (idx : Nat) : Except Fault Slots :=
  match s.slots[idx]? with
  | none => .error .indexOutOfBounds
  | some (.occupied r c) =>
    if c = 0 then .ok ⟨s.slots.set idx (.vacant s.nextFree), idx⟩
    else .ok ⟨s.slots.set idx (.occupied r (c - 1)), s.nextFree⟩
  | some (.vacant _) => .error .improperlyFreed

/-- What `Collect for Slot` reports. -/
def Slot.traced : Slot → Option Nat
  | .vacant _ => none
  | .occupied r _ => some r

/-- What `Collect for Slots` (hence for `Inner`, hence for the set object) reports: the roots of
the occupied slots, in slot order. -/
def Slots.traced (s : Slots) : List Nat := s.slots.filterMap Slot.traced

/-- `struct DynamicRoot { ptr, slots: Weak<..>, index }`; `set` stands for the address the
`Weak` points to; `stash` is ghost. -/
structure Handle where
  set : Nat
  index : Nat
  ptr : Nat
  stash : Nat
  deriving DecidableEq, Repr, Inhabited

/-- One `DynamicRootSet` object (its `Rc<RefCell<Slots>>`). -/
structure RootSet where
  alive : Bool
  slots : Slots
  deriving DecidableEq, Repr, Inhabited

structure State where
  /-- every set ever created; the id of a set is its position -/
  sets : List RootSet
  /-- the live handles (multiset) -/
  handles : List Handle
  /-- ghost: number of successful `stash` calls so far -/
  nextStash : Nat
  deriving DecidableEq, Repr, Inhabited

def State.init : State := ⟨[], [], 0⟩

/-- The set `s` if it exists and has not been destructed (`Weak::upgrade` succeeds / the client
can hold a `DynamicRootSet<'gc>` for it). -/
def State.liveSet (st : State) (s : Nat) : Option RootSet :=
  match st.sets[s]? with
  | some rs => if rs.alive then some rs else none
  | none => none

inductive Op where
  | newSet
  | stash (set ptr : Nat)
  | clone (h : Handle)
  | dropHandle (h : Handle)
  | fetch (set : Nat) (h : Handle)
  | tryFetch (set : Nat) (h : Handle)
  | contains (set : Nat) (h : Handle)
  | destroySet (set : Nat)
  deriving DecidableEq, Repr, Inhabited

inductive Ans where
  | set (id : Nat)
  | handle (h : Handle)
  | unit
  | ptr (p : Nat)
  | mismatch
  | bool (b : Bool)
  deriving DecidableEq, Repr, Inhabited

inductive Res where
  | ok (st : State) (a : Ans)
  | panic (f : Fault)
  | illFormed
  deriving DecidableEq, Repr, Inhabited

/-- `DynamicRootSet::contains`: compares the address of the set's slot table with the address
held in the handle's `Weak` — nothing else (not the index, not the pointer). -/
def containsB (set : Nat) (h : Handle) : Bool := h.set == set

def State.withSlots (st : State) (s : Nat) (rs : RootSet) (sl : Slots) : List RootSet :=
  st.sets.set s { rs with slots := sl }

/-- One API call. -/
def step (st : State) : Op → Res
  | .newSet =>
    .ok { st with sets := st.sets ++ [⟨true, Slots.new⟩] } (.set st.sets.length)
  | .stash s p =>
    match st.liveSet s with
    | none => .illFormed
    | some rs =>
      -- (the backward barrier on the set object is the collector model's business)
      match rs.slots.add p with
      | .error f => .panic f
      | .ok (sl, idx) =>
        let h : Handle := ⟨s, idx, p, st.nextStash⟩
        .ok { sets := st.withSlots s rs sl, handles := h :: st.handles,
              nextStash := st.nextStash + 1 } (.handle h)
  | .clone h =>
    if h ∈ st.handles then
      match st.liveSet h.set with
      | none => .ok { st with handles := h :: st.handles } (.handle h)   -- upgrade failed
      | some rs =>
        match rs.slots.inc h.index with
        | .error f => .panic f
        | .ok sl => .ok { st with sets := st.withSlots h.set rs sl, handles := h :: st.handles }
                      (.handle h)
    else .illFormed
  | .dropHandle h =>
    if h ∈ st.handles then
      match st.liveSet h.set with
      | none => .ok { st with handles := st.handles.erase h } .unit          -- upgrade failed
      | some rs =>
        match rs.slots.dec h.index with
        | .error f => .panic f
        | .ok sl => .ok { st with sets := st.withSlots h.set rs sl,
                                  handles := st.handles.erase h } .unit
    else .illFormed
  | .fetch s h =>
    if h ∈ st.handles then
      match st.liveSet s with
      | none => .illFormed
      | some _ => if containsB s h then .ok st (.ptr h.ptr) else .panic .mismatchedRootSet
    else .illFormed
  | .tryFetch s h =>
    if h ∈ st.handles then
      match st.liveSet s with
      | none => .illFormed
      | some _ => if containsB s h then .ok st (.ptr h.ptr) else .ok st .mismatch
    else .illFormed
  | .contains s h =>
    if h ∈ st.handles then
      match st.liveSet s with
      | none => .illFormed
      | some _ => .ok st (.bool (containsB s h))
    else .illFormed
  | .destroySet s =>
    match st.liveSet s with
    | none => .illFormed
    | some rs => .ok { st with sets := st.sets.set s { rs with alive := false } } .unit

/-- The state after an API call: a panicking call (caught by the client) and an ill-formed one
leave the state as it was. -/
def next (st : State) (op : Op) : State :=
  match step st op with
  | .ok st' _ => st'
  | _ => st

/-- The state after a history of calls. -/
def run (st : State) : List Op → State
  | [] => st
  | op :: ops => run (next st op) ops

/-- Number of `stash` calls in a history. -/
def stashCount : List Op → Nat
  | [] => 0
  | .stash _ _ :: ops => stashCount ops + 1
  | _ :: ops => stashCount ops

/-! ### Canonical text (shared by the driver and, through the harness, the implementation) -/

def Slot.show : Slot → String
  | .vacant nf => if nf = nullIndex then "V:-" else s!"V:{nf}"
  | .occupied r c => s!"O:{r}:{c}"

def Slots.show (s : Slots) : String :=
  "slots [" ++ " ".intercalate (s.slots.map Slot.show) ++ "] free " ++
    (if s.nextFree = nullIndex then "-" else toString s.nextFree)

end GcArena.DynRoots
