import GcArena.Model.Arena
/-
  GcArena.Model.Sys — several arenas on one thread.  Mirrors the fact that all collector state of
  src/arena.rs / context.rs / metrics.rs lives in `Arena { context: Box<Context>, root }` and a
  per-arena `Rc<MetricsInner>`: an operation names the arena it acts on and touches nothing else.
  (That the *code* has no shared state is checked by the translator — `C20s`: no statics — and by
  the multi-arena correspondence runs, which execute this model component-wise.)
-/
namespace GcArena

abbrev Sys := List Arena

namespace Sys

def stepAt (s : Sys) (k : Nat) (op : Op) : Sys × String :=
  match s[k]? with
  | none => (s, "no-such-arena")
  | some a => ((s.set k (a.step op).1), (a.step op).2)

def run (s : Sys) : List (Nat × Op) → Sys
  | [] => s
  | (k, op) :: rest => run (s.stepAt k op).1 rest

/-- The operations of a history that address arena `k`. -/
def project (k : Nat) (h : List (Nat × Op)) : List Op :=
  (h.filter (fun p => p.1 == k)).map (·.2)

end Sys
end GcArena
