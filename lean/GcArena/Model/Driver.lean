import GcArena.Model.Context
/-
  GcArena.Model.Driver — `Context::do_collection` (src/context.rs), literally, over a fuel
  argument, plus the *micro-step* view used by the oracle-driven replay and by the proofs:
  every `do_collection` run is a sequence of enabled micro-steps (`doCollection_micro` in
  Proofs/), so an invariant preserved by each micro-step is preserved by every collection call
  whatever the debt arithmetic decides.
-/
namespace GcArena

inductive RunUntil where
  | payDebt | stop
  deriving DecidableEq, Repr, Inhabited

/-- `Stop`, in declaration order (the loop uses `stop <= Stop::FullyMarked` etc.). -/
inductive Stop where
  | fullyMarked | atSweep | finishCycle | full
  deriving DecidableEq, Repr, Inhabited

def Stop.rank : Stop → Nat
  | .fullyMarked => 0 | .atSweep => 1 | .finishCycle => 2 | .full => 3

instance : LE Stop := ⟨fun a b => a.rank ≤ b.rank⟩
instance (a b : Stop) : Decidable (a ≤ b) := inferInstanceAs (Decidable (a.rank ≤ b.rank))

/-- Where a fault is injected: the `k`-th `trace` call (0-based, objects and root alike) of this
    collection call unwinds after reporting `j` slots. -/
abbrev TraceFault := Option (Nat × Nat)

def faultAt (f : TraceFault) (k : Nat) : Option Nat :=
  match f with
  | some (k', j) => if k' = k then some j else none
  | none => none

/-- Result of a `do_collection` call: normal return or unwinding out of a `trace` call. -/
inductive Exit where
  | returned | unwound
  | outOfFuel    -- the fuel argument ran out (never happens: `Proofs/Termination`)
  deriving DecidableEq, Repr, Inhabited

/-- One logged micro-step of the driver loop, as recorded by the `verif_log` hook. -/
inductive Micro where
  | wake                       -- 'W'  Sleep → Mark
  | markStep (fault : Option Nat)   -- 'g' / 'r'  one `mark_one` that traced something
  | markBreak                  -- 'b'  `mark_one` found nothing to do
  | toSweep                    -- 'S'  Mark → Sweep, `sweep = all`
  | sweepStep                  -- 'x'  one `sweep_one` that visited an object
  | sweepEnd                   -- 'e'  `sweep_one` found the end of the list
  | toSleep (hasSlept : Bool)  -- 'Z'  Sweep → Sleep, `finish_cycle(has_slept)`
  deriving DecidableEq, Repr, Inhabited

namespace Ctx

/-- The second debt test of the loop:
    `if run_until == PayDebt && !(debt > 0.0) && !(phase == Sweep && sweep.is_none()) { break }`
    (the last conjunct is the repair of defect D5: never park in `Sweep` with nothing left to sweep). -/
def debtBreak (c : Ctx) (ru : RunUntil) : Bool :=
  ru = .payDebt && !c.metrics.hasDebt && !(c.phase = .sweep && c.rest.isEmpty)

/-- The body of `loop { … }` in `do_collection`, with fuel.  `k` counts `trace` calls so far. -/
def collectLoop (root : List Slot) (ru : RunUntil) (stop : Stop) (fault : TraceFault) :
    Nat → Ctx → Bool → Nat → Ctx × Exit
  | 0, c, _, _ => (c, .outOfFuel)
  | fuel + 1, c, hasSlept, k =>
    match c.phase with
    | .sleep =>
      let c := c.switch .mark
      if c.debtBreak ru then (c, .returned) else collectLoop root ru stop fault fuel c true k
    | .mark =>
      let traces := c.grayRemaining
      let (c, flow) := c.markOne root (faultAt fault k)
      let k := if traces then k + 1 else k
      match flow with
      | .unwind => (c, .unwound)
      | .continue =>
        if c.debtBreak ru then (c, .returned) else collectLoop root ru stop fault fuel c hasSlept k
      | .break =>
        if stop ≤ Stop.fullyMarked then (c, .returned)
        else
          let c := c.enterSweep
          if c.debtBreak ru then (c, .returned)
          else collectLoop root ru stop fault fuel c hasSlept k
    | .sweep =>
      if stop ≤ Stop.atSweep then (c, .returned)
      else
        let (c, flow) := c.sweepOne
        match flow with
        | .break =>
          let c := c.enterSleep hasSlept
          if stop = .finishCycle then (c, .returned)
          else if hasSlept then
            ((if stop = .full then c else c.fail .unreachable), .returned)
          else if c.debtBreak ru then (c, .returned)
          else collectLoop root ru stop fault fuel c hasSlept k
        | _ =>
          if c.debtBreak ru then (c, .returned)
          else collectLoop root ru stop fault fuel c hasSlept k
    | .drop => (c.fail .unreachable, .returned)

/-- A fuel value that always suffices (theorem `collectLoop_fuel` in Proofs/Termination). -/
def fuelBound (c : Ctx) (_root : List Slot) : Nat :=
  4 * (c.pre.length + c.rest.length) + 16

/-- `Context::do_collection` (self-driven: debt tests read the model's own metrics). -/
def doCollection (c : Ctx) (root : List Slot) (ru : RunUntil) (stop : Stop)
    (fault : TraceFault) : Ctx × Exit :=
  if ru = .payDebt && !c.metrics.hasDebt then (c, .returned)
  else collectLoop root ru stop fault (2 * c.fuelBound root + 8) c false 0

/-! ### Micro-steps (oracle-driven replay) -/

/-- Apply one micro-step if it is enabled in `c` (the conditions under which `do_collection`
    can perform it), else `none`. -/
def micro (c : Ctx) (root : List Slot) : Micro → Option Ctx
  | .wake => if c.phase = .sleep then some (c.switch .mark) else none
  | .markStep f =>
    if c.phase = .mark && c.grayRemaining then some (c.markOne root f).1 else none
  | .markBreak =>
    if c.phase = .mark && !c.grayRemaining then some (c.markOne root none).1 else none
  | .toSweep =>
    if c.phase = .mark && !c.grayRemaining then some c.enterSweep else none
  | .sweepStep =>
    if c.phase = .sweep && !c.rest.isEmpty then some c.sweepOne.1 else none
  | .sweepEnd =>
    if c.phase = .sweep && c.rest.isEmpty then some c.sweepOne.1 else none
  | .toSleep hs =>
    if c.phase = .sweep && c.rest.isEmpty then some (c.enterSleep hs) else none

def micros (c : Ctx) (root : List Slot) : List Micro → Option Ctx
  | [] => some c
  | m :: ms => match c.micro root m with
    | some c' => micros c' root ms
    | none => none

end Ctx
end GcArena
