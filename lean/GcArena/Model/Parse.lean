import GcArena.Model.Show
/-
  GcArena.Model.Parse — parser of the op lines of the line protocol.  Rejects what it does not
  understand (`none`); never defaults.
-/
namespace GcArena

def parseRat (s : String) : Option Rat :=
  match s.splitOn "/" with
  | [n] => n.toInt?.map (fun (i : Int) => (i : Rat))
  | [n, d] =>
    match n.toInt?, d.toNat? with
    | some i, some k => if k = 0 then none else some (mkRat i k)
    | _, _ => none
  | _ => none

def parsePtr (s : String) : Option Ptr :=
  match s.toList with
  | 's' :: r => (String.ofList r).toNat?.map Ptr.strong
  | 'w' :: r => (String.ofList r).toNat?.map Ptr.weak
  | _ => none

def parseSlot (s : String) : Option Slot :=
  if s = "none" then some none else (parsePtr s).map some

def parseSlots : List String → Option (List Slot)
  | [] => some []
  | s :: r =>
    match parseSlot s, parseSlots r with
    | some x, some xs => some (x :: xs)
    | _, _ => none

def parseOptNat (s : String) : Option (Option Nat) :=
  if s = "-" then some none else s.toNat?.map some

def parseMethod : String → Option Method
  | "collect_debt" => some .collectDebt
  | "mark_debt" => some .markDebt
  | "finish_marking" => some .finishMarking
  | "cycle_debt" => some .cycleDebt
  | "finish_cycle" => some .finishCycle
  | _ => none

def parseCont : String → Option Cont
  | "drop" => some .drop
  | "finalize" => some .finalize
  | "sweep" => some .sweep
  | _ => none

def parseFault (s : String) : Option TraceFault :=
  if s = "-" then some none else
  match s.splitOn "," with
  | [k, j] =>
    match k.toNat?, j.toNat? with
    | some k, some j => some (some (k, j))
    | _, _ => none
  | _ => none

/-- Micro-step string of the hook log → micro-steps.  A `g`/`r` that is the last traced step
    of a call which unwound carries the fault's slot count `j`. -/
def parseMicros (s : String) (fault : TraceFault) (hasSlept0 : Bool) : Option (List Micro) :=
  if s = "-" then some [] else
  let rec go (cs : List Char) (k : Nat) (slept : Bool) : Option (List Micro) :=
    match cs with
    | [] => some []
    | 'W' :: r => (go r k true).map (Micro.wake :: ·)
    | 'g' :: r => (go r (k + 1) slept).map (Micro.markStep (faultAt fault k) :: ·)
    | 'r' :: r => (go r (k + 1) slept).map (Micro.markStep (faultAt fault k) :: ·)
    | 'b' :: r => (go r k slept).map (Micro.markBreak :: ·)
    | 'S' :: r => (go r k slept).map (Micro.toSweep :: ·)
    | 'x' :: r => (go r k slept).map (Micro.sweepStep :: ·)
    | 'e' :: r => (go r k slept).map (Micro.sweepEnd :: ·)
    | 'Z' :: r => (go r k slept).map (Micro.toSleep slept :: ·)
    | _ => none
  go s.toList 0 hasSlept0

def parseOp (ws : List String) (steps : String) (oracle : Bool) : Option Op :=
  match ws with
  | ["pacing", sf, ms, mf, tf, kf, df, ff] =>
    match parseRat sf, ms.toNat?, parseRat mf, parseRat tf, parseRat kf, parseRat df, parseRat ff with
    | some sf, some ms, some mf, some tf, some kf, some df, some ff =>
      some (.setPacing { sleepFactor := sf, minSleep := ms, markFactor := mf, traceFactor := tf,
                         keepFactor := kf, dropFactor := df, freeFactor := ff })
    | _, _, _, _, _, _, _ => none
  | ["adjust", x] => (parseRat x).map .adjustDebt
  | ["collect", m, k, f] =>
    match parseMethod m, parseCont k, parseFault f with
    | some m, some k, some f =>
      if oracle then
        match parseMicros steps f false with
        | some ms => some (.collect m k f (some ms))
        | none => none
      else some (.collect m k f none)
    | _, _, _ => none
  | ["enter", "mutate"] => some (.enter .mutate)
  | ["enter", "mutate_root"] => some (.enter .mutateRoot)
  -- `Arena::map_root` / `try_map_root` and the constructor callback of `Arena::new` / `try_new`
  -- are, for the collector, `mutate_root`: `root_barrier()` (a no-op while asleep) and a callback
  -- that may allocate and replace what the root holds.  A failing `try_map_root` / `try_new`, or a
  -- panic inside any of them, drops the arena: the harness writes an explicit `droparena` op.
  | ["enter", "map_root"] => some (.enter .mutateRoot)
  | ["enter", "try_map_root_ok"] => some (.enter .mutateRoot)
  | ["enter", "try_map_root_err"] => some (.enter .mutateRoot)
  | ["enter", "new_ctor"] => some (.enter .mutateRoot)
  | ["enter", "try_new_ok"] => some (.enter .mutateRoot)
  | ["enter", "try_new_err"] => some (.enter .mutateRoot)
  -- `arena::rootless_mutate`: a throw-away arena without a root (`new 0`); its callback is `mutate`
  -- on that arena, and the harness writes `drop` when the call returns.
  | ["enter", "rootless_mutate"] => some (.enter .mutate)
  | ["enter", "finalize"] => some (.enter .finalize)
  | ["leave"] => some .leave
  | ["leave", "panic"] => some .leave     -- a callback that unwinds: its effects so far stay
  | "alloc" :: "node" :: slots => (parseSlots slots).map (.alloc true)
  | "alloc" :: "leaf" :: slots => (parseSlots slots).map (.alloc false)
  -- objects whose whole value is a lock (`Gc<RefLock<_>>` with 3 slots, `Gc<Lock<_>>` with one slot,
  -- `Gc<OnceLock<_>>` with one slot, allocated empty): for the model, objects are slot lists.
  | ["alloc", "refnode", a, b, c] => (parseSlots [a, b, c]).map (.alloc true)
  -- an object holding its 3 slots behind a `dyn_collect!` trait object: an ordinary node
  | ["alloc", "dynnode", a, b, c] => (parseSlots [a, b, c]).map (.alloc true)
  | ["alloc", "lockcell", a] => (parseSlots [a]).map (.alloc true)
  -- an object whose whole value is a pointer-free lock (`NEEDS_TRACE = false`): a leaf
  | ["alloc", "leafcell"] => some (.alloc false [])
  | ["alloc", "oncecell"] => some (.alloc true [none])
  -- the allocation made by the closure of `Gc<OnceLock<_>>::get_or_init` (between its barrier and
  -- its store)
  | ["alloc", "getorinit-child", a, b, c] => (parseSlots [a, b, c]).map (.alloc true)
  | ["readroot", i] => i.toNat?.map .readRoot
  | ["read", p, i] =>
    match p.toNat?, i.toNat? with
    | some p, some i => some (.read p i)
    | _, _ => none
  | ["downgrade", p] => p.toNat?.map .downgrade
  | ["upgrade", w] => w.toNat?.map .upgrade
  | ["isdropped", w] => w.toNat?.map .isDropped
  | ["isdead", p] => (parsePtr p).map .isDead
  | ["resurrect", p] => (parsePtr p).map .resurrect
  | ["barrier", "bb", p, c] =>
    match p.toNat?, parseOptNat c with
    | some p, some c => some (.barrier (.bb p c))
    | _, _ => none
  -- first phase of `Gc<OnceLock<_>>::get_or_init` on an empty cell: `backward_barrier(cell, None)`,
  -- issued before the client closure runs
  -- `Gc<RefLock<T>>::borrow_mut` on such a cell, then a write of plain data: for the collector,
  -- `backward_barrier(cell, None)`
  | ["barrier", "cellset", p] => p.toNat?.map (fun p => .barrier (.bb p none))
  | ["barrier", "getorinit", p] => p.toNat?.map (fun p => .barrier (.bb p none))
  | ["barrier", "bbw", p, c] =>
    match p.toNat?, c.toNat? with
    | some p, some c => some (.barrier (.bbw p c))
    | _, _ => none
  | ["barrier", "fb", p, c] =>
    match parseOptNat p, c.toNat? with
    | some p, some c => some (.barrier (.fb p c))
    | _, _ => none
  | ["barrier", "fbw", p, c] =>
    match parseOptNat p, c.toNat? with
    | some p, some c => some (.barrier (.fbw p c))
    | _, _ => none
  -- `Gc<OnceLock<_>>::set` / `get_or_init` on an occupied cell: nothing is stored and no barrier is
  -- issued; the call hands back what the cell holds — a read.
  | ["store", "onceset-full", p, i, _] =>
    match p.toNat?, i.toNat? with
    | some p, some i => some (.read p i)
    | _, _ => none
  | ["store", "getorinit-full", p, i, _] =>
    match p.toNat?, i.toNat? with
    | some p, some i => some (.read p i)
    | _, _ => none
  | ["store", path, p, i, v] =>
    let path? : Option StorePath :=
      match path with
      | "write" => some .write | "raw" => some .raw | "stb" => some .storeThenBarrier
      -- the crate's own safe setters of lock-valued objects: `backward_barrier(p, None)`, then store
      | "lockset" => some .write        -- `Gc<Lock<T>>::set`
      | "borrowmut" => some .write      -- `Gc<RefLock<T>>::borrow_mut`
      | "tryborrowmut" => some .write   -- `Gc<RefLock<T>>::try_borrow_mut`
      | "unlock" => some .write         -- `Gc::unlock`
      | "onceset" => some .storeThenBarrier   -- `Gc<OnceLock<T>>::set` on an empty cell
      -- last phase of `get_or_init` on an empty cell: the store, covered by the `barrier getorinit`
      -- line written before the closure ran
      | "getorinit" => some .raw
      | _ => none
    match path?, p.toNat?, i.toNat?, parseSlot v with
    | some path, some p, some i, some v => some (.store path p i v)
    | _, _, _, _ => none
  | ["rootstore", i, v] =>
    match i.toNat?, parseSlot v with
    | some i, some v => some (.rootStore i v)
    | _, _ => none
  | ["drop"] => some .dropArena
  | _ => none

end GcArena
