import GcArena.Model.Driver
/-
  GcArena.Model.Arena — mirrors src/arena.rs (`Arena`, `MarkedArena`, the callback entry points)
  and the mutator-side API reachable from `&Mutation` / `&Finalization`
  (src/gc.rs, src/gc_weak.rs, src/lock.rs, src/context.rs `Mutation::*`).

  A callback is the op sequence between `enter k` and `leave`.  Inside it the client names only
  pointers it *holds*: `temps` (fresh allocations, pointers read from the graph, successful
  upgrades, downgrades).  That is what safe Rust enforces — a pointer can only be obtained by
  allocating it or reading it from something already held, and the brand keeps pointers of
  earlier callbacks and of other arenas out (C12) — so the operand guards exclude nothing a
  client can do, with one exception: there is one active callback per arena, so *nested*
  `mutate` calls on the same arena (legal: `mutate` takes `&self`) are not representable — an
  inner callback can do nothing the outer one cannot, but its pointers outliving it inside the
  outer callback is not expressed.  A guarded-out op returns the state unchanged with output
  `bad-op`.

  `cover` is ghost state: the barriers issued since the last collection call, which license
  later barrier-less (`raw`) stores — the premise "interior mutation preceded by a barrier" of
  C06/C13.
-/
namespace GcArena

inductive CbKind where
  | mutate | mutateRoot | finalize
  deriving DecidableEq, Repr, Inhabited

inductive Method where
  | collectDebt | markDebt | finishMarking | cycleDebt | finishCycle
  deriving DecidableEq, Repr, Inhabited

/-- What the client does with a returned `MarkedArena`. -/
inductive Cont where
  | drop | finalize | sweep
  deriving DecidableEq, Repr, Inhabited

inductive Cover where
  | parent (p : Nat)              -- `backward_barrier(p, None)` / `Gc::write(p)`
  | child (c : Nat)               -- `forward_barrier(None, c)`
  | weakChild (c : Nat)           -- `forward_barrier_weak(None, c)`
  | pair (p c : Nat)              -- `backward_barrier(p, Some(c))` / `forward_barrier(Some(p), c)`
  | weakPair (p c : Nat)          -- `backward_barrier_weak(p, c)` / `forward_barrier_weak(Some(p), c)`
  deriving DecidableEq, Repr, Inhabited

inductive BarrierOp where
  | bb (p : Nat) (c : Option Nat)
  | bbw (p c : Nat)
  | fb (p : Option Nat) (c : Nat)
  | fbw (p : Option Nat) (c : Nat)
  deriving DecidableEq, Repr, Inhabited

/-- The route by which a slot of an allocated object is written. -/
inductive StorePath where
  | write        -- `Gc::write` / `Gc::unlock` / `Gc<RefLock>::borrow_mut` / `Gc<Lock>::set`:
                 --   `backward_barrier(p, None)` then store
  | raw          -- `Lock::as_cell` / `RefLock::as_ref_cell` (unsafe) after an explicit barrier
  | storeThenBarrier   -- `Gc<OnceLock>::set`: store, then `backward_barrier(p, None)`
  deriving DecidableEq, Repr, Inhabited

inductive Op where
  | setPacing (p : Pacing)
  | adjustDebt (x : Rat)
  | collect (m : Method) (k : Cont) (fault : TraceFault) (oracle : Option (List Micro))
  | enter (k : CbKind)
  | leave
  | alloc (needsTrace : Bool) (slots : List Slot)
  | readRoot (i : Nat)
  | read (p i : Nat)
  | downgrade (p : Nat)
  | upgrade (w : Nat)
  | isDropped (w : Nat)
  | isDead (p : Ptr)
  | resurrect (p : Ptr)
  | barrier (b : BarrierOp)
  | store (path : StorePath) (p i : Nat) (v : Slot)
  | rootStore (i : Nat) (v : Slot)
  | dropArena
  deriving Repr, Inhabited

structure Arena where
  ctx : Ctx
  root : List Slot
  temps : List Ptr
  cb : Option CbKind
  cover : List Cover
  marked : Bool      -- the previous op returned a `MarkedArena` that the client kept for `finalize`
  alive : Bool
  deriving Repr

namespace Arena

/-- `Arena::new(|_| root)` with a root of `n` empty slots. -/
def new (n : Nat) : Arena :=
  { ctx := Ctx.new, root := List.replicate n none, temps := [], cb := none, cover := [],
    marked := false, alive := true }

def holds (a : Arena) (p : Ptr) : Bool := a.temps.contains p

def holdsSlot (a : Arena) : Slot → Bool
  | none => true
  | some p => a.holds p

def push (a : Arena) (p : Ptr) : Arena :=
  if a.holds p then a else { a with temps := p :: a.temps }

/-- `Arena::collection_phase`. -/
def collectionPhase (a : Arena) : String :=
  match a.ctx.phase with
  | .mark => if a.ctx.grayRemaining then "Marking" else "Marked"
  | .sweep => "Sweeping"
  | .sleep => "Sleeping"
  | .drop => "Dropped"

def methodArgs : Method → RunUntil × Stop
  | .collectDebt => (.payDebt, .full)
  | .markDebt => (.payDebt, .fullyMarked)
  | .finishMarking => (.stop, .fullyMarked)
  | .cycleDebt => (.payDebt, .finishCycle)
  | .finishCycle => (.stop, .finishCycle)

/-- Does the method hand out a `MarkedArena` in this state (`phase == Mark && !gray_remaining`)? -/
def isMarked (c : Ctx) : Bool := c.phase = .mark && !c.grayRemaining

/-- Run the collector part of a collection method: self-driven, or replaying the logged
    micro-steps (`none` result = a logged step is not enabled in the model). -/
def runCollector (a : Arena) (ru : RunUntil) (stop : Stop) (fault : TraceFault)
    (oracle : Option (List Micro)) : Option (Ctx × Exit) :=
  match oracle with
  | none => some (a.ctx.doCollection a.root ru stop fault)
  | some ms =>
    match a.ctx.micros a.root ms with
    | none => none
    | some c =>
      let unw := ms.any (fun m => match m with | .markStep (some _) => true | _ => false)
      some (c, if unw then .unwound else .returned)

/-- `MarkedArena::start_sweeping`: `do_collection(Stop, AtSweep)` then
    `assert_eq!(phase, Phase::Sweep)`.  `none`: a logged step is not enabled in the model, or the
    assertion would fire (`C08.start_sweeping_asserts` shows the self-driven model never does). -/
def startSweeping (a : Arena) (oracle : Option (List Micro)) : Option Ctx :=
  match a.runCollector .stop .atSweep none oracle with
  | none => none
  | some (c, _) => if c.phase = .sweep then some c else none

/-- The oracle, when present, covers the method's own call and (for `sweep`) the
    `start_sweeping` call that follows: it is split at the first `S`. -/
def splitOracle (oracle : Option (List Micro)) (k : Cont) (m : Method) :
    Option (List Micro) × Option (List Micro) :=
  match oracle with
  | none => (none, none)
  | some ms =>
    if k = .sweep && (m = .markDebt || m = .finishMarking) then
      (some (ms.takeWhile (· ≠ .toSweep)), some (ms.dropWhile (· ≠ .toSweep)))
    else (some ms, none)

/-- The tail of `mark_debt` / `finish_marking`: hand out a `MarkedArena` iff
    `phase == Mark && !gray_remaining()`, and do with it what the client chose. -/
def marked? (a : Arena) (k : Cont) (o2 : Option (List Micro)) : Arena × String :=
  if isMarked a.ctx then
    match k with
    | .drop => (a, "some")
    | .finalize => ({ a with marked := true }, "some")
    | .sweep =>
      match a.startSweeping o2 with
      | none => (a, "model-reject")
      | some c' => ({ a with ctx := c' }, "some")
  else (a, "none")

def coverOK (a : Arena) (p : Nat) (v : Slot) : Bool :=
  match v with
  | none => true
  | some (.strong c) =>
    a.cover.contains (.parent p) || a.cover.contains (.child c) || a.cover.contains (.pair p c)
  | some (.weak c) =>
    a.cover.contains (.parent p) || a.cover.contains (.child c) || a.cover.contains (.pair p c)
    || a.cover.contains (.weakChild c) || a.cover.contains (.weakPair p c)

def setSlot (c : Ctx) (p i : Nat) (v : Slot) : Ctx :=
  match c.heap.get p with
  | none => c.fail .dangling
  | some o => c.setObj p { o with slots := o.slots.set i v }

def slotOf (c : Ctx) (p i : Nat) : Option Slot :=
  match c.heap.get p with
  | none => none
  | some o => o.slots[i]?

def isTracing (c : Ctx) (p : Nat) : Bool :=
  match c.heap.get p with
  | none => false
  | some o => o.needsTrace

def showPtr : Ptr → String
  | .strong t => s!"s{t}"
  | .weak t => s!"w{t}"

def showSlot : Slot → String
  | none => "none"
  | some p => showPtr p

def bad (a : Arena) : Arena × String := (a, "bad-op")

/-- One API-level operation on a live arena; `fin`: the previous op handed out a `MarkedArena`
    that the client kept.  Returns the new state and the value the client observes. -/
def stepBody (a : Arena) (fin : Bool) (op : Op) : Arena × String :=
  match op with
  | .setPacing p =>
    -- `Metrics` is a cloneable handle: usable while a `MarkedArena` is held; `marked` is kept
    ({ a with ctx := a.ctx.withMetrics (·.setPacing p), marked := fin }, "ok")
  | .adjustDebt x =>
    ({ a with ctx := a.ctx.withMetrics (·.adjustDebt x), marked := fin }, "ok")
  | .collect m k fault oracle =>
    if a.cb.isSome then a.bad else
    let os := splitOracle oracle k m
    match a.runCollector (methodArgs m).1 (methodArgs m).2 fault os.1 with
    | none => (a, "model-reject")
    | some (c, ex) =>
      let a := { a with ctx := c, cover := [] }
      if ex = .unwound then (a, "panic") else
      if ex = .outOfFuel then (a, "out-of-fuel") else
      match m with
      | .markDebt => a.marked? k os.2
      | .finishMarking => a.marked? k os.2
      | _ => (a, "-")
  | .enter k =>
    if a.cb.isSome then a.bad else
    match k with
    | .mutate => ({ a with cb := some k }, "ok")
    | .mutateRoot => ({ a with cb := some k, ctx := a.ctx.rootBarrier }, "ok")
    | .finalize => if fin then ({ a with cb := some k }, "ok") else a.bad
  | .leave =>
    if a.cb.isNone then a.bad else ({ a with cb := none, temps := [] }, "ok")
  | .alloc nt slots =>
    if a.cb.isNone then a.bad else
    if !slots.all a.holdsSlot then a.bad else
    if !nt && !slots.all (· == none) then a.bad else
    let (c, i) := a.ctx.link { color := .white, needsTrace := nt, live := true, slots := slots }
    (({ a with ctx := c }).push (.strong i), s!"{i}")
  | .readRoot i =>
    if a.cb.isNone then a.bad else
    match a.root[i]? with
    | none => a.bad
    | some none => (a, "none")
    | some (some p) => (a.push p, showPtr p)
  | .read p i =>
    if a.cb.isNone || !a.holds (.strong p) then a.bad else
    match slotOf a.ctx p i with
    | none => a.bad
    | some none => (a, "none")
    | some (some q) => (a.push q, showPtr q)
  | .downgrade p =>
    if a.cb.isNone || !a.holds (.strong p) then a.bad else (a.push (.weak p), "ok")
  | .upgrade w =>
    if a.cb.isNone || !a.holds (.weak w) then a.bad else
    let (c, ok) := a.ctx.upgrade w
    let a := { a with ctx := c }
    if ok then (a.push (.strong w), "some") else (a, "none")
  | .isDropped w =>
    if a.cb.isNone || !a.holds (.weak w) then a.bad else
    match a.ctx.heap.get w with
    | none => ({ a with ctx := a.ctx.fail .dangling }, "dangling")
    | some o => (a, if o.live then "false" else "true")
  | .isDead p =>
    if a.cb ≠ some .finalize || !a.holds p then a.bad else
    match a.ctx.heap.get p.target with
    | none => ({ a with ctx := a.ctx.fail .dangling }, "dangling")
    | some o => (a, if o.color = .white || o.color = .whiteWeak then "true" else "false")
  | .resurrect p =>
    if a.cb ≠ some .finalize || !a.holds p then a.bad else
    match p with
    | .strong t => ({ a with ctx := a.ctx.resurrect t }, "ok")
    | .weak t =>
      match a.ctx.heap.get t with
      | none => ({ a with ctx := a.ctx.fail .dangling }, "dangling")
      | some o =>
        if o.live then (({ a with ctx := a.ctx.resurrect t }).push (.strong t), "some")
        else (a, "none")
  | .barrier b =>
    if a.cb.isNone then a.bad else
    match b with
    | .bb p none =>
      if !a.holds (.strong p) then a.bad else
      ({ a with ctx := a.ctx.backwardBarrier p none, cover := .parent p :: a.cover }, "ok")
    | .bb p (some c) =>
      if !a.holds (.strong p) || !a.holds (.strong c) then a.bad else
      ({ a with ctx := a.ctx.backwardBarrier p (some c), cover := .pair p c :: a.cover }, "ok")
    | .bbw p c =>
      if !a.holds (.strong p) || !a.holds (.weak c) then a.bad else
      ({ a with ctx := a.ctx.backwardBarrierWeak p c, cover := .weakPair p c :: a.cover }, "ok")
    | .fb none c =>
      if !a.holds (.strong c) then a.bad else
      ({ a with ctx := a.ctx.forwardBarrier none c, cover := .child c :: a.cover }, "ok")
    | .fb (some p) c =>
      if !a.holds (.strong p) || !a.holds (.strong c) then a.bad else
      ({ a with ctx := a.ctx.forwardBarrier (some p) c, cover := .pair p c :: a.cover }, "ok")
    | .fbw none c =>
      if !a.holds (.weak c) then a.bad else
      ({ a with ctx := a.ctx.forwardBarrierWeak none c, cover := .weakChild c :: a.cover }, "ok")
    | .fbw (some p) c =>
      if !a.holds (.strong p) || !a.holds (.weak c) then a.bad else
      ({ a with ctx := a.ctx.forwardBarrierWeak (some p) c,
                cover := .weakPair p c :: a.cover }, "ok")
  | .store path p i v =>
    if a.cb.isNone || !a.holds (.strong p) || !a.holdsSlot v then a.bad else
    match slotOf a.ctx p i with
    | none => a.bad
    | some _ =>
      -- a value whose type has `NEEDS_TRACE = false` cannot hold pointers (the `Collect` contract, C16)
      if v.isSome && !isTracing a.ctx p then a.bad else
      match path with
      | .write =>
        let c := a.ctx.backwardBarrier p none
        ({ a with ctx := setSlot c p i v, cover := .parent p :: a.cover }, "ok")
      | .raw =>
        if !a.coverOK p v then a.bad else ({ a with ctx := setSlot a.ctx p i v }, "ok")
      | .storeThenBarrier =>
        let c := setSlot a.ctx p i v
        ({ a with ctx := c.backwardBarrier p none, cover := .parent p :: a.cover }, "ok")
  | .rootStore i v =>
    if a.cb ≠ some .mutateRoot || !a.holdsSlot v || a.root.length ≤ i then a.bad else
    ({ a with root := a.root.set i v }, "ok")
  | .dropArena =>
    if a.cb.isSome then a.bad else
    ({ a with ctx := a.ctx.dropAll, alive := false, root := [], cover := [] }, "ok")

/-- One API-level operation.  A dropped arena accepts nothing. -/
def step (a : Arena) (op : Op) : Arena × String :=
  if !a.alive then a.bad else ({ a with marked := false } : Arena).stepBody a.marked op

end Arena
end GcArena
