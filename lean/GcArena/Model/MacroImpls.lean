/-!
# Expansion templates of the exported `Collect`-impl macros (C12 / C16)

`static_collect!` and `dyn_collect!` (`__dyn_collect!`) expand to
`unsafe impl<'gc, P…> $crate::Collect<'gc> for $type where … { … }` with a **user-supplied** type.
The crate's own invocations are ordinary impls of the macro-expanded crate (`CollectTable`); the
generic arms are instantiated only by clients, so the translator reads every arm's template into
one `Template` row (`GcArena/Generated/MacroImpls.lean`).

The impl header declares `'gc`, and lifetimes written in a macro body are nameable by the tokens
the user passes (`static_collect!(<T> MyTrait<'gc, T>)` is the documented use).  So the
user-supplied type may mention the impl's own brand, and a bound on the *declared parameters*
(`T: 'static`) says nothing about it: only `$type: 'static` on the type itself does.
-/
namespace GcArena.MacroImpls

/-- The `NEEDS_TRACE` item of the template. -/
inductive NT
  | defaulted | explicitTrue | explicitFalse
  | expr (e : String)
deriving DecidableEq, Repr

/-- What the template's `trace` does. -/
inductive TraceBody
  | noop          -- no `trace` item (the trait's default is empty) or an empty body
  | forwardsDyn   -- `$crate::collect::DynCollect::dyn_trace(self, cc)`: the value's own `trace`
  | other (b : String)
deriving DecidableEq, Repr

structure Template where
  macroName : String
  arm : Nat
  hasParams : Bool      -- the arm lets the user declare generic parameters
  gcInScope : Bool      -- the impl header declares `'gc` (nameable inside the user-supplied type)
  typeStatic : Bool     -- the where-clause has `$type: 'static` on the user-supplied type itself
  paramsStatic : Bool   -- the where-clause has `$($params: 'static,)+`
  userBounds : Bool     -- user-supplied where-predicates are spliced in (recorded for the reader:
                        --   extra bounds only restrict the impl, no rule depends on them)
  needsTrace : NT
  trace : TraceBody
  isUnsafeImpl : Bool
deriving DecidableEq, Repr

/-- The value of the generated `NEEDS_TRACE` constant (`none`: not a literal). -/
def Template.needsTraceValue (t : Template) : Option Bool :=
  match t.needsTrace with
  | .defaulted => some true
  | .explicitTrue => some true
  | .explicitFalse => some false
  | .expr _ => none

/-- The generated impl reports no pointer at all: `Trace::trace` skips a value whose
`NEEDS_TRACE` is `false`, and an empty `trace` reports nothing. -/
def Template.reportsNothing (t : Template) : Bool :=
  t.needsTrace == .explicitFalse || t.trace == .noop

/-- **The rule.**  The template is an `unsafe impl`, its constant and body are of a known shape;
claiming that nothing needs tracing (`NEEDS_TRACE = false`, or an empty `trace`) is licensed only
by `$type: 'static` on the user-supplied type itself — bounds on the declared parameters are not
enough, precisely because `'gc` is nameable —; and a template whose `trace` forwards to the value
must leave `NEEDS_TRACE` at its default / `true`. -/
def Template.ok (t : Template) : Bool :=
  t.isUnsafeImpl &&
  (match t.needsTrace with | .expr _ => false | _ => true) &&
  (match t.trace with | .other _ => false | _ => true) &&
  (!t.reportsNothing || t.typeStatic) &&
  (!(t.trace == .forwardsDyn) || t.needsTraceValue == some true)

/-! ## What an instantiation means (a small type-expression model) -/

/-- A user-supplied type, as far as brands are concerned. -/
structure Inst where
  brandFree : Bool   -- the type mentions no lifetime but `'static` (so it is `'static` itself)
  nparams : Nat := 0 -- generic parameters the user declares (`<T, U> …`; only on arms with `hasParams`)
deriving DecidableEq, Repr

/-- Does the generated impl apply to the type at a brand `'gc`?  With `$type: 'static` it applies to
a type mentioning the brand only when the brand *is* `'static`. -/
def Template.applies (t : Template) (i : Inst) (brandIsStatic : Bool) : Bool :=
  !t.typeStatic || i.brandFree || brandIsStatic

/-- The impl holds for **every** brand (what `for<'a> Root<'a, R>: Collect<'a>` on the collecting
methods of `Arena` demands of a root, and `Gc::new` of a payload inside a generative callback). -/
def Template.brandGeneric (t : Template) (i : Inst) : Bool := t.applies i false

/-- Rows violating the rule (what the engine reports). -/
def violations (ts : List Template) (unclassified : List String) : List String :=
  unclassified.map (fun s => "unclassified: " ++ s) ++
  (ts.filter (fun t => !t.ok)).map (fun t => "template: " ++ t.macroName ++ " arm " ++ toString t.arm)

end GcArena.MacroImpls
