/-!
# Signature check for "nothing is conjured" (C19, static half)

The translator lists every public function / exported macro of the crate whose result type
contains a *handle* (`Gc`, `GcWeak`, `DynamicRoot`, an initialised builder header) on a
caller-chosen type parameter, with the places where that parameter occurs in the result and in the
inputs.  An occurrence is a path of type constructors from the top of the type down to the
parameter (`Option<Gc<'gc, T>>` ↦ `[option, gc]`, `&[E]` ↦ `[ref, slice]`,
`impl FnMut(usize) -> E` ↦ `[fnRet]`).

A signature is acceptable when it is `unsafe`, or when for every parameter the inputs *supply* the
parameter at least as strongly as the result *carries* it: a value of the type (or a pointer /
handle to one, or a closure producing one) must come in for a handle on it to go out.  By
parametricity a safe generic function cannot otherwise produce the handle (trusted, DESIGN §9).

The carrier classification of each constructor below is part of the trusted base.
-/
namespace GcArena.Conjure

inductive PathElem
  | self_                 -- occurrence is inside the type of the receiver
  | ref | refMut | box | tuple | cellRef | write | lock | staticWrapper
  | slice | array | option | result | onceLock
  | gc | gcWeak           -- target argument of `Gc` / `GcWeak`
  | gcKind                -- inside the kind argument (`GcKind<_, M, P>`: phantom metadata types)
  | dynamicRoot           -- `DynamicRoot<R>`
  | rootProj              -- `<R as Rootable<'_>>::Root`
  | initBuilderHeader     -- header argument of `GcSliceWithHeaderSliceBuilder` (already written)
  | uninitBuilder         -- `GcBuilder<T>` and friends: storage allocated, value not yet written
  | swhHeader | swhElem   -- `SliceWithHeader<H, E>`
  | fnRet | fnArg         -- result / argument of a closure or fn-pointer parameter
  | rawPtr | phantom
  | unsizeFrom            -- pointee of the pointer handed to `unsize!` (compiler-checked coercion)
  | assoc (name : String) -- some other associated-type projection
  | other (name : String) -- unknown type constructor
deriving DecidableEq, Repr

inductive Strength
  | none | maybe | definite
deriving DecidableEq, Repr

def Strength.toNat : Strength → Nat
  | .none => 0
  | .maybe => 1
  | .definite => 2

def Strength.min (a b : Strength) : Strength := if a.toNat ≤ b.toNat then a else b

/-- How strongly a constructor in a **result** type implies that a value of the parameter exists
behind it. Unknown constructors count as definite carriers (fail closed). -/
def PathElem.carryRet : PathElem → Strength
  | .slice | .array | .option | .result | .onceLock | .swhElem => .maybe
  | .gcKind | .uninitBuilder | .fnArg | .rawPtr | .phantom => .none
  | _ => .definite

/-- How strongly a constructor in an **input** type shows that the caller supplied a value of the
parameter. Unknown constructors supply nothing (fail closed). -/
def PathElem.carryIn : PathElem → Strength
  | .slice | .array | .option | .result | .onceLock | .swhElem => .maybe
  | .gcKind | .uninitBuilder | .fnArg | .rawPtr | .phantom => .none
  | .assoc _ | .other _ => .none
  | _ => .definite

def retStrength (p : List PathElem) : Strength := p.foldl (fun s e => s.min e.carryRet) .definite
def inStrength (p : List PathElem) : Strength := p.foldl (fun s e => s.min e.carryIn) .definite

def PathElem.isHandle : PathElem → Bool
  | .gc | .gcWeak | .dynamicRoot | .initBuilderHeader => true
  | _ => false

/-- One caller-chosen type parameter of a signature. -/
structure Req where
  param : String
  retPaths : List (List PathElem)
  inPaths : List (List PathElem)
deriving DecidableEq, Repr

structure Sig where
  name : String
  isUnsafe : Bool
  isMacro : Bool
  reqs : List Req
deriving DecidableEq, Repr

structure Table where
  sigs : List Sig
  unclassified : List String
deriving Repr

/-- The strongest supply of the parameter among the inputs. -/
def Req.supply (r : Req) : Nat := r.inPaths.foldl (fun m p => Nat.max m (inStrength p).toNat) 0

/-- Every handle on the parameter in the result is matched by an input of at least that strength. -/
def Req.ok (r : Req) : Bool :=
  r.retPaths.all (fun rp => !rp.any PathElem.isHandle || decide ((retStrength rp).toNat ≤ r.supply))

def Sig.ok (s : Sig) : Bool := s.isUnsafe || s.reqs.all Req.ok

def Table.ok (t : Table) : Bool := t.unclassified.isEmpty && t.sigs.all Sig.ok

def Table.violations (t : Table) : List String :=
  t.unclassified.map (fun s => "unclassified: " ++ s) ++
  (t.sigs.filter (fun s => !s.ok)).map (fun s => "sig: " ++ s.name)

end GcArena.Conjure
