/-!
# Provided `Collect` impls as data, and what tracing through them reports (C16)

`Table` is what the translator extracts from every `unsafe impl Collect for X<P…>` of the crate
(`GcArena/Generated/CollectTable.lean`).  `Shape.stored` — which type-argument positions of a
container hold values — is the model's (trusted) knowledge of the std / third-party containers.

* `Ty`   — type shapes: pointer leaves, pointer-free leaves, and instances `app e args` of table
           entry `e` at arbitrary argument types (any nesting depth).
* `Val`  — values: a container value is *any* finite sequence of elements, each tagged with the
           type-argument position it belongs to (so every element position and every size is
           covered at once; a `HashMap` value is a sequence of position-0 and position-1 elements).
* `ptrsOf`        — ground truth: the pointers a value contains, strong / weak.
* `traceProvided` — what `Trace::trace(value)` reports, following the table entry: the
                    `NEEDS_TRACE` short-circuit, the impl's own guards, the traced sources.
-/
namespace GcArena.CollectTy

/-- Container kinds known to the model. -/
inductive Shape
  | box | slice | array | option | result | vec | vecDeque | linkedList | binaryHeap
  | hashMap | hashSet | btreeMap | btreeSet | rc | arc
  | lock | refLock | onceLock | sliceWithHeader
  | hbHashMap | hbHashSet | hbHashTable | indexMap | indexSet | slotMap | smallVec | enumMap
  | tuple (n : Nat)
  | cell | refCell | phantomData | staticRef | staticWrapper
  | leaf            -- a parameterless type declared with `static_collect!`
  | internal        -- a concrete crate-internal type holding pointers in named fields
  | other (path : String)
deriving DecidableEq, Repr

/-- Type-argument positions whose values the container stores (trusted classification).
`HashMap<K, V, S>` stores its hasher `S`; `SlotMap<K, V>` / `EnumMap<K, V>` store only `V`;
`SmallVec<A>` stores `A::Item` (counted as position 0); `PhantomData<T>` stores nothing. -/
def Shape.stored : Shape → List Nat
  | .box | .slice | .array | .option | .vec | .vecDeque | .linkedList | .binaryHeap => [0]
  | .btreeSet | .rc | .arc | .lock | .refLock | .onceLock | .hbHashTable | .smallVec => [0]
  | .result | .btreeMap | .sliceWithHeader | .hashSet | .hbHashSet | .indexSet => [0, 1]
  | .hashMap | .hbHashMap | .indexMap => [0, 1, 2]
  | .slotMap | .enumMap => [1]
  | .tuple n => List.range n
  | .cell | .refCell | .staticRef | .staticWrapper => [0]
  | .phantomData | .leaf | .internal => []
  | .other _ => []

inductive LeafCall
  | none | traceGc | traceGcWeak
deriving DecidableEq, Repr

/-- `impl Collect for Gc` / `GcWeak`: default `NEEDS_TRACE` and the `Trace` method called. -/
structure LeafImpl where
  needs : Bool
  call : LeafCall
deriving DecidableEq, Repr

/-- How an impl treats one of its type parameters (decided by the translator from the impl's
generics and where-clauses, and from its `trace` body). -/
inductive Role
  | traced       -- bounded by `Collect<'gc>` and its values are passed to the tracer
  | collectOnly  -- bounded by `Collect<'gc>` but never passed to the tracer
  | static       -- bounded by `'static` (directly, or through `Self: 'static`)
  | unbounded    -- anything else — **including a bare `'gc` bound**: branded data may sit there
deriving DecidableEq, Repr

structure Param where
  name : String
  pos : Nat      -- position among the type arguments of the self type
  role : Role
deriving DecidableEq, Repr

/-- One provided impl. Positions index the type arguments of the self type. -/
structure Entry where
  shape : Shape
  text : String
  nparams : Nat
  constNeeds : Bool            -- `NEEDS_TRACE` has a literal `true` disjunct (or is defaulted)
  disjuncts : List Nat         -- positions `P` with `P::NEEDS_TRACE` among the disjuncts
  traced : List Nat            -- positions whose elements reach `cc.trace(..)` / `x.trace(cc)`
  direct : List Nat            -- … of which by a direct `x.trace(cc)` (no short-circuit)
  guards : List (List Nat)     -- `if P::NEEDS_TRACE || … { … }` around the tracing code
  staticParams : List Nat      -- positions bounded by `'static`
  selfStatic : Bool            -- `where Self: 'static`
  ptrFields : List String      -- (internal) fields whose type mentions `'gc`
  tracedFields : List String   -- (internal) fields mentioned in a trace call
  params : List Param          -- every type parameter of the impl with its role
  fieldParams : List Nat       -- (types defined in the crate) positions occurring in a field
                               --   of the definition outside `PhantomData`
  freeLifetimes : List String  -- lifetimes of the self type that are neither `'gc`, `'static`
                               --   nor bounded by `'static`
  gate : String
deriving DecidableEq, Repr

/-- `dyn DynCollect<'gc>`: forwards to `dyn_trace`, whose wrapper must forward strong to strong
and weak to weak. -/
structure DynForward where
  present : Bool
  bodyIsDynTrace : Bool
  strongToStrong : Bool
  weakToWeak : Bool
deriving DecidableEq, Repr

structure Table where
  entries : List Entry
  gcLeaf : LeafImpl
  weakLeaf : LeafImpl
  dynForward : DynForward
  traceShortCircuit : Bool     -- `Trace::trace` is `if C::NEEDS_TRACE { value.trace(self) }`
  unclassified : List String
deriving Repr

/-! ## Completeness of an entry -/

def Entry.isStaticAt (e : Entry) (k : Nat) : Bool := e.selfStatic || e.staticParams.contains k

/-- Positions whose values can occur inside a value of the type: the model's (trusted) knowledge of
the foreign containers, joined with what the translator read off the definition for the types the
crate defines itself.  Every other parameter is *phantom-only* (`PhantomData<T>`, the key type of
`SlotMap` / `EnumMap`): no value of it is ever stored, so nothing can hide there. -/
def Entry.held (e : Entry) : List Nat := e.shape.stored ++ e.fieldParams

/-- **No branded value can hide from the tracer**: every parameter that can occur in a field of
the value and is not traced is bounded by `'static`; no lifetime of the self type is free; and the
per-parameter roles agree (a parameter classified `unbounded` or `collectOnly` is phantom-only).
A `'gc` bound is *not* `'static`: `S: 'gc` admits `&'gc T` and `Gc<'gc, T>`. -/
def Entry.untracedStatic (e : Entry) : Bool :=
  e.held.all (fun k => e.traced.contains k || e.isStaticAt k) &&
  e.params.all (fun p =>
    p.role == .traced || p.role == .static || e.selfStatic || !e.held.contains p.pos) &&
  e.freeLifetimes.isEmpty

def Entry.complete (e : Entry) : Bool :=
  (match e.shape with | .other _ => false | _ => true) &&
  e.held.all (fun k =>
    decide (k < e.nparams) &&
    ((e.traced.contains k && (e.constNeeds || e.disjuncts.contains k)) || e.isStaticAt k)) &&
  e.guards.all (fun g => e.held.all (fun k => g.contains k || e.isStaticAt k)) &&
  e.ptrFields.all (fun f => e.tracedFields.contains f) &&
  -- a type holding pointers in its own fields must not be skipped by the `NEEDS_TRACE` short-circuit
  (e.ptrFields.isEmpty || e.constNeeds)

def Table.complete (t : Table) : Bool :=
  t.unclassified.isEmpty &&
  t.entries.all Entry.complete &&
  t.gcLeaf == ⟨true, .traceGc⟩ &&
  t.weakLeaf == ⟨true, .traceGcWeak⟩ &&
  t.traceShortCircuit &&
  (!t.dynForward.present ||
    (t.dynForward.bodyIsDynTrace && t.dynForward.strongToStrong && t.dynForward.weakToWeak))

def Table.untracedStatic (t : Table) : Bool := t.entries.all Entry.untracedStatic

/-- Entries violating completeness / the untraced-static rule (what the engine reports). -/
def Table.violations (t : Table) : List String :=
  t.unclassified.map (fun s => "unclassified: " ++ s) ++
  (t.entries.filter (fun e => !e.untracedStatic)).map (fun e => "hidden: " ++ e.text) ++
  (t.entries.filter (fun e => !e.complete)).map (fun e => "impl: " ++ e.text) ++
  (if t.gcLeaf == ⟨true, .traceGc⟩ then [] else ["leaf: Gc"]) ++
  (if t.weakLeaf == ⟨true, .traceGcWeak⟩ then [] else ["leaf: GcWeak"]) ++
  (if t.traceShortCircuit then [] else ["Trace::trace"]) ++
  (if !t.dynForward.present ||
      (t.dynForward.bodyIsDynTrace && t.dynForward.strongToStrong && t.dynForward.weakToWeak)
   then [] else ["dyn DynCollect"])

/-! ## Types, values, ground truth -/

inductive Ty
  | gc                              -- `Gc<'gc, _>`
  | gcWeak                          -- `GcWeak<'gc, _>`
  | prim                            -- any type without arena pointers (`'static`)
  | app (e : Nat) (args : Nat → Ty) -- instance of table entry `e`

/-- A reported / contained pointer: object id, `true` = strong. -/
abbrev Ptr := Nat × Bool

inductive Val
  | gc (id : Nat)
  | weak (id : Nat)
  | prim
  | node (len : Nat) (pos : Nat → Nat) (elem : Nat → Val)  -- elements `0 … len-1`

/-- Ground truth: every pointer contained in the value, in element order. -/
def ptrsOf : Val → List Ptr
  | .gc id => [(id, true)]
  | .weak id => [(id, false)]
  | .prim => []
  | .node len _ elem => (List.range len).flatMap (fun j => ptrsOf (elem j))

def Table.entry? (t : Table) (e : Nat) : Option Entry := t.entries[e]?

/-- The `NEEDS_TRACE` constant of a type. -/
def needsTrace (t : Table) : Ty → Bool
  | .gc => t.gcLeaf.needs
  | .gcWeak => t.weakLeaf.needs
  | .prim => false
  | .app e args =>
    match t.entry? e with
    | none => false
    | some en => en.constNeeds || en.disjuncts.any (fun k => needsTrace t (args k))

/-- `T: 'static` (no arena pointers anywhere inside). -/
def isStatic (t : Table) : Ty → Bool
  | .gc => false
  | .gcWeak => false
  | .prim => true
  | .app e args =>
    match t.entry? e with
    | none => false
    | some en => (List.range en.nparams).all (fun k => isStatic t (args k))

/-- Well-typed values: elements sit at held positions and have the argument's type; the impl's
`'static` bounds hold of the arguments (the compiler enforces them). -/
def HasType (t : Table) : Val → Ty → Prop
  | .gc _, .gc => True
  | .weak _, .gcWeak => True
  | .prim, .prim => True
  | .node len pos elem, .app e args =>
    ∃ en, t.entry? e = some en ∧
      (∀ k, en.isStaticAt k = true → k < en.nparams → isStatic t (args k) = true) ∧
      (∀ j, j < len → pos j ∈ en.held ∧ pos j < en.nparams ∧ HasType t (elem j) (args (pos j)))
  | _, _ => False

/-- `Collect::trace` of the impl (no short-circuit at this level). -/
def traceBody (t : Table) : Ty → Val → List Ptr
  | .gc, .gc id =>
    match t.gcLeaf.call with
    | .traceGc => [(id, true)]
    | .traceGcWeak => [(id, false)]
    | .none => []
  | .gcWeak, .weak id =>
    match t.weakLeaf.call with
    | .traceGc => [(id, true)]
    | .traceGcWeak => [(id, false)]
    | .none => []
  | .app e args, .node len pos elem =>
    match t.entry? e with
    | none => []
    | some en =>
      if en.guards.all (fun g => g.any (fun k => needsTrace t (args k))) then
        (List.range len).flatMap (fun j =>
          if en.traced.contains (pos j) then
            if en.direct.contains (pos j) || needsTrace t (args (pos j)) then
              traceBody t (args (pos j)) (elem j)
            else []
          else [])
      else []
  | _, _ => []

/-- `Trace::trace(value)`: `if C::NEEDS_TRACE { value.trace(self) }`. -/
def traceProvided (t : Table) (ty : Ty) (v : Val) : List Ptr :=
  if needsTrace t ty then traceBody t ty v else []

end GcArena.CollectTy
