/-!
# Brand model (property C12 — brand isolation)

Import-free model of the *structural* facts that make rustc reject every escape of an
arena-branded value, and of rustc's own rules for them:

* a small type grammar `Ty` (what the translator `/verif/extract_brand` emits for field types,
  callback signatures, `Collect` impl heads and transmute operands);
* rustc's variance inference (`rustc_hir_analysis::variance`): the four-point lattice, `xform`,
  `glb`, the per-constructor rules (`&'a T` covariant in `'a` and `T`; `&mut T`, `*mut T`, `Cell<T>`,
  `UnsafeCell<T>`, `RefCell<T>` invariant in `T`; projections invariant in every argument;
  `PhantomData<T>` as `T`; `fn(A) -> R` contravariant in `A`), evaluated over a table of ADT
  definitions by Kleene iteration from the top element (`bi`);
* auto-trait (`Send` / `Sync`) derivation with the std base facts, evaluated for the most
  permissive instantiation (every type parameter and projection assumed `Send + Sync`), so a
  `false` answer holds for *every* instantiation;
* the callback-signature check (`for<'gc>` binder, `&'gc Mutation<'gc>` first argument, result type
  closed under the parameters declared outside the binder, or the arena's own root projection);
* the `'static`-bound check on `Collect` impls for reference / interior-mutability / `Static`
  heads, and the dominance check on lifetime `transmute`s.

Everything here is executable and reduces in the kernel, so the table theorems in
`GcArena.Props.C12` are closed by `decide` against the table regenerated on every run.

Soundness direction of the approximations.  Variance is computed with fuel; with fuel exhausted,
or for an ADT that is not in the table (external crate), the answer is `bi` (the top element).
All operations are monotone, so the computed variance is always ≥ the one rustc infers; a computed
`inv` (the bottom element) is therefore exact.  Dually the auto-trait answer with fuel exhausted /
unknown ADT / type parameter / projection is `true`; a computed `false` is exact.
-/
namespace GcArena.Brand

/-! ## Type grammar -/

/-- A lifetime as written in the source. `erased` is `'_` or an elided lifetime. -/
inductive Lt where
  | static
  | erased
  | named (n : String)
  deriving DecidableEq, Repr, Inhabited

/-- std type constructors with known variance and auto-trait behaviour (the trusted base facts). -/
inductive StdCtor where
  | phantomData | cell | unsafeCell | refCell
  | rc | rcWeak | arc | arcWeak
  | box | vec | option | result | nonNull | manuallyDrop | maybeUninit
  deriving DecidableEq, Repr, Inhabited

/-- Types. `adt` is a nominal type looked up in the table (an ADT missing from the table is an
external type, treated conservatively); `slice` covers `[T]` and `[T; N]`; `prim` is any scalar /
lifetime-free leaf (`usize`, `f64`, `str`, `String`, `!`); `tuple []` is `()`. -/
inductive Ty where
  | prim (name : String)
  | param (name : String)
  | ref (lt : Lt) (t : Ty)
  | refMut (lt : Lt) (t : Ty)
  | rawConst (t : Ty)
  | rawMut (t : Ty)
  | std (c : StdCtor) (args : List Ty)
  | tuple (ts : List Ty)
  | slice (t : Ty)
  | proj (self : Ty) (trait : String) (lts : List Lt) (tys : List Ty) (assoc : String)
  | fnPtr (bound : List String) (args : List Ty) (ret : Ty)
  | adt (name : String) (lts : List Lt) (tys : List Ty)
  | unclassified (what : String)
  deriving Repr, Inhabited

/-- `()`. -/
def Ty.unit : Ty := .tuple []

/-! ## Table schema (what the translator emits) -/

inductive Vis where
  | pub | crate | priv
  deriving DecidableEq, Repr, Inhabited

structure Field where
  name : String
  ty : Ty
  /-- non-empty when the field is under a `#[cfg(..)]` (e.g. `feature = "tracing"`) -/
  cfg : String := ""
  deriving Repr, Inhabited

structure AdtDef where
  name : String
  file : String
  vis : Vis
  kind : String
  lts : List String
  tys : List String
  /-- all fields (for an enum: the fields of every variant) -/
  fields : List Field
  /-- public path under which client code can name the type (`""` if it cannot) -/
  pubPath : String := ""
  deriving Repr, Inhabited

structure AliasDef where
  name : String
  file : String
  lts : List String
  tys : List String
  body : Ty
  deriving Repr, Inhabited

/-- A callback-taking entry point: `fn name<outer…>(…, f: F) -> fnRet where
F: for<binder…> FnOnce(args…) -> ret`. -/
structure Callback where
  name : String
  file : String
  /-- lifetime / type parameters declared on the enclosing impl and on the fn itself, i.e.
  *outside* the `for<…>` binder -/
  outerLts : List String
  outerTys : List String
  fnTrait : String
  binder : List String
  args : List Ty
  ret : Ty
  fnRet : Ty
  /-- the entry point is a `pub fn` / an `unsafe fn`: only `pub`, safe ones can be called by client
  code free of `unsafe`; private helpers that pass a callback on are judged where they are used
  (`Table.brandSiteOk`) -/
  fnPub : Bool := true
  fnUnsafe : Bool := false
  deriving Repr, Inhabited

structure CollectImpl where
  file : String
  selfTy : Ty
  lts : List String
  /-- type parameters of the impl, each with "has a `'static` bound" -/
  tys : List (String × Bool)
  /-- `where <self type>: 'static` -/
  selfStatic : Bool
  cfg : String := ""
  deriving Repr, Inhabited

structure Guard where
  cond : String
  thenBranch : Bool
  deriving Repr, DecidableEq, Inhabited

structure Transmute where
  file : String
  fn_ : String
  fnUnsafe : Bool
  fnPub : Bool
  /-- the two turbofish types, `none` when the call is written without them -/
  src : Option Ty
  dst : Option Ty
  /-- enclosing `if` conditions (outermost first), whitespace-free source text -/
  guards : List Guard
  /-- the transmute is the direct operand of an `as *const _` / `as *mut _` cast -/
  castToRaw : Bool
  operand : String
  /-- leftmost identifier of the operand (`root` for `root.ptr`), `""` if not a place path -/
  operandBase : String
  fnRet : Ty
  /-- last path segment of `fn_`, and the parameter names of the enclosing fn (`self` first when it
  has a receiver) -/
  fnLast : String := ""
  fnParams : List String := []
  deriving Repr, Inhabited

/-- A place where a private `unsafe fn` holding (or leading to) a re-branding site is called —
`isCall = false`: merely mentioned (taken as a value, named inside a macro), which cannot be
followed.  `args` / `argBases` list the receiver first for a method call, so that they line up with
the callee's `fnParams`. -/
structure CallSite where
  file : String
  caller : String
  callerLast : String
  callerUnsafe : Bool
  callerPub : Bool
  callerParams : List String
  callee : String
  calleePath : String
  args : List String
  argBases : List String
  guards : List Guard
  isCall : Bool
  deriving Repr, Inhabited

/-- A safe method of a public ADT (inherent `pub`, or of a trait impl) through which client code
hands in a value whose type mentions a type parameter.  `selfArgs` are the type arguments of the
impl's self type (in the order of the ADT's type parameters); `params` the types handed in (parameter
types, outputs of callback parameters, item types of iterator parameters); `bounded` the impl /
method type parameters that carry a `Collect` or `'static` bound *at this method*. -/
structure MethodSig where
  adt : String
  file : String
  method : String
  trait : String := ""
  selfArgs : List Ty
  params : List Ty
  ret : Ty := .tuple []
  bounded : List String
  deriving Repr, Inhabited

/-- A place where a brand is created out of nothing: `kind = "source-call"` – a call of a brand
source (an `unsafe fn` returning a `Mutation` / `Finalization` whose brand the caller picks);
`"cast"` – in `arena.rs`, a reference made by dereferencing a pointer cast (`&*(e as *const _)`);
`"source-mention"` – a brand source named without being called. -/
structure BrandSite where
  file : String
  fn_ : String
  fnLast : String
  fnUnsafe : Bool
  fnPub : Bool
  kind : String
  text : String
  deriving Repr, Inhabited

/-- What a boolean function of a re-branding file compares at the end of its body: `cmp` is
`"=="`, `"ptr::eq"` or `""` (no comparison); the `…Deps` are the parameters each side is computed
from (through `let` bindings). -/
structure IdentityFn where
  file : String
  name : String
  qual : String
  params : List String
  cmp : String
  lhsDeps : List String
  rhsDeps : List String
  retBool : Bool
  deriving Repr, Inhabited

structure AutoImpl where
  trait : String
  negative : Bool
  target : String
  file : String
  cfg : String := ""
  deriving Repr, Inhabited

structure Table where
  adts : List AdtDef
  aliases : List AliasDef
  callbacks : List Callback
  collectImpls : List CollectImpl
  transmutes : List Transmute
  callSites : List CallSite := []
  methods : List MethodSig := []
  brandSites : List BrandSite := []
  brandSources : List String := []
  identityFns : List IdentityFn := []
  autoImpls : List AutoImpl
  /-- items the translator could not classify (fail closed: must be empty) -/
  unclassified : List String
  deriving Repr, Inhabited

def Table.find (tbl : Table) (n : String) : Option AdtDef :=
  tbl.adts.find? (fun d => d.name == n)

def Table.findAlias (tbl : Table) (n : String) : Option AliasDef :=
  tbl.aliases.find? (fun d => d.name == n)

/-! ## Syntactic queries on types -/

def Lt.isNamed (a : String) : Lt → Bool
  | .named b => a == b
  | _ => false

def ltsMention (a : String) : List Lt → Bool
  | [] => false
  | l :: ls => l.isNamed a || ltsMention a ls

def ltsNames : List Lt → List String
  | [] => []
  | .named a :: ls => a :: ltsNames ls
  | _ :: ls => ltsNames ls

def ltsHaveErased : List Lt → Bool
  | [] => false
  | .erased :: _ => true
  | _ :: ls => ltsHaveErased ls

def ltsAllStatic : List Lt → Bool
  | [] => true
  | .static :: ls => ltsAllStatic ls
  | _ :: _ => false

mutual
/-- Does the named lifetime `a` occur free in the type (an occurrence under a `for<'a> fn(..)`
binder of the same name is bound, not free)? -/
def Ty.mentionsLt (a : String) : Ty → Bool
  | .prim _ => false
  | .param _ => false
  | .ref l t => l.isNamed a || t.mentionsLt a
  | .refMut l t => l.isNamed a || t.mentionsLt a
  | .rawConst t => t.mentionsLt a
  | .rawMut t => t.mentionsLt a
  | .std _ ts => mentionsLtL a ts
  | .tuple ts => mentionsLtL a ts
  | .slice t => t.mentionsLt a
  | .proj s _ ls ts _ => s.mentionsLt a || ltsMention a ls || mentionsLtL a ts
  | .fnPtr bound args ret =>
      if bound.contains a then false else mentionsLtL a args || ret.mentionsLt a
  | .adt _ ls ts => ltsMention a ls || mentionsLtL a ts
  | .unclassified _ => false
def mentionsLtL (a : String) : List Ty → Bool
  | [] => false
  | t :: ts => t.mentionsLt a || mentionsLtL a ts
end

mutual
/-- Free named lifetimes of a type (with repetitions). -/
def Ty.freeLts : Ty → List String
  | .prim _ => []
  | .param _ => []
  | .ref l t => ltsNames [l] ++ t.freeLts
  | .refMut l t => ltsNames [l] ++ t.freeLts
  | .rawConst t => t.freeLts
  | .rawMut t => t.freeLts
  | .std _ ts => freeLtsL ts
  | .tuple ts => freeLtsL ts
  | .slice t => t.freeLts
  | .proj s _ ls ts _ => s.freeLts ++ (ltsNames ls ++ freeLtsL ts)
  | .fnPtr bound args ret => (freeLtsL args ++ ret.freeLts).filter (fun a => !bound.contains a)
  | .adt _ ls ts => ltsNames ls ++ freeLtsL ts
  | .unclassified _ => []
def freeLtsL : List Ty → List String
  | [] => []
  | t :: ts => t.freeLts ++ freeLtsL ts
end

mutual
/-- Type parameters occurring in a type. -/
def Ty.tyParams : Ty → List String
  | .prim _ => []
  | .param n => [n]
  | .ref _ t => t.tyParams
  | .refMut _ t => t.tyParams
  | .rawConst t => t.tyParams
  | .rawMut t => t.tyParams
  | .std _ ts => tyParamsL ts
  | .tuple ts => tyParamsL ts
  | .slice t => t.tyParams
  | .proj s _ _ ts _ => s.tyParams ++ tyParamsL ts
  | .fnPtr _ args ret => tyParamsL args ++ ret.tyParams
  | .adt _ _ ts => tyParamsL ts
  | .unclassified _ => []
def tyParamsL : List Ty → List String
  | [] => []
  | t :: ts => t.tyParams ++ tyParamsL ts
end

mutual
/-- Does the type contain an elided lifetime (`'_`)? -/
def Ty.hasErased : Ty → Bool
  | .prim _ => false
  | .param _ => false
  | .ref l t => ltsHaveErased [l] || t.hasErased
  | .refMut l t => ltsHaveErased [l] || t.hasErased
  | .rawConst t => t.hasErased
  | .rawMut t => t.hasErased
  | .std _ ts => hasErasedL ts
  | .tuple ts => hasErasedL ts
  | .slice t => t.hasErased
  | .proj s _ ls ts _ => s.hasErased || ltsHaveErased ls || hasErasedL ts
  | .fnPtr _ args ret => hasErasedL args || ret.hasErased
  | .adt _ ls ts => ltsHaveErased ls || hasErasedL ts
  | .unclassified _ => false
def hasErasedL : List Ty → Bool
  | [] => false
  | t :: ts => t.hasErased || hasErasedL ts
end

mutual
/-- Does the type contain a node the translator could not classify? -/
def Ty.hasUnclassified : Ty → Bool
  | .prim _ => false
  | .param _ => false
  | .ref _ t => t.hasUnclassified
  | .refMut _ t => t.hasUnclassified
  | .rawConst t => t.hasUnclassified
  | .rawMut t => t.hasUnclassified
  | .std _ ts => hasUnclassifiedL ts
  | .tuple ts => hasUnclassifiedL ts
  | .slice t => t.hasUnclassified
  | .proj s _ _ ts _ => s.hasUnclassified || hasUnclassifiedL ts
  | .fnPtr _ args ret => hasUnclassifiedL args || ret.hasUnclassified
  | .adt _ _ ts => hasUnclassifiedL ts
  | .unclassified _ => true
def hasUnclassifiedL : List Ty → Bool
  | [] => false
  | t :: ts => t.hasUnclassified || hasUnclassifiedL ts
end

mutual
/-- Instantiate type parameters (lifetimes are left alone; a `fn` binder may capture, which only
removes free occurrences). -/
def Ty.subst (σ : String → Ty) : Ty → Ty
  | .prim n => .prim n
  | .param n => σ n
  | .ref l t => .ref l (t.subst σ)
  | .refMut l t => .refMut l (t.subst σ)
  | .rawConst t => .rawConst (t.subst σ)
  | .rawMut t => .rawMut (t.subst σ)
  | .std c ts => .std c (substL σ ts)
  | .tuple ts => .tuple (substL σ ts)
  | .slice t => .slice (t.subst σ)
  | .proj s tr ls ts a => .proj (s.subst σ) tr ls (substL σ ts) a
  | .fnPtr b args ret => .fnPtr b (substL σ args) (ret.subst σ)
  | .adt n ls ts => .adt n ls (substL σ ts)
  | .unclassified w => .unclassified w
def substL (σ : String → Ty) : List Ty → List Ty
  | [] => []
  | t :: ts => t.subst σ :: substL σ ts
end

/-! ## Variance (rustc_hir_analysis::variance) -/

/-- The variance lattice: `bi` is the top (no constraint), `inv` the bottom. -/
inductive Variance where
  | bi | co | contra | inv
  deriving DecidableEq, Repr, Inhabited

/-- `ambient.xform declared` — rustc's `Variance::xform`. -/
def Variance.xform : Variance → Variance → Variance
  | .co, v => v
  | .contra, .co => .contra
  | .contra, .contra => .co
  | .contra, .inv => .inv
  | .contra, .bi => .bi
  | .inv, _ => .inv
  | .bi, _ => .bi

/-- Greatest lower bound — rustc's `glb` in `variance::solve`. -/
def Variance.glb : Variance → Variance → Variance
  | .bi, v => v
  | v, .bi => v
  | .inv, _ => .inv
  | _, .inv => .inv
  | .co, .co => .co
  | .contra, .contra => .contra
  | .co, .contra => .inv
  | .contra, .co => .inv

/-- What a variance is computed for: a lifetime parameter or a type parameter. -/
inductive Target where
  | lt (n : String)
  | ty (n : String)
  deriving DecidableEq, Repr, Inhabited

/-- Declared variance of the (every) parameter of a std constructor — base facts. -/
def StdCtor.variance : StdCtor → Variance
  | .cell | .unsafeCell | .refCell => .inv
  | _ => .co

/-- Inferred variance of the `i`-th lifetime (`true`) / type (`false`) parameter of a named ADT. -/
abbrev VarOracle := String → Bool → Nat → Variance

def varLt (tgt : Target) (amb : Variance) : Lt → Variance
  | .named b => match tgt with
      | .lt a => if a = b then amb else .bi
      | .ty _ => .bi
  | _ => .bi

def varLts (tgt : Target) (amb : Variance) : List Lt → Variance
  | [] => .bi
  | l :: ls => (varLt tgt amb l).glb (varLts tgt amb ls)

def varLtArgs (look : VarOracle) (tgt : Target) (amb : Variance) (n : String) : Nat → List Lt → Variance
  | _, [] => .bi
  | i, l :: ls => (varLt tgt (amb.xform (look n true i)) l).glb (varLtArgs look tgt amb n (i + 1) ls)

mutual
/-- The glb of all constraints the type puts on `tgt` when it occurs at ambient variance `amb`
(rustc's `add_constraints_from_ty`). -/
def varTy (look : VarOracle) (tgt : Target) : Variance → Ty → Variance
  | _, .prim _ => .bi
  | amb, .param n => match tgt with
      | .ty a => if a = n then amb else .bi
      | .lt _ => .bi
  | amb, .ref l t => (varLt tgt amb l).glb (varTy look tgt amb t)
  | amb, .refMut l t => (varLt tgt amb l).glb (varTy look tgt (amb.xform .inv) t)
  | amb, .rawConst t => varTy look tgt amb t
  | amb, .rawMut t => varTy look tgt (amb.xform .inv) t
  | amb, .std c ts => varTys look tgt (amb.xform c.variance) ts
  | amb, .tuple ts => varTys look tgt amb ts
  | amb, .slice t => varTy look tgt amb t
  | amb, .proj s _ ls ts _ =>
      (varTy look tgt (amb.xform .inv) s).glb
        ((varLts tgt (amb.xform .inv) ls).glb (varTys look tgt (amb.xform .inv) ts))
  | amb, .fnPtr bound args ret =>
      match tgt with
      | .lt a =>
          if bound.contains a then .bi
          else (varTys look tgt (amb.xform .contra) args).glb (varTy look tgt amb ret)
      | .ty _ => (varTys look tgt (amb.xform .contra) args).glb (varTy look tgt amb ret)
  | amb, .adt n ls ts => (varLtArgs look tgt amb n 0 ls).glb (varTyArgs look tgt amb n 0 ts)
  | _, .unclassified _ => .bi
def varTys (look : VarOracle) (tgt : Target) : Variance → List Ty → Variance
  | _, [] => .bi
  | amb, t :: ts => (varTy look tgt amb t).glb (varTys look tgt amb ts)
def varTyArgs (look : VarOracle) (tgt : Target) (amb : Variance) (n : String) : Nat → List Ty → Variance
  | _, [] => .bi
  | i, t :: ts =>
      (varTy look tgt (amb.xform (look n false i)) t).glb (varTyArgs look tgt amb n (i + 1) ts)
end

/-- Variance of a parameter of a struct / enum: glb over its fields, each at covariant ambient. -/
def fieldsVar (look : VarOracle) (tgt : Target) : List Field → Variance
  | [] => .bi
  | f :: fs =>
      -- a field under `#[cfg(..)]` exists in some configurations only: it must not be what an
      -- "invariant" answer rests on, so it is left out (the answer can only get larger)
      if f.cfg == "" then (varTy look tgt .co f.ty).glb (fieldsVar look tgt fs)
      else fieldsVar look tgt fs

/-- Kleene iteration from the top element: level 0 answers `bi` everywhere, level `k+1` evaluates
every definition with level `k` for nested ADTs.  An ADT that is not in the table is external and
answers `bi`. -/
def adtVarOracle (tbl : Table) : Nat → VarOracle
  | 0 => fun _ _ _ => .bi
  | fuel + 1 => fun n isLt i =>
      match tbl.find n with
      | none => .bi
      | some d =>
        match (if isLt then d.lts else d.tys)[i]? with
        | none => .bi
        | some p => fieldsVar (adtVarOracle tbl fuel) (if isLt then .lt p else .ty p) d.fields

/-- Iteration depth used for the table theorems and predictions. -/
def fuel : Nat := 16

/-- Variance of ADT `n` in `tgt` (a parameter name of `n`). -/
def Table.variance (tbl : Table) (n : String) (tgt : Target) : Variance :=
  match tbl.find n with
  | none => .bi
  | some d => fieldsVar (adtVarOracle tbl fuel) tgt d.fields

/-! ## Auto traits (`Send` / `Sync`) -/

structure Auto where
  send : Bool
  sync : Bool
  deriving DecidableEq, Repr, Inhabited

def Auto.top : Auto := ⟨true, true⟩
def Auto.none : Auto := ⟨false, false⟩
def Auto.and (a b : Auto) : Auto := ⟨a.send && b.send, a.sync && b.sync⟩

/-- Base facts for std constructors, given the conjunction `a` of their arguments' answers.
`Cell`/`RefCell`/`UnsafeCell`: `Send` iff `T: Send`, never `Sync`; `Rc`, `rc::Weak`, `NonNull`:
neither; `Arc`, `sync::Weak`: both iff `T: Send + Sync`; `PhantomData`, `Box`, `Vec`, `Option`,
`Result`, `ManuallyDrop`: structural. -/
def StdCtor.auto (c : StdCtor) (a : Auto) : Auto :=
  match c with
  | .phantomData => a
  | .cell | .unsafeCell | .refCell => ⟨a.send, false⟩
  | .rc | .rcWeak | .nonNull => .none
  | .arc | .arcWeak => ⟨a.send && a.sync, a.send && a.sync⟩
  | .box | .vec | .option | .result | .manuallyDrop | .maybeUninit => a

/-- `Send`/`Sync` of a named ADT applied to arguments with the given answers. -/
abbrev AutoOracle := String → List Auto → Auto

def envLookup (env : List (String × Auto)) (n : String) : Auto :=
  match env with
  | [] => .top
  | (k, v) :: rest => if k == n then v else envLookup rest n

mutual
/-- `Send`/`Sync` of a type; type parameters answer from `env` (default: both hold),
projections, fn pointers and unclassified nodes answer "both hold" (most permissive). -/
def autoTy (look : AutoOracle) (env : List (String × Auto)) : Ty → Auto
  | .prim _ => .top
  | .param n => envLookup env n
  | .ref _ t => ⟨(autoTy look env t).sync, (autoTy look env t).sync⟩
  | .refMut _ t => autoTy look env t
  | .rawConst _ => .none
  | .rawMut _ => .none
  | .std c ts => c.auto (autoAll look env ts)
  | .tuple ts => autoAll look env ts
  | .slice t => autoTy look env t
  | .proj _ _ _ _ _ => .top
  | .fnPtr _ _ _ => .top
  | .adt n _ ts => look n (autoList look env ts)
  | .unclassified _ => .top
def autoAll (look : AutoOracle) (env : List (String × Auto)) : List Ty → Auto
  | [] => .top
  | t :: ts => (autoTy look env t).and (autoAll look env ts)
def autoList (look : AutoOracle) (env : List (String × Auto)) : List Ty → List Auto
  | [] => []
  | t :: ts => autoTy look env t :: autoList look env ts
end

def fieldsAuto (look : AutoOracle) (env : List (String × Auto)) : List Field → Auto
  | [] => .top
  | f :: fs =>
      -- `#[cfg(..)]` fields are left out, as in `fieldsVar`: a "not Send" answer must hold in
      -- every configuration
      if f.cfg == "" then (autoTy look env f.ty).and (fieldsAuto look env fs)
      else fieldsAuto look env fs

def Table.hasAutoImpl (tbl : Table) (trait n : String) (negative : Bool) : Bool :=
  tbl.autoImpls.any (fun i => i.trait == trait && i.target == n && i.negative == negative)

/-- An explicit impl overrides the structural answer: a negative impl makes it `false`, a positive
(`unsafe impl Send for X`) makes it `true`. -/
def applyImpls (tbl : Table) (n : String) (s : Auto) : Auto :=
  ⟨ if tbl.hasAutoImpl "Send" n true then false
    else if tbl.hasAutoImpl "Send" n false then true else s.send,
    if tbl.hasAutoImpl "Sync" n true then false
    else if tbl.hasAutoImpl "Sync" n false then true else s.sync ⟩

/-- Coinductive reading (rustc: cycles in auto-trait obligations hold): level 0 answers "holds". -/
def adtAutoOracle (tbl : Table) : Nat → AutoOracle
  | 0 => fun _ _ => .top
  | fuel + 1 => fun n args =>
      match tbl.find n with
      | none => .top
      | some d => applyImpls tbl n (fieldsAuto (adtAutoOracle tbl fuel) (d.tys.zip args) d.fields)

/-- `Send`/`Sync` of ADT `n` for the most permissive instantiation of its parameters. -/
def Table.autoOf (tbl : Table) (n : String) : Auto :=
  match tbl.find n with
  | none => .top
  | some d => applyImpls tbl n (fieldsAuto (adtAutoOracle tbl fuel) [] d.fields)

/-- `Send`/`Sync` of a closed type (used for probe predictions). -/
def Table.autoOfTy (tbl : Table) (t : Ty) : Auto :=
  autoTy (adtAutoOracle tbl (fuel + 1)) [] t

/-! ## Callback signatures -/

/-- The brand of a callback: the single lifetime bound by its `for<…>` binder. -/
def Callback.brand (cb : Callback) : Option String :=
  match cb.binder with
  | [g] => some g
  | _ => none

/-- `&'gc Mutation<'gc>` / `&'gc Finalization<'gc>` (the reference's own lifetime may also be
elided; what matters is that the context's brand parameter is the bound lifetime). -/
def isBrandCtx (g : String) : Ty → Bool
  | .ref l (.adt n [.named b] []) =>
      (n == "Mutation" || n == "Finalization") && b == g && (l == .named g || l == .erased)
  | _ => false

/-- `<P as Rootable<'g>>::Root` with `P` a type parameter. -/
def isRootProj (g : String) : Ty → Option String
  | .proj (.param p) "Rootable" [.named b] [] "Root" => if b == g then some p else none
  | _ => none

def stripRef (g : String) : Ty → Ty
  | .ref (.named b) t => if b == g then t else .ref (.named b) t
  | .refMut (.named b) t => if b == g then t else .refMut (.named b) t
  | t => t

def stripResult : Ty → Ty × Option Ty
  | .std .result [t, e] => (t, some e)
  | t => (t, none)

/-- All lifetimes and type parameters of the type are declared in the given outer lists, and the
type has no elided lifetime and no unclassified node. -/
def Ty.closedUnder (outerLts outerTys : List String) (t : Ty) : Bool :=
  t.freeLts.all (fun a => outerLts.contains a) && t.tyParams.all (fun p => outerTys.contains p)
    && !t.hasErased && !t.hasUnclassified

/-- The binder introduces exactly one lifetime, which does not shadow an outer one, and the
callback is one of the `Fn` traits. -/
def Callback.binderOk (cb : Callback) : Bool :=
  match cb.brand with
  | some g => !cb.outerLts.contains g && (cb.fnTrait == "FnOnce" || cb.fnTrait == "FnMut" || cb.fnTrait == "Fn")
  | none => false

def Callback.arg0Ok (cb : Callback) : Bool :=
  match cb.brand, cb.args with
  | some g, a :: _ => isBrandCtx g a
  | _, _ => false

/-- Every further argument is (a `'gc` reference to) the root projection of an outer parameter at
the brand: `Root<'gc, R>`, `&'gc Root<'gc, R>`, `&'gc mut Root<'gc, R>`. -/
def Callback.restArgsOk (cb : Callback) : Bool :=
  match cb.brand, cb.args with
  | some g, _ :: rest =>
      rest.all (fun a => match isRootProj g (stripRef g a) with
        | some p => cb.outerTys.contains p
        | none => false)
  | _, _ => false

/-- The result type is closed under the outer parameters (so it cannot mention the brand), or it
is the root projection (possibly inside `Result<_, E>` with `E` closed) of an outer parameter `P`
and the entry point returns `Arena<P>` (resp. `Result<Arena<P>, E>`): the new arena's own root. -/
def Callback.retOk (cb : Callback) : Bool :=
  match cb.brand with
  | none => false
  | some g =>
    cb.ret.closedUnder cb.outerLts cb.outerTys ||
    (match isRootProj g (stripResult cb.ret).1 with
     | none => false
     | some p =>
        cb.outerTys.contains p &&
        (match (stripResult cb.ret).2 with
         | none => true
         | some e => e.closedUnder cb.outerLts cb.outerTys) &&
        (match (stripResult cb.fnRet).1 with
         | .adt "Arena" [] [.param q] => p == q
         | _ => false))

def Callback.ok (cb : Callback) : Bool :=
  cb.binderOk && cb.arg0Ok && cb.restArgsOk && cb.retOk

/-! ## `Collect` impls that must be `'static`-only -/

/-- Head constructor of a type, as a short tag. -/
def Ty.head : Ty → String
  | .prim n => n
  | .param _ => "param"
  | .ref _ _ => "&"
  | .refMut _ _ => "&mut"
  | .rawConst _ => "*const"
  | .rawMut _ => "*mut"
  | .std .cell _ => "Cell"
  | .std .refCell _ => "RefCell"
  | .std .unsafeCell _ => "UnsafeCell"
  | .std _ _ => "std"
  | .tuple _ => "tuple"
  | .slice _ => "slice"
  | .proj _ _ _ _ _ => "proj"
  | .fnPtr _ _ _ => "fn"
  | .adt n _ _ => n
  | .unclassified _ => "unclassified"

/-- Reference, interior-mutability and `Static` heads: a `Collect` impl for these does not trace
(or could be mutated behind the collector's back), so it must not be able to hold a brand. -/
def staticOnlyHeads : List String := ["&", "&mut", "Cell", "RefCell", "UnsafeCell", "Static"]

def CollectImpl.mustBeStatic (ci : CollectImpl) : Bool := staticOnlyHeads.contains ci.selfTy.head

def paramStatic (tys : List (String × Bool)) (p : String) : Bool :=
  match tys with
  | [] => false
  | (k, v) :: rest => if k == p then v else paramStatic rest p

/-- Either `Self: 'static`, or every type parameter in the head is `'static`-bounded and every
lifetime in the head is `'static`. -/
def CollectImpl.staticOk (ci : CollectImpl) : Bool :=
  ci.selfStatic ||
    (ci.selfTy.tyParams.all (fun p => paramStatic ci.tys p) && ci.selfTy.freeLts.isEmpty
      && !ci.selfTy.hasErased && !ci.selfTy.hasUnclassified)

/-! ## Lifetime transmutes -/

/-- Named lifetimes the transmute introduces (present in the target type, absent from the source
type).  A transmute without turbofish types, or with an elided lifetime in its target, is reported
as introducing `"?"` (fail closed). -/
def Transmute.introduces (t : Transmute) : List String :=
  match t.src, t.dst with
  | some s, some d =>
      (if d.hasErased || d.hasUnclassified || s.hasUnclassified then ["?"] else []) ++
        d.freeLts.filter (fun a => !s.freeLts.contains a)
  | _, _ => ["?"]

/-- Dominated by `if self.contains(<base>)` where `<base>` is the value whose field is transmuted. -/
def Transmute.guardedByContains (t : Transmute) : Bool :=
  t.operandBase != "" &&
    t.guards.any (fun g => g.thenBranch && g.cond == "self.contains(" ++ t.operandBase ++ ")")

def Ty.isRaw : Ty → Bool
  | .rawConst _ => true
  | .rawMut _ => true
  | _ => false

/-- The re-branded value only ever exists as a raw pointer handed to the caller (needs `unsafe` to
use). -/
def Transmute.rawOnly (t : Transmute) : Bool := t.castToRaw && t.fnRet.isRaw

/-! ### Re-branding sites, lifted through private helpers

A re-branding site is a transmute that introduces a lifetime (`Gc<'static, _>` ↦ `Gc<'gc, _>`).
What makes it sound is *where the value came from*: it must have passed the identity check
`self.contains(<the handle>)` of the set that hands it out.  The rule is structural, not tied to
function names or to the number of sites:

* the site is dominated by `if self.contains(v)`, `v` being the variable whose field is re-branded; or
* the site is in a `pub unsafe fn` (its contract is the caller's, and safe code cannot call it); or
* the site is in a private `unsafe fn` helper, `v` is one of the helper's parameters, and **every**
  place in the crate where a function of that name is called passes for that parameter a variable
  that is (recursively, by the same rule) covered at the call site.  A helper that is mentioned
  without being called, or called with something that is not a plain variable path, is not covered.

A safe function must do the check itself.  `blame` returns the functions in which a check is
missing (empty = covered); the recursion follows the call graph upwards with fuel `cgFuel` (deeper
chains are not covered: fail closed). -/

/-- The identity-check function really is one: it returns `bool`, its body ends in a comparison
(`==` / `ptr::eq`), one side of which is computed from `self` alone and the other from the handle
(its first non-`self` parameter) alone. -/
def IdentityFn.ok (f : IdentityFn) : Bool :=
  f.retBool && f.cmp != "" &&
    match f.params with
    | ["self", h] =>
        (f.lhsDeps == ["self"] && f.rhsDeps == [h]) || (f.lhsDeps == [h] && f.rhsDeps == ["self"])
    | _ => false

/-- `contains` exists in the re-branding file and every function of that name there is a genuine
identity check. -/
def identityCheckOk (fns : List IdentityFn) : Bool :=
  fns.any (fun f => f.name == "contains") && (fns.filter (fun f => f.name == "contains")).all IdentityFn.ok

/-- Is the value `base` identity-checked by one of the enclosing `if`s (`idOk`: what `contains`
does was itself checked, `identityCheckOk`)? -/
def guardedBy (idOk : Bool) (guards : List Guard) (base : String) : Bool :=
  idOk && base != "" && guards.any (fun g => g.thenBranch && g.cond == "self.contains(" ++ base ++ ")")

def indexOf? (xs : List String) (x : String) : Option Nat :=
  match xs with
  | [] => none
  | y :: ys => if y == x then some 0 else (indexOf? ys x).map (· + 1)

/-- Functions in which an identity check of `base` is missing, for a site inside function
`fnQual` (last segment `fnLast`, `unsafe` / `pub` flags, parameter names) under `guards`. -/
def blame (idOk : Bool) (sites : List CallSite) : Nat → (fnQual fnLast : String) → (fnUnsafe fnPub : Bool) →
    (fnParams : List String) → (base : String) → (guards : List Guard) → List String
  | 0, fnQual, _, _, _, _, base, guards => if guardedBy idOk guards base then [] else [fnQual]
  | fuel + 1, fnQual, fnLast, fnUnsafe, _fnPub, fnParams, base, guards =>
      if guardedBy idOk guards base then []
      else if !fnUnsafe then [fnQual]
      -- an `unsafe fn`, public or not: every call site *inside the crate* must be covered; only
      -- callers outside the crate are discharged by the function's unsafe contract
      else match indexOf? fnParams base with
        | none => [fnQual]
        | some i =>
          (sites.filter (fun cs => cs.callee == fnLast)).flatMap (fun cs =>
            if !cs.isCall then [cs.caller ++ " (mentions " ++ fnLast ++ " without calling it)"]
            else match cs.argBases[i]? with
              | none => [cs.caller]
              | some b =>
                  if b == "" then [cs.caller]
                  else blame idOk sites fuel cs.caller cs.callerLast cs.callerUnsafe cs.callerPub
                         cs.callerParams b cs.guards)

/-- Depth to which helper chains are followed. -/
def cgFuel : Nat := 6

/-- Functions through which the re-branding site `t` is reachable without an identity check. -/
def Table.blameOf (tbl : Table) (t : Transmute) : List String :=
  if t.introduces.isEmpty || t.rawOnly then []
  else blame (identityCheckOk tbl.identityFns) tbl.callSites cgFuel t.fn_ t.fnLast t.fnUnsafe t.fnPub
         t.fnParams t.operandBase t.guards

/-- The re-branding site is covered (see above); transmutes that introduce no lifetime, or whose
result only exists as a returned raw pointer, need no cover. -/
def Table.transmuteOk (tbl : Table) (t : Transmute) : Bool := (tbl.blameOf t).isEmpty

/-! ## Builder rule (defect D4): how a type holds a parameter, and who may store into it

`GcBuilder<'gc, T>` held its `T` only behind a `NonNull<T>` – rustc inferred covariance – while the
`T: Collect` bound was checked when the builder was created and the safe finishing methods have no
bound of their own: a `GcBuilder<'gc, &'static U>` coerced to `GcBuilder<'gc, &'gc U>` stores an
untraced `&'gc U` in the arena.  The rows the rule ranges over are *derived* from the table:

* `holdKinds` – the ways a type holds a value of its parameter `P`, following nested ADTs: owned by
  value, behind a reference, behind a raw pointer / `NonNull` / `Weak`, in a `MaybeUninit`, only in a
  `PhantomData` (or a projection), in a `fn` pointer;
* `storeMethods` – safe methods that accept a value of `P` (by value or by reference, directly, as
  the result of a callback or the item of an iterator; *not* inside another handle such as `Self`)
  while `P` carries no `Collect` / `'static` bound at that method.

A type that holds `P` only indirectly (raw pointer or `MaybeUninit`, never by value) and has a store
method must be invariant in `P` (`builderOk`). -/

inductive Hold where
  | owned | ref | raw | uninit | phantom | fnPtr
  deriving DecidableEq, Repr, Inhabited

/-- How an outer container's way of holding composes with an inner one: ownership is transparent,
a reference is transparent for everything but a plain value (`&Gc<T>` holds `T` behind a raw
pointer, `&T` behind a reference), anything else hides what is below it. -/
def Hold.compose (outer inner : Hold) : Hold :=
  if outer == .owned then inner
  else if outer == .ref && inner != .owned then inner
  else outer

def StdCtor.hold : StdCtor → Hold
  | .phantomData => .phantom
  | .nonNull | .rcWeak | .arcWeak => .raw
  | .maybeUninit => .uninit
  | _ => .owned

/-- Ways ADT `n` holds its `i`-th type parameter. -/
abbrev HoldOracle := String → Nat → List Hold

/-- Every inner way of holding, seen through every outer one. -/
def holdUnder (outer inner : List Hold) : List Hold :=
  outer.flatMap (fun k => inner.map (fun h => k.compose h))

mutual
/-- Ways the type holds a value of type parameter `p` (relative to owning the type itself). -/
def holdsTy (look : HoldOracle) (p : String) : Ty → List Hold
  | .prim _ => []
  | .param n => if n == p then [.owned] else []
  | .ref _ t => holdUnder [.ref] (holdsTy look p t)
  | .refMut _ t => holdUnder [.ref] (holdsTy look p t)
  | .rawConst t => holdUnder [.raw] (holdsTy look p t)
  | .rawMut t => holdUnder [.raw] (holdsTy look p t)
  | .std c ts => holdUnder [c.hold] (holdsTys look p ts)
  | .tuple ts => holdsTys look p ts
  | .slice t => holdsTy look p t
  | .proj s _ _ ts _ => holdUnder [.phantom] (holdsTy look p s ++ holdsTys look p ts)
  | .fnPtr _ args ret => holdUnder [.fnPtr] (holdsTys look p args ++ holdsTy look p ret)
  | .adt n _ ts => holdsAdtArgs look p n 0 ts
  | .unclassified _ => []
def holdsTys (look : HoldOracle) (p : String) : List Ty → List Hold
  | [] => []
  | t :: ts => holdsTy look p t ++ holdsTys look p ts
def holdsAdtArgs (look : HoldOracle) (p : String) (n : String) : Nat → List Ty → List Hold
  | _, [] => []
  | i, t :: ts => holdUnder (look n i) (holdsTy look p t) ++ holdsAdtArgs look p n (i + 1) ts
end

def fieldsHold (look : HoldOracle) (p : String) : List Field → List Hold
  | [] => []
  | f :: fs => if f.cfg == "" then holdsTy look p f.ty ++ fieldsHold look p fs else fieldsHold look p fs

/-- Level 0 and ADTs outside the table (external crates) own their arguments. -/
def adtHoldOracle (tbl : Table) : Nat → HoldOracle
  | 0 => fun _ _ => [.owned]
  | fuel + 1 => fun n i =>
      match tbl.find n with
      | none => [.owned]
      | some d =>
        match d.tys[i]? with
        | none => []
        | some p => fieldsHold (adtHoldOracle tbl fuel) p d.fields

def Table.holdKinds (tbl : Table) (n p : String) : List Hold :=
  match tbl.find n with
  | none => []
  | some d => fieldsHold (adtHoldOracle tbl fuel) p d.fields

mutual
/-- Does the type contain a raw pointer / `NonNull` at all (to anything: `NonNull<u8>`,
`GcPtr<()>`)? -/
def tyHasRaw (look : String → Bool) : Ty → Bool
  | .prim _ => false
  | .param _ => false
  | .ref _ t => tyHasRaw look t
  | .refMut _ t => tyHasRaw look t
  | .rawConst _ => true
  | .rawMut _ => true
  | .std c ts => c == .nonNull || (c != .phantomData && tysHaveRaw look ts)
  | .tuple ts => tysHaveRaw look ts
  | .slice t => tyHasRaw look t
  | .proj _ _ _ _ _ => false
  | .fnPtr _ _ _ => false
  | .adt n _ ts => look n || tysHaveRaw look ts
  | .unclassified _ => false
def tysHaveRaw (look : String → Bool) : List Ty → Bool
  | [] => false
  | t :: ts => tyHasRaw look t || tysHaveRaw look ts
end

def adtHasRawOracle (tbl : Table) : Nat → String → Bool
  | 0 => fun _ => false
  | fuel + 1 => fun n =>
      match tbl.find n with
      | none => false
      | some d => d.fields.any (fun f => f.cfg == "" && tyHasRaw (adtHasRawOracle tbl fuel) f.ty)

/-- The type has a field that is (or contains) a raw pointer, typed or erased. -/
def Table.hasRawField (tbl : Table) (n : String) : Bool := adtHasRawOracle tbl fuel n

/-- Holds `p` nowhere by value, and either behind a raw pointer / in a `MaybeUninit`, or only as a
marker (`PhantomData`, `fn` pointer) next to a raw – possibly type-erased – pointer field
(`NonNull<u8>` + `PhantomData<T>`: the marker is the only thing that types the pointee). -/
def Table.indirectOnly (tbl : Table) (n p : String) : Bool :=
  let ks := tbl.holdKinds n p
  !ks.contains .owned &&
    (ks.contains .raw || ks.contains .uninit ||
      ((ks.contains .phantom || ks.contains .fnPtr) && tbl.hasRawField n))

/-- Does the method hand in a value of impl parameter `x` (by value or behind a reference, not
inside another handle)? -/
def MethodSig.supplies (tbl : Table) (m : MethodSig) (x : String) : Bool :=
  m.params.any (fun t =>
    let ks := holdsTy (adtHoldOracle tbl fuel) x t
    ks.contains .owned || ks.contains .ref)

/-- The method stores into the ADT's `i`-th parameter without a bound: some impl parameter `x`
occurring in the self type's `i`-th argument is handed in and is not `Collect`/`'static`-bounded. -/
def MethodSig.storesUnbounded (tbl : Table) (m : MethodSig) (i : Nat) : Bool :=
  match m.selfArgs[i]? with
  | none => false
  | some a => a.tyParams.any (fun x => m.supplies tbl x && !m.bounded.contains x)

def Table.storeMethods (tbl : Table) (n : String) (i : Nat) : List MethodSig :=
  tbl.methods.filter (fun m => m.adt == n && m.storesUnbounded tbl i)

def enumFrom {α : Type} : Nat → List α → List (Nat × α)
  | _, [] => []
  | i, x :: xs => (i, x) :: enumFrom (i + 1) xs

/-- Rows with a store method of their own. -/
def Table.builderBaseRows (tbl : Table) : List (String × String) :=
  (tbl.adts.filter (fun d => d.vis == .pub)).flatMap (fun d =>
    ((enumFrom 0 d.tys).filter (fun ip =>
        tbl.indirectOnly d.name ip.2 && !(tbl.storeMethods d.name ip.1).isEmpty)).map
      (fun ip => (d.name, ip.2)))

/-- The ADT a method returns (looking through `Option` / `Result`). -/
def retAdt : Ty → Option (String × List Ty)
  | .adt n _ ts => some (n, ts)
  | .std .option [.adt n _ ts] => some (n, ts)
  | .std .result [.adt n _ ts, _] => some (n, ts)
  | _ => none

/-- Some safe method of `n` turns it into another type that is already a row, carrying the `i`-th
parameter along unbounded (`write_header : …Builder<H, E> → …SliceBuilder<H, E>`): what can be stored
through the result can be stored through `n`. -/
def Table.forwardsTo (tbl : Table) (rows : List (String × String)) (n : String) (i : Nat) : Bool :=
  tbl.methods.any (fun m => m.adt == n &&
    match m.selfArgs[i]?, retAdt m.ret with
    | some a, some (y, ys) =>
        (match tbl.find y with
         | none => false
         | some dy =>
            (enumFrom 0 ys).any (fun (jt : Nat × Ty) =>
              match dy.tys[jt.1]? with
              | none => false
              | some q => rows.contains (y, q) && !(y == n && jt.1 == i) &&
                  a.tyParams.any (fun x => jt.2.tyParams.contains x && !m.bounded.contains x)))
    | _, _ => false)

def Table.builderRowsIter (tbl : Table) : Nat → List (String × String)
  | 0 => tbl.builderBaseRows
  | k + 1 =>
      let rows := tbl.builderRowsIter k
      rows ++ (tbl.adts.filter (fun d => d.vis == .pub)).flatMap (fun d =>
        ((enumFrom 0 d.tys).filter (fun ip =>
            !rows.contains (d.name, ip.2) && tbl.indirectOnly d.name ip.2 &&
              tbl.forwardsTo rows d.name ip.1)).map (fun ip => (d.name, ip.2)))

/-- The rows of the builder rule, derived from the table: every (public ADT, type parameter) that
is held only indirectly and has an unbounded safe store method – of its own, or (closed under, three
rounds) through a safe method that returns another such type carrying the parameter. -/
def Table.builderRows (tbl : Table) : List (String × String) := tbl.builderRowsIter 3

/-- Lower bound for `builderRows`: the hand-written list that preceded the derivation (defect D4
was an unlisted case of it).  All six pairs are derived: four have a store method of their own, and
`(GcSliceWithHeaderBuilder, E)`, `(GcSliceWithHeaderSliceBuilder, H)` are reached through the closure
(`write_header` returns the slice builder; finishing returns a `Gc` of the slice type). -/
def requiredBuilderRows : List (String × String) :=
  [("GcBuilder", "T"), ("GcSliceBuilder", "E"), ("GcSliceWithHeaderBuilder", "H"),
   ("GcSliceWithHeaderBuilder", "E"), ("GcSliceWithHeaderSliceBuilder", "H"),
   ("GcSliceWithHeaderSliceBuilder", "E")]

/-- The store methods behind a row (for explanations). -/
def Table.builderRowMethods (tbl : Table) (r : String × String) : List String :=
  match tbl.find r.1 with
  | none => []
  | some d =>
    ((enumFrom 0 d.tys).filter (fun (ip : Nat × String) => ip.2 == r.2)).flatMap
      (fun (ip : Nat × String) => (tbl.storeMethods r.1 ip.1).map
        (fun (m : MethodSig) => (if m.trait == "" then "" else m.trait ++ "::") ++ m.method ++ " (" ++ m.file ++ ")"))

def Table.builderOk (tbl : Table) (r : String × String) : Bool :=
  tbl.variance r.1 (.ty r.2) == .inv

def Table.violBuilders (tbl : Table) : List String :=
  (tbl.builderRows.filter (fun r => !tbl.builderOk r)).map (fun r => r.1 ++ "<" ++ r.2 ++ ">")

/-! ## Whole-table checks (the hypotheses of the table theorems in `Props/C12.lean`) -/

/-- The types the property names, which must exist with a `'gc` parameter. -/
def requiredBranded : List String :=
  ["Gc", "GcWeak", "Mutation", "Finalization", "DynamicRootSet", "GcBuilder",
   "GcSliceWithHeaderBuilder", "GcSliceWithHeaderSliceBuilder", "GcSliceBuilder", "GcStrBuilder",
   "ZstCache"]

/-- Brand lifetime name used by the crate. -/
def brandName : String := "gc"

/-- Every ADT of the table that carries a `'gc` parameter (public or not). -/
def Table.branded (tbl : Table) : List String :=
  (tbl.adts.filter (fun d => d.lts.contains brandName)).map (·.name)

/-- Types that must be neither `Send` nor `Sync`. -/
def requiredNotSendSync : List String :=
  requiredBranded ++ ["Arena", "DynamicRoot", "MarkedArena", "Metrics"]

def requiredCallbacks : List String :=
  ["Arena::new", "Arena::try_new", "Arena::mutate", "Arena::mutate_root", "Arena::map_root",
   "Arena::try_map_root", "MarkedArena::finalize", "rootless_mutate"]

def Table.isBranded (tbl : Table) (n : String) : Bool :=
  match tbl.find n with
  | some d => d.lts.contains brandName
  | none => false

def Table.invariantInBrand (tbl : Table) (n : String) : Bool :=
  tbl.isBranded n && tbl.variance n (.lt brandName) == .inv

def Table.notSendSync (tbl : Table) (n : String) : Bool :=
  (tbl.find n).isSome && (tbl.autoOf n).send == false && (tbl.autoOf n).sync == false

def Table.fieldsClassified (tbl : Table) : Bool :=
  tbl.unclassified.isEmpty && tbl.adts.all (fun d => d.fields.all (fun f => !f.ty.hasUnclassified))

/-- `Write<T>` is a transparent wrapper: exactly one field, of type `T`, and no explicit auto-trait
impl – so `&'gc Write<T>` carries exactly the brands of `&'gc T`. -/
def Table.writeTransparent (tbl : Table) : Bool :=
  match tbl.find "Write" with
  | some d =>
      (match d.tys, d.fields with
       | [p], [f] => (match f.ty with | .param q => p == q | _ => false)
       | _, _ => false) && d.lts.isEmpty &&
      !tbl.autoImpls.any (fun i => i.target == "Write")
  | none => false

/-- Entry points client code free of `unsafe` can call. -/
def Table.clientCallbacks (tbl : Table) : List Callback :=
  tbl.callbacks.filter (fun cb => cb.fnPub && !cb.fnUnsafe)

/-- Functions that are client entry points with a callback, all of whose callbacks pass
`Callback.ok`: inside them a freshly created brand is handed to a `for<'gc>` callback only. -/
def Table.okEntryFns (tbl : Table) : List String :=
  (tbl.clientCallbacks.filter (fun cb =>
      (tbl.callbacks.filter (fun c => c.name == cb.name)).all Callback.ok)).map (·.name)

/-- Functions through which a brand-creating site is reachable *without* ending in an entry point
of `okEntryFns`: the site's own function if it is one ⇒ none; a safe `pub fn` that is not ⇒ itself;
a private or `unsafe` function ⇒ whatever its in-crate callers yield (callers outside the crate are
discharged by the unsafe contract). -/
def srcBlame (sites : List CallSite) (okFns : List String) : Nat → (fnQual fnLast : String) →
    (fnUnsafe fnPub : Bool) → List String
  | 0, q, _, _, _ => if okFns.contains q then [] else [q]
  | fuel + 1, q, l, u, p =>
      if okFns.contains q then []
      else if p && !u then [q]
      else (sites.filter (fun cs => cs.callee == l)).flatMap (fun cs =>
        if !cs.isCall then [cs.caller ++ " (mentions " ++ l ++ " without calling it)"]
        else srcBlame sites okFns fuel cs.caller cs.callerLast cs.callerUnsafe cs.callerPub)

def Table.brandSiteBlame (tbl : Table) (b : BrandSite) : List String :=
  if b.kind == "source-mention" then [b.fn_ ++ " (names a brand source without calling it)"]
  else srcBlame tbl.callSites tbl.okEntryFns cgFuel b.fn_ b.fnLast b.fnUnsafe b.fnPub

/-- The brand created at the site can only end up in a `for<'gc>` callback. -/
def Table.brandSiteOk (tbl : Table) (b : BrandSite) : Bool := (tbl.brandSiteBlame b).isEmpty

def Table.violBrandSites (tbl : Table) : List String :=
  (tbl.brandSites.filter (fun b => !tbl.brandSiteOk b)).map
    (fun b => b.fn_ ++ ": " ++ b.text ++ " reachable from " ++ ", ".intercalate (tbl.brandSiteBlame b))

def Table.callbackNamed (tbl : Table) (n : String) : Option Callback :=
  tbl.callbacks.find? (fun cb => cb.name == n)

def Table.transmutesIn (tbl : Table) (file : String) : List Transmute :=
  tbl.transmutes.filter (fun t => t.file == file)

/-! ### Violation lists (used by the engine to explain a failing `decide`) -/

def Table.violInvariant (tbl : Table) : List String :=
  (requiredBranded ++ tbl.branded).filter (fun n => !tbl.invariantInBrand n)

def Table.violNotSendSync (tbl : Table) : List String :=
  (requiredNotSendSync ++ tbl.branded).filter (fun n => !tbl.notSendSync n)

def Table.violCallbacks (tbl : Table) : List String :=
  (requiredCallbacks.filter (fun n => (tbl.callbackNamed n).isNone)).map (· ++ " (missing)") ++
    (tbl.clientCallbacks.filter (fun cb => !cb.ok)).map (·.name)

def Table.violCollect (tbl : Table) : List String :=
  (tbl.collectImpls.filter (fun ci => ci.mustBeStatic && !ci.staticOk)).map
    (fun ci => ci.selfTy.head ++ " @ " ++ ci.file)

def Table.violTransmutes (tbl : Table) : List String :=
  ((tbl.transmutesIn "dynamic_roots.rs").filter (fun t => !tbl.transmuteOk t)).map
    (fun t => t.fn_ ++ ": transmute(" ++ t.operand ++ ") unchecked in " ++
      ", ".intercalate (tbl.blameOf t))

/-- Re-branding sites of `dynamic_roots.rs` that need (and have) a cover, and the number of places
where the identity check is actually applied (at a site or at a call of a helper). -/
def Table.rebrandSites (tbl : Table) : List Transmute :=
  (tbl.transmutesIn "dynamic_roots.rs").filter (fun t => !t.introduces.isEmpty && !t.rawOnly)

def Table.identityChecks (tbl : Table) : Nat :=
  ((tbl.transmutesIn "dynamic_roots.rs").filter (fun t => !t.introduces.isEmpty &&
      guardedBy (identityCheckOk tbl.identityFns) t.guards t.operandBase)).length +
  (tbl.callSites.filter (fun cs => cs.isCall && cs.argBases.any (fun b =>
      guardedBy (identityCheckOk tbl.identityFns) cs.guards b))).length

def Table.violAutoImpls (tbl : Table) : List String :=
  (tbl.autoImpls.filter (fun i => !i.negative)).map
    (fun i => "impl " ++ i.trait ++ " for " ++ i.target ++ " @ " ++ i.file)

end GcArena.Brand
