import Lean
/-
  GcArena.Audit.StmtHash — `#stmt_hash thm…` prints, for each theorem, a structural hash of its
  elaborated statement together with every GcArena definition the statement (transitively) mentions:
  definitions, structures, inductives, their constructors and the auxiliary matchers — proofs are
  not followed, and the source-derived tables under `GcArena.Generated` are excluded (they are the
  variable input; the table theorems re-check them on every run).  lib/mklock.py records these
  hashes in lib/obligations.lock.json and lib/vcheck.py compares them on every run, so a locked
  theorem whose statement — or a definition its statement rests on (Safe, Inv, step, …) — was
  changed is reported as an open obligation until the change is deliberately re-accepted.
  Audit tooling only: nothing in Model/, Spec/, Proofs/ or Props/ imports this file.
-/
open Lean in
/-- A constant is followed iff it was declared in a module of this library other than the eight
    regenerated table modules (decided by the declaring MODULE, not by the constant's name). -/
def GcArenaAudit.inScope (env : Environment) (n : Name) : Bool :=
  match env.getModuleIdxFor? n with
  | none => false
  | some idx =>
    let m := (env.header.moduleNames[idx.toNat]!).toString
    m.startsWith "GcArena." && !(["GcArena.Generated.BrandTable", "GcArena.Generated.BrandFlow",
      "GcArena.Generated.CallGraph", "GcArena.Generated.CollectTable", "GcArena.Generated.DerefWriteTable",
      "GcArena.Generated.MacroImpls", "GcArena.Generated.PacingConsts", "GcArena.Generated.SigTable"].contains m)
open Lean in
/-- Hash of a theorem's statement together with every GcArena definition it (transitively) mentions
    (proofs excluded, generated tables excluded). -/
def GcArenaAudit.stmtHash (env : Environment) (root : Name) : UInt64 := Id.run do
  let some ci := env.find? root | return 0
  let mut seen : NameSet := {}
  let mut todo : Array Name := ci.type.getUsedConstants
  let mut acc : Array (String × UInt64) := #[]
  let mut i := 0
  while i < todo.size do
    let c := todo[i]!
    i := i + 1
    if seen.contains c || !GcArenaAudit.inScope env c then continue
    seen := seen.insert c
    match env.find? c with
    | none => pure ()
    | some (.defnInfo d) =>
      acc := acc.push (c.toString, mixHash d.type.hash d.value.hash)
      todo := todo ++ d.type.getUsedConstants ++ d.value.getUsedConstants
    | some (.opaqueInfo d) =>
      acc := acc.push (c.toString, mixHash d.type.hash d.value.hash)
      todo := todo ++ d.type.getUsedConstants ++ d.value.getUsedConstants
    | some (.inductInfo d) =>
      acc := acc.push (c.toString, d.type.hash)
      todo := todo ++ d.type.getUsedConstants ++ d.ctors.toArray
    | some (.ctorInfo d) =>
      acc := acc.push (c.toString, d.type.hash)
      todo := todo ++ d.type.getUsedConstants
    | some other =>
      acc := acc.push (c.toString, other.type.hash)
      todo := todo ++ other.type.getUsedConstants
  let sorted := acc.qsort (fun a b => a.1 < b.1)
  let mut h : UInt64 := mixHash 7 ci.type.hash
  for (s, x) in sorted do
    h := mixHash h (mixHash (hash s) x)
  return h
open Lean Elab Command in
elab "#stmt_hash " ids:ident+ : command => do
  let env ← getEnv
  for id in ids do
    let n := id.getId
    unless env.contains n do throwError "#stmt_hash: unknown constant {n}"
    logInfo m!"STMT {n} {GcArenaAudit.stmtHash env n}"
