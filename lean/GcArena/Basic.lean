def hello := "world"
