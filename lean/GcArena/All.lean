import GcArena.Props.C01
import GcArena.Props.C02
import GcArena.Props.C03
import GcArena.Props.C03s
import GcArena.Props.C04
import GcArena.Props.C05
import GcArena.Props.C06
import GcArena.Props.C07
import GcArena.Props.C08
import GcArena.Props.C09
import GcArena.Props.C09s
import GcArena.Props.C10
import GcArena.Props.C11
import GcArena.Props.C12
import GcArena.Props.C12s
import GcArena.Props.C13
import GcArena.Props.C14
import GcArena.Props.C14s
import GcArena.Props.C15
import GcArena.Props.C16
import GcArena.Props.C17
import GcArena.Props.C18
import GcArena.Props.C19
import GcArena.Props.C19s
import GcArena.Props.C20
import GcArena.Props.C20s
/-!
  One environment holding every property theorem: `lake build GcArena.All` type-checks all of
  `Props/C01 … C20` and the static companions (`C03s C09s C12s C14s C19s C20s`) together, so no two
  modules declare the same name differently.
-/
