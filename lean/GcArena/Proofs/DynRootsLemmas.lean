import GcArena.Model.DynRoots
/-
  GcArena.Proofs.DynRootsLemmas — the slot-table invariant of `DynamicRootSet` (property C14)
  and its preservation by every operation of Model/DynRoots.lean.

  `SlotsOK s sl hs`  : the table `sl` of set `s` refines the multiset `hs` of live handles.
  `Inv st`           : every alive set is `SlotsOK`; ghost stash ids are consistent.
  `inv_run`          : `Inv` holds after every history.
-/
namespace GcArena.DynRoots

/-- `Chain slots head l`: following `next_free` from `head` visits exactly the indices `l`, in
this order, every one a `Vacant` slot, and ends at `NULL_INDEX`. -/
inductive Chain (slots : List Slot) : Nat → List Nat → Prop
  | nil : Chain slots nullIndex []
  | cons {i nx : Nat} {l : List Nat} :
      i ≠ nullIndex → slots[i]? = some (.vacant nx) → Chain slots nx l → Chain slots i (i :: l)

/-- number of live handles of set `s` with index `i` -/
def cnt (hs : List Handle) (s i : Nat) : Nat :=
  hs.countP (fun h => decide (h.set = s ∧ h.index = i))

theorem cnt_cons (h : Handle) (hs : List Handle) (s i : Nat) :
    cnt (h :: hs) s i = cnt hs s i + (if h.set = s ∧ h.index = i then 1 else 0) := by
  unfold cnt
  rw [List.countP_cons]
  simp

theorem cnt_erase {h : Handle} {hs : List Handle} (hm : h ∈ hs) (s i : Nat) :
    cnt (hs.erase h) s i + (if h.set = s ∧ h.index = i then 1 else 0) = cnt hs s i := by
  have := (List.perm_cons_erase hm).countP_eq (fun h => decide (h.set = s ∧ h.index = i))
  unfold cnt
  rw [this, List.countP_cons]
  simp

theorem cnt_pos {hs : List Handle} {s i : Nat} :
    0 < cnt hs s i ↔ ∃ h ∈ hs, h.set = s ∧ h.index = i := by
  unfold cnt
  rw [List.countP_pos_iff]
  simp

theorem cnt_eq_zero {hs : List Handle} {s i : Nat} :
    cnt hs s i = 0 ↔ ∀ h ∈ hs, ¬ (h.set = s ∧ h.index = i) := by
  have := @cnt_pos hs s i
  constructor
  · intro h0 h hm hc
    have : 0 < cnt hs s i := this.2 ⟨h, hm, hc⟩
    omega
  · intro hall
    by_cases hz : cnt hs s i = 0
    · exact hz
    · have hp : 0 < cnt hs s i := by omega
      obtain ⟨h, hm, hc⟩ := this.1 hp
      exact absurd hc (hall h hm)

theorem cnt_eq_filter_length (hs : List Handle) (s i : Nat) :
    cnt hs s i = (hs.filter (fun h => decide (h.set = s ∧ h.index = i))).length := by
  unfold cnt
  rw [List.countP_eq_length_filter]

/-! ### free-list chains -/

theorem Chain.null_inv {slots : List Slot} {l : List Nat} (h : Chain slots nullIndex l) : l = [] := by
  cases h with
  | nil => rfl
  | cons hi _ _ => exact absurd rfl hi

theorem Chain.head_inv {slots : List Slot} {i : Nat} {l : List Nat} (h : Chain slots i l)
    (hi : i ≠ nullIndex) :
    ∃ nx l', l = i :: l' ∧ slots[i]? = some (.vacant nx) ∧ Chain slots nx l' := by
  cases h with
  | nil => exact absurd rfl hi
  | cons _ hv hc => exact ⟨_, _, rfl, hv, hc⟩

theorem Chain.set_of_not_mem {slots : List Slot} {i : Nat} {l : List Nat} (h : Chain slots i l)
    (j : Nat) (x : Slot) (hj : j ∉ l) : Chain (slots.set j x) i l := by
  induction h with
  | nil => exact .nil
  | @cons i nx l hi hv _ ih =>
    have hne : j ≠ i := by
      intro e; subst e; simp at hj
    refine .cons hi ?_ (ih (by simp at hj; exact hj.2))
    rw [List.getElem?_set_ne hne]; exact hv

theorem Chain.append {slots : List Slot} {i : Nat} {l : List Nat} (h : Chain slots i l)
    (x : Slot) : Chain (slots ++ [x]) i l := by
  induction h with
  | nil => exact .nil
  | @cons i nx l hi hv _ ih =>
    refine .cons hi ?_ ih
    have hlt : i < slots.length := by
      have := (List.getElem?_eq_some_iff.1 hv); exact this.1
    rw [List.getElem?_append_left hlt]; exact hv

/-- every index on a chain is a vacant slot -/
theorem Chain.mem_vacant {slots : List Slot} {i : Nat} {l : List Nat} (h : Chain slots i l) :
    ∀ j ∈ l, ∃ nx, slots[j]? = some (.vacant nx) := by
  induction h with
  | nil => intro j hj; simp at hj
  | @cons i nx l hi hv _ ih =>
    intro j hj
    simp at hj
    rcases hj with rfl | hj
    · exact ⟨nx, hv⟩
    · exact ih j hj

/-! ### the per-set refinement invariant -/

/-- The table `sl` of set `s` refines the multiset `hs` of live handles. -/
structure SlotsOK (s : Nat) (sl : Slots) (hs : List Handle) : Prop where
  /-- the slot of a live handle is occupied by the handle's pointer -/
  occ : ∀ h ∈ hs, h.set = s → ∃ c, sl.slots[h.index]? = some (.occupied h.ptr c)
  /-- `ref_count + 1` = number of live handles of that slot -/
  count : ∀ i r c, sl.slots[i]? = some (.occupied r c) → cnt hs s i = c + 1
  /-- the free list is a duplicate-free chain through exactly the vacant slots -/
  free : ∃ l, Chain sl.slots sl.nextFree l ∧ l.Nodup ∧
          ∀ i, i ∈ l ↔ ∃ nx, sl.slots[i]? = some (.vacant nx)
  /-- `NULL_INDEX` is not a valid index -/
  len : sl.slots.length ≤ nullIndex

theorem SlotsOK.new (s : Nat) (hs : List Handle) (hno : ∀ h ∈ hs, h.set ≠ s) :
    SlotsOK s Slots.new hs := by
  refine ⟨?_, ?_, ⟨[], .nil, List.nodup_nil, ?_⟩, ?_⟩
  · intro h hm he; exact absurd he (hno h hm)
  · intro i r c h; simp [Slots.new] at h
  · intro i; simp [Slots.new]
  · simp [Slots.new]

theorem lt_of_getElem?_some {α} {l : List α} {i : Nat} {a : α} (h : l[i]? = some a) :
    i < l.length := (List.getElem?_eq_some_iff.1 h).1

/-- A handle of another set does not matter (added). -/
theorem SlotsOK.cons_other {s : Nat} {sl : Slots} {hs : List Handle} (ok : SlotsOK s sl hs)
    (h : Handle) (hne : h.set ≠ s) : SlotsOK s sl (h :: hs) := by
  refine ⟨?_, ?_, ok.free, ok.len⟩
  · intro h' hm he
    simp at hm
    rcases hm with rfl | hm
    · exact absurd he hne
    · exact ok.occ h' hm he
  · intro i r c hv
    rw [cnt_cons, ok.count i r c hv]
    simp [hne]

/-- A handle of another set does not matter (removed). -/
theorem SlotsOK.erase_other {s : Nat} {sl : Slots} {hs : List Handle} (ok : SlotsOK s sl hs)
    (h : Handle) (hne : h.set ≠ s) : SlotsOK s sl (hs.erase h) := by
  refine ⟨?_, ?_, ok.free, ok.len⟩
  · intro h' hm he
    exact ok.occ h' (List.mem_of_mem_erase hm) he
  · intro i r c hv
    by_cases hm : h ∈ hs
    · have := cnt_erase hm s i
      rw [ok.count i r c hv] at this
      simp [hne] at this
      exact this
    · rw [List.erase_of_not_mem hm]; exact ok.count i r c hv

/-- `Slots::add` never hits one of its panics on a good table (only `Vec::push` may give up). -/
theorem SlotsOK.add_error {s : Nat} {sl : Slots} {hs : List Handle} (ok : SlotsOK s sl hs)
    {p : Nat} {f : Fault} (he : sl.add p = .error f) :
    f = .capacityOverflow ∧ nullIndex ≤ sl.slots.length := by
  obtain ⟨l, hc, _, _⟩ := ok.free
  unfold Slots.add at he
  by_cases hn : sl.nextFree = nullIndex
  · simp [hn] at he
    by_cases hl : nullIndex ≤ sl.slots.length
    · simp [hl] at he; exact ⟨he.symm, hl⟩
    · simp [hl] at he
  · obtain ⟨nx, l', _, hv, _⟩ := hc.head_inv hn
    simp [hn, hv] at he

/-- `Slots::add` preserves the refinement, for the new handle it returns. -/
theorem SlotsOK.add {s : Nat} {sl sl' : Slots} {hs : List Handle} (ok : SlotsOK s sl hs)
    {p idx : Nat} (g : Nat) (he : sl.add p = .ok (sl', idx)) :
    SlotsOK s sl' (⟨s, idx, p, g⟩ :: hs) ∧ (∀ h ∈ hs, h.set = s → h.index ≠ idx) ∧
      sl'.slots.length ≤ sl.slots.length + 1 := by
  obtain ⟨l, hc, hnd, hiff⟩ := ok.free
  unfold Slots.add at he
  by_cases hn : sl.nextFree = nullIndex
  · -- push
    rw [hn] at hc
    have hl := hc.null_inv
    subst hl
    by_cases hl : nullIndex ≤ sl.slots.length
    · simp [hn, hl] at he
    · simp [hn, hl] at he
      obtain ⟨rfl, rfl⟩ := he
      have hfresh : ∀ h ∈ hs, h.set = s → h.index ≠ sl.slots.length := by
        intro h hm hs' e
        obtain ⟨c, hv⟩ := ok.occ h hm hs'
        have := lt_of_getElem?_some hv
        omega
      refine ⟨⟨?_, ?_, ⟨[], ?_, List.nodup_nil, ?_⟩, ?_⟩, hfresh, ?_⟩
      · intro h hm hs'
        simp at hm
        rcases hm with rfl | hm
        · exact ⟨0, by simp⟩
        · obtain ⟨c, hv⟩ := ok.occ h hm hs'
          refine ⟨c, ?_⟩
          simp only
          rw [List.getElem?_append_left (lt_of_getElem?_some hv)]; exact hv
      · intro i r c hv
        simp only at hv
        rw [cnt_cons]
        by_cases hi : i < sl.slots.length
        · rw [List.getElem?_append_left hi] at hv
          rw [ok.count i r c hv]
          have : sl.slots.length ≠ i := by omega
          simp [this]
        · have hlen := lt_of_getElem?_some hv
          simp at hlen
          have hi' : i = sl.slots.length := by omega
          subst hi'
          simp at hv
          have h0 : cnt hs s sl.slots.length = 0 := by
            rw [cnt_eq_zero]; intro h hm hc'; exact hfresh h hm hc'.1 hc'.2
          rw [h0]; simp; omega
      · exact .nil
      · intro i
        simp only [List.not_mem_nil, false_iff]
        rintro ⟨nx, hv⟩
        by_cases hi : i < sl.slots.length
        · rw [List.getElem?_append_left hi] at hv
          exact (List.not_mem_nil) ((hiff i).2 ⟨nx, hv⟩)
        · have hlen := lt_of_getElem?_some hv
          simp at hlen
          have hi' : i = sl.slots.length := by omega
          subst hi'
          simp at hv
      · simp; omega
      · simp
  · -- pop the free list
    obtain ⟨nx, l', rfl, hv, hc'⟩ := hc.head_inv hn
    simp [hn, hv] at he
    obtain ⟨rfl, rfl⟩ := he
    have hlt := lt_of_getElem?_some hv
    have hnd' := List.nodup_cons.1 hnd
    have hfresh : ∀ h ∈ hs, h.set = s → h.index ≠ sl.nextFree := by
      intro h hm hs' e
      obtain ⟨c, hv'⟩ := ok.occ h hm hs'
      rw [e, hv] at hv'
      simp at hv'
    refine ⟨⟨?_, ?_, ⟨l', ?_, hnd'.2, ?_⟩, ?_⟩, hfresh, ?_⟩
    · intro h hm hs'
      simp at hm
      rcases hm with rfl | hm
      · exact ⟨0, by simp [hlt]⟩
      · obtain ⟨c, hv'⟩ := ok.occ h hm hs'
        refine ⟨c, ?_⟩
        simp only
        rw [List.getElem?_set_ne (Ne.symm (hfresh h hm hs'))]; exact hv'
    · intro i r c hvi
      simp only at hvi
      rw [cnt_cons]
      by_cases hi : i = sl.nextFree
      · subst hi
        simp [hlt] at hvi
        have h0 : cnt hs s sl.nextFree = 0 := by
          rw [cnt_eq_zero]; intro h hm hc''; exact hfresh h hm hc''.1 hc''.2
        rw [h0]; simp; omega
      · rw [List.getElem?_set_ne (Ne.symm hi)] at hvi
        rw [ok.count i r c hvi]
        have : sl.nextFree ≠ i := by omega
        simp [this]
    · exact hc'.set_of_not_mem _ _ hnd'.1
    · intro i
      simp only
      by_cases hi : i = sl.nextFree
      · subst hi
        simp [hlt, hnd'.1]
      · rw [List.getElem?_set_ne (Ne.symm hi)]
        rw [← hiff i]; simp [hi]
    · simp; exact ok.len
    · simp

/-- `Slots::inc` on the slot of a live handle: no panic, refinement preserved for one more
handle. -/
theorem SlotsOK.inc {s : Nat} {sl : Slots} {hs : List Handle} (ok : SlotsOK s sl hs)
    {h : Handle} (hm : h ∈ hs) (hset : h.set = s) :
    ∃ sl', sl.inc h.index = .ok sl' ∧ SlotsOK s sl' (h :: hs) ∧
      sl'.slots.length = sl.slots.length := by
  obtain ⟨c, hv⟩ := ok.occ h hm hset
  have hlt := lt_of_getElem?_some hv
  obtain ⟨l, hc, hnd, hiff⟩ := ok.free
  refine ⟨⟨sl.slots.set h.index (.occupied h.ptr (c + 1)), sl.nextFree⟩, by simp [Slots.inc, hv],
    ⟨?_, ?_, ⟨l, ?_, hnd, ?_⟩, ?_⟩, by simp⟩
  · intro h' hm' hs'
    have hm'' : h' ∈ hs := by
      simp at hm'; rcases hm' with rfl | hm'
      · exact hm
      · exact hm'
    obtain ⟨c', hv'⟩ := ok.occ h' hm'' hs'
    by_cases hi : h'.index = h.index
    · rw [hi] at hv' ⊢
      rw [hv] at hv'
      simp at hv'
      exact ⟨c + 1, by simp [hlt, hv'.1]⟩
    · exact ⟨c', by simp only; rw [List.getElem?_set_ne (Ne.symm hi)]; exact hv'⟩
  · intro i r c' hvi
    simp only at hvi
    rw [cnt_cons]
    by_cases hi : i = h.index
    · subst hi
      simp [hlt] at hvi
      rw [ok.count _ _ _ hv]
      simp [hset]; omega
    · rw [List.getElem?_set_ne (Ne.symm hi)] at hvi
      rw [ok.count i r c' hvi]
      have : ¬ (h.set = s ∧ h.index = i) := by omega
      simp [this]
  · apply hc.set_of_not_mem
    intro hmem
    obtain ⟨nx, hvv⟩ := (hiff _).1 hmem
    rw [hv] at hvv; simp at hvv
  · intro i
    simp only
    by_cases hi : i = h.index
    · subst hi
      simp [hlt]
      intro hmem
      obtain ⟨nx, hvv⟩ := (hiff _).1 hmem
      rw [hv] at hvv; simp at hvv
    · rw [List.getElem?_set_ne (Ne.symm hi)]; exact hiff i
  · simp; exact ok.len

/-- `Slots::dec` on the slot of a live handle: no panic, refinement preserved for one handle
less; the slot is vacated exactly when that was the last handle. -/
theorem SlotsOK.dec {s : Nat} {sl : Slots} {hs : List Handle} (ok : SlotsOK s sl hs)
    {h : Handle} (hm : h ∈ hs) (hset : h.set = s) :
    ∃ sl', sl.dec h.index = .ok sl' ∧ SlotsOK s sl' (hs.erase h) ∧
      sl'.slots.length = sl.slots.length := by
  obtain ⟨c, hv⟩ := ok.occ h hm hset
  have hlt := lt_of_getElem?_some hv
  obtain ⟨l, hc, hnd, hiff⟩ := ok.free
  have hcnt := ok.count _ _ _ hv
  have hce := cnt_erase hm s h.index
  simp [hset] at hce
  have hnotin : h.index ∉ l := by
    intro hmem
    obtain ⟨nx, hvv⟩ := (hiff _).1 hmem
    rw [hv] at hvv; simp at hvv
  by_cases hc0 : c = 0
  · -- last handle: vacate, push on the free list
    subst hc0
    have hzero : cnt (hs.erase h) s h.index = 0 := by omega
    have hfresh : ∀ h' ∈ hs.erase h, h'.set = s → h'.index ≠ h.index := by
      intro h' hm' hs' e
      exact (cnt_eq_zero.1 hzero) h' hm' ⟨hs', e⟩
    refine ⟨⟨sl.slots.set h.index (.vacant sl.nextFree), h.index⟩, by simp [Slots.dec, hv],
      ⟨?_, ?_, ⟨h.index :: l, ?_, ?_, ?_⟩, ?_⟩, by simp⟩
    · intro h' hm' hs'
      obtain ⟨c', hv'⟩ := ok.occ h' (List.mem_of_mem_erase hm') hs'
      exact ⟨c', by simp only; rw [List.getElem?_set_ne (Ne.symm (hfresh h' hm' hs'))]; exact hv'⟩
    · intro i r c' hvi
      simp only at hvi
      by_cases hi : i = h.index
      · subst hi; simp [hlt] at hvi
      · rw [List.getElem?_set_ne (Ne.symm hi)] at hvi
        have := cnt_erase hm s i
        rw [ok.count i r c' hvi] at this
        have hne : ¬ (h.set = s ∧ h.index = i) := by omega
        simp [hne] at this
        exact this
    · refine .cons ?_ (by simp [hlt]) (hc.set_of_not_mem _ _ hnotin)
      show h.index ≠ nullIndex
      have := ok.len; omega
    · exact List.nodup_cons.2 ⟨hnotin, hnd⟩
    · intro i
      simp only
      by_cases hi : i = h.index
      · subst hi; simp [hlt]
      · rw [List.getElem?_set_ne (Ne.symm hi)]
        rw [← hiff i]; simp [hi]
    · simp; exact ok.len
  · -- other handles remain
    refine ⟨⟨sl.slots.set h.index (.occupied h.ptr (c - 1)), sl.nextFree⟩,
      by simp [Slots.dec, hv, hc0], ⟨?_, ?_, ⟨l, ?_, hnd, ?_⟩, ?_⟩, by simp⟩
    · intro h' hm' hs'
      obtain ⟨c', hv'⟩ := ok.occ h' (List.mem_of_mem_erase hm') hs'
      by_cases hi : h'.index = h.index
      · rw [hi] at hv' ⊢
        rw [hv] at hv'
        simp at hv'
        exact ⟨c - 1, by simp [hlt, hv'.1]⟩
      · exact ⟨c', by simp only; rw [List.getElem?_set_ne (Ne.symm hi)]; exact hv'⟩
    · intro i r c' hvi
      simp only at hvi
      by_cases hi : i = h.index
      · subst hi
        simp [hlt] at hvi
        omega
      · rw [List.getElem?_set_ne (Ne.symm hi)] at hvi
        have := cnt_erase hm s i
        rw [ok.count i r c' hvi] at this
        have hne : ¬ (h.set = s ∧ h.index = i) := by omega
        simp [hne] at this
        exact this
    · exact hc.set_of_not_mem _ _ hnotin
    · intro i
      simp only
      by_cases hi : i = h.index
      · subst hi
        simp [hlt]
        exact hnotin
      · rw [List.getElem?_set_ne (Ne.symm hi)]; exact hiff i
    · simp; exact ok.len

/-! ### the system invariant -/

/-- The invariant of the whole system: every alive set refines the live handles; the ghost stash
ids name stashes consistently. -/
structure Inv (st : State) : Prop where
  sets : ∀ (s : Nat) (rs : RootSet), st.sets[s]? = some rs → rs.alive = true →
          SlotsOK s rs.slots st.handles
  hset : ∀ h ∈ st.handles, h.set < st.sets.length
  hstash : ∀ h ∈ st.handles, h.stash < st.nextStash
  /-- one stash id = one handle value -/
  uniq : ∀ h1 ∈ st.handles, ∀ h2 ∈ st.handles, h1.stash = h2.stash → h1 = h2
  /-- one (set, index) pair = one stash, among live handles -/
  same : ∀ h1 ∈ st.handles, ∀ h2 ∈ st.handles, h1.set = h2.set → h1.index = h2.index →
          h1.stash = h2.stash
  /-- a table has at most as many slots as there were stashes -/
  cap : ∀ (s : Nat) (rs : RootSet), st.sets[s]? = some rs →
          rs.slots.slots.length ≤ st.nextStash

theorem liveSet_eq_some {st : State} {s : Nat} {rs : RootSet} :
    st.liveSet s = some rs ↔ st.sets[s]? = some rs ∧ rs.alive = true := by
  unfold State.liveSet
  cases h : st.sets[s]? with
  | none => simp
  | some rs' =>
    by_cases ha : rs'.alive = true
    · simp only [ha, if_true, Option.some.injEq]
      constructor
      · rintro rfl; exact ⟨rfl, ha⟩
      · rintro ⟨rfl, _⟩; rfl
    · simp only [ha, Option.some.injEq]
      constructor
      · intro h'; cases h'
      · rintro ⟨rfl, ha'⟩; exact absurd ha' ha

theorem liveSet_eq_none {st : State} {s : Nat} :
    st.liveSet s = none ↔ ∀ rs, st.sets[s]? = some rs → rs.alive = false := by
  constructor
  · intro hn rs hl
    by_cases ha : rs.alive = true
    · have := liveSet_eq_some.2 ⟨hl, ha⟩
      rw [hn] at this; cases this
    · simpa using ha
  · intro hall
    cases h : st.liveSet s with
    | none => rfl
    | some rs =>
      obtain ⟨hl, ha⟩ := liveSet_eq_some.1 h
      rw [hall rs hl] at ha; cases ha

theorem Inv.init : Inv State.init := by
  refine ⟨?_, ?_, ?_, ?_, ?_, ?_⟩ <;> simp [State.init]

theorem Inv.newSet {st : State} (inv : Inv st) :
    Inv { st with sets := st.sets ++ [⟨true, Slots.new⟩] } := by
  refine ⟨?_, ?_, inv.hstash, inv.uniq, inv.same, ?_⟩
  · intro s rs hl ha
    simp only at hl ⊢
    by_cases hs : s < st.sets.length
    · rw [List.getElem?_append_left hs] at hl
      exact inv.sets s rs hl ha
    · have hlen := lt_of_getElem?_some hl
      simp at hlen
      have : s = st.sets.length := by omega
      subst this
      simp at hl
      subst hl
      apply SlotsOK.new
      intro h hm
      have := inv.hset h hm
      omega
  · intro h hm
    have := inv.hset h hm
    simp; omega
  · intro s rs hl
    simp only at hl ⊢
    by_cases hs : s < st.sets.length
    · rw [List.getElem?_append_left hs] at hl
      exact inv.cap s rs hl
    · have hlen := lt_of_getElem?_some hl
      simp at hlen
      have : s = st.sets.length := by omega
      subst this
      simp at hl
      subst hl
      simp [Slots.new]

theorem Inv.stash {st : State} (inv : Inv st) {s p idx : Nat} {rs : RootSet} {sl : Slots}
    (hl : st.liveSet s = some rs) (ha : rs.slots.add p = .ok (sl, idx)) :
    Inv { sets := st.withSlots s rs sl, handles := ⟨s, idx, p, st.nextStash⟩ :: st.handles,
          nextStash := st.nextStash + 1 } := by
  obtain ⟨hls, halive⟩ := liveSet_eq_some.1 hl
  have hslt := lt_of_getElem?_some hls
  obtain ⟨hok, hfresh, hlen⟩ := (inv.sets s rs hls halive).add st.nextStash ha
  refine ⟨?_, ?_, ?_, ?_, ?_, ?_⟩
  · intro s' rs' hl' ha'
    simp only [State.withSlots] at hl' ⊢
    by_cases hs : s' = s
    · subst hs
      simp [hslt] at hl'
      subst hl'
      exact hok
    · rw [List.getElem?_set_ne (Ne.symm hs)] at hl'
      exact (inv.sets s' rs' hl' ha').cons_other _ (Ne.symm hs)
  · intro h hm
    simp only [State.withSlots, List.length_set]
    simp at hm
    rcases hm with rfl | hm
    · exact hslt
    · exact inv.hset h hm
  · intro h hm
    simp at hm
    rcases hm with rfl | hm
    · simp
    · have := inv.hstash h hm
      simp only; omega
  · intro h1 hm1 h2 hm2 he
    simp at hm1 hm2
    rcases hm1 with rfl | hm1 <;> rcases hm2 with rfl | hm2
    · rfl
    · have := inv.hstash h2 hm2; simp at he; omega
    · have := inv.hstash h1 hm1; simp at he; omega
    · exact inv.uniq h1 hm1 h2 hm2 he
  · intro h1 hm1 h2 hm2 hes hei
    simp at hm1 hm2
    rcases hm1 with rfl | hm1 <;> rcases hm2 with rfl | hm2
    · rfl
    · exact absurd hei.symm (hfresh h2 hm2 hes.symm)
    · exact absurd hei (hfresh h1 hm1 hes)
    · exact inv.same h1 hm1 h2 hm2 hes hei
  · intro s' rs' hl'
    simp only [State.withSlots] at hl' ⊢
    by_cases hs : s' = s
    · subst hs
      simp [hslt] at hl'
      subst hl'
      have := inv.cap s' rs hls
      simp only; omega
    · rw [List.getElem?_set_ne (Ne.symm hs)] at hl'
      have := inv.cap s' rs' hl'
      omega

/-- adding a copy of a live handle keeps the ghost part of the invariant -/
theorem mem_cons_of_mem_self {h x : Handle} {hs : List Handle} (hm : h ∈ hs)
    (hx : x ∈ h :: hs) : x ∈ hs := by
  simp at hx
  rcases hx with rfl | hx
  · exact hm
  · exact hx

theorem Inv.clone_dead {st : State} (inv : Inv st) {h : Handle} (hm : h ∈ st.handles)
    (hl : st.liveSet h.set = none) : Inv { st with handles := h :: st.handles } := by
  refine ⟨?_, ?_, ?_, ?_, ?_, inv.cap⟩
  · intro s rs hls ha
    have hne : h.set ≠ s := by
      rintro rfl
      have := (liveSet_eq_some (st := st)).2 ⟨hls, ha⟩
      rw [hl] at this; cases this
    exact (inv.sets s rs hls ha).cons_other h hne
  · intro x hx; exact inv.hset x (mem_cons_of_mem_self hm hx)
  · intro x hx; exact inv.hstash x (mem_cons_of_mem_self hm hx)
  · intro x hx y hy
    exact inv.uniq x (mem_cons_of_mem_self hm hx) y (mem_cons_of_mem_self hm hy)
  · intro x hx y hy
    exact inv.same x (mem_cons_of_mem_self hm hx) y (mem_cons_of_mem_self hm hy)

theorem Inv.clone_live {st : State} (inv : Inv st) {h : Handle} (hm : h ∈ st.handles)
    {rs : RootSet} (hl : st.liveSet h.set = some rs) :
    ∃ sl, rs.slots.inc h.index = .ok sl ∧
      Inv { st with sets := st.withSlots h.set rs sl, handles := h :: st.handles } := by
  obtain ⟨hls, halive⟩ := liveSet_eq_some.1 hl
  have hslt := lt_of_getElem?_some hls
  obtain ⟨sl, hinc, hok, hlen⟩ := (inv.sets h.set rs hls halive).inc hm rfl
  refine ⟨sl, hinc, ?_, ?_, ?_, ?_, ?_, ?_⟩
  · intro s' rs' hl' ha'
    simp only [State.withSlots] at hl' ⊢
    by_cases hs : s' = h.set
    · subst hs
      simp [hslt] at hl'
      subst hl'
      exact hok
    · rw [List.getElem?_set_ne (Ne.symm hs)] at hl'
      exact (inv.sets s' rs' hl' ha').cons_other _ (Ne.symm hs)
  · intro x hx
    simp only [State.withSlots, List.length_set]
    exact inv.hset x (mem_cons_of_mem_self hm hx)
  · intro x hx; exact inv.hstash x (mem_cons_of_mem_self hm hx)
  · intro x hx y hy
    exact inv.uniq x (mem_cons_of_mem_self hm hx) y (mem_cons_of_mem_self hm hy)
  · intro x hx y hy
    exact inv.same x (mem_cons_of_mem_self hm hx) y (mem_cons_of_mem_self hm hy)
  · intro s' rs' hl'
    simp only [State.withSlots] at hl' ⊢
    by_cases hs : s' = h.set
    · subst hs
      simp [hslt] at hl'
      subst hl'
      have := inv.cap _ rs hls
      simp only; omega
    · rw [List.getElem?_set_ne (Ne.symm hs)] at hl'
      exact inv.cap s' rs' hl'

theorem Inv.drop_dead {st : State} (inv : Inv st) {h : Handle}
    (hl : st.liveSet h.set = none) : Inv { st with handles := st.handles.erase h } := by
  refine ⟨?_, ?_, ?_, ?_, ?_, inv.cap⟩
  · intro s rs hls ha
    have hne : h.set ≠ s := by
      rintro rfl
      have := (liveSet_eq_some (st := st)).2 ⟨hls, ha⟩
      rw [hl] at this; cases this
    exact (inv.sets s rs hls ha).erase_other h hne
  · intro x hx; exact inv.hset x (List.mem_of_mem_erase hx)
  · intro x hx; exact inv.hstash x (List.mem_of_mem_erase hx)
  · intro x hx y hy
    exact inv.uniq x (List.mem_of_mem_erase hx) y (List.mem_of_mem_erase hy)
  · intro x hx y hy
    exact inv.same x (List.mem_of_mem_erase hx) y (List.mem_of_mem_erase hy)

theorem Inv.drop_live {st : State} (inv : Inv st) {h : Handle} (hm : h ∈ st.handles)
    {rs : RootSet} (hl : st.liveSet h.set = some rs) :
    ∃ sl, rs.slots.dec h.index = .ok sl ∧
      Inv { st with sets := st.withSlots h.set rs sl, handles := st.handles.erase h } := by
  obtain ⟨hls, halive⟩ := liveSet_eq_some.1 hl
  have hslt := lt_of_getElem?_some hls
  obtain ⟨sl, hdec, hok, hlen⟩ := (inv.sets h.set rs hls halive).dec hm rfl
  refine ⟨sl, hdec, ?_, ?_, ?_, ?_, ?_, ?_⟩
  · intro s' rs' hl' ha'
    simp only [State.withSlots] at hl' ⊢
    by_cases hs : s' = h.set
    · subst hs
      simp [hslt] at hl'
      subst hl'
      exact hok
    · rw [List.getElem?_set_ne (Ne.symm hs)] at hl'
      exact (inv.sets s' rs' hl' ha').erase_other _ (Ne.symm hs)
  · intro x hx
    simp only [State.withSlots, List.length_set]
    exact inv.hset x (List.mem_of_mem_erase hx)
  · intro x hx; exact inv.hstash x (List.mem_of_mem_erase hx)
  · intro x hx y hy
    exact inv.uniq x (List.mem_of_mem_erase hx) y (List.mem_of_mem_erase hy)
  · intro x hx y hy
    exact inv.same x (List.mem_of_mem_erase hx) y (List.mem_of_mem_erase hy)
  · intro s' rs' hl'
    simp only [State.withSlots] at hl' ⊢
    by_cases hs : s' = h.set
    · subst hs
      simp [hslt] at hl'
      subst hl'
      have := inv.cap _ rs hls
      simp only; omega
    · rw [List.getElem?_set_ne (Ne.symm hs)] at hl'
      exact inv.cap s' rs' hl'

theorem Inv.destroy {st : State} (inv : Inv st) {s : Nat} {rs : RootSet}
    (hl : st.liveSet s = some rs) :
    Inv { st with sets := st.sets.set s { rs with alive := false } } := by
  obtain ⟨hls, halive⟩ := liveSet_eq_some.1 hl
  have hslt := lt_of_getElem?_some hls
  refine ⟨?_, ?_, inv.hstash, inv.uniq, inv.same, ?_⟩
  · intro s' rs' hl' ha'
    simp only at hl' ⊢
    by_cases hs : s' = s
    · subst hs
      simp [hslt] at hl'
      subst hl'
      simp at ha'
    · rw [List.getElem?_set_ne (Ne.symm hs)] at hl'
      exact inv.sets s' rs' hl' ha'
  · intro x hx
    simp only [List.length_set]
    exact inv.hset x hx
  · intro s' rs' hl'
    simp only at hl' ⊢
    by_cases hs : s' = s
    · subst hs
      simp [hslt] at hl'
      subst hl'
      exact inv.cap _ rs hls
    · rw [List.getElem?_set_ne (Ne.symm hs)] at hl'
      exact inv.cap s' rs' hl'

/-- What a call can do in a state satisfying the invariant: succeed and re-establish the
invariant, be ill-formed, or panic in one of exactly two ways — the documented
`fetch` mismatch, or `Vec::push` with `usize::MAX` slots. -/
inductive StepSpec (st : State) (op : Op) : Res → Prop
  | ok {st' : State} {a : Ans} : Inv st' → StepSpec st op (.ok st' a)
  | illFormed : StepSpec st op .illFormed
  | mismatch {s : Nat} {h : Handle} : op = .fetch s h → h.set ≠ s → h ∈ st.handles →
      StepSpec st op (.panic .mismatchedRootSet)
  | capacity {s p : Nat} {rs : RootSet} : op = .stash s p → st.liveSet s = some rs →
      nullIndex ≤ rs.slots.slots.length → StepSpec st op (.panic .capacityOverflow)

theorem step_spec {st : State} (inv : Inv st) (op : Op) : StepSpec st op (step st op) := by
  cases op with
  | newSet => exact .ok inv.newSet
  | stash s p =>
    simp only [step]
    cases hl : st.liveSet s with
    | none => exact .illFormed
    | some rs =>
      simp only
      cases ha : rs.slots.add p with
      | error f =>
        obtain ⟨hls, halive⟩ := liveSet_eq_some.1 hl
        obtain ⟨rfl, hcap⟩ := (inv.sets s rs hls halive).add_error ha
        exact .capacity rfl hl hcap
      | ok r =>
        obtain ⟨sl, idx⟩ := r
        exact .ok (inv.stash hl ha)
  | clone h =>
    simp only [step]
    by_cases hm : h ∈ st.handles
    · simp only [hm, if_true]
      cases hl : st.liveSet h.set with
      | none => exact .ok (inv.clone_dead hm hl)
      | some rs =>
        obtain ⟨sl, hinc, hinv⟩ := inv.clone_live hm hl
        simp only [hinc]
        exact .ok hinv
    · simp only [hm, if_false]; exact .illFormed
  | dropHandle h =>
    simp only [step]
    by_cases hm : h ∈ st.handles
    · simp only [hm, if_true]
      cases hl : st.liveSet h.set with
      | none => exact .ok (inv.drop_dead hl)
      | some rs =>
        obtain ⟨sl, hdec, hinv⟩ := inv.drop_live hm hl
        simp only [hdec]
        exact .ok hinv
    · simp only [hm, if_false]; exact .illFormed
  | fetch s h =>
    simp only [step]
    by_cases hm : h ∈ st.handles
    · simp only [hm, if_true]
      cases hl : st.liveSet s with
      | none => exact .illFormed
      | some rs =>
        simp only
        by_cases hc : containsB s h = true
        · simp only [hc, if_true]; exact .ok inv
        · simp only [hc]
          refine .mismatch rfl ?_ hm
          intro e; apply hc; simp [containsB, e]
    · simp only [hm, if_false]; exact .illFormed
  | tryFetch s h =>
    simp only [step]
    by_cases hm : h ∈ st.handles
    · simp only [hm, if_true]
      cases hl : st.liveSet s with
      | none => exact .illFormed
      | some rs =>
        simp only
        by_cases hc : containsB s h = true
        · simp only [hc, if_true]; exact .ok inv
        · simp only [hc]; exact .ok inv
    · simp only [hm, if_false]; exact .illFormed
  | contains s h =>
    simp only [step]
    by_cases hm : h ∈ st.handles
    · simp only [hm, if_true]
      cases hl : st.liveSet s with
      | none => exact .illFormed
      | some rs => exact .ok inv
    · simp only [hm, if_false]; exact .illFormed
  | destroySet s =>
    simp only [step]
    cases hl : st.liveSet s with
    | none => exact .illFormed
    | some rs => exact .ok (inv.destroy hl)

theorem Inv.next {st : State} (inv : Inv st) (op : Op) : Inv (next st op) := by
  unfold GcArena.DynRoots.next
  have := step_spec inv op
  cases h : step st op with
  | ok st' a => rw [h] at this; cases this with | ok hi => exact hi
  | panic f => exact inv
  | illFormed => exact inv

theorem Inv.run {st : State} (inv : Inv st) (ops : List Op) : Inv (run st ops) := by
  induction ops generalizing st with
  | nil => exact inv
  | cons op ops ih => exact ih (inv.next op)

/-- **The invariant holds after every history.** -/
theorem inv_run (ops : List Op) : Inv (run State.init ops) := Inv.init.run ops

/-! ### bookkeeping for the capacity bound -/

theorem nextStash_step {st st' : State} {op : Op} {a : Ans} (h : step st op = .ok st' a) :
    st'.nextStash ≤ st.nextStash + stashCount [op] := by
  cases op <;> simp only [step] at h <;> (repeat' split at h) <;> cases h <;> simp [stashCount]

theorem nextStash_next_le (st : State) (op : Op) :
    (next st op).nextStash ≤ st.nextStash + (stashCount [op]) := by
  unfold GcArena.DynRoots.next
  cases h : step st op with
  | ok st' a => exact nextStash_step h
  | panic f => simp
  | illFormed => simp

theorem stashCount_cons (op : Op) (ops : List Op) :
    stashCount (op :: ops) = stashCount [op] + stashCount ops := by
  cases op <;> simp [stashCount] <;> omega

theorem nextStash_run_le (st : State) (ops : List Op) :
    (run st ops).nextStash ≤ st.nextStash + stashCount ops := by
  induction ops generalizing st with
  | nil => simp [run, stashCount]
  | cons op ops ih =>
    have h1 := ih (next st op)
    have h2 := nextStash_next_le st op
    rw [stashCount_cons]
    simp only [run]
    omega

/-! ### a destroyed set stays destroyed -/

theorem next_fetch (st : State) (s : Nat) (h : Handle) : next st (.fetch s h) = st := by
  unfold GcArena.DynRoots.next
  simp only [step]
  by_cases hm : h ∈ st.handles
  · simp only [hm, if_true]
    cases st.liveSet s with
    | none => rfl
    | some rs => by_cases hc : containsB s h = true <;> simp [hc]
  · simp [hm]

theorem next_tryFetch (st : State) (s : Nat) (h : Handle) : next st (.tryFetch s h) = st := by
  unfold GcArena.DynRoots.next
  simp only [step]
  by_cases hm : h ∈ st.handles
  · simp only [hm, if_true]
    cases st.liveSet s with
    | none => rfl
    | some rs => by_cases hc : containsB s h = true <;> simp [hc]
  · simp [hm]

theorem next_contains (st : State) (s : Nat) (h : Handle) : next st (.contains s h) = st := by
  unfold GcArena.DynRoots.next
  simp only [step]
  by_cases hm : h ∈ st.handles
  · simp only [hm, if_true]
    cases st.liveSet s with
    | none => rfl
    | some rs => rfl
  · simp [hm]

theorem next_keeps_dead (st : State) (s : Nat) (hex : s < st.sets.length)
    (hd : st.liveSet s = none) (op : Op) :
    (next st op).liveSet s = none ∧ s < (next st op).sets.length := by
  have hdead : ∀ rs, st.sets[s]? = some rs → rs.alive = false := liveSet_eq_none.1 hd
  -- every operation rewrites at most the entry of an *alive* set, or appends
  have upd : ∀ (t : Nat) (rs rs' : RootSet), st.liveSet t = some rs →
      (∀ r, (st.sets.set t rs')[s]? = some r → r.alive = false) ∧
        s < (st.sets.set t rs').length := by
    intro t rs rs' hl
    have hne : t ≠ s := by rintro rfl; rw [hl] at hd; cases hd
    refine ⟨?_, by simpa using hex⟩
    intro r hr
    rw [List.getElem?_set_ne hne] at hr
    exact hdead r hr
  cases op with
  | newSet =>
    unfold GcArena.DynRoots.next
    simp only [step]
    refine ⟨liveSet_eq_none.2 ?_, by simp; omega⟩
    intro r hr
    simp only at hr
    rw [List.getElem?_append_left hex] at hr
    exact hdead r hr
  | stash t p =>
    unfold GcArena.DynRoots.next
    simp only [step]
    cases hl : st.liveSet t with
    | none => exact ⟨hd, hex⟩
    | some rs =>
      simp only
      cases ha : rs.slots.add p with
      | error f => exact ⟨hd, hex⟩
      | ok r =>
        obtain ⟨sl, idx⟩ := r
        obtain ⟨h1, h2⟩ := upd t rs { rs with slots := sl } hl
        exact ⟨liveSet_eq_none.2 h1, h2⟩
  | clone h =>
    unfold GcArena.DynRoots.next
    simp only [step]
    by_cases hm : h ∈ st.handles
    · simp only [hm, if_true]
      cases hl : st.liveSet h.set with
      | none => exact ⟨hd, hex⟩
      | some rs =>
        simp only
        cases ha : rs.slots.inc h.index with
        | error f => exact ⟨hd, hex⟩
        | ok sl =>
          obtain ⟨h1, h2⟩ := upd h.set rs { rs with slots := sl } hl
          exact ⟨liveSet_eq_none.2 h1, h2⟩
    · simp only [hm, if_false]; exact ⟨hd, hex⟩
  | dropHandle h =>
    unfold GcArena.DynRoots.next
    simp only [step]
    by_cases hm : h ∈ st.handles
    · simp only [hm, if_true]
      cases hl : st.liveSet h.set with
      | none => exact ⟨hd, hex⟩
      | some rs =>
        simp only
        cases ha : rs.slots.dec h.index with
        | error f => exact ⟨hd, hex⟩
        | ok sl =>
          obtain ⟨h1, h2⟩ := upd h.set rs { rs with slots := sl } hl
          exact ⟨liveSet_eq_none.2 h1, h2⟩
    · simp only [hm, if_false]; exact ⟨hd, hex⟩
  | fetch t h => rw [next_fetch]; exact ⟨hd, hex⟩
  | tryFetch t h => rw [next_tryFetch]; exact ⟨hd, hex⟩
  | contains t h => rw [next_contains]; exact ⟨hd, hex⟩
  | destroySet t =>
    unfold GcArena.DynRoots.next
    simp only [step]
    cases hl : st.liveSet t with
    | none => exact ⟨hd, hex⟩
    | some rs =>
      obtain ⟨h1, h2⟩ := upd t rs { rs with alive := false } hl
      exact ⟨liveSet_eq_none.2 h1, h2⟩

/-! ### the traced list as a multiset: one representative handle per occupied slot -/

/-- Walk the table from index `i`; for every occupied slot pick a live handle of set `s` with
that index. -/
def repsFrom (hs : List Handle) (s : Nat) : Nat → List Slot → List Handle
  | _, [] => []
  | i, .vacant _ :: rest => repsFrom hs s (i + 1) rest
  | i, .occupied _ _ :: rest =>
    match hs.find? (fun h => decide (h.set = s ∧ h.index = i)) with
    | some h => h :: repsFrom hs s (i + 1) rest
    | none => repsFrom hs s (i + 1) rest

/-- what the invariant gives about the part `l` of a table that starts at index `i` -/
def RepHyp (hs : List Handle) (s i : Nat) (l : List Slot) : Prop :=
  ∀ j r c, l[j]? = some (.occupied r c) →
    (∃ h ∈ hs, h.set = s ∧ h.index = i + j) ∧
    (∀ h ∈ hs, h.set = s → h.index = i + j → h.ptr = r)

theorem RepHyp.tail {hs : List Handle} {s i : Nat} {x : Slot} {l : List Slot}
    (H : RepHyp hs s i (x :: l)) : RepHyp hs s (i + 1) l := by
  intro j r c hj
  have := H (j + 1) r c (by simpa using hj)
  rw [show i + (j + 1) = i + 1 + j by omega] at this
  exact this

theorem repsFrom_head {hs : List Handle} {s i r c : Nat} {l : List Slot}
    (H : RepHyp hs s i (.occupied r c :: l)) :
    ∃ x, hs.find? (fun h => decide (h.set = s ∧ h.index = i)) = some x ∧
      x ∈ hs ∧ x.set = s ∧ x.index = i ∧ x.ptr = r := by
  obtain ⟨⟨h, hm, hs', hi⟩, hptr⟩ := H 0 r c (by simp)
  cases hf : hs.find? (fun h => decide (h.set = s ∧ h.index = i)) with
  | none =>
    have := List.find?_eq_none.1 hf h hm
    simp [hs', hi] at this
  | some x =>
    have hx := List.find?_some hf
    have hxm := List.mem_of_find?_eq_some hf
    simp at hx
    exact ⟨x, rfl, hxm, hx.1, hx.2, hptr x hxm hx.1 (by simpa using hx.2)⟩

/-- the traced list is the list of pointers of the representatives -/
theorem repsFrom_ptr {hs : List Handle} {s i : Nat} {l : List Slot} (H : RepHyp hs s i l) :
    l.filterMap Slot.traced = (repsFrom hs s i l).map (·.ptr) := by
  induction l generalizing i with
  | nil => rfl
  | cons x l ih =>
    cases x with
    | vacant nf =>
      rw [List.filterMap_cons]
      simp only [Slot.traced, repsFrom]
      exact ih H.tail
    | occupied r c =>
      obtain ⟨x, hf, _, _, _, hp⟩ := repsFrom_head H
      rw [List.filterMap_cons]
      simp only [Slot.traced, repsFrom, hf, List.map_cons, ih H.tail, hp]

/-- every representative is a live handle of `s` whose index lies in the walked range -/
theorem repsFrom_mem {hs : List Handle} {s i : Nat} {l : List Slot} (H : RepHyp hs s i l) :
    ∀ x ∈ repsFrom hs s i l, x ∈ hs ∧ x.set = s ∧ i ≤ x.index ∧ x.index < i + l.length := by
  induction l generalizing i with
  | nil => intro x hx; simp [repsFrom] at hx
  | cons y l ih =>
    have step : ∀ x ∈ repsFrom hs s (i + 1) l,
        x ∈ hs ∧ x.set = s ∧ i ≤ x.index ∧ x.index < i + (y :: l).length := by
      intro x hx
      obtain ⟨a, b, c, d⟩ := ih H.tail x hx
      refine ⟨a, b, by omega, by simp; omega⟩
    cases y with
    | vacant nf => intro x hx; simp only [repsFrom] at hx; exact step x hx
    | occupied r c =>
      obtain ⟨x0, hf, hm0, hs0, hi0, _⟩ := repsFrom_head H
      intro x hx
      simp only [repsFrom, hf, List.mem_cons] at hx
      rcases hx with rfl | hx
      · exact ⟨hm0, hs0, by omega, by simp; omega⟩
      · exact step x hx

/-- one representative per slot -/
theorem repsFrom_nodup {hs : List Handle} {s i : Nat} {l : List Slot} (H : RepHyp hs s i l) :
    ((repsFrom hs s i l).map (·.index)).Nodup := by
  induction l generalizing i with
  | nil => simp [repsFrom]
  | cons y l ih =>
    cases y with
    | vacant nf => simp only [repsFrom]; exact ih H.tail
    | occupied r c =>
      obtain ⟨x0, hf, _, _, hi0, _⟩ := repsFrom_head H
      simp only [repsFrom, hf, List.map_cons]
      refine List.nodup_cons.2 ⟨?_, ih H.tail⟩
      intro hmem
      obtain ⟨x, hx, he⟩ := List.mem_map.1 hmem
      have := (repsFrom_mem H.tail x hx).2.2.1
      omega

/-- every occupied slot has its representative -/
theorem repsFrom_complete {hs : List Handle} {s i : Nat} {l : List Slot} (H : RepHyp hs s i l) :
    ∀ j r c, l[j]? = some (.occupied r c) → ∃ x ∈ repsFrom hs s i l, x.index = i + j := by
  induction l generalizing i with
  | nil => intro j r c hj; simp at hj
  | cons y l ih =>
    intro j r c hj
    have tailcase : ∀ j', j = j' + 1 → ∃ x ∈ repsFrom hs s (i + 1) l, x.index = i + j := by
      intro j' e
      subst e
      obtain ⟨x, hx, hi⟩ := ih H.tail j' r c (by simpa using hj)
      exact ⟨x, hx, by omega⟩
    cases y with
    | vacant nf =>
      cases j with
      | zero => simp at hj
      | succ j' =>
        obtain ⟨x, hx, hi⟩ := tailcase j' rfl
        exact ⟨x, by simp only [repsFrom]; exact hx, hi⟩
    | occupied r0 c0 =>
      obtain ⟨x0, hf, _, _, hi0, _⟩ := repsFrom_head H
      cases j with
      | zero => exact ⟨x0, by simp only [repsFrom, hf]; exact List.mem_cons_self .., by omega⟩
      | succ j' =>
        obtain ⟨x, hx, hi⟩ := tailcase j' rfl
        exact ⟨x, by simp only [repsFrom, hf, List.mem_cons]; exact .inr hx, hi⟩

/-- `SlotsOK` provides `RepHyp` for the whole table. -/
theorem SlotsOK.repHyp {s : Nat} {sl : Slots} {hs : List Handle} (ok : SlotsOK s sl hs) :
    RepHyp hs s 0 sl.slots := by
  intro j r c hj
  have hc := ok.count j r c hj
  have hp : 0 < cnt hs s j := by omega
  obtain ⟨h, hm, hs', hi⟩ := cnt_pos.1 hp
  refine ⟨⟨h, hm, hs', by omega⟩, ?_⟩
  intro h' hm' hs'' hi'
  obtain ⟨c', hv'⟩ := ok.occ h' hm' hs''
  have : h'.index = j := by omega
  rw [this, hj] at hv'
  simp at hv'
  exact hv'.1.symm

/-- the history used by the non-vacuity examples of Props/C14.lean: two stashes, a clone, the
first stash dropped completely, a third stash that reuses slot 0 -/
def demo : List Op :=
  [.newSet, .stash 0 7, .stash 0 8, .clone ⟨0, 0, 7, 0⟩, .dropHandle ⟨0, 0, 7, 0⟩,
   .dropHandle ⟨0, 0, 7, 0⟩, .stash 0 9]

end GcArena.DynRoots
