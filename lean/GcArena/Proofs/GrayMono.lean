import GcArena.Proofs.Quiet
/-!
  Mutator operations never remove pending marking work: every entry of the `gray` and
  `gray_again` queues stays queued and `root_needs_trace`, once set, stays set.  Only the
  collector (`mark_one`, the phase switches) pops a queue or clears the flag.  Consequently
  `Context::gray_remaining()` cannot go from `true` to `false` inside a callback, i.e. a callback
  never turns the observable phase Marking into Marked.

  No invariant is needed: the statement holds for every primitive in every state, including the
  faulting branches (`fail`) and rejected ops.
-/
namespace GcArena

/-- `c'` still has all the marking work `c` had. -/
structure GrayMono (c c' : Ctx) : Prop where
  gray : ∀ i, i ∈ c.gray → i ∈ c'.gray
  again : ∀ i, i ∈ c.grayAgain → i ∈ c'.grayAgain
  rnt : c.rootNeedsTrace = true → c'.rootNeedsTrace = true

theorem GrayMono.refl (c : Ctx) : GrayMono c c :=
  ⟨fun _ h => h, fun _ h => h, fun h => h⟩

theorem GrayMono.trans {a b c : Ctx} (h1 : GrayMono a b) (h2 : GrayMono b c) : GrayMono a c :=
  ⟨fun i h => h2.gray i (h1.gray i h), fun i h => h2.again i (h1.again i h), fun h => h2.rnt (h1.rnt h)⟩

/-- The common case: the three fields are untouched. -/
theorem GrayMono.ofEq {c c' : Ctx} (hg : c'.gray = c.gray) (ha : c'.grayAgain = c.grayAgain)
    (hr : c'.rootNeedsTrace = c.rootNeedsTrace) : GrayMono c c' :=
  ⟨fun i h => by rw [hg]; exact h, fun i h => by rw [ha]; exact h, fun h => by rw [hr]; exact h⟩

theorem isEmpty_false_of_mem {α} {l : List α} {x : α} (h : x ∈ l) : l.isEmpty = false := by
  cases l with
  | nil => cases h
  | cons _ _ => rfl

theorem exists_mem_of_isEmpty_false {α} {l : List α} (h : l.isEmpty = false) : ∃ x, x ∈ l := by
  cases l with
  | nil => cases h
  | cons a t => exact ⟨a, List.mem_cons_self⟩

/-- Pending work stays pending: `gray_remaining()` is preserved. -/
theorem GrayMono.grayRemaining {c c' : Ctx} (m : GrayMono c c') (h : c.grayRemaining = true) :
    c'.grayRemaining = true := by
  unfold Ctx.grayRemaining at h ⊢
  cases hr : c.rootNeedsTrace with
  | true => rw [m.rnt hr]; exact Bool.or_true _
  | false =>
    rw [hr, Bool.or_false] at h
    cases hg : c.gray.isEmpty with
    | false =>
      obtain ⟨x, hx⟩ := exists_mem_of_isEmpty_false hg
      rw [isEmpty_false_of_mem (m.gray x hx)]; rfl
    | true =>
      rw [hg] at h
      have ha : c.grayAgain.isEmpty = false := by
        cases hb : c.grayAgain.isEmpty with
        | false => rfl
        | true => rw [hb] at h; cases h
      obtain ⟨x, hx⟩ := exists_mem_of_isEmpty_false ha
      rw [isEmpty_false_of_mem (m.again x hx)]
      cases c'.gray.isEmpty <;> rfl

/-! ### Bookkeeping updates -/

theorem grayMono_fail (c : Ctx) (f : Fault) : GrayMono c (c.fail f) :=
  GrayMono.ofEq (Ctx.fail_gray c f) (Ctx.fail_grayAgain c f) (Ctx.fail_rnt c f)

theorem grayMono_step (c : Ctx) (ch : Char) : GrayMono c (c.step ch) := GrayMono.ofEq rfl rfl rfl

theorem grayMono_emit (c : Ctx) (e : Event) : GrayMono c (c.emit e) := GrayMono.ofEq rfl rfl rfl

theorem grayMono_withMetrics (c : Ctx) (f : Metrics → Metrics) : GrayMono c (c.withMetrics f) :=
  GrayMono.ofEq rfl rfl rfl

theorem grayMono_setObj (c : Ctx) (i : Nat) (o : Obj) : GrayMono c (c.setObj i o) :=
  GrayMono.ofEq rfl rfl rfl

theorem grayMono_setColor (c : Ctx) (i : Nat) (col : Color) : GrayMono c (c.setColor i col) := by
  unfold Ctx.setColor
  split
  · exact grayMono_setObj _ _ _
  · exact grayMono_fail _ _

/-! ### Allocation and stores -/

theorem grayMono_link (c : Ctx) (o : Obj) : GrayMono c (c.link o).1 := GrayMono.ofEq rfl rfl rfl

theorem grayMono_setSlot (c : Ctx) (p i : Nat) (v : Slot) : GrayMono c (Arena.setSlot c p i v) := by
  unfold Arena.setSlot
  split
  · exact grayMono_fail _ _
  · exact grayMono_setObj _ _ _

/-! ### Tracing -/

theorem trace_grayAgain (c : Ctx) (t : Nat) : (c.trace t).grayAgain = c.grayAgain := by
  unfold Ctx.trace
  split
  · simp
  · split <;> (try rfl)
    split <;> split <;> (try split) <;> simp

/-- `trace` only ever pushes onto the gray stack. -/
theorem trace_gray_mem (c : Ctx) (t j : Nat) (hj : j ∈ c.gray) : j ∈ (c.trace t).gray := by
  unfold Ctx.trace
  split
  · simpa using hj
  · split <;> (try exact hj)
    split <;> split <;> (try split) <;> simp [hj]

theorem grayMono_trace (c : Ctx) (t : Nat) : GrayMono c (c.trace t) :=
  ⟨fun j hj => trace_gray_mem c t j hj, fun j hj => by rw [trace_grayAgain]; exact hj,
   fun h => by rw [Ctx.trace_rnt]; exact h⟩

theorem traceWeak_gray (c : Ctx) (t : Nat) : (c.traceWeak t).gray = c.gray := by
  unfold Ctx.traceWeak
  split
  · simp
  · split <;> simp

theorem traceWeak_grayAgain (c : Ctx) (t : Nat) : (c.traceWeak t).grayAgain = c.grayAgain := by
  unfold Ctx.traceWeak
  split
  · simp
  · split <;> simp

theorem grayMono_traceWeak (c : Ctx) (t : Nat) : GrayMono c (c.traceWeak t) :=
  GrayMono.ofEq (traceWeak_gray c t) (traceWeak_grayAgain c t) (Ctx.traceWeak_rnt c t)

theorem grayMono_traceSlot (c : Ctx) (s : Slot) : GrayMono c (c.traceSlot s) := by
  unfold Ctx.traceSlot
  split
  · exact GrayMono.refl _
  · exact grayMono_trace _ _
  · exact grayMono_traceWeak _ _

/-! ### `make_gray_again` and the barriers -/

theorem makeGrayAgain_gray (c : Ctx) (t : Nat) : (c.makeGrayAgain t).gray = c.gray := by
  unfold Ctx.makeGrayAgain
  split
  · simp
  · simp only; split <;> simp

theorem makeGrayAgain_rnt (c : Ctx) (t : Nat) :
    (c.makeGrayAgain t).rootNeedsTrace = c.rootNeedsTrace := by
  unfold Ctx.makeGrayAgain
  split
  · simp
  · simp only; split <;> simp

/-- `make_gray_again` only ever pushes onto `gray_again`. -/
theorem makeGrayAgain_again_mem (c : Ctx) (t j : Nat) (hj : j ∈ c.grayAgain) :
    j ∈ (c.makeGrayAgain t).grayAgain := by
  unfold Ctx.makeGrayAgain
  split
  · simpa using hj
  · simp only; split <;> simp [hj]

theorem grayMono_makeGrayAgain (c : Ctx) (t : Nat) : GrayMono c (c.makeGrayAgain t) :=
  ⟨fun j hj => by rw [makeGrayAgain_gray]; exact hj, fun j hj => makeGrayAgain_again_mem c t j hj,
   fun h => by rw [makeGrayAgain_rnt]; exact h⟩

theorem grayMono_backwardBarrier (c : Ctx) (p : Nat) (ch : Option Nat) :
    GrayMono c (c.backwardBarrier p ch) := by
  unfold Ctx.backwardBarrier
  split
  · split
    · exact grayMono_fail _ _
    · split
      · split
        · exact grayMono_makeGrayAgain _ _
        · split
          · exact grayMono_fail _ _
          · split
            · exact grayMono_makeGrayAgain _ _
            · exact GrayMono.refl _
      · exact GrayMono.refl _
  · exact GrayMono.refl _

theorem grayMono_backwardBarrierWeak (c : Ctx) (p ch : Nat) :
    GrayMono c (c.backwardBarrierWeak p ch) := by
  unfold Ctx.backwardBarrierWeak
  split
  · split
    · exact grayMono_fail _ _
    · split
      · split
        · exact grayMono_fail _ _
        · split
          · exact grayMono_makeGrayAgain _ _
          · exact GrayMono.refl _
      · exact GrayMono.refl _
  · exact GrayMono.refl _

theorem grayMono_forwardBarrier (c : Ctx) (p : Option Nat) (ch : Nat) :
    GrayMono c (c.forwardBarrier p ch) := by
  unfold Ctx.forwardBarrier
  split
  · split
    · exact grayMono_trace _ _
    · split
      · exact grayMono_fail _ _
      · split
        · exact grayMono_trace _ _
        · exact GrayMono.refl _
  · exact GrayMono.refl _

theorem grayMono_forwardBarrierWeak (c : Ctx) (p : Option Nat) (ch : Nat) :
    GrayMono c (c.forwardBarrierWeak p ch) := by
  unfold Ctx.forwardBarrierWeak
  split
  · split
    · exact grayMono_traceWeak _ _
    · split
      · exact grayMono_fail _ _
      · split
        · exact grayMono_traceWeak _ _
        · exact GrayMono.refl _
  · exact GrayMono.refl _

/-! ### `upgrade`, `resurrect`, the root barrier -/

theorem grayMono_upgrade (c : Ctx) (w : Nat) : GrayMono c (c.upgrade w).1 := by
  unfold Ctx.upgrade
  split
  · exact grayMono_fail _ _
  · split
    · exact GrayMono.refl _
    · split <;> exact GrayMono.refl _

theorem resurrect_grayAgain (c : Ctx) (t : Nat) : (c.resurrect t).grayAgain = c.grayAgain := by
  unfold Ctx.resurrect
  split
  · simp
  · simp only
    (repeat' split) <;> simp

theorem resurrect_rnt (c : Ctx) (t : Nat) : (c.resurrect t).rootNeedsTrace = c.rootNeedsTrace := by
  unfold Ctx.resurrect
  split
  · simp
  · simp only
    (repeat' split) <;> simp

/-- `resurrect` only ever pushes onto the gray stack. -/
theorem resurrect_gray_mem (c : Ctx) (t j : Nat) (hj : j ∈ c.gray) : j ∈ (c.resurrect t).gray := by
  unfold Ctx.resurrect
  split
  · simpa using hj
  · simp only
    (repeat' split) <;> simp [hj]

theorem grayMono_resurrect (c : Ctx) (t : Nat) : GrayMono c (c.resurrect t) :=
  ⟨fun j hj => resurrect_gray_mem c t j hj, fun j hj => by rw [resurrect_grayAgain]; exact hj,
   fun h => by rw [resurrect_rnt]; exact h⟩

/-- `Context::root_barrier` sets `root_needs_trace`, never clears it. -/
theorem grayMono_rootBarrier (c : Ctx) : GrayMono c c.rootBarrier := by
  unfold Ctx.rootBarrier
  split
  · exact ⟨fun _ h => h, fun _ h => h, fun _ => rfl⟩
  · exact GrayMono.refl _

/-! ### Every mutator operation -/

theorem stepBody_grayMono (a : Arena) (fin : Bool) (op : Op) (hop : op.isMutator = true) :
    GrayMono a.ctx (a.stepBody fin op).1.ctx := by
  have rf := GrayMono.refl a.ctx
  cases op with
  | collect m k f o => simp [Op.isMutator] at hop
  | dropArena => simp [Op.isMutator] at hop
  | setPacing p => exact grayMono_withMetrics a.ctx (·.setPacing p)
  | adjustDebt x => exact grayMono_withMetrics a.ctx (·.adjustDebt x)
  | leave => simp only [Arena.stepBody]; split <;> exact rf
  | enter k =>
    simp only [Arena.stepBody]
    split
    · exact rf
    · cases k with
      | mutate => exact rf
      | mutateRoot => exact grayMono_rootBarrier _
      | finalize => simp only; split <;> exact rf
  | alloc nt slots =>
    simp only [Arena.stepBody]
    split
    · exact rf
    · split
      · exact rf
      · split
        · exact rf
        · simp only [quiet_push]; exact grayMono_link _ _
  | readRoot i =>
    simp only [Arena.stepBody]
    split
    · exact rf
    · split <;> first | exact rf | (simp only [quiet_push]; exact rf)
  | read p i =>
    simp only [Arena.stepBody]
    split
    · exact rf
    · split <;> first | exact rf | (simp only [quiet_push]; exact rf)
  | downgrade p =>
    simp only [Arena.stepBody]
    split
    · exact rf
    · simp only [quiet_push]; exact rf
  | upgrade w =>
    simp only [Arena.stepBody]
    split
    · exact rf
    · have hu := grayMono_upgrade a.ctx w
      generalize a.ctx.upgrade w = r at hu ⊢
      obtain ⟨c, ok⟩ := r
      simp only
      split
      · simp only [quiet_push]; exact hu
      · exact hu
  | isDropped w =>
    simp only [Arena.stepBody]
    split
    · exact rf
    · split
      · exact grayMono_fail _ _
      · exact rf
  | isDead p =>
    simp only [Arena.stepBody]
    split
    · exact rf
    · split
      · exact grayMono_fail _ _
      · exact rf
  | resurrect p =>
    simp only [Arena.stepBody]
    split
    · exact rf
    · cases p with
      | strong t => exact grayMono_resurrect _ _
      | weak t =>
        simp only
        split
        · exact grayMono_fail _ _
        · split
          · simp only [quiet_push]; exact grayMono_resurrect _ _
          · exact rf
  | barrier b =>
    simp only [Arena.stepBody]
    split
    · exact rf
    · cases b with
      | bb p c =>
        cases c with
        | none => simp only; split <;> first | exact rf | exact grayMono_backwardBarrier a.ctx p none
        | some c => simp only; split <;> first | exact rf | exact grayMono_backwardBarrier a.ctx p (some c)
      | bbw p c => simp only; split <;> first | exact rf | exact grayMono_backwardBarrierWeak a.ctx p c
      | fb p c =>
        cases p with
        | none => simp only; split <;> first | exact rf | exact grayMono_forwardBarrier a.ctx none c
        | some p => simp only; split <;> first | exact rf | exact grayMono_forwardBarrier a.ctx (some p) c
      | fbw p c =>
        cases p with
        | none => simp only; split <;> first | exact rf | exact grayMono_forwardBarrierWeak a.ctx none c
        | some p => simp only; split <;> first | exact rf | exact grayMono_forwardBarrierWeak a.ctx (some p) c
  | store path p i v =>
    simp only [Arena.stepBody]
    split
    · exact rf
    · split
      · exact rf
      · split
        · exact rf
        · cases path with
          | write => exact (grayMono_backwardBarrier _ p none).trans (grayMono_setSlot _ p i v)
          | raw =>
            simp only
            split
            · exact rf
            · exact grayMono_setSlot _ p i v
          | storeThenBarrier =>
            exact (grayMono_setSlot a.ctx p i v).trans (grayMono_backwardBarrier _ p none)
  | rootStore i v =>
    simp only [Arena.stepBody]
    split <;> exact rf

/-- No mutator operation removes pending marking work — in any state, accepted or rejected,
    faulting or not. -/
theorem step_grayMono (a : Arena) (op : Op) (hop : op.isMutator = true) :
    GrayMono a.ctx (a.step op).1.ctx := by
  unfold Arena.step
  split
  · exact GrayMono.refl _
  · exact stepBody_grayMono ({ a with marked := false } : Arena) a.marked op hop

/-- A callback — any sequence of mutator operations — never removes pending marking work. -/
theorem run_grayMono (a : Arena) (ops : List Op) (hops : ∀ op ∈ ops, op.isMutator = true) :
    GrayMono a.ctx (a.run ops).ctx := by
  induction ops generalizing a with
  | nil => exact GrayMono.refl _
  | cons op rest ih =>
    simp only [Arena.run]
    exact (step_grayMono a op (hops op List.mem_cons_self)).trans
      (ih (a.step op).1 (fun o ho => hops o (List.mem_cons_of_mem _ ho)))

end GcArena
