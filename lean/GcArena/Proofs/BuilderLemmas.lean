import GcArena.Model.Builder
import GcArena.Proofs.LayoutLemmas
/-!
  Helper definitions and lemmas for `GcArena.Props.C18`: the trace invariant of the builder state
  machine and the behaviour of `run` on the action sequences of the safe API.
-/
namespace GcArena.Builder

open GcArena.Layout

/-- The dealloc path recomputes the plan of the alloc path when it reads back the same
    metadata. -/
theorem gcDealloc_of_gcAlloc {maxSize : Nat} {hdr : Layout} {k : PtrKind} {ptrMeta : Nat}
    {p : Plan} (value : Nat) (h : gcAlloc maxSize hdr k ptrMeta = some p) :
    gcDealloc maxSize hdr k value ptrMeta = some (value - p.valueOff, p.alloc) := by
  obtain ⟨hm, hv, hp⟩ := gcAlloc_eq_some h
  unfold gcDealloc
  rw [hm, hv]
  simp only [hp]

theorem deallocEvents_of_gcAlloc {c : Cfg} {p : Plan}
    (h : gcAlloc c.maxSize c.hdr c.pk c.ptrMeta = some p) :
    deallocEvents c = [.deallocB p.alloc] := by
  unfold deallocEvents
  rw [gcDealloc_of_gcAlloc 0 h]

/-- The arena side is exactly as before the builder was created. -/
def Untouched (g a : Nat) (s : BState) : Prop :=
  s.gcs = g ∧ s.allocated = a ∧ s.onAllList = false ∧ s.live = false

/-- What the event trace and the arena side look like in each stage. -/
def BInv (c : Cfg) (g a : Nat) (s : BState) : Prop :=
  match s.stage with
  | .start => s.events = [] ∧ s.written = [] ∧ Untouched g a s
  | .failed => gcAlloc c.maxSize c.hdr c.pk c.ptrMeta = none ∧ s.events = [.panic] ∧
      s.written = [] ∧ Untouched g a s
  | .new => ∃ p, gcAlloc c.maxSize c.hdr c.pk c.ptrMeta = some p ∧
      s.events = [.allocB p.alloc] ∧ s.written = [] ∧ Untouched g a s
  | .headerWritten => ∃ p, gcAlloc c.maxSize c.hdr c.pk c.ptrMeta = some p ∧
      s.events = [.allocB p.alloc] ∧ s.written = [] ∧ Untouched g a s
  | .elems k => ∃ p, gcAlloc c.maxSize c.hdr c.pk c.ptrMeta = some p ∧
      s.events = [.allocB p.alloc] ∧ s.written.length = k ∧ 1 ≤ k ∧ k ≤ c.n ∧ Untouched g a s
  | .linked => ∃ p, gcAlloc c.maxSize c.hdr c.pk c.ptrMeta = some p ∧
      s.events = [.allocB p.alloc, .link] ∧ s.gcs = g + 1 ∧ s.allocated = a + 1 ∧
      s.onAllList = true ∧ s.live = true
  | .dropped => ∃ p, gcAlloc c.maxSize c.hdr c.pk c.ptrMeta = some p ∧ Untouched g a s ∧
      ∃ (pan : Bool) (init : Option Nat),
        s.events = [.allocB p.alloc] ++ (if pan then [.panic] else []) ++
          (match init with | some k => dropEvents k | none => []) ++ [.deallocB p.alloc] ∧
        (∀ k, init = some k → k = s.written.length ∧ k ≤ c.n)

theorem inv_initial (c : Cfg) (g a : Nat) : BInv c g a (initial g a) := by
  simp [BInv, initial, Untouched]

theorem inv_stick {c : Cfg} {g a : Nat} {s : BState} (h : BInv c g a s) : BInv c g a s.stick := h

theorem inv_abandon {c : Cfg} {g a : Nat} {s : BState} {p : Plan} (init : Option Nat) (pan : Bool)
    (hp : gcAlloc c.maxSize c.hdr c.pk c.ptrMeta = some p) (he : s.events = [.allocB p.alloc])
    (hu : Untouched g a s) (hi : ∀ k, init = some k → k = s.written.length ∧ k ≤ c.n) :
    BInv c g a (s.abandon c init pan) := by
  unfold BInv BState.abandon
  simp only
  refine ⟨p, hp, hu, pan, init, ?_, hi⟩
  cases init <;> simp [he, deallocEvents_of_gcAlloc hp]

theorem inv_link {c : Cfg} {g a : Nat} {s : BState} {p : Plan}
    (hp : gcAlloc c.maxSize c.hdr c.pk c.ptrMeta = some p) (he : s.events = [.allocB p.alloc])
    (hu : Untouched g a s) : BInv c g a s.link := by
  unfold BInv BState.link
  simp only
  obtain ⟨h1, h2, _, _⟩ := hu
  exact ⟨p, hp, by rw [he]; rfl, by rw [h1], by rw [h2], trivial, trivial⟩

/-- Every action preserves the invariant. -/
theorem inv_step (c : Cfg) (g a : Nat) (s : BState) (act : Action) (h : BInv c g a s) :
    BInv c g a (step c s act) := by
  unfold step
  split
  · exact h
  · cases act with
    | create =>
      simp only
      cases hs : s.stage <;> simp only <;> try exact inv_stick h
      unfold BInv at h
      rw [hs] at h
      obtain ⟨he, hw, hu⟩ := h
      cases hg : gcAlloc c.maxSize c.hdr c.pk c.ptrMeta with
      | none =>
        simp only [BInv]
        exact ⟨hg, by rw [he]; rfl, hw, hu⟩
      | some p =>
        simp only
        by_cases hk : c.kind = .slice ∨ c.kind = .str
        · simp only [BInv, if_pos hk]
          exact ⟨p, hg, by rw [he]; rfl, hw, hu⟩
        · simp only [BInv, if_neg hk]
          exact ⟨p, hg, by rw [he]; rfl, hw, hu⟩
    | writeHeader =>
      simp only
      cases hs : s.stage <;> simp only <;> try exact inv_stick h
      split
      · unfold BInv at h ⊢
        rw [hs] at h
        exact h
      · exact inv_stick h
    | writeElem v =>
      simp only
      split
      · cases hs : s.stage <;> simp only [Stage.initLen] <;> try exact inv_stick h
        · -- headerWritten
          split
          · unfold BInv at h ⊢
            rw [hs] at h
            obtain ⟨p, hp, he, hw, hu⟩ := h
            simp only
            exact ⟨p, hp, he, by rw [hw]; rfl, by omega, by omega, hu⟩
          · exact inv_stick h
        · -- elems k
          rename_i k
          split
          · unfold BInv at h ⊢
            rw [hs] at h
            obtain ⟨p, hp, he, hw, h1, h2, hu⟩ := h
            simp only
            exact ⟨p, hp, he, by simp [hw], by omega, by omega, hu⟩
          · exact inv_stick h
      · exact inv_stick h
    | ctorPanic =>
      simp only
      split
      · cases hs : s.stage <;> simp only [Stage.initLen] <;> try exact inv_stick h
        · split
          · unfold BInv at h
            rw [hs] at h
            obtain ⟨p, hp, he, hw, hu⟩ := h
            exact inv_abandon (some 0) true hp he hu (by
              intro k hk; cases hk; rw [hw]; exact ⟨rfl, Nat.zero_le _⟩)
          · exact inv_stick h
        · rename_i k
          split
          · unfold BInv at h
            rw [hs] at h
            obtain ⟨p, hp, he, hw, h1, h2, hu⟩ := h
            exact inv_abandon (some k) true hp he hu (by
              intro k' hk; cases hk; exact ⟨hw.symm, h2⟩)
          · exact inv_stick h
      · exact inv_stick h
    | finish =>
      simp only
      split
      · cases hs : s.stage <;> simp only [Stage.initLen] <;> try exact inv_stick h
        · split
          · unfold BInv at h
            rw [hs] at h
            obtain ⟨p, hp, he, hw, hu⟩ := h
            exact inv_link hp he hu
          · exact inv_stick h
        · split
          · unfold BInv at h
            rw [hs] at h
            obtain ⟨p, hp, he, hw, h1, h2, hu⟩ := h
            exact inv_link hp he hu
          · exact inv_stick h
      · exact inv_stick h
    | assumeInit =>
      simp only
      cases hs : s.stage <;> simp only <;> try exact inv_stick h
      · split
        · unfold BInv at h
          rw [hs] at h
          obtain ⟨p, hp, he, hw, hu⟩ := h
          exact inv_link hp he hu
        · exact inv_stick h
      · unfold BInv at h
        rw [hs] at h
        obtain ⟨p, hp, he, hw, hu⟩ := h
        exact inv_link hp he hu
    | write v =>
      simp only
      cases hs : s.stage <;> simp only <;> try exact inv_stick h
      split
      · unfold BInv at h
        rw [hs] at h
        obtain ⟨p, hp, he, hw, hu⟩ := h
        exact inv_link (s := { s with written := [v] }) hp he hu
      · exact inv_stick h
    | copy src =>
      simp only
      cases hs : s.stage <;> simp only <;> try exact inv_stick h
      unfold BInv at h
      rw [hs] at h
      obtain ⟨p, hp, he, hw, hu⟩ := h
      split
      · exact inv_link (s := { s with written := src }) hp he hu
      · exact inv_abandon (some 0) true hp he hu (by
          intro k hk; cases hk; rw [hw]; exact ⟨rfl, Nat.zero_le _⟩)
    | drop =>
      simp only
      cases hs : s.stage <;> simp only <;> try exact inv_stick h
      · unfold BInv at h
        rw [hs] at h
        obtain ⟨p, hp, he, hw, hu⟩ := h
        exact inv_abandon none false hp he hu (by intro k hk; cases hk)
      · unfold BInv at h
        rw [hs] at h
        obtain ⟨p, hp, he, hw, hu⟩ := h
        exact inv_abandon (some 0) false hp he hu (by
          intro k hk; cases hk; rw [hw]; exact ⟨rfl, Nat.zero_le _⟩)
      · rename_i k
        unfold BInv at h
        rw [hs] at h
        obtain ⟨p, hp, he, hw, h1, h2, hu⟩ := h
        exact inv_abandon (some k) false hp he hu (by
          intro k' hk; cases hk; exact ⟨hw.symm, h2⟩)

/-- The invariant holds after every sequence of client actions. -/
theorem inv_run (c : Cfg) (g a : Nat) (acts : List Action) (s : BState) (h : BInv c g a s) :
    BInv c g a (run c s acts) := by
  induction acts generalizing s with
  | nil => exact h
  | cons act acts ih => exact ih _ (inv_step c g a s act h)

/-- Stage of a `GcSliceWithHeaderSliceBuilder` whose `init_length` is `k`. -/
def stageOf : Nat → Stage
  | 0 => .headerWritten
  | k + 1 => .elems (k + 1)

theorem stageOf_initLen (k : Nat) : (stageOf k).initLen = some k := by
  cases k <;> rfl

/-- `write_slice_with` storing the elements `vs` one after the other. -/
theorem run_writeElems (c : Cfg) (hk : c.kind = .slice ∨ c.kind = .swh) (vs : List Nat)
    (rest : List Action) (s : BState) (k : Nat) (hs : s.stuck = false)
    (hst : s.stage = stageOf k) (hle : k + vs.length ≤ c.n) :
    run c s (vs.map .writeElem ++ rest) =
      run c { s with stage := stageOf (k + vs.length), written := s.written ++ vs } rest := by
  induction vs generalizing s k with
  | nil =>
    simp only [List.map_nil, List.nil_append, List.length_nil, Nat.add_zero, List.append_nil]
    rw [← hst]
  | cons v vs ih =>
    have hlt : k < c.n := by simp at hle; omega
    have hstep : step c s (.writeElem v) =
        { s with stage := stageOf (k + 1), written := s.written ++ [v] } := by
      unfold step
      simp only [hs, Bool.false_eq_true, if_false, if_pos hk, hst, stageOf_initLen, if_pos hlt]
      rfl
    simp only [List.map_cons, List.cons_append, run]
    rw [hstep, ih { s with stage := stageOf (k + 1), written := s.written ++ [v] } (k + 1) hs rfl
      (by simp at hle ⊢; omega)]
    simp only [List.length_cons, List.append_assoc, List.singleton_append]
    rw [show k + 1 + vs.length = k + (vs.length + 1) by omega]

/-- Each element of the initialised prefix is destructed exactly once, nothing beyond it, and the
    header exactly once. -/
theorem dropEvents_count (k i : Nat) :
    (dropEvents k).count (.dropElem i) = (if i < k then 1 else 0) ∧
      (dropEvents k).count .dropHeader = 1 ∧ Event.link ∉ dropEvents k ∧
      (∀ l, Event.deallocB l ∉ dropEvents k) ∧ (∀ l, Event.allocB l ∉ dropEvents k) := by
  unfold dropEvents
  refine ⟨?_, ?_, ?_, ?_, ?_⟩
  · rw [List.count_cons_of_ne (by simp)]
    induction k with
    | zero => simp
    | succ k ih =>
      rw [List.range_succ, List.map_append, List.count_append, ih]
      by_cases h : i = k
      · subst h; simp
      · have : ¬ (Event.dropElem k == Event.dropElem i) = true := by simp; omega
        simp [List.count_cons, this]
        by_cases h2 : i < k
        · simp [h2]; omega
        · simp [h2]; omega
  · rw [List.count_cons_self]
    have : ((List.range k).map Event.dropElem).count .dropHeader = 0 := by
      apply List.count_eq_zero.2
      simp
    rw [this]
  · simp
  · simp
  · simp

/-! ### builder episodes on one arena (C11: repeated faults) -/

/-- Run builder episodes one after another on the same arena: each episode is one builder
    (its configuration and everything the client does with it, faults included), started on the
    arena side (`total_gc_count`, allocations this cycle) the previous one left.  Returns the
    final arena side and the number of episodes that ended with a `Gc`. -/
def runEpisodes : Nat → Nat → Nat → List (Cfg × List Action) → Nat × Nat × Nat
  | g, a, l, [] => (g, a, l)
  | g, a, l, (c, acts) :: rest =>
    runEpisodes (run c (initial g a) acts).gcs (run c (initial g a) acts).allocated
      (if (run c (initial g a) acts).stage = .linked then l + 1 else l) rest

end GcArena.Builder
