import GcArena.Proofs.Basic
/-! The heap's size (the next fresh id) changes only in `link`: every other heap write targets an
    allocated cell. -/
namespace GcArena

theorem Heap.size_set_of_get {h : Heap} {i : Nat} {o : Obj} (hg : h.get i = some o) (v : Option Obj) :
    (h.set i v).size = h.size := by
  rw [Heap.size_set]
  have := Heap.lt_size_of_get h i o hg
  omega

namespace Ctx

theorem setObj_size {c : Ctx} {i : Nat} {o : Obj} (hg : c.heap.get i = some o) (o' : Obj) :
    (c.setObj i o').heap.size = c.heap.size := Heap.size_set_of_get hg _

theorem trace_size (c : Ctx) (t : Nat) : (c.trace t).heap.size = c.heap.size := by
  unfold Ctx.trace
  split
  · simp
  · rename_i o ho
    split <;> (try rfl)
    split <;> split <;> (try split) <;> simp [Ctx.setObj, Heap.size_set_of_get ho]

theorem traceWeak_size (c : Ctx) (t : Nat) : (c.traceWeak t).heap.size = c.heap.size := by
  unfold Ctx.traceWeak
  split
  · simp
  · rename_i o ho
    split <;> simp [Ctx.setObj, Heap.size_set_of_get ho]

theorem makeGrayAgain_size (c : Ctx) (t : Nat) : (c.makeGrayAgain t).heap.size = c.heap.size := by
  unfold Ctx.makeGrayAgain
  split
  · simp
  · rename_i o ho
    simp only
    split <;> simp [Ctx.setObj, Heap.size_set_of_get ho]

theorem traceSlot_size (c : Ctx) (s : Slot) : (c.traceSlot s).heap.size = c.heap.size := by
  unfold Ctx.traceSlot
  split
  · rfl
  · exact trace_size c _
  · exact traceWeak_size c _

theorem traceSlots_size (ss : List Slot) : ∀ c : Ctx, (c.traceSlots ss).heap.size = c.heap.size := by
  induction ss with
  | nil => intro c; rfl
  | cons s ss ih =>
    intro c
    simp only [Ctx.traceSlots, List.foldl_cons] at ih ⊢
    rw [ih, traceSlot_size]

theorem markObj_size (c : Ctx) (i : Nat) (f : Option Nat) : (c.markObj i f).1.heap.size = c.heap.size := by
  unfold Ctx.markObj
  simp only [withMetrics_heap]
  split
  · simp
  · rename_i o ho
    have hs : ((c.withMetrics Metrics.markGcTraced).setObj i { o with color := .black }).heap.size = c.heap.size :=
      Heap.size_set_of_get ho _
    split
    · simp only
      split <;> simp [traceSlots_size, hs]
    · simp only
      split <;> simp [traceSlots_size, makeGrayAgain_size, hs]

theorem markOne_size (c : Ctx) (root : List Slot) (f : Option Nat) :
    (c.markOne root f).1.heap.size = c.heap.size := by
  unfold Ctx.markOne
  split
  · rw [markObj_size]; rfl
  · split
    · rw [markObj_size]; rfl
    · split
      · split <;> simp [traceSlots_size]
      · rfl

theorem sweepOne_size (c : Ctx) : c.sweepOne.1.heap.size = c.heap.size := by
  unfold Ctx.sweepOne
  split
  · rfl
  · simp only [step_heap]
    split
    · simp
    · rename_i o ho
      split
      · split <;> simp [Heap.size_set_of_get ho]
      · split <;> simp [Ctx.setObj, Heap.size_set_of_get ho]
      · simp [Ctx.setObj, Heap.size_set_of_get ho]
      · simp

theorem resurrect_size (c : Ctx) (t : Nat) : (c.resurrect t).heap.size = c.heap.size := by
  unfold Ctx.resurrect
  split
  · simp
  · rename_i o ho
    simp only
    split
    · have : ∀ x : Ctx, x.heap = c.heap → (x.setObj t { o with color := .gray }).heap.size = c.heap.size := by
        intro x hx
        simp only [Ctx.setObj]
        rw [hx]; exact Heap.size_set_of_get ho _
      split <;> simp only [withMetrics_heap] <;> apply this <;> (split <;> split <;> simp)
    · split <;> split <;> simp

theorem backwardBarrier_size (c : Ctx) (p : Nat) (ch : Option Nat) :
    (c.backwardBarrier p ch).heap.size = c.heap.size := by
  unfold Ctx.backwardBarrier
  split
  · split
    · simp
    · split
      · split
        · exact makeGrayAgain_size c p
        · split
          · simp
          · split
            · exact makeGrayAgain_size c p
            · rfl
      · rfl
  · rfl

theorem backwardBarrierWeak_size (c : Ctx) (p ch : Nat) :
    (c.backwardBarrierWeak p ch).heap.size = c.heap.size := by
  unfold Ctx.backwardBarrierWeak
  split
  · split
    · simp
    · split
      · split
        · simp
        · split
          · exact makeGrayAgain_size c p
          · rfl
      · rfl
  · rfl

theorem forwardBarrier_size (c : Ctx) (p : Option Nat) (ch : Nat) :
    (c.forwardBarrier p ch).heap.size = c.heap.size := by
  unfold Ctx.forwardBarrier
  split
  · split
    · exact trace_size c ch
    · split
      · simp
      · split
        · exact trace_size c ch
        · rfl
  · rfl

theorem forwardBarrierWeak_size (c : Ctx) (p : Option Nat) (ch : Nat) :
    (c.forwardBarrierWeak p ch).heap.size = c.heap.size := by
  unfold Ctx.forwardBarrierWeak
  split
  · split
    · exact traceWeak_size c ch
    · split
      · simp
      · split
        · exact traceWeak_size c ch
        · rfl
  · rfl

end Ctx

theorem setSlot_size (c : Ctx) (p i : Nat) (v : Slot) : (Arena.setSlot c p i v).heap.size = c.heap.size := by
  unfold Arena.setSlot
  split
  · simp
  · rename_i o ho; exact Ctx.setObj_size ho _

end GcArena
