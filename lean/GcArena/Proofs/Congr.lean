import GcArena.Spec.Inv
/-!
  The invariant reads only some fields of the context: two contexts that agree on them satisfy it
  together.  Used for the bookkeeping-only updates (`steps`, `log`, metrics counters).
-/
namespace GcArena

/-- `c'` agrees with `c` on everything the invariant reads. -/
structure SameView (c c' : Ctx) : Prop where
  phase : c'.phase = c.phase
  heap : ∀ j, c'.heap.get j = c.heap.get j
  pre : c'.pre = c.pre
  rest : c'.rest = c.rest
  rnt : c'.rootNeedsTrace = c.rootNeedsTrace
  gray : c'.gray = c.gray
  grayAgain : c'.grayAgain = c.grayAgain
  err : c'.err = c.err
  underflow : c'.metrics.underflow = c.metrics.underflow
  total : c'.metrics.totalGcs = c.metrics.totalGcs

theorem SameView.refl (c : Ctx) : SameView c c := ⟨rfl, fun _ => rfl, rfl, rfl, rfl, rfl, rfl, rfl, rfl, rfl⟩

theorem SameView.safe {c c'} (s : SameView c c') (i : Nat) : Safe c' i ↔ Safe c i := by
  unfold Safe; simp only [s.heap, s.phase, s.rest]

theorem SameView.weakOK {c c'} (s : SameView c c') (i : Nat) : WeakOK c' i ↔ WeakOK c i := by
  unfold WeakOK; simp only [s.heap, s.phase, s.rest]

theorem SameView.ptrOK {c c'} (s : SameView c c') (p : Ptr) : PtrOK c' p ↔ PtrOK c p := by
  cases p with
  | strong i => exact s.safe i
  | weak i => exact s.weakOK i

theorem SameView.ptrMarked {c c'} (s : SameView c c') (p : Ptr) : PtrMarked c' p ↔ PtrMarked c p := by
  cases p <;> simp [PtrMarked, s.heap]

theorem SameView.coverOK {c c'} (s : SameView c c') (cv : Cover) : CoverOK c' cv ↔ CoverOK c cv := by
  cases cv <;> simp [CoverOK, s.heap, s.phase]

theorem CInvH.sameView {c c' : Ctx} {root temps hole} (h : CInvH c root temps hole)
    (s : SameView c c') : CInvH c' root temps hole := by
  constructor
  · rw [s.err]; exact h.noErr
  · rw [s.underflow]; exact h.noUnderflow
  · rw [s.phase]; exact h.notDrop
  · rw [s.pre, s.rest]; exact h.nodup
  · simp only [s.pre, s.rest, s.heap]; exact h.memAll
  · rw [s.phase, s.rest]; exact h.restNil
  · rw [s.total, s.pre, s.rest]; exact h.count
  · simp only [s.heap, s.gray, s.grayAgain]; exact h.grayQ
  · simp only [s.heap, s.gray, s.grayAgain]; exact h.qGray
  · rw [s.gray, s.grayAgain]; exact h.qNodup
  · rw [s.phase, s.gray, s.grayAgain]; exact h.qMark
  · simp only [s.phase, s.heap]; exact h.sleepWhite
  · rw [s.phase, s.rnt]; exact h.sleepRoot
  · rw [s.phase, s.rnt]; exact h.sweepRoot
  · simp only [s.phase, s.pre, s.heap]; exact h.preWhite
  · simp only [s.heap]; exact h.markedLive
  · simp only [s.heap]; exact h.deadNoSlots
  · simp only [s.heap]; exact h.leafNoPtr
  · simp only [s.phase, s.heap]
    intro hm i o ho hb hh p hp
    rw [s.ptrMarked]; exact h.tri hm i o ho hb hh p hp
  · rw [s.phase, s.rnt]
    intro hm hr p hp
    rw [s.ptrMarked]; exact h.triRoot hm hr p hp
  · simp only [s.heap]
    intro i o ho hs p hp
    rw [s.ptrOK]; rw [s.safe] at hs; exact h.closed i o ho hs p hp
  · intro p hp; rw [s.ptrOK]; exact h.rootOK p hp
  · intro p hp; rw [s.ptrOK]; exact h.tempsOK p hp

@[simp] theorem sameView_step (c : Ctx) (ch : Char) : SameView c (c.step ch) := by
  constructor <;> first | rfl | (intro _; rfl)

@[simp] theorem sameView_emit (c : Ctx) (e : Event) : SameView c (c.emit e) := by
  constructor <;> first | rfl | (intro _; rfl)

theorem sameView_withMetrics (c : Ctx) (f : Metrics → Metrics)
    (h1 : (f c.metrics).underflow = c.metrics.underflow)
    (h2 : (f c.metrics).totalGcs = c.metrics.totalGcs) : SameView c (c.withMetrics f) := by
  constructor <;> first | rfl | exact h1 | exact h2 | (intro _; rfl)

theorem SameView.trans {a b c : Ctx} (h1 : SameView a b) (h2 : SameView b c) : SameView a c :=
  ⟨h2.phase.trans h1.phase, fun j => (h2.heap j).trans (h1.heap j), h2.pre.trans h1.pre, h2.rest.trans h1.rest,
   h2.rnt.trans h1.rnt, h2.gray.trans h1.gray, h2.grayAgain.trans h1.grayAgain, h2.err.trans h1.err,
   h2.underflow.trans h1.underflow, h2.total.trans h1.total⟩

end GcArena
