import GcArena.Proofs.Exact
/-!
  Bridges between the API level (`Arena.step (.collect …)`, `Arena.run`) and the context level
  (`Ctx.doCollection`, `Ctx.micros`): whatever the method, continuation, fault position or oracle,
  a `.collect` op leaves root / temps / callback state alone and moves the context along a
  sequence of enabled micro-steps; and the exact result of the self-driven `finish_cycle` /
  `finish_marking` ops.
-/
namespace GcArena

theorem runCollector_reaches {a : Arena} (h : Inv a) (hcb : a.cb = none) {ru stop fault oracle c ex}
    (hr : a.runCollector ru stop fault oracle = some (c, ex)) : Reaches a.ctx a.root c := by
  have h0 : CInv a.ctx a.root [] := by have := h.cinv; rw [h.cbTemps hcb] at this; exact this
  unfold Arena.runCollector at hr
  cases oracle with
  | none =>
    simp only [Option.some.injEq] at hr
    have : c = (a.ctx.doCollection a.root ru stop fault).1 := by rw [hr]
    rw [this]
    exact doCollection_reaches h0
  | some ms =>
    simp only at hr
    split at hr
    · cases hr
    · rename_i c' hc'
      simp only [Option.some.injEq, Prod.mk.injEq] at hr
      rw [← hr.1]
      exact ⟨ms, hc'⟩

/-- What any `.collect` op does to the arena. -/
structure CollectRel (a a' : Arena) : Prop where
  root : a'.root = a.root
  temps : a'.temps = a.temps
  cb : a'.cb = a.cb
  alive : a'.alive = a.alive
  reach : ∃ ms, a.ctx.micros a.root ms = some a'.ctx ∧ (a.cb ≠ none → ms = [])

theorem Inv.cinv0 {a : Arena} (h : Inv a) (hcb : a.cb = none) : CInv a.ctx a.root [] := by
  have := h.cinv; rw [h.cbTemps hcb] at this; exact this

theorem step_collect_rel {a : Arena} (h : Inv a) (m : Method) (k : Cont) (f : TraceFault)
    (o : Option (List Micro)) : CollectRel a (a.step (.collect m k f o)).1 := by
  have hnot : (!a.alive) = false := by rw [h.alive]; rfl
  unfold Arena.step
  rw [hnot]
  simp only [Bool.false_eq_true, if_false]
  have hu := h.unmark
  have same : CollectRel a ({ a with marked := false } : Arena) :=
    ⟨rfl, rfl, rfl, rfl, [], rfl, fun _ => rfl⟩
  simp only [Arena.stepBody]
  split
  · exact same
  · rename_i hcb0
    have hcb : a.cb = none := by cases hc : a.cb <;> simp_all
    generalize Arena.splitOracle o k m = os
    cases hr : ({ a with marked := false } : Arena).runCollector (Arena.methodArgs m).1 (Arena.methodArgs m).2 f os.1 with
    | none => exact same
    | some res =>
      obtain ⟨c, ex⟩ := res
      simp only
      have r1 : Reaches a.ctx a.root c := runCollector_reaches hu hcb hr
      have hc := runCollector_inv hu hcb hr
      have ha := hu.afterCollect rfl hcb hc
      have e1 : CollectRel a ({ ({ a with marked := false } : Arena) with ctx := c, cover := [] } : Arena) := by
        obtain ⟨ms, hms⟩ := r1
        exact ⟨rfl, rfl, rfl, rfl, ms, hms, fun hne => absurd hcb hne⟩
      have mk : ∀ (k : Cont) (o2 : Option (List Micro)),
          CollectRel a (({ ({ a with marked := false } : Arena) with ctx := c, cover := [] } : Arena).marked? k o2).1 := by
        intro k o2
        unfold Arena.marked?
        split
        · cases k with
          | drop => exact e1
          | finalize => exact ⟨rfl, rfl, rfl, rfl, e1.reach⟩
          | sweep =>
            simp only
            split
            · exact e1
            · rename_i c' hss
              unfold Arena.startSweeping at hss
              split at hss
              · cases hss
              · rename_i c2 ex2 hr2
                split at hss
                · cases hss
                  have r2 := runCollector_reaches ha hcb hr2
                  obtain ⟨ms, hms⟩ := r1.trans r2
                  exact ⟨rfl, rfl, rfl, rfl, ms, hms, fun hne => absurd hcb hne⟩
                · cases hss
        · exact e1
      split
      · exact e1
      · split
        · exact e1
        · cases m with
          | markDebt => exact mk k os.2
          | finishMarking => exact mk k os.2
          | collectDebt => exact e1
          | cycleDebt => exact e1
          | finishCycle => exact e1

/-- The self-driven `finish_cycle` op outside callbacks: exactly `do_collection(Stop, FinishCycle)`
    on the context; root, temps and callback state untouched. -/
theorem step_finishCycle {a : Arena} (h : Inv a) (hcb : a.cb = none) (k : Cont) :
    (a.step (.collect .finishCycle k none none)).1 =
      { a with marked := false, ctx := (a.ctx.doCollection a.root .stop .finishCycle none).1, cover := [] } := by
  have hnot : (!a.alive) = false := by rw [h.alive]; rfl
  have hret := doCollection_returns (h.cinv0 hcb) .stop .finishCycle
  unfold Arena.step
  rw [hnot]
  simp only [Bool.false_eq_true, if_false, Arena.stepBody, hcb, Option.isSome_none, Arena.splitOracle,
    Arena.runCollector, Arena.methodArgs]
  rw [show (a.ctx.doCollection a.root .stop .finishCycle none) =
    ((a.ctx.doCollection a.root .stop .finishCycle none).1, (a.ctx.doCollection a.root .stop .finishCycle none).2) from rfl,
    hret]
  simp

/-- The self-driven `finish_marking` op outside callbacks, by what the client does with the
    result (`drop` it or keep it for `finalize`): the context is exactly
    `do_collection(Stop, FullyMarked)`'s. -/
theorem step_finishMarking_ctx {a : Arena} (h : Inv a) (hcb : a.cb = none) (k : Cont) (hk : k ≠ .sweep) :
    (a.step (.collect .finishMarking k none none)).1.ctx =
        (a.ctx.doCollection a.root .stop .fullyMarked none).1 ∧
    ((a.step (.collect .finishMarking k none none)).2 = "some" ↔
      Arena.isMarked (a.ctx.doCollection a.root .stop .fullyMarked none).1 = true) := by
  have hnot : (!a.alive) = false := by rw [h.alive]; rfl
  have hret := doCollection_returns (h.cinv0 hcb) .stop .fullyMarked
  unfold Arena.step
  rw [hnot]
  simp only [Bool.false_eq_true, if_false, Arena.stepBody, hcb, Option.isSome_none, Arena.splitOracle,
    Arena.runCollector, Arena.methodArgs]
  rw [show (a.ctx.doCollection a.root .stop .fullyMarked none) =
    ((a.ctx.doCollection a.root .stop .fullyMarked none).1, (a.ctx.doCollection a.root .stop .fullyMarked none).2) from rfl,
    hret]
  simp only [Arena.marked?]
  cases hm : Arena.isMarked (a.ctx.doCollection a.root .stop .fullyMarked none).1 with
  | true => cases k <;> simp_all
  | false => cases k <;> simp_all

/-- `finish_marking` from a state that is not Sweeping ends fully marked (context level; the
    API-level form is `C08.finish_marking_some_iff_run`). -/
theorem finishMarking_isMarked {c : Ctx} {root} (h : CInv c root []) (hp : c.phase ≠ .sweep) :
    Arena.isMarked (c.doCollection root .stop .fullyMarked none).1 = true := by
  have hret := doCollection_returns h .stop .fullyMarked
  unfold Ctx.doCollection at hret ⊢
  simp only [show (RunUntil.stop = RunUntil.payDebt) = False from by simp, decide_false, Bool.false_and,
    Bool.false_eq_true, if_false] at hret ⊢
  exact collectLoop_fullyMarked _ c false 0 h hp hret

/-- Two consecutive self-driven `finish_cycle` ops outside callbacks. -/
theorem run_finishCycle2 {a : Arena} (h : Inv a) (hcb : a.cb = none) (k1 k2 : Cont) :
    let a2 := a.run [.collect .finishCycle k1 none none, .collect .finishCycle k2 none none]
    a2.alive = true ∧ a2.root = a.root ∧ a2.cb = none ∧ a2.temps = a.temps ∧
    a2.ctx = ((a.ctx.doCollection a.root .stop .finishCycle none).1.doCollection a.root .stop .finishCycle none).1 := by
  have e1 := step_finishCycle h hcb k1
  have h1 : Inv (a.step (.collect .finishCycle k1 none none)).1 :=
    inv_step h _ (by rw [e1]; exact h.alive)
  have hcb1 : (a.step (.collect .finishCycle k1 none none)).1.cb = none := by rw [e1]; exact hcb
  have e2 := step_finishCycle h1 hcb1 k2
  simp only [Arena.run]
  rw [e2, e1]
  exact ⟨h.alive, rfl, hcb, rfl, rfl⟩

end GcArena
