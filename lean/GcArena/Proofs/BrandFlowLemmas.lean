import GcArena.Model.BrandFlow
/-!
# BrandFlow lemmas — no brand is ever chosen by the caller

For every table satisfying `Table.ok` (whatever its entries are): in every reachable state of the
calculus of `GcArena.Model.BrandFlow` every held brand is the brand of a callback that is currently
executing, and every call produces only brands of values it consumed.
-/
namespace GcArena.BrandFlow

theorem Table.sig_ok {T : Table} (h : T.ok = true) {s : Sig} (hs : s ∈ T.sigs) : s.ok = true := by
  simp only [Table.ok, Bool.and_eq_true, List.all_eq_true] at h
  exact h.2 s hs

theorem Sig.out_mem_in {s : Sig} (hok : s.ok = true) (hc : s.callable = true) {l : String}
    (hl : l ∈ s.outBrands) : l ∈ s.inBrands := by
  simp only [Sig.ok, hc, Bool.not_true, Bool.false_or, Sig.flowOk, Bool.and_eq_true,
    List.all_eq_true] at hok
  simpa using hok.1.1 l hl

theorem Sig.single {s : Sig} (hok : s.ok = true) (hc : s.callable = true) {l l' : String}
    (hl : l ∈ s.brands) (hl' : l' ∈ s.brands) : l = l' := by
  simp only [Sig.ok, hc, Bool.not_true, Bool.false_or, Sig.flowOk, Bool.and_eq_true,
    Sig.singleBrand, List.all_eq_true] at hok
  simpa using hok.2 l hl l' hl'

/-- The caller cannot choose: two instantiations that agree on the lifetimes of the inputs yield the
same output brands. -/
theorem outputs_determined {s : Sig} (hok : s.ok = true) (hc : s.callable = true) (σ σ' : Subst)
    (h : ∀ l ∈ s.inBrands, σ l = σ' l) : s.outBrands.map σ = s.outBrands.map σ' := by
  apply List.map_congr_left
  intro l hl
  exact h l (Sig.out_mem_in hok hc hl)

/-- Every brand a call produces is the brand of an input the call consumed. -/
theorem call_same_brand {s : Sig} (hok : s.ok = true) (hc : s.callable = true) (σ : Subst)
    {b : Brand} (hb : b ∈ s.outBrands.map σ) : ∃ l ∈ s.inBrands, σ l = b := by
  obtain ⟨l, hl, rfl⟩ := List.mem_map.mp hb
  exact ⟨l, Sig.out_mem_in hok hc hl, rfl⟩

/-- The same for everything a call hands out, references into the arena included. -/
theorem Sig.outHeld_mem_in {s : Sig} (hok : s.ok = true) (hc : s.callable = true) {l : String}
    (hl : l ∈ s.outHeld) : l ∈ s.inBrands := by
  rcases List.mem_append.mp hl with h | h
  · exact Sig.out_mem_in hok hc h
  · have hb : l ∈ s.brands := by simpa using (List.mem_filter.mp h).2
    rcases List.mem_append.mp hb with h' | h'
    · exact h'
    · exact Sig.out_mem_in hok hc h'

theorem call_held_same_brand {s : Sig} (hok : s.ok = true) (hc : s.callable = true) (σ : Subst)
    {b : Brand} (hb : b ∈ s.outHeld.map σ) : ∃ l ∈ s.inBrands, σ l = b := by
  obtain ⟨l, hl, rfl⟩ := List.mem_map.mp hb
  exact ⟨l, Sig.outHeld_mem_in hok hc hl, rfl⟩

/-- A call involves one arena only: all branded inputs and all branded results have the same brand. -/
theorem call_single_arena {s : Sig} (hok : s.ok = true) (hc : s.callable = true) (σ : Subst)
    {b b' : Brand} (hb : b ∈ s.brands.map σ) (hb' : b' ∈ s.brands.map σ) : b = b' := by
  obtain ⟨l, hl, rfl⟩ := List.mem_map.mp hb
  obtain ⟨l', hl', rfl⟩ := List.mem_map.mp hb'
  rw [Sig.single hok hc hl hl']

structure Inv (st : State) : Prop where
  held_active : ∀ b ∈ st.held, b ∈ st.active
  active_opened : ∀ b ∈ st.active, b ∈ st.opened
  nodup : st.active.Nodup

theorem inv_init : Inv State.init where
  held_active := fun _ hb => nomatch hb
  active_opened := fun _ hb => nomatch hb
  nodup := List.nodup_nil

theorem step_inv {T : Table} (hok : T.ok = true) {st st' : State} (hi : Inv st)
    (hs : Step T st st') : Inv st' := by
  cases hs with
  | enter b fresh =>
    refine ⟨?_, ?_, ?_⟩
    · intro x hx
      rcases List.mem_cons.mp hx with rfl | hx
      · exact List.mem_cons_self ..
      · exact List.mem_cons_of_mem _ (hi.held_active x hx)
    · intro x hx
      rcases List.mem_cons.mp hx with rfl | hx
      · exact List.mem_cons_self ..
      · exact List.mem_cons_of_mem _ (hi.active_opened x hx)
    · exact List.nodup_cons.mpr ⟨fun h => fresh (hi.active_opened b h), hi.nodup⟩
  | exit b rest top =>
    refine ⟨?_, ?_, ?_⟩
    · intro x hx
      have hx' := List.mem_filter.mp hx
      have hne : x ≠ b := by simpa using hx'.2
      have := hi.held_active x hx'.1
      rw [top] at this
      rcases List.mem_cons.mp this with h | h
      · exact absurd h hne
      · exact h
    · intro x hx
      apply hi.active_opened
      rw [top]
      exact List.mem_cons_of_mem _ hx
    · have := hi.nodup
      rw [top] at this
      exact (List.nodup_cons.mp this).2
  | call s σ mem callable inputs =>
    refine ⟨?_, hi.active_opened, hi.nodup⟩
    intro x hx
    rcases List.mem_append.mp hx with h | h
    · obtain ⟨l, hl, rfl⟩ := call_held_same_brand (Table.sig_ok hok mem) callable σ h
      exact hi.held_active _ (inputs l hl)
    · exact hi.held_active x h
  | forget held' sub =>
    exact ⟨fun x hx => hi.held_active x (sub x hx), hi.active_opened, hi.nodup⟩

theorem reachable_inv {T : Table} (hok : T.ok = true) {st : State} (hr : Reachable T st) : Inv st := by
  induction hr with
  | init => exact inv_init
  | step _ hs ih => exact step_inv hok ih hs

/-- After the innermost callback has returned its brand is gone for good: it is neither active nor
held, and can never be introduced again. -/
theorem exit_kills_brand {T : Table} (hok : T.ok = true) {st : State} (hr : Reachable T st)
    (b : Brand) (rest : List Brand) (top : st.active = b :: rest) :
    b ∉ rest ∧ b ∉ st.held.filter (· != b) ∧ b ∈ st.opened := by
  have hi := reachable_inv hok hr
  have hn := hi.nodup
  rw [top] at hn
  refine ⟨(List.nodup_cons.mp hn).1, ?_, hi.active_opened b (by rw [top]; exact List.mem_cons_self ..)⟩
  intro h
  have := (List.mem_filter.mp h).2
  simp at this

/-! ## "For good": what happens after a callback has returned -/

/-- Any number of further steps. -/
inductive Steps (T : Table) : State → State → Prop where
  | refl (st : State) : Steps T st st
  | tail {st st' st'' : State} : Steps T st st' → Step T st' st'' → Steps T st st''

theorem reachable_steps {T : Table} {st st' : State} (hr : Reachable T st) (hs : Steps T st st') :
    Reachable T st' := by
  induction hs with
  | refl => exact hr
  | tail _ h ih => exact .step ih h

/-- A brand that was opened and is no longer active stays that way: it can never be re-entered
(`enter` needs a brand that was never opened), `opened` only grows and only `enter` extends
`active`. -/
theorem step_dead {T : Table} {st st' : State} {b : Brand} (ho : b ∈ st.opened) (hna : b ∉ st.active)
    (hs : Step T st st') : b ∈ st'.opened ∧ b ∉ st'.active := by
  cases hs with
  | enter b' fresh =>
    refine ⟨List.mem_cons_of_mem _ ho, ?_⟩
    intro h
    rcases List.mem_cons.mp h with rfl | h
    · exact fresh ho
    · exact hna h
  | exit b' rest top =>
    refine ⟨ho, ?_⟩
    intro h
    exact hna (by rw [top]; exact List.mem_cons_of_mem _ h)
  | call s σ mem callable inputs => exact ⟨ho, hna⟩
  | forget held' sub => exact ⟨ho, hna⟩

theorem steps_dead {T : Table} {st st' : State} {b : Brand} (ho : b ∈ st.opened) (hna : b ∉ st.active)
    (hs : Steps T st st') : b ∈ st'.opened ∧ b ∉ st'.active := by
  induction hs with
  | refl => exact ⟨ho, hna⟩
  | tail _ h ih => exact step_dead ih.1 ih.2 h

/-- **The escape clause over the programs of the flow model** (every table with `Table.ok`).
In every reachable state:

1. *outlive / `'static` location*: whatever the program holds has the brand of a callback that is
   executing right now, and that brand was introduced by a callback – never `'static`, never an
   outer region;
2. *return from the callback*: when the innermost callback returns, nothing of its brand is left,
   and in **every** later state of the program the brand is neither held nor active again;
3. *different arena*: every call the program can make now involves one brand only – all branded
   inputs and all branded results have the same brand – and it is the brand of an executing
   callback;
4. *pointers and references alike*: everything such a call hands out that belongs to an arena –
   `Gc` / `GcWeak` / context / root-set values and the references `&'gc T`, `&'gc Write<T>`,
   `Ref<'gc, T>` (`Sig.outHeld`) – has the brand of a held value the call consumed. -/
theorem no_escape_of_table_ok {T : Table} (hok : T.ok = true) {st : State} (hr : Reachable T st) :
    (∀ b ∈ st.held, b ∈ st.active ∧ b ∈ st.opened) ∧
    (∀ (b : Brand) (rest : List Brand), st.active = b :: rest →
      ∀ st', Steps T { st with active := rest, held := st.held.filter (· != b) } st' →
        b ∉ st'.held ∧ b ∉ st'.active) ∧
    (∀ (s : Sig) (σ : Subst), s ∈ T.sigs → s.callable = true → (∀ l ∈ s.inBrands, σ l ∈ st.held) →
      ∀ b ∈ s.brands.map σ, b ∈ st.active ∧ ∀ b' ∈ s.brands.map σ, b' = b) ∧
    (∀ (s : Sig) (σ : Subst), s ∈ T.sigs → s.callable = true → (∀ l ∈ s.inBrands, σ l ∈ st.held) →
      ∀ b ∈ s.outHeld.map σ, ∃ l ∈ s.inBrands, σ l = b ∧ b ∈ st.held) := by
  have hi := reachable_inv hok hr
  refine ⟨fun b hb => ⟨hi.held_active b hb, hi.active_opened b (hi.held_active b hb)⟩, ?_, ?_, ?_⟩
  · intro b rest top st' hs
    have hex : Step T st { st with active := rest, held := st.held.filter (· != b) } :=
      .exit st b rest top
    have hk := exit_kills_brand hok hr b rest top
    have hd := steps_dead (T := T) (st := { st with active := rest, held := st.held.filter (· != b) })
      (b := b) hk.2.2 hk.1 hs
    have hi' := reachable_inv hok (reachable_steps (.step hr hex) hs)
    exact ⟨fun h => hd.2 (hi'.held_active b h), hd.2⟩
  · intro s σ mem hc inputs b hb
    have hs := Table.sig_ok hok mem
    have hact : b ∈ st.active := by
      obtain ⟨l, hl, rfl⟩ := List.mem_map.mp hb
      rcases List.mem_append.mp hl with hin | hout
      · exact hi.held_active _ (inputs l hin)
      · exact hi.held_active _ (inputs l (Sig.out_mem_in hs hc hout))
    exact ⟨hact, fun b' hb' => call_single_arena hs hc σ hb' hb⟩
  · intro s σ mem hc inputs b hb
    obtain ⟨l, hl, rfl⟩ := call_held_same_brand (Table.sig_ok hok mem) hc σ hb
    exact ⟨l, hl, rfl, inputs l hl⟩

end GcArena.BrandFlow
