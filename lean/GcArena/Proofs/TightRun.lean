import GcArena.Proofs.ProtRun
/-!
  Tightness of marking (Proofs/Tight) along histories without mutation: collection calls of every
  kind interleaved with *observer* operations — callbacks that only read.
-/
namespace GcArena

/-- Operations that change neither the heap nor the root: entering / leaving callbacks, reads,
    `downgrade`, `upgrade`, `is_dropped`, `is_dead`, pacing and debt knobs.
    `enter mutateRoot` counts as an observer although `mutate_root` calls `root_barrier()`: that
    only sets `root_needs_trace` (Marked → Marking, the root is traced once more); it changes no
    object, no colour, no list and not the root, which is all `Tight` and reachability read
    (`stepBody_observer`: `HeapView` + same root).  An *actual* replacement of a root field is
    `rootStore`, which is not an observer.  Re-tracing an unchanged root marks only what is
    reachable, so tightness survives (`markOne_tight` covers the root trace). -/
def Op.isObserver : Op → Bool
  | .setPacing _ | .adjustDebt _ | .enter _ | .leave | .readRoot _ | .read _ _ | .downgrade _
  | .upgrade _ | .isDropped _ | .isDead _ => true
  | _ => false

theorem Op.isObserver_mutator {op : Op} (h : op.isObserver = true) : op.isMutator = true := by
  cases op <;> simp_all [Op.isObserver, Op.isMutator]

/-- `c'` shows the same heap, phase and list as `c`. -/
structure HeapView (c c' : Ctx) : Prop where
  heap : ∀ j, c'.heap.get j = c.heap.get j
  phase : c'.phase = c.phase
  pre : c'.pre = c.pre

theorem HeapView.refl (c : Ctx) : HeapView c c := ⟨fun _ => rfl, rfl, rfl⟩

theorem Tight.ofView {c c' : Ctx} {root} (h : CInv c root []) (v : HeapView c c') (t : Tight c root) :
    Tight c' root := by
  refine Tight.transfer (sameReach_ofHeap h v.heap) (t.tm.ofHeap v.heap) ?_
  intro hp i hi o ho
  rw [v.pre] at hi
  rw [v.heap] at ho
  exact t.kept (by rw [← v.phase]; exact hp) i hi o ho

theorem stepBody_observer {a : Arena} (fin : Bool) (op : Op) (hop : op.isObserver = true) :
    HeapView a.ctx (a.stepBody fin op).1.ctx ∧ (a.stepBody fin op).1.root = a.root := by
  have rf : HeapView a.ctx a.ctx ∧ a.root = a.root := ⟨HeapView.refl _, rfl⟩
  have failv : ∀ f, HeapView a.ctx (a.ctx.fail f) := fun f => ⟨fun _ => by simp, by simp, by simp⟩
  cases op with
  | setPacing p => exact ⟨⟨fun _ => rfl, rfl, rfl⟩, rfl⟩
  | adjustDebt x => exact ⟨⟨fun _ => rfl, rfl, rfl⟩, rfl⟩
  | leave => simp only [Arena.stepBody]; split <;> exact rf
  | enter k =>
    simp only [Arena.stepBody]
    split
    · exact rf
    · cases k with
      | mutate => exact rf
      | mutateRoot =>
        refine ⟨?_, rfl⟩
        show HeapView a.ctx a.ctx.rootBarrier
        unfold Ctx.rootBarrier
        split
        · exact ⟨fun _ => rfl, rfl, rfl⟩
        · exact HeapView.refl _
      | finalize => simp only; split <;> exact rf
  | readRoot i =>
    simp only [Arena.stepBody]
    split
    · exact rf
    · split
      · exact rf
      · exact rf
      · rw [(a.push_spec _).1, (a.push_spec _).2.1]; exact rf
  | read p i =>
    simp only [Arena.stepBody]
    split
    · exact rf
    · split
      · exact rf
      · exact rf
      · rw [(a.push_spec _).1, (a.push_spec _).2.1]; exact rf
  | downgrade p =>
    simp only [Arena.stepBody]
    split
    · exact rf
    · rw [(a.push_spec _).1, (a.push_spec _).2.1]; exact rf
  | upgrade w =>
    simp only [Arena.stepBody]
    split
    · exact rf
    · have hu : HeapView a.ctx (a.ctx.upgrade w).1 := by
        unfold Ctx.upgrade
        split
        · exact failv _
        · split
          · exact HeapView.refl _
          · split <;> exact HeapView.refl _
      generalize a.ctx.upgrade w = r at hu ⊢
      obtain ⟨c, ok⟩ := r
      simp only
      split
      · obtain ⟨e1, e2, _⟩ := ({ a with ctx := c } : Arena).push_spec (.strong w)
        rw [e1, e2]; exact ⟨hu, rfl⟩
      · exact ⟨hu, rfl⟩
  | isDropped w =>
    simp only [Arena.stepBody]
    split
    · exact rf
    · split
      · exact ⟨failv _, rfl⟩
      · exact rf
  | isDead p =>
    simp only [Arena.stepBody]
    split
    · exact rf
    · split
      · exact ⟨failv _, rfl⟩
      · exact rf
  | _ => simp [Op.isObserver] at hop

theorem step_observer {a : Arena} (halive : a.alive = true) (op : Op) (hop : op.isObserver = true) :
    HeapView a.ctx (a.step op).1.ctx ∧ (a.step op).1.root = a.root := by
  have hnot : (!a.alive) = false := by rw [halive]; rfl
  unfold Arena.step
  rw [hnot]
  simp only [Bool.false_eq_true, if_false]
  exact stepBody_observer (a := ({ a with marked := false } : Arena)) a.marked op hop

/-- Asleep, or tight. -/
def TightOrAsleep (a : Arena) : Prop := a.ctx.phase ≠ .sleep → Tight a.ctx a.root

theorem step_tightOrAsleep {a : Arena} (h : Inv a) (op : Op) (hal : (a.step op).1.alive = true)
    (hop : op.isObserver = true ∨ op.isMutator = false) (t : TightOrAsleep a) :
    TightOrAsleep (a.step op).1 := by
  have h1 := inv_step h op hal
  rcases step_kind h op hal with hm | rel
  · -- a mutator op: it must be an observer
    have hobs : op.isObserver = true := by
      rcases hop with ho | ho
      · exact ho
      · rw [hm] at ho; cases ho
    obtain ⟨v, hroot⟩ := step_observer h.alive op hobs
    intro hp
    rw [hroot]
    -- `Tight` reads heap, phase, `pre` and the root only; the held pointers are irrelevant
    have t0 := t (by rw [← v.phase]; exact hp)
    have sr : SameReach a.ctx (a.step op).1.ctx a.root := by
      have hr : ∀ i, StrongReachC (a.step op).1.ctx a.root i ↔ StrongReachC a.ctx a.root i := by
        intro i
        constructor
        · intro hi
          induction hi with
          | root t ht => exact .root t ht
          | temp t ht => cases ht
          | edge j t _ e ih => obtain ⟨o, ho, hs⟩ := e; exact .edge j t ih ⟨o, by rw [← v.heap]; exact ho, hs⟩
        · intro hi
          induction hi with
          | root t ht => exact .root t ht
          | temp t ht => cases ht
          | edge j t _ e ih => obtain ⟨o, ho, hs⟩ := e; exact .edge j t ih ⟨o, by rw [v.heap]; exact ho, hs⟩
      refine ⟨hr, fun i => ?_⟩
      constructor
      · rintro (hw | ⟨j, oj, hj, hoj, hw⟩)
        · exact Or.inl hw
        · exact Or.inr ⟨j, oj, (hr j).mp hj, by rw [← v.heap]; exact hoj, hw⟩
      · rintro (hw | ⟨j, oj, hj, hoj, hw⟩)
        · exact Or.inl hw
        · exact Or.inr ⟨j, oj, (hr j).mpr hj, by rw [v.heap]; exact hoj, hw⟩
    refine Tight.transfer sr (t0.tm.ofHeap v.heap) ?_
    intro hp' i hi o ho
    rw [v.pre] at hi
    rw [v.heap] at ho
    exact t0.kept (by rw [← v.phase]; exact hp') i hi o ho
  · obtain ⟨ms, hms, hnil⟩ := rel.reach
    by_cases hcb : a.cb = none
    · unfold TightOrAsleep
      rw [rel.root]
      exact micros_tight ms (h.cinv0 hcb) t hms
    · have := hnil hcb
      subst this
      simp only [Ctx.micros, Option.some.injEq] at hms
      unfold TightOrAsleep
      rw [← hms, rel.root]
      exact t

theorem run_tightOrAsleep (ops : List Op) : ∀ (a : Arena), Inv a → (a.run ops).alive = true →
    (∀ op, op ∈ ops → op.isObserver = true ∨ op.isMutator = false) → TightOrAsleep a →
    TightOrAsleep (a.run ops) ∧ Inv (a.run ops) := by
  induction ops with
  | nil => intro a h _ _ t; exact ⟨t, h⟩
  | cons op ops ih =>
    intro a h hal hops t
    simp only [Arena.run] at hal ⊢
    have hal1 := alive_of_run_alive hal
    exact ih _ (inv_step h op hal1) hal (fun o ho => hops o (List.mem_cons_of_mem _ ho))
      (step_tightOrAsleep h op hal1 (hops op (by simp)) t)

end GcArena
