import GcArena.Proofs.Events
import GcArena.Proofs.Size
/-!
  Mutator operations are silent: no op other than a collection call or dropping the arena emits a
  `dropped` / `freed` event, destructs a value or releases a block.
-/
namespace GcArena

/-- `c'` emitted nothing relative to `c` and keeps every allocation with its liveness; the only
    new cells are fresh, live objects at the ids from `c.heap.size` on (allocation). -/
structure Quiet (c c' : Ctx) : Prop where
  log : c'.log = c.log
  phase : c'.phase = c.phase
  keep : ∀ i o, c.heap.get i = some o → ∃ o', c'.heap.get i = some o' ∧ o'.live = o.live
  sizeLe : c.heap.size ≤ c'.heap.size
  noNew : ∀ i o', c'.heap.get i = some o' →
    (∃ o, c.heap.get i = some o) ∨ (c.heap.size ≤ i ∧ o'.live = true)
  noGap : ∀ i, c.heap.size ≤ i → i < c'.heap.size → ∃ o', c'.heap.get i = some o'

/-- The common case: no allocation at all. -/
theorem Quiet.ofSame {c c' : Ctx} (log : c'.log = c.log) (phase : c'.phase = c.phase)
    (keep : ∀ i o, c.heap.get i = some o → ∃ o', c'.heap.get i = some o' ∧ o'.live = o.live)
    (size : c'.heap.size = c.heap.size) (noNew : ∀ i o', c'.heap.get i = some o' → ∃ o, c.heap.get i = some o) :
    Quiet c c' :=
  ⟨log, phase, keep, by omega, fun i o' h => Or.inl (noNew i o' h), fun i h1 h2 => by omega⟩

theorem Quiet.refl (c : Ctx) : Quiet c c :=
  Quiet.ofSame rfl rfl (fun _ o ho => ⟨o, ho, rfl⟩) rfl (fun _ o' ho' => ⟨o', ho'⟩)

theorem Quiet.trans {a b c : Ctx} (h1 : Quiet a b) (h2 : Quiet b c) : Quiet a c := by
  refine ⟨h2.log.trans h1.log, h2.phase.trans h1.phase, ?_, Nat.le_trans h1.sizeLe h2.sizeLe, ?_, ?_⟩
  · intro i o ho
    obtain ⟨o1, ho1, hl1⟩ := h1.keep i o ho
    obtain ⟨o2, ho2, hl2⟩ := h2.keep i o1 ho1
    exact ⟨o2, ho2, hl2.trans hl1⟩
  · intro i o2 ho2
    rcases h2.noNew i o2 ho2 with ⟨o1, ho1⟩ | ⟨hsz, hl⟩
    · rcases h1.noNew i o1 ho1 with ⟨o, ho⟩ | ⟨hsz, hl⟩
      · exact Or.inl ⟨o, ho⟩
      · obtain ⟨o2', ho2', hl2⟩ := h2.keep i o1 ho1
        rw [ho2] at ho2'; cases ho2'
        exact Or.inr ⟨hsz, hl2.trans hl⟩
    · exact Or.inr ⟨Nat.le_trans h1.sizeLe hsz, hl⟩
  · intro i hlo hhi
    by_cases hb : i < b.heap.size
    · obtain ⟨o1, ho1⟩ := h1.noGap i hlo hb
      obtain ⟨o2, ho2, _⟩ := h2.keep i o1 ho1
      exact ⟨o2, ho2⟩
    · exact h2.noGap i (by omega) hhi

theorem MarkMono.quiet {c c' : Ctx} (m : MarkMono c c') (hs : c'.heap.size = c.heap.size) : Quiet c c' :=
  Quiet.ofSame m.log m.phase
    (fun i o ho => by obtain ⟨o', ho', _, _, hl, _⟩ := m.mono i o ho; exact ⟨o', ho', hl⟩) hs m.noNew

theorem quiet_of_heap_log {c c' : Ctx} (hh : c'.heap = c.heap) (hl : c'.log = c.log)
    (hp : c'.phase = c.phase := by first | rfl | simp) : Quiet c c' :=
  Quiet.ofSame hl hp (fun i o ho => ⟨o, by rw [hh]; exact ho, rfl⟩) (by rw [hh])
    (fun i o' ho' => ⟨o', by rw [← hh]; exact ho'⟩)

theorem quiet_setSlot (c : Ctx) (p i : Nat) (v : Slot) : Quiet c (Arena.setSlot c p i v) := by
  refine Quiet.ofSame ?_ ?_ ?_ (setSlot_size c p i v) ?_
  all_goals unfold Arena.setSlot
  · split <;> simp
  · split <;> simp
  · intro j oj hoj
    cases hg : c.heap.get p with
    | none => exact ⟨oj, by simpa using hoj, rfl⟩
    | some o =>
      simp only
      by_cases hj : j = p
      · subst hj; rw [hg] at hoj; cases hoj
        exact ⟨{ oj with slots := oj.slots.set i v }, by simp, rfl⟩
      · exact ⟨oj, by simp [hj, hoj], rfl⟩
  · intro j oj' hoj'
    cases hg : c.heap.get p with
    | none => rw [hg] at hoj'; exact ⟨oj', by simpa using hoj'⟩
    | some o =>
      rw [hg] at hoj'
      simp only [Ctx.setObj_get] at hoj'
      by_cases hj : j = p
      · subst hj; exact ⟨o, hg⟩
      · simp only [hj, if_false] at hoj'; exact ⟨oj', hoj'⟩

theorem quiet_link (c : Ctx) (o : Obj) (hl : o.live = true) : Quiet c (c.link o).1 := by
  have hget : ∀ j, (c.link o).1.heap.get j = if j = c.heap.fresh then some o else c.heap.get j := by
    intro j; simp [Ctx.link, Heap.get_set]
  have hsize : (c.link o).1.heap.size = c.heap.size + 1 := by
    simp only [Ctx.link]
    rw [Heap.size_set]; simp [Heap.fresh]
  refine ⟨rfl, rfl, ?_, by omega, ?_, ?_⟩
  · intro j oj hoj
    have : j ≠ c.heap.fresh := by intro he; rw [he, Heap.get_fresh] at hoj; cases hoj
    exact ⟨oj, by rw [hget]; simp [this, hoj], rfl⟩
  · intro j oj' hoj'
    rw [hget] at hoj'
    by_cases hj : j = c.heap.fresh
    · subst hj; simp at hoj'; subst hoj'
      exact Or.inr ⟨Nat.le_refl _, hl⟩
    · simp only [hj, if_false] at hoj'; exact Or.inl ⟨oj', hoj'⟩
  · intro j hlo hhi
    have : j = c.heap.fresh := by simp only [Heap.fresh]; omega
    subst this
    exact ⟨o, by rw [hget]; simp⟩

theorem quiet_push (a : Arena) (p : Ptr) : (a.push p).ctx = a.ctx := (a.push_spec p).1

theorem makeGrayAgain_log (c : Ctx) (t : Nat) : (c.makeGrayAgain t).log = c.log := by
  unfold Ctx.makeGrayAgain
  split
  · simp
  · simp only; split <;> simp

theorem makeGrayAgain_phase (c : Ctx) (t : Nat) : (c.makeGrayAgain t).phase = c.phase := by
  unfold Ctx.makeGrayAgain
  split
  · simp
  · simp only; split <;> simp

theorem backwardBarrier_none_def (c : Ctx) (p : Nat) :
    c.backwardBarrier p none =
      if c.phase = .mark then
        (match c.heap.get p with
         | none => c.fail .dangling
         | some po => if po.color = .black then c.makeGrayAgain p else c)
      else c := by
  unfold Ctx.backwardBarrier
  rfl

/-- The parent-only backward barrier is quiet in any state (it only recolours / queues). -/
theorem quiet_backwardBarrier_none (c : Ctx) (p : Nat) : Quiet c (c.backwardBarrier p none) := by
  refine Quiet.ofSame ?_ ?_ ?_ (Ctx.backwardBarrier_size c p none) ?_
  all_goals rw [backwardBarrier_none_def]
  · split
    · split
      · simp
      · split
        · exact makeGrayAgain_log c p
        · rfl
    · rfl
  · split
    · split
      · simp
      · split
        · exact makeGrayAgain_phase c p
        · rfl
    · rfl
  · intro j oj hoj
    split
    · split
      · exact ⟨oj, by simpa using hoj, rfl⟩
      · rename_i po hpo
        split
        · unfold Ctx.makeGrayAgain
          simp only [hpo]
          by_cases hj : j = p
          · subst hj; rw [hpo] at hoj; cases hoj
            exact ⟨{ oj with color := .gray }, by split <;> simp, rfl⟩
          · exact ⟨oj, by split <;> simp [hj, hoj], rfl⟩
        · exact ⟨oj, hoj, rfl⟩
    · exact ⟨oj, hoj, rfl⟩
  · intro j oj' hoj'
    split at hoj'
    · split at hoj'
      · exact ⟨oj', by simpa using hoj'⟩
      · rename_i po hpo
        split at hoj'
        · unfold Ctx.makeGrayAgain at hoj'
          simp only [hpo] at hoj'
          by_cases hj : j = p
          · subst hj; exact ⟨po, hpo⟩
          · refine ⟨oj', ?_⟩
            split at hoj' <;> simpa [hj] using hoj'
        · exact ⟨oj', hoj'⟩
    · exact ⟨oj', hoj'⟩

def Op.isMutator : Op → Bool
  | .collect .. => false
  | .dropArena => false
  | _ => true

theorem stepBody_quiet {a : Arena} (h : Inv a) (fin : Bool) (op : Op) (hop : op.isMutator = true) :
    Quiet a.ctx (a.stepBody fin op).1.ctx := by
  have rf := Quiet.refl a.ctx
  cases op with
  | collect m k f o => simp [Op.isMutator] at hop
  | dropArena => simp [Op.isMutator] at hop
  | setPacing p => exact quiet_of_heap_log rfl rfl
  | adjustDebt x => exact quiet_of_heap_log rfl rfl
  | leave => simp only [Arena.stepBody]; split <;> exact rf
  | enter k =>
    simp only [Arena.stepBody]
    split
    · exact rf
    · cases k with
      | mutate => exact rf
      | mutateRoot =>
        simp only
        exact quiet_of_heap_log (by unfold Ctx.rootBarrier; split <;> rfl)
          (by unfold Ctx.rootBarrier; split <;> rfl) (by unfold Ctx.rootBarrier; split <;> rfl)
      | finalize => simp only; split <;> exact rf
  | alloc nt slots =>
    simp only [Arena.stepBody]
    split
    · exact rf
    · split
      · exact rf
      · split
        · exact rf
        · simp only [quiet_push]; exact quiet_link _ _ rfl
  | readRoot i =>
    simp only [Arena.stepBody]
    split
    · exact rf
    · split <;> first | exact rf | (simp only [quiet_push]; exact rf)
  | read p i =>
    simp only [Arena.stepBody]
    split
    · exact rf
    · split <;> first | exact rf | (simp only [quiet_push]; exact rf)
  | downgrade p =>
    simp only [Arena.stepBody]
    split
    · exact rf
    · simp only [quiet_push]; exact rf
  | upgrade w =>
    simp only [Arena.stepBody]
    split
    · exact rf
    · rename_i hg
      simp only [Bool.or_eq_true, Bool.not_eq_true', not_or, Bool.not_eq_false] at hg
      have hw : WeakOK a.ctx w := h.ptrOK_of_holds hg.2
      have hctx := upgrade_ctx (c := a.ctx) (t := w) (by obtain ⟨o, ho, _⟩ := hw; exact ⟨o, ho⟩)
      have hpair : a.ctx.upgrade w = (a.ctx, (a.ctx.upgrade w).2) := by
        conv => lhs; rw [show a.ctx.upgrade w = ((a.ctx.upgrade w).1, (a.ctx.upgrade w).2) from rfl, hctx]
      rw [hpair]
      simp only
      split
      · simp only [quiet_push]; exact rf
      · exact rf
  | isDropped w =>
    simp only [Arena.stepBody]
    split
    · exact rf
    · split
      · exact quiet_of_heap_log (by simp) (by simp)
      · exact rf
  | isDead p =>
    simp only [Arena.stepBody]
    split
    · exact rf
    · split
      · exact quiet_of_heap_log (by simp) (by simp)
      · exact rf
  | resurrect p =>
    simp only [Arena.stepBody]
    split
    · exact rf
    · rename_i hg
      simp only [Bool.or_eq_true, Bool.not_eq_true', not_or, Bool.not_eq_false, decide_eq_true_eq,
        Decidable.not_not] at hg
      have hmark : a.ctx.phase = .mark := h.finMark hg.1
      have hpo := h.ptrOK_of_holds hg.2
      cases p with
      | strong t =>
        simp only
        exact (resurrect_spec h.cinv hmark hpo).2.1.quiet (Ctx.resurrect_size _ _)
      | weak t =>
        simp only
        obtain ⟨o, ho, _⟩ := hpo
        simp only [ho]
        split
        · rename_i hl
          have hs : Safe a.ctx t := ⟨o, ho, hl, fun hp => by rw [hmark] at hp; cases hp⟩
          simp only [quiet_push]
          exact (resurrect_spec h.cinv hmark hs).2.1.quiet (Ctx.resurrect_size _ _)
        · exact rf
  | barrier b =>
    simp only [Arena.stepBody]
    split
    · exact rf
    · have alloc_s : ∀ p, a.holds (.strong p) = true → ∃ o, a.ctx.heap.get p = some o :=
        fun p hp => allocated_of_ptrOK (p := .strong p) (h.ptrOK_of_holds hp)
      have alloc_w : ∀ p, a.holds (.weak p) = true → ∃ o, a.ctx.heap.get p = some o :=
        fun p hp => allocated_of_ptrOK (p := .weak p) (h.ptrOK_of_holds hp)
      cases b with
      | bb p c =>
        cases c with
        | none =>
          simp only
          split
          · exact rf
          · rename_i hg
            have hp : a.holds (.strong p) = true := by simpa using hg
            exact (backwardBarrier_spec h.cinv (alloc_s p hp) none (fun _ hc => by cases hc)).2.1.mm.quiet (Ctx.backwardBarrier_size _ _ _)
        | some c =>
          simp only
          split
          · exact rf
          · rename_i hg
            simp only [Bool.or_eq_true, Bool.not_eq_true', not_or, Bool.not_eq_false] at hg
            exact (backwardBarrier_spec h.cinv (alloc_s p hg.1) (some c)
              (fun ch hc => by cases hc; exact alloc_s c hg.2)).2.1.mm.quiet (Ctx.backwardBarrier_size _ _ _)
      | bbw p c =>
        simp only
        split
        · exact rf
        · rename_i hg
          simp only [Bool.or_eq_true, Bool.not_eq_true', not_or, Bool.not_eq_false] at hg
          exact (backwardBarrierWeak_spec h.cinv (alloc_s p hg.1) (alloc_w c hg.2)).2.1.mm.quiet (Ctx.backwardBarrierWeak_size _ _ _)
      | fb p c =>
        cases p with
        | none =>
          simp only
          split
          · exact rf
          · rename_i hg
            have hc : a.holds (.strong c) = true := by simpa using hg
            exact (forwardBarrier_spec h.cinv none (fun _ hp => by cases hp)
              (h.ptrOK_of_holds hc)).2.1.mm.quiet (Ctx.forwardBarrier_size _ _ _)
        | some p =>
          simp only
          split
          · exact rf
          · rename_i hg
            simp only [Bool.or_eq_true, Bool.not_eq_true', not_or, Bool.not_eq_false] at hg
            exact (forwardBarrier_spec h.cinv (some p)
              (fun q hq => by cases hq; exact alloc_s p hg.1) (h.ptrOK_of_holds hg.2)).2.1.mm.quiet (Ctx.forwardBarrier_size _ _ _)
      | fbw p c =>
        cases p with
        | none =>
          simp only
          split
          · exact rf
          · rename_i hg
            have hc : a.holds (.weak c) = true := by simpa using hg
            exact (forwardBarrierWeak_spec h.cinv none (fun _ hp => by cases hp)
              (alloc_w c hc)).2.1.mm.quiet (Ctx.forwardBarrierWeak_size _ _ _)
        | some p =>
          simp only
          split
          · exact rf
          · rename_i hg
            simp only [Bool.or_eq_true, Bool.not_eq_true', not_or, Bool.not_eq_false] at hg
            exact (forwardBarrierWeak_spec h.cinv (some p)
              (fun q hq => by cases hq; exact alloc_s p hg.1) (alloc_w c hg.2)).2.1.mm.quiet (Ctx.forwardBarrierWeak_size _ _ _)
  | store path p i v =>
    simp only [Arena.stepBody]
    split
    · exact rf
    · rename_i hg
      simp only [Bool.or_eq_true, Bool.not_eq_true', not_or, Bool.not_eq_false] at hg
      have hp : a.holds (.strong p) = true := hg.1.2
      have hbb : Quiet a.ctx (a.ctx.backwardBarrier p none) :=
        (backwardBarrier_spec h.cinv (allocated_of_ptrOK (p := .strong p) (h.ptrOK_of_holds hp)) none
          (fun _ hc => by cases hc)).2.1.mm.quiet (Ctx.backwardBarrier_size _ _ _)
      split
      · exact rf
      · split
        · exact rf
        · cases path with
          | write => exact hbb.trans (quiet_setSlot _ p i v)
          | raw =>
            simp only
            split
            · exact rf
            · exact quiet_setSlot _ p i v
          | storeThenBarrier =>
            simp only
            refine (quiet_setSlot a.ctx p i v).trans ?_
            exact quiet_backwardBarrier_none _ p
  | rootStore i v =>
    simp only [Arena.stepBody]
    split <;> exact rf

theorem step_quiet {a : Arena} (h : Inv a) (op : Op) (hop : op.isMutator = true) :
    Quiet a.ctx (a.step op).1.ctx := by
  have hnot : (!a.alive) = false := by rw [h.alive]; rfl
  unfold Arena.step
  rw [hnot]
  simp only [Bool.false_eq_true, if_false]
  exact stepBody_quiet h.unmark a.marked op hop

end GcArena
