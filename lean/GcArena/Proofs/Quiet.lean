import GcArena.Proofs.Events
/-!
  Mutator operations are silent: no op other than a collection call or dropping the arena emits a
  `dropped` / `freed` event, destructs a value or releases a block.
-/
namespace GcArena

/-- `c'` emitted nothing relative to `c` and keeps every allocation with its liveness. -/
structure Quiet (c c' : Ctx) : Prop where
  log : c'.log = c.log
  phase : c'.phase = c.phase
  keep : ∀ i o, c.heap.get i = some o → ∃ o', c'.heap.get i = some o' ∧ o'.live = o.live

theorem Quiet.refl (c : Ctx) : Quiet c c := ⟨rfl, rfl, fun _ o ho => ⟨o, ho, rfl⟩⟩

theorem Quiet.trans {a b c : Ctx} (h1 : Quiet a b) (h2 : Quiet b c) : Quiet a c :=
  ⟨h2.log.trans h1.log, h2.phase.trans h1.phase, fun i o ho => by
    obtain ⟨o1, ho1, hl1⟩ := h1.keep i o ho
    obtain ⟨o2, ho2, hl2⟩ := h2.keep i o1 ho1
    exact ⟨o2, ho2, hl2.trans hl1⟩⟩

theorem MarkMono.quiet {c c' : Ctx} (m : MarkMono c c') : Quiet c c' :=
  ⟨m.log, m.phase, fun i o ho => by obtain ⟨o', ho', _, _, hl, _⟩ := m.mono i o ho; exact ⟨o', ho', hl⟩⟩

theorem quiet_of_heap_log {c c' : Ctx} (hh : c'.heap = c.heap) (hl : c'.log = c.log)
    (hp : c'.phase = c.phase := by first | rfl | simp) : Quiet c c' :=
  ⟨hl, hp, fun i o ho => ⟨o, by rw [hh]; exact ho, rfl⟩⟩

theorem quiet_setSlot (c : Ctx) (p i : Nat) (v : Slot) : Quiet c (Arena.setSlot c p i v) := by
  unfold Arena.setSlot
  cases hg : c.heap.get p with
  | none => exact quiet_of_heap_log (by simp) (by simp)
  | some o =>
    refine ⟨rfl, rfl, fun j oj hoj => ?_⟩
    by_cases hj : j = p
    · subst hj; rw [hg] at hoj; cases hoj
      exact ⟨{ o with slots := o.slots.set i v }, by simp, rfl⟩
    · exact ⟨oj, by simp [hj, hoj], rfl⟩

theorem quiet_link (c : Ctx) (o : Obj) : Quiet c (c.link o).1 := by
  refine ⟨rfl, rfl, fun j oj hoj => ⟨oj, ?_, rfl⟩⟩
  have : j ≠ c.heap.fresh := by intro he; rw [he, Heap.get_fresh] at hoj; cases hoj
  simp [Ctx.link, Heap.get_set, this, hoj]

theorem quiet_push (a : Arena) (p : Ptr) : (a.push p).ctx = a.ctx := (a.push_spec p).1

def Op.isMutator : Op → Bool
  | .collect .. => false
  | .dropArena => false
  | _ => true

theorem stepBody_quiet {a : Arena} (h : Inv a) (fin : Bool) (op : Op) (hop : op.isMutator = true) :
    Quiet a.ctx (a.stepBody fin op).1.ctx := by
  have rf := Quiet.refl a.ctx
  cases op with
  | collect m k f o => simp [Op.isMutator] at hop
  | dropArena => simp [Op.isMutator] at hop
  | setPacing p => exact quiet_of_heap_log rfl rfl
  | adjustDebt x => exact quiet_of_heap_log rfl rfl
  | leave => simp only [Arena.stepBody]; split <;> exact rf
  | enter k =>
    simp only [Arena.stepBody]
    split
    · exact rf
    · cases k with
      | mutate => exact rf
      | mutateRoot =>
        simp only
        exact quiet_of_heap_log (by unfold Ctx.rootBarrier; split <;> rfl)
          (by unfold Ctx.rootBarrier; split <;> rfl) (by unfold Ctx.rootBarrier; split <;> rfl)
      | finalize => simp only; split <;> exact rf
  | alloc nt slots =>
    simp only [Arena.stepBody]
    split
    · exact rf
    · split
      · exact rf
      · split
        · exact rf
        · simp only [quiet_push]; exact quiet_link _ _
  | readRoot i =>
    simp only [Arena.stepBody]
    split
    · exact rf
    · split <;> first | exact rf | (simp only [quiet_push]; exact rf)
  | read p i =>
    simp only [Arena.stepBody]
    split
    · exact rf
    · split <;> first | exact rf | (simp only [quiet_push]; exact rf)
  | downgrade p =>
    simp only [Arena.stepBody]
    split
    · exact rf
    · simp only [quiet_push]; exact rf
  | upgrade w =>
    simp only [Arena.stepBody]
    split
    · exact rf
    · rename_i hg
      simp only [Bool.or_eq_true, Bool.not_eq_true', not_or, Bool.not_eq_false] at hg
      have hw : WeakOK a.ctx w := h.ptrOK_of_holds hg.2
      have hctx := upgrade_ctx (c := a.ctx) (t := w) (by obtain ⟨o, ho, _⟩ := hw; exact ⟨o, ho⟩)
      have hpair : a.ctx.upgrade w = (a.ctx, (a.ctx.upgrade w).2) := by
        conv => lhs; rw [show a.ctx.upgrade w = ((a.ctx.upgrade w).1, (a.ctx.upgrade w).2) from rfl, hctx]
      rw [hpair]
      simp only
      split
      · simp only [quiet_push]; exact rf
      · exact rf
  | isDropped w =>
    simp only [Arena.stepBody]
    split
    · exact rf
    · split
      · exact quiet_of_heap_log (by simp) (by simp)
      · exact rf
  | isDead p =>
    simp only [Arena.stepBody]
    split
    · exact rf
    · split
      · exact quiet_of_heap_log (by simp) (by simp)
      · exact rf
  | resurrect p =>
    simp only [Arena.stepBody]
    split
    · exact rf
    · rename_i hg
      simp only [Bool.or_eq_true, Bool.not_eq_true', not_or, Bool.not_eq_false, decide_eq_true_eq,
        Decidable.not_not] at hg
      have hmark : a.ctx.phase = .mark := h.finMark hg.1
      have hpo := h.ptrOK_of_holds hg.2
      cases p with
      | strong t =>
        simp only
        exact (resurrect_spec h.cinv hmark hpo).2.1.quiet
      | weak t =>
        simp only
        obtain ⟨o, ho, _⟩ := hpo
        simp only [ho]
        split
        · rename_i hl
          have hs : Safe a.ctx t := ⟨o, ho, hl, fun hp => by rw [hmark] at hp; cases hp⟩
          simp only [quiet_push]
          exact (resurrect_spec h.cinv hmark hs).2.1.quiet
        · exact rf
  | barrier b =>
    simp only [Arena.stepBody]
    split
    · exact rf
    · have alloc_s : ∀ p, a.holds (.strong p) = true → ∃ o, a.ctx.heap.get p = some o :=
        fun p hp => allocated_of_ptrOK (p := .strong p) (h.ptrOK_of_holds hp)
      have alloc_w : ∀ p, a.holds (.weak p) = true → ∃ o, a.ctx.heap.get p = some o :=
        fun p hp => allocated_of_ptrOK (p := .weak p) (h.ptrOK_of_holds hp)
      cases b with
      | bb p c =>
        cases c with
        | none =>
          simp only
          split
          · exact rf
          · rename_i hg
            have hp : a.holds (.strong p) = true := by simpa using hg
            exact (backwardBarrier_spec h.cinv (alloc_s p hp) none (fun _ hc => by cases hc)).2.1.mm.quiet
        | some c =>
          simp only
          split
          · exact rf
          · rename_i hg
            simp only [Bool.or_eq_true, Bool.not_eq_true', not_or, Bool.not_eq_false] at hg
            exact (backwardBarrier_spec h.cinv (alloc_s p hg.1) (some c)
              (fun ch hc => by cases hc; exact alloc_s c hg.2)).2.1.mm.quiet
      | bbw p c =>
        simp only
        split
        · exact rf
        · rename_i hg
          simp only [Bool.or_eq_true, Bool.not_eq_true', not_or, Bool.not_eq_false] at hg
          exact (backwardBarrierWeak_spec h.cinv (alloc_s p hg.1) (alloc_w c hg.2)).2.1.mm.quiet
      | fb p c =>
        cases p with
        | none =>
          simp only
          split
          · exact rf
          · rename_i hg
            have hc : a.holds (.strong c) = true := by simpa using hg
            exact (forwardBarrier_spec h.cinv none (fun _ hp => by cases hp)
              (h.ptrOK_of_holds hc)).2.1.mm.quiet
        | some p =>
          simp only
          split
          · exact rf
          · rename_i hg
            simp only [Bool.or_eq_true, Bool.not_eq_true', not_or, Bool.not_eq_false] at hg
            exact (forwardBarrier_spec h.cinv (some p)
              (fun q hq => by cases hq; exact alloc_s p hg.1) (h.ptrOK_of_holds hg.2)).2.1.mm.quiet
      | fbw p c =>
        cases p with
        | none =>
          simp only
          split
          · exact rf
          · rename_i hg
            have hc : a.holds (.weak c) = true := by simpa using hg
            exact (forwardBarrierWeak_spec h.cinv none (fun _ hp => by cases hp)
              (alloc_w c hc)).2.1.mm.quiet
        | some p =>
          simp only
          split
          · exact rf
          · rename_i hg
            simp only [Bool.or_eq_true, Bool.not_eq_true', not_or, Bool.not_eq_false] at hg
            exact (forwardBarrierWeak_spec h.cinv (some p)
              (fun q hq => by cases hq; exact alloc_s p hg.1) (alloc_w c hg.2)).2.1.mm.quiet
  | store path p i v =>
    simp only [Arena.stepBody]
    split
    · exact rf
    · rename_i hg
      simp only [Bool.or_eq_true, Bool.not_eq_true', not_or, Bool.not_eq_false] at hg
      have hp : a.holds (.strong p) = true := hg.1.2
      have hbb : Quiet a.ctx (a.ctx.backwardBarrier p none) :=
        (backwardBarrier_spec h.cinv (allocated_of_ptrOK (p := .strong p) (h.ptrOK_of_holds hp)) none
          (fun _ hc => by cases hc)).2.1.mm.quiet
      split
      · exact rf
      · split
        · exact rf
        · cases path with
          | write => exact hbb.trans (quiet_setSlot _ p i v)
          | raw =>
            simp only
            split
            · exact rf
            · exact quiet_setSlot _ p i v
          | storeThenBarrier =>
            simp only
            refine (quiet_setSlot a.ctx p i v).trans ?_
            -- the barrier itself is quiet in any state (it only recolours / queues)
            unfold Ctx.backwardBarrier
            split
            · split
              · exact quiet_of_heap_log (by simp) (by simp)
              · split
                · unfold Ctx.makeGrayAgain
                  rename_i po hpo _
                  simp only [hpo]
                  refine ⟨by split <;> simp, by split <;> simp, fun j oj hoj => ?_⟩
                  by_cases hj : j = p
                  · subst hj; rw [hpo] at hoj; cases hoj
                    exact ⟨{ po with color := .gray }, by split <;> simp, rfl⟩
                  · exact ⟨oj, by split <;> simp [hj, hoj], rfl⟩
                · exact Quiet.refl _
            · exact Quiet.refl _
  | rootStore i v =>
    simp only [Arena.stepBody]
    split <;> exact rf

theorem step_quiet {a : Arena} (h : Inv a) (op : Op) (hop : op.isMutator = true) :
    Quiet a.ctx (a.step op).1.ctx := by
  have hnot : (!a.alive) = false := by rw [h.alive]; rfl
  unfold Arena.step
  rw [hnot]
  simp only [Bool.false_eq_true, if_false]
  exact stepBody_quiet h.unmark a.marked op hop

end GcArena
