import GcArena.Proofs.Stable
/-!
  Tightness of marking while no mutator step intervenes: during a collection cycle that started
  from `Sleep` and has only been advanced by the collector itself,

  * every gray or black object is strongly reachable from the root,
  * every weakly marked object is weakly held by the root or by something strongly reachable,
  * (sweep, sleep) every object the sweep has passed and kept is either undestructed and strongly
    reachable, or a destructed shell that is weakly held.

  The collector steps are taken literally from Model/Context (`trace`, `trace_weak`, the slot
  loop, `make_gray_again`, `mark_one` with or without an unwinding `trace`, `sweep_one`, the
  phase switches).
-/
namespace GcArena

/-- Marks are justified: gray/black objects satisfy `R`, weakly marked ones satisfy `Wk`. -/
def TM (R Wk : Nat → Prop) (c : Ctx) : Prop :=
  ∀ i o, c.heap.get i = some o →
    ((o.color = .gray ∨ o.color = .black) → R i) ∧ (o.color = .whiteWeak → Wk i)

theorem TM.ofHeap {R Wk} {c c' : Ctx} (t : TM R Wk c) (h : ∀ j, c'.heap.get j = c.heap.get j) :
    TM R Wk c' := fun i o ho => t i o (by rw [← h]; exact ho)

theorem TM.imp {R Wk R' Wk' : Nat → Prop} {c : Ctx} (t : TM R Wk c) (hR : ∀ i, R i → R' i)
    (hW : ∀ i, Wk i → Wk' i) : TM R' Wk' c :=
  fun i o ho => ⟨fun hc => hR i ((t i o ho).1 hc), fun hc => hW i ((t i o ho).2 hc)⟩

theorem trace_self (c : Ctx) (t : Nat) (o' : Obj) (h : (c.trace t).heap.get t = some o') :
    c.heap.get t = some o' ∨ o'.color = .gray ∨ o'.color = .black := by
  cases ho : c.heap.get t with
  | none => left; simp [Ctx.trace, ho] at h
  | some o =>
    cases hcol : o.color <;> cases hnt : o.needsTrace <;> cases hl : o.live <;>
      simp [Ctx.trace, ho, hcol, hnt, hl] at h <;> subst h <;> simp [hcol]

theorem traceWeak_self (c : Ctx) (t : Nat) (o' : Obj) (h : (c.traceWeak t).heap.get t = some o') :
    c.heap.get t = some o' ∨ o'.color = .whiteWeak := by
  cases ho : c.heap.get t with
  | none => left; simp [Ctx.traceWeak, ho] at h
  | some o =>
    by_cases hw : o.color = .white <;> simp [Ctx.traceWeak, ho, hw] at h <;> subst h <;> simp

theorem TM.trace {R Wk} {c : Ctx} (t : TM R Wk c) {x : Nat} (hR : R x) : TM R Wk (c.trace x) := by
  intro i o' ho'
  by_cases hi : i = x
  · subst hi
    rcases trace_self c i o' ho' with h | h
    · exact t i o' h
    · exact ⟨fun _ => hR, fun hw => (by rcases h with h | h <;> rw [h] at hw <;> cases hw)⟩
  · rw [Ctx.trace_frame c x i hi] at ho'; exact t i o' ho'

theorem TM.traceWeak {R Wk} {c : Ctx} (t : TM R Wk c) {x : Nat} (hW : Wk x) :
    TM R Wk (c.traceWeak x) := by
  intro i o' ho'
  by_cases hi : i = x
  · subst hi
    rcases traceWeak_self c i o' ho' with h | h
    · exact t i o' h
    · exact ⟨fun hc => (by rcases hc with hc | hc <;> rw [h] at hc <;> cases hc), fun _ => hW⟩
  · rw [Ctx.traceWeak_frame c x i hi] at ho'; exact t i o' ho'

theorem TM.traceSlots {R Wk} (ss : List Slot) : ∀ {c : Ctx}, TM R Wk c →
    (∀ x, some (Ptr.strong x) ∈ ss → R x) → (∀ x, some (Ptr.weak x) ∈ ss → Wk x) →
    TM R Wk (c.traceSlots ss) := by
  induction ss with
  | nil => intro c t _ _; exact t
  | cons s ss ih =>
    intro c t hR hW
    simp only [Ctx.traceSlots, List.foldl_cons]
    have t1 : TM R Wk (c.traceSlot s) := by
      cases s with
      | none => exact t
      | some p =>
        cases p with
        | strong x => exact t.trace (hR x (by simp))
        | weak x => exact t.traceWeak (hW x (by simp))
    exact ih t1 (fun x hx => hR x (List.mem_cons_of_mem _ hx)) (fun x hx => hW x (List.mem_cons_of_mem _ hx))

theorem TM.setObj {R Wk} {c : Ctx} (t : TM R Wk c) {i : Nat} {o : Obj}
    (hR : (o.color = .gray ∨ o.color = .black) → R i) (hW : o.color = .whiteWeak → Wk i) :
    TM R Wk (c.setObj i o) := by
  intro j oj hoj
  rw [Ctx.setObj_get] at hoj
  by_cases hj : j = i
  · subst hj; simp at hoj; subst hoj; exact ⟨hR, hW⟩
  · simp only [hj, if_false] at hoj; exact t j oj hoj

theorem TM.fail {R Wk} {c : Ctx} (t : TM R Wk c) (f : Fault) : TM R Wk (c.fail f) :=
  t.ofHeap (fun _ => by rw [Ctx.fail_heap])

theorem TM.makeGrayAgain {R Wk} {c : Ctx} (t : TM R Wk c) {i : Nat} (hR : R i) :
    TM R Wk (c.makeGrayAgain i) := by
  unfold Ctx.makeGrayAgain
  cases ho : c.heap.get i with
  | none => exact t.fail _
  | some o =>
    simp only
    have t1 : TM R Wk (if o.color = .black then c else c.fail .debugAssert) := by
      split
      · exact t
      · exact t.fail _
    have t2 := t1.setObj (i := i) (o := { o with color := .gray }) (fun _ => hR) (fun hw => by cases hw)
    exact t2.ofHeap (fun _ => rfl)

theorem TM.markObj {R Wk} {c : Ctx} (t : TM R Wk c) {i : Nat} (f : Option Nat) (hR : R i)
    (hs : ∀ o, c.heap.get i = some o →
      (∀ x, some (Ptr.strong x) ∈ o.slots → R x) ∧ (∀ x, some (Ptr.weak x) ∈ o.slots → Wk x)) :
    TM R Wk (c.markObj i f).1 := by
  unfold Ctx.markObj
  simp only [Ctx.withMetrics_heap]
  cases ho : c.heap.get i with
  | none => exact (t.ofHeap (c' := c.withMetrics Metrics.markGcTraced) (fun _ => rfl)).fail _
  | some o =>
    simp only
    obtain ⟨hRs, hWs⟩ := hs o ho
    have t0 : TM R Wk (c.withMetrics Metrics.markGcTraced) := t.ofHeap (fun _ => rfl)
    have t1 := t0.setObj (i := i) (o := { o with color := .black }) (fun _ => hR) (fun hw => by cases hw)
    have t2 : TM R Wk (if o.live = true then
        (c.withMetrics Metrics.markGcTraced).setObj i { o with color := .black }
        else ((c.withMetrics Metrics.markGcTraced).setObj i { o with color := .black }).fail .debugAssert) := by
      split
      · exact t1
      · exact t1.fail _
    cases f with
    | none => exact TM.traceSlots o.slots t2 hRs hWs
    | some j =>
      exact (TM.traceSlots (o.slots.take j) t2 (fun x hx => hRs x (List.mem_of_mem_take hx))
        (fun x hx => hWs x (List.mem_of_mem_take hx))).makeGrayAgain hR

theorem TM.markOne {R Wk} {c : Ctx} {root : List Slot} (t : TM R Wk c) (f : Option Nat)
    (hq : ∀ i, i ∈ c.gray ∨ i ∈ c.grayAgain → R i)
    (hedge : ∀ i o, R i → c.heap.get i = some o →
      (∀ x, some (Ptr.strong x) ∈ o.slots → R x) ∧ (∀ x, some (Ptr.weak x) ∈ o.slots → Wk x))
    (hroot : (∀ x, some (Ptr.strong x) ∈ root → R x) ∧ (∀ x, some (Ptr.weak x) ∈ root → Wk x)) :
    TM R Wk (c.markOne root f).1 := by
  have key : ∀ (c0 : Ctx) (i : Nat), c0.heap = c.heap → R i → TM R Wk (c0.markObj i f).1 := by
    intro c0 i e hRi
    exact (t.ofHeap (c' := c0) (fun _ => by rw [e])).markObj f hRi
      (fun o ho => hedge i o hRi (by rw [← e]; exact ho))
  unfold Ctx.markOne
  cases hg : c.gray with
  | cons i g =>
    simp only
    exact key _ i rfl (hq i (Or.inl (by rw [hg]; simp)))
  | nil =>
    simp only
    cases hga : c.grayAgain with
    | cons i g =>
      simp only
      exact key _ i rfl (hq i (Or.inr (by rw [hga]; simp)))
    | nil =>
      simp only
      have ts : TM R Wk (c.step 'r') := t.ofHeap (fun _ => rfl)
      split
      · cases f with
        | none =>
          exact (TM.traceSlots root ts hroot.1 hroot.2).ofHeap (fun _ => rfl)
        | some j =>
          exact TM.traceSlots (root.take j) ts (fun x hx => hroot.1 x (List.mem_of_mem_take hx))
            (fun x hx => hroot.2 x (List.mem_of_mem_take hx))
      · exact t.ofHeap (fun _ => rfl)

/-! ### The tightness invariant -/

/-- Marks are justified by reachability from the root; outside `Mark`, so is everything the
    sweep has kept. -/
structure Tight (c : Ctx) (root : List Slot) : Prop where
  tm : TM (StrongReachC c root) (WeakHeld c root) c
  kept : c.phase ≠ .mark → ∀ i, i ∈ c.pre → ∀ o, c.heap.get i = some o →
    (o.live = true → StrongReachC c root i) ∧ (o.live = false → WeakHeld c root i)

theorem Tight.transfer {c c' : Ctx} {root} (sr : SameReach c c' root)
    (tm : TM (StrongReachC c root) (WeakHeld c root) c')
    (kept : c'.phase ≠ .mark → ∀ i, i ∈ c'.pre → ∀ o, c'.heap.get i = some o →
      (o.live = true → StrongReachC c root i) ∧ (o.live = false → WeakHeld c root i)) :
    Tight c' root :=
  ⟨tm.imp (fun i => (sr.reach i).mpr) (fun i => (sr.weak i).mpr),
   fun hp i hi o ho => ⟨fun hl => (sr.reach i).mpr ((kept hp i hi o ho).1 hl),
     fun hl => (sr.weak i).mpr ((kept hp i hi o ho).2 hl)⟩⟩

theorem sameReach_ofHeap {c c' : Ctx} {root} (h : CInv c root [])
    (hh : ∀ j, c'.heap.get j = c.heap.get j) : SameReach c c' root :=
  sameReach_of h (fun i o ho _ => ⟨o, by rw [hh]; exact ho, rfl⟩) (Shrink.ofHeap hh)

/-- `Sleep → Mark`: everything is white, so tightness holds outright. -/
theorem wake_tight {c : Ctx} {root} (h : CInv c root []) (hp : c.phase = .sleep) :
    Tight (c.switch .mark) root := by
  refine ⟨?_, fun hne => absurd rfl hne⟩
  intro i o ho
  have hw := h.sleepWhite hp i o ho
  exact ⟨fun hc => (by rcases hc with hc | hc <;> rw [hw] at hc <;> cases hc),
    fun hc => (by rw [hw] at hc; cases hc)⟩

/-- `mark_one`, including one whose `trace` unwinds. -/
theorem markOne_tight {c : Ctx} {root} (h : CInv c root []) (hm : c.phase = .mark)
    (t : Tight c root) (f : Option Nat) : Tight (c.markOne root f).1 root := by
  obtain ⟨h', fr⟩ := markOne_spec h hm f
  have sr : SameReach c (c.markOne root f).1 root :=
    sameReach_of h (fun i o ho _ => by
      obtain ⟨o', ho'⟩ := (fr.alloc i).mpr ⟨o, ho⟩
      exact ⟨o', ho', (fr.live i o o' ho ho').2.1⟩) fr.shrink
  refine Tight.transfer sr ?_ (fun hne => absurd (fr.phase.trans hm) hne)
  apply t.tm.markOne f
  · intro i hi
    obtain ⟨o, ho, hg⟩ := h.qGray i hi
    exact (t.tm i o ho).1 (Or.inl hg)
  · intro i o hRi ho
    exact ⟨fun x hx => .edge i x hRi ⟨o, ho, hx⟩, fun x hx => Or.inr ⟨i, o, hRi, ho, hx⟩⟩
  · exact ⟨fun x hx => .root x hx, fun x hx => Or.inl hx⟩

/-- `Mark → Sweep`. -/
theorem enterSweep_tight {c : Ctx} {root} (h : CInv c root []) (t : Tight c root) :
    Tight c.enterSweep root := by
  refine Tight.transfer (sameReach_ofHeap h (fun _ => rfl)) (t.tm.ofHeap (fun _ => rfl)) ?_
  intro _ i hi
  cases hi

/-- `sweep_one`. -/
theorem sweepOne_tight {c : Ctx} {root} (h : CInv c root []) (hp : c.phase = .sweep)
    (t : Tight c root) : Tight c.sweepOne.1 root := by
  have sr : SameReach c c.sweepOne.1 root := sameReach_of h (sweepOne_persist h hp) (sweepOne_shrink c)
  have hnm : c.phase ≠ .mark := by rw [hp]; simp
  cases hr : c.rest with
  | nil =>
    have e : c.sweepOne.1 = c.step 'e' := by rw [sweepOne_end hr]
    rw [e]
    exact Tight.transfer (sameReach_ofHeap h (fun _ => rfl)) (t.tm.ofHeap (fun _ => rfl))
      (fun _ i hi o ho => t.kept hnm i hi o ho)
  | cons i rest' =>
    obtain ⟨o, ho⟩ := (h.memAll i).mp (by rw [hr]; simp)
    obtain ⟨_, _, hframe, hcases⟩ := sweepOne_cases hr ho
    have hnd := h.nodup
    rw [hr] at hnd
    have hi_np : i ∉ c.pre := by
      intro hmem
      exact (List.nodup_append.mp hnd).2.2 i hmem i (by simp) rfl
    have keptOld : ∀ j, j ∈ c.pre → ∀ oj, c.sweepOne.1.heap.get j = some oj →
        (oj.live = true → StrongReachC c root j) ∧ (oj.live = false → WeakHeld c root j) := by
      intro j hj oj hoj
      have hne : j ≠ i := fun he => hi_np (he ▸ hj)
      rw [hframe j hne] at hoj
      exact t.kept hnm j hj oj hoj
    have tmOther : ∀ j, j ≠ i → ∀ oj, c.sweepOne.1.heap.get j = some oj →
        ((oj.color = .gray ∨ oj.color = .black) → StrongReachC c root j) ∧
          (oj.color = .whiteWeak → WeakHeld c root j) := by
      intro j hne oj hoj
      rw [hframe j hne] at hoj
      exact t.tm j oj hoj
    have whiteTriv : ∀ (oj : Obj), oj.color = .white →
        ((oj.color = .gray ∨ oj.color = .black) → StrongReachC c root i) ∧
          (oj.color = .whiteWeak → WeakHeld c root i) := by
      intro oj hw
      exact ⟨fun hc => (by rcases hc with hc | hc <;> rw [hw] at hc <;> cases hc),
        fun hc => (by rw [hw] at hc; cases hc)⟩
    rcases hcases with ⟨_, hn, hpre⟩ | ⟨hc, hpre, o', ho', hw', hl', _⟩ | ⟨hc, hpre, hb⟩ | ⟨_, hpre, hg⟩
    · -- white: released
      refine Tight.transfer sr ?_ ?_
      · intro j oj hoj
        by_cases hj : j = i
        · subst hj; rw [hn] at hoj; cases hoj
        · exact tmOther j hj oj hoj
      · intro _ j hj oj hoj
        rw [hpre] at hj
        exact keptOld j hj oj hoj
    · -- weakly marked: kept as a shell
      refine Tight.transfer sr ?_ ?_
      · intro j oj hoj
        by_cases hj : j = i
        · subst hj; rw [ho'] at hoj; cases hoj; exact whiteTriv _ hw'
        · exact tmOther j hj oj hoj
      · intro _ j hj oj hoj
        rw [hpre] at hj
        simp only [List.mem_append, List.mem_singleton] at hj
        rcases hj with hj | hj
        · exact keptOld j hj oj hoj
        · subst hj
          rw [ho'] at hoj; cases hoj
          exact ⟨fun hl => (by rw [hl'] at hl; cases hl), fun _ => (t.tm j o ho).2 hc⟩
    · -- black: kept
      refine Tight.transfer sr ?_ ?_
      · intro j oj hoj
        by_cases hj : j = i
        · subst hj; rw [hb] at hoj; cases hoj; exact whiteTriv _ rfl
        · exact tmOther j hj oj hoj
      · intro _ j hj oj hoj
        rw [hpre] at hj
        simp only [List.mem_append, List.mem_singleton] at hj
        rcases hj with hj | hj
        · exact keptOld j hj oj hoj
        · subst hj
          rw [hb] at hoj; cases hoj
          have hlive := h.markedLive j o ho (Or.inr hc)
          exact ⟨fun _ => (t.tm j o ho).1 (Or.inr hc),
            fun hl => (by simp only at hl; rw [hlive] at hl; cases hl)⟩
    · -- gray under the cursor: excluded by the invariant, and nothing changes anyway
      refine Tight.transfer sr ?_ ?_
      · intro j oj hoj
        by_cases hj : j = i
        · subst hj; rw [hg] at hoj; cases hoj; exact t.tm j o ho
        · exact tmOther j hj oj hoj
      · intro _ j hj oj hoj
        rw [hpre] at hj
        exact keptOld j hj oj hoj

/-- `Sweep → Sleep`. -/
theorem enterSleep_tight {c : Ctx} {root} (h : CInv c root []) (hp : c.phase = .sweep)
    (t : Tight c root) (hs : Bool) : Tight (c.enterSleep hs) root := by
  have hnm : c.phase ≠ .mark := by rw [hp]; simp
  exact Tight.transfer (sameReach_ofHeap h (fun _ => rfl)) (t.tm.ofHeap (fun _ => rfl))
    (fun _ i hi o ho => t.kept hnm i hi o ho)

/-- Every enabled micro-step other than the wake-up preserves tightness; the wake-up
    establishes it. -/
theorem micro_tight {c c' : Ctx} {root} (h : CInv c root []) (m : Micro)
    (hs : c.micro root m = some c') (t : m ≠ .wake → Tight c root) : Tight c' root := by
  cases m with
  | wake =>
    simp only [Ctx.micro] at hs
    split at hs
    · cases hs; rename_i hp; exact wake_tight h hp
    · cases hs
  | markStep f =>
    simp only [Ctx.micro] at hs
    split at hs
    · cases hs; rename_i hp
      simp only [Bool.and_eq_true, decide_eq_true_eq] at hp
      exact markOne_tight h hp.1 (t (by simp)) f
    · cases hs
  | markBreak =>
    simp only [Ctx.micro] at hs
    split at hs
    · cases hs; rename_i hp
      simp only [Bool.and_eq_true, decide_eq_true_eq] at hp
      exact markOne_tight h hp.1 (t (by simp)) none
    · cases hs
  | toSweep =>
    simp only [Ctx.micro] at hs
    split at hs
    · cases hs; exact enterSweep_tight h (t (by simp))
    · cases hs
  | sweepStep =>
    simp only [Ctx.micro] at hs
    split at hs
    · cases hs; rename_i hp
      simp only [Bool.and_eq_true, decide_eq_true_eq] at hp
      exact sweepOne_tight h hp.1 (t (by simp))
    · cases hs
  | sweepEnd =>
    simp only [Ctx.micro] at hs
    split at hs
    · cases hs; rename_i hp
      simp only [Bool.and_eq_true, decide_eq_true_eq] at hp
      exact sweepOne_tight h hp.1 (t (by simp))
    · cases hs
  | toSleep b =>
    simp only [Ctx.micro] at hs
    split at hs
    · cases hs; rename_i hp
      simp only [Bool.and_eq_true, decide_eq_true_eq] at hp
      exact enterSleep_tight h hp.1 (t (by simp)) b
    · cases hs

/-- A sequence of collector micro-steps started in `Sleep` (so it begins with the wake-up), or
    started in a tight state, ends tight. -/
theorem micros_tight {root} (ms : List Micro) : ∀ {c c' : Ctx}, CInv c root [] →
    (c.phase ≠ .sleep → Tight c root) → c.micros root ms = some c' →
    (c'.phase ≠ .sleep → Tight c' root) := by
  induction ms with
  | nil => intro c c' _ t hs; simp only [Ctx.micros] at hs; cases hs; exact t
  | cons m ms ih =>
    intro c c' h t hs
    simp only [Ctx.micros] at hs
    cases hm : c.micro root m with
    | none => rw [hm] at hs; cases hs
    | some c1 =>
      rw [hm] at hs
      refine ih (micro_inv h m hm) (fun _ => micro_tight h m hm ?_) hs
      intro hne
      apply t
      intro hp
      cases m <;> simp [Ctx.micro, hp] at hm
      exact hne rfl

end GcArena
