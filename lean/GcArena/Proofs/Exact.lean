import GcArena.Proofs.Tight
import GcArena.Proofs.Protocol
/-!
  Lifting tightness (Proofs/Tight) to whole `finish_cycle` calls, and colour monotonicity of a
  marked object up to and through the sweep of the same cycle (for C07).
-/
namespace GcArena

/-- A `finish_cycle` loop that returns ends tight, provided it started asleep or tight. -/
theorem collectLoop_finishCycle_tight {root fault} (fuel : Nat) :
    ∀ (c : Ctx) (hs : Bool) (k : Nat), CInv c root [] → (c.phase ≠ .sleep → Tight c root) →
      (Ctx.collectLoop root .stop .finishCycle fault fuel c hs k).2 = .returned →
      Tight (Ctx.collectLoop root .stop .finishCycle fault fuel c hs k).1 root := by
  induction fuel with
  | zero => intro c hs k _ _ hr; simp [Ctx.collectLoop] at hr
  | succ fuel ih =>
    intro c hs k h t
    unfold Ctx.collectLoop
    have nle1 : ¬ (Stop.finishCycle ≤ Stop.fullyMarked) := by decide
    have nle2 : ¬ (Stop.finishCycle ≤ Stop.atSweep) := by decide
    cases hp : c.phase with
    | drop => exact absurd hp h.notDrop
    | sleep =>
      simp only [debtBreak_stop]
      exact ih _ _ _ (wake_spec h hp) (fun _ => wake_tight h hp)
    | mark =>
      have tc : Tight c root := t (by rw [hp]; simp)
      simp only
      cases hg : c.grayRemaining with
      | false =>
        rw [markOne_break _ hg]
        simp only [nle1, if_false, debtBreak_stop]
        have hg' : (c.step 'b').grayRemaining = false := hg
        have h1 : CInv (c.step 'b') root [] := h.sameView (sameView_step c 'b')
        have t1 : Tight (c.step 'b') root := by
          have := markOne_tight h hp tc none
          rw [markOne_break _ hg] at this
          exact this
        exact ih _ _ _ (enterSweep_spec h1 hp hg') (fun _ => enterSweep_tight h1 t1)
      | true =>
        have hnb := markOne_not_break (root := root) (faultAt fault k) hg
        cases hfl : (c.markOne root (faultAt fault k)).2 with
        | «break» => exact absurd hfl hnb
        | unwind => simp
        | «continue» =>
          simp only [debtBreak_stop]
          exact ih _ _ _ (markOne_spec h hp (faultAt fault k) (root := root)).1
            (fun _ => markOne_tight h hp tc _)
    | sweep =>
      have tc : Tight c root := t (by rw [hp]; simp)
      simp only [nle2, if_false]
      cases hr : c.rest with
      | nil =>
        rw [sweepOne_end hr]
        simp only [if_true]
        intro _
        have h1 : CInv (c.step 'e') root [] := h.sameView (sameView_step c 'e')
        have t1 : Tight (c.step 'e') root := by
          have := sweepOne_tight h hp tc
          rw [sweepOne_end hr] at this
          exact this
        exact enterSleep_tight h1 hp t1 hs
      | cons i rest' =>
        have hne : c.rest ≠ [] := by rw [hr]; simp
        have hfl := sweepOne_flow hne
        rw [show c.sweepOne = (c.sweepOne.1, c.sweepOne.2) from rfl, hfl]
        simp only [debtBreak_stop]
        exact ih _ _ _ (sweepOne_spec h hp).1 (fun _ => sweepOne_tight h hp tc)

/-- One fault-free `finish_cycle` call: keeps the invariant, ends asleep, changes neither
    reachability relation, and ends tight if it started asleep or tight. -/
theorem finishCycle_spec {c : Ctx} {root} (h : CInv c root []) :
    CInv (c.doCollection root .stop .finishCycle none).1 root [] ∧
    (c.doCollection root .stop .finishCycle none).1.phase = .sleep ∧
    SameReach c (c.doCollection root .stop .finishCycle none).1 root ∧
    ((c.phase ≠ .sleep → Tight c root) → Tight (c.doCollection root .stop .finishCycle none).1 root) := by
  have hret := doCollection_returns h .stop .finishCycle
  have hreach : Reaches c root (c.doCollection root .stop .finishCycle none).1 := doCollection_reaches h
  have e : c.doCollection root .stop .finishCycle none =
      Ctx.collectLoop root .stop .finishCycle none (2 * c.fuelBound root + 8) c false 0 := by
    simp [Ctx.doCollection]
  refine ⟨hreach.inv h, ?_, hreach.sameReach h, ?_⟩
  · rw [e] at hret ⊢
    exact collectLoop_finishCycle _ c false 0 h hret
  · intro t
    rw [e] at hret ⊢
    exact collectLoop_finishCycle_tight _ c false 0 h t hret

/-- In a tight sleeping state, what is allocated is exactly: the strongly reachable objects
    (undestructed) and the weakly held shells (destructed). -/
theorem Tight.asleep {c : Ctx} {root} (t : Tight c root) (h : CInv c root []) (hp : c.phase = .sleep)
    {i : Nat} {o : Obj} (ho : c.heap.get i = some o) :
    (o.live = true → StrongReachC c root i) ∧ (o.live = false → WeakHeld c root i) := by
  have hmem := (h.memAll i).mpr ⟨o, ho⟩
  rw [h.restNil (by rw [hp]; simp), List.append_nil] at hmem
  exact t.kept (by rw [hp]; simp) i hmem o ho

/-! ### A marked object stays protected until the cycle's `Sweep → Sleep` switch -/

def Marked (c : Ctx) (t : Nat) : Prop :=
  ∃ o, c.heap.get t = some o ∧ (o.color = .gray ∨ o.color = .black)

theorem Marked.ofHeap {c c' : Ctx} {t : Nat} (m : Marked c t) (h : ∀ j, c'.heap.get j = c.heap.get j) :
    Marked c' t := by
  obtain ⟨o, ho, hc⟩ := m; exact ⟨o, by rw [h]; exact ho, hc⟩

theorem Marked.keep {c c' : Ctx} {t : Nat} (m : Marked c t) (k : KeepMarked c c') : Marked c' t := by
  obtain ⟨o, ho, hc⟩ := m; exact ⟨o, k t o ho hc, hc⟩

theorem traceSlots_keep (ss : List Slot) : ∀ (c : Ctx), KeepMarked c (c.traceSlots ss) := by
  induction ss with
  | nil => intro c; exact KeepMarked.refl c
  | cons s ss ih =>
    intro c
    simp only [Ctx.traceSlots, List.foldl_cons]
    have k1 : KeepMarked c (c.traceSlot s) := by
      cases s with
      | none => exact KeepMarked.refl c
      | some p =>
        cases p with
        | strong x => exact trace_keep x
        | weak x => exact traceWeak_keep x
    exact k1.trans (ih _)

theorem Marked.setObj {c : Ctx} {t : Nat} (m : Marked c t) (i : Nat) (o : Obj)
    (hc : o.color = .gray ∨ o.color = .black) : Marked (c.setObj i o) t := by
  by_cases ht : t = i
  · subst ht; exact ⟨o, by simp, hc⟩
  · obtain ⟨ot, hot, hct⟩ := m
    exact ⟨ot, by rw [Ctx.setObj_get]; simp [ht, hot], hct⟩

theorem Marked.fail {c : Ctx} {t : Nat} (m : Marked c t) (f : Fault) : Marked (c.fail f) t :=
  m.ofHeap (fun _ => by rw [Ctx.fail_heap])

theorem Marked.makeGrayAgain {c : Ctx} {t : Nat} (m : Marked c t) (i : Nat) :
    Marked (c.makeGrayAgain i) t := by
  unfold Ctx.makeGrayAgain
  cases ho : c.heap.get i with
  | none => exact m.fail _
  | some o =>
    simp only
    have m1 : Marked (if o.color = .black then c else c.fail .debugAssert) t := by
      split
      · exact m
      · exact m.fail _
    exact (m1.setObj i { o with color := .gray } (Or.inl rfl)).ofHeap (fun _ => rfl)

theorem Marked.markObj {c : Ctx} {t : Nat} (m : Marked c t) (i : Nat) (f : Option Nat) :
    Marked (c.markObj i f).1 t := by
  unfold Ctx.markObj
  simp only [Ctx.withMetrics_heap]
  have m0 : Marked (c.withMetrics Metrics.markGcTraced) t := m.ofHeap (fun _ => rfl)
  cases ho : c.heap.get i with
  | none => exact m0.fail _
  | some o =>
    simp only
    have m1 := m0.setObj i { o with color := .black } (Or.inr rfl)
    have m2 : Marked (if o.live = true then
        (c.withMetrics Metrics.markGcTraced).setObj i { o with color := .black }
        else ((c.withMetrics Metrics.markGcTraced).setObj i { o with color := .black }).fail .debugAssert) t := by
      split
      · exact m1
      · exact m1.fail _
    cases f with
    | none => exact m2.keep (traceSlots_keep _ _)
    | some j => exact (m2.keep (traceSlots_keep _ _)).makeGrayAgain i

theorem Marked.markOne {c : Ctx} {t : Nat} (m : Marked c t) (root : List Slot) (f : Option Nat) :
    Marked (c.markOne root f).1 t := by
  have key : ∀ (c0 : Ctx) (i : Nat), c0.heap = c.heap → Marked (c0.markObj i f).1 t := by
    intro c0 i e
    exact (m.ofHeap (c' := c0) (fun _ => by rw [e])).markObj i f
  unfold Ctx.markOne
  cases hg : c.gray with
  | cons i g => simp only; exact key _ i rfl
  | nil =>
    simp only
    cases hga : c.grayAgain with
    | cons i g => simp only; exact key _ i rfl
    | nil =>
      simp only
      have ms : Marked (c.step 'r') t := m.ofHeap (fun _ => rfl)
      split
      · cases f with
        | none => exact (ms.keep (traceSlots_keep root _)).ofHeap (fun _ => rfl)
        | some j => exact ms.keep (traceSlots_keep _ _)
      · exact m.ofHeap (fun _ => rfl)

/-- `t` is marked (mark phase) or out of the running sweep's reach (sweep phase). -/
def Prot (c : Ctx) (t : Nat) : Prop :=
  (c.phase = .mark ∧ Marked c t) ∨ (c.phase = .sweep ∧ Safe c t)

theorem micro_prot {c c' : Ctx} {root} {t : Nat} (h : CInv c root []) (m : Micro)
    (hs : c.micro root m = some c') (hm : ∀ b, m ≠ .toSleep b) (p : Prot c t) : Prot c' t := by
  have sweepCase : c.phase = .sweep → Prot c.sweepOne.1 t := by
    intro hp
    rcases p with ⟨hpm, _⟩ | ⟨_, hsafe⟩
    · rw [hp] at hpm; cases hpm
    · have htemps : ∀ q, q ∈ [Ptr.strong t] → PtrOK c q := by
        intro q hq
        simp only [List.mem_singleton] at hq
        subst hq; exact hsafe
      have h' : CInv c root [Ptr.strong t] := { h with tempsOK := htemps }
      obtain ⟨h2, hp2⟩ := sweepOne_spec h' hp
      exact Or.inr ⟨hp2, h2.tempsOK (Ptr.strong t) (by simp)⟩
  have markCase : c.phase = .mark → ∀ f, Prot (c.markOne root f).1 t := by
    intro hp f
    rcases p with ⟨_, hmk⟩ | ⟨hps, _⟩
    · exact Or.inl ⟨(markOne_spec h hp f).2.phase.trans hp, hmk.markOne root f⟩
    · rw [hp] at hps; cases hps
  cases m with
  | wake =>
    simp only [Ctx.micro] at hs
    split at hs
    · rename_i hp
      rcases p with ⟨hpm, _⟩ | ⟨hps, _⟩
      · rw [hp] at hpm; cases hpm
      · rw [hp] at hps; cases hps
    · cases hs
  | markStep f =>
    simp only [Ctx.micro] at hs
    split at hs
    · cases hs; rename_i hp
      simp only [Bool.and_eq_true, decide_eq_true_eq] at hp
      exact markCase hp.1 f
    · cases hs
  | markBreak =>
    simp only [Ctx.micro] at hs
    split at hs
    · cases hs; rename_i hp
      simp only [Bool.and_eq_true, decide_eq_true_eq] at hp
      exact markCase hp.1 none
    · cases hs
  | toSweep =>
    simp only [Ctx.micro] at hs
    split at hs
    · cases hs; rename_i hp
      simp only [Bool.and_eq_true, decide_eq_true_eq, Bool.not_eq_true', Ctx.grayRemaining,
        Bool.or_eq_false_iff, Bool.not_eq_false', List.isEmpty_iff] at hp
      obtain ⟨hpm, ⟨hg, hga⟩, _⟩ := hp
      rcases p with ⟨_, o, ho, hc⟩ | ⟨hps, _⟩
      · have hb : o.color = .black := by
          rcases hc with hc | hc
          · have := h.grayQ t o ho hc
            rw [hg, hga] at this; simp at this
          · exact hc
        exact Or.inr ⟨rfl, o, ho, h.markedLive t o ho (Or.inr hb), fun _ _ => hb⟩
      · rw [hpm] at hps; cases hps
    · cases hs
  | sweepStep =>
    simp only [Ctx.micro] at hs
    split at hs
    · cases hs; rename_i hp
      simp only [Bool.and_eq_true, decide_eq_true_eq] at hp
      exact sweepCase hp.1
    · cases hs
  | sweepEnd =>
    simp only [Ctx.micro] at hs
    split at hs
    · cases hs; rename_i hp
      simp only [Bool.and_eq_true, decide_eq_true_eq] at hp
      exact sweepCase hp.1
    · cases hs
  | toSleep b => exact absurd rfl (hm b)

theorem micros_prot {root} {t : Nat} (ms : List Micro) : ∀ {c c' : Ctx}, CInv c root [] →
    c.micros root ms = some c' → (∀ m, m ∈ ms → ∀ b, m ≠ .toSleep b) → Prot c t → Prot c' t := by
  induction ms with
  | nil => intro c c' _ hs _ p; simp only [Ctx.micros] at hs; cases hs; exact p
  | cons m ms ih =>
    intro c c' h hs hm p
    simp only [Ctx.micros] at hs
    cases hc1 : c.micro root m with
    | none => rw [hc1] at hs; cases hs
    | some c1 =>
      rw [hc1] at hs
      exact ih (micro_inv h m hc1) hs (fun m' hm' => hm m' (List.mem_cons_of_mem _ hm'))
        (micro_prot h m hc1 (hm m (by simp)) p)

/-- Everything strongly reachable from a safe object is safe. -/
theorem safe_closure {c : Ctx} {root temps hole} (h : CInvH c root temps hole) {t : Nat} (hs : Safe c t) {j : Nat}
    (hj : AccessibleC c [] [Ptr.strong t] j) : Safe c j := by
  induction hj with
  | root x hx => cases hx
  | temp x hx => simp only [List.mem_singleton, Ptr.strong.injEq] at hx; subst hx; exact hs
  | edge i x _ e ih =>
    obtain ⟨o, ho, hsl⟩ := e
    exact h.closed i o ho ih _ hsl

end GcArena
