import GcArena.Proofs.Protocol
/-!
  The accounting invariant `Acc`: the work counters of `Metrics` (`marked`, `traced`,
  `remembered`, `dropped`, `freed`) never run ahead of the colours on the `all` list.

  * Sleep: all five are zero (reset by `finish_cycle`, nothing increments them while asleep).
  * Mark: `marked ≤ #non-white`, `traced ≤ #black` (on the list), the sweep counters are zero.
  * Sweep: the counters split into what was done to black objects (`rb` remembered), to
    weakly-marked objects (`rw` remembered as shells, `dw` of them destructed now) and to white
    objects (`freed`, `dfr` of them destructed first); the mark counters are bounded by what is
    still in front of the cursor plus what was already remembered.

  It is independent of the pacing factors.  This file: counting lemmas, the definition, and
  preservation by the collector / mutator primitives of `Model/Context.lean`.
-/
namespace GcArena

/-! ### Counting over a duplicate-free list -/

theorem countP_le_succ_of_imp {p q : Nat → Bool} (t : Nat) (l : List Nat) (hnd : l.Nodup)
    (h : ∀ i, i ∈ l → i ≠ t → p i = true → q i = true) : l.countP p ≤ l.countP q + 1 := by
  induction l with
  | nil => simp
  | cons a l ih =>
    have hnd' := List.nodup_cons.mp hnd
    simp only [List.countP_cons]
    by_cases ha : a = t
    · have hle : l.countP p ≤ l.countP q := by
        apply countP_le_of_imp
        intro i hi hp
        exact h i (List.mem_cons_of_mem _ hi) (fun he => hnd'.1 (by rw [ha, ← he]; exact hi)) hp
      have h1 : (if p a = true then 1 else 0) ≤ 1 := by split <;> omega
      omega
    · have ih' := ih hnd'.2 (fun i hi => h i (List.mem_cons_of_mem _ hi))
      have := h a (by simp) ha
      cases hp : p a <;> cases hq : q a <;> simp_all <;> omega

theorem countP_eq_of_eq {p q : Nat → Bool} (l : List Nat) (h : ∀ i, i ∈ l → p i = q i) :
    l.countP p = l.countP q := by
  induction l with
  | nil => rfl
  | cons a l ih =>
    simp only [List.countP_cons, h a (by simp), ih (fun i hi => h i (List.mem_cons_of_mem _ hi))]

/-! ### Colour counts -/

def colOf (c : Ctx) (j : Nat) : Option Color := (c.heap.get j).map Obj.color

def isBlk (c : Ctx) (j : Nat) : Bool := colOf c j == some .black

/-- Allocated and not white ("marked" in the sense of `mark_gc_marked`). -/
def isMk (c : Ctx) (j : Nat) : Bool := (colOf c j).isSome && colOf c j != some .white

def nB (c : Ctx) (l : List Nat) : Nat := l.countP (isBlk c)
def nM (c : Ctx) (l : List Nat) : Nat := l.countP (isMk c)

theorem nB_le_nM (c : Ctx) (l : List Nat) : nB c l ≤ nM c l := by
  apply countP_le_of_imp
  intro i _ hb
  unfold isBlk at hb
  unfold isMk
  cases h : colOf c i with
  | none => simp [h] at hb
  | some col => simp [h] at hb; simp [hb]

theorem nM_le_length (c : Ctx) (l : List Nat) : nM c l ≤ l.length := List.countP_le_length

theorem nB_congr {c c' : Ctx} (l : List Nat) (h : ∀ j, j ∈ l → colOf c' j = colOf c j) :
    nB c' l = nB c l :=
  countP_eq_of_eq l (fun j hj => by unfold isBlk; rw [h j hj])

theorem nM_congr {c c' : Ctx} (l : List Nat) (h : ∀ j, j ∈ l → colOf c' j = colOf c j) :
    nM c' l = nM c l :=
  countP_eq_of_eq l (fun j hj => by unfold isMk; rw [h j hj])

theorem nB_append (c : Ctx) (l1 l2 : List Nat) : nB c (l1 ++ l2) = nB c l1 + nB c l2 := by
  simp [nB, List.countP_append]

theorem nM_append (c : Ctx) (l1 l2 : List Nat) : nM c (l1 ++ l2) = nM c l1 + nM c l2 := by
  simp [nM, List.countP_append]

theorem nB_cons (c : Ctx) (i : Nat) (l : List Nat) :
    nB c (i :: l) = nB c l + (if isBlk c i then 1 else 0) := by
  simp [nB, List.countP_cons]

theorem nM_cons (c : Ctx) (i : Nat) (l : List Nat) :
    nM c (i :: l) = nM c l + (if isMk c i then 1 else 0) := by
  simp [nM, List.countP_cons]

/-- `c'` is `c` with the object at `t` replaced (`o ↦ o'`). -/
structure AccRecol (c c' : Ctx) (t : Nat) (o o' : Obj) : Prop where
  get_t : c.heap.get t = some o
  heap : ∀ j, c'.heap.get j = if j = t then some o' else c.heap.get j

theorem AccRecol.colOf_ne {c c' t o o'} (r : AccRecol c c' t o o') {j : Nat} (hj : j ≠ t) :
    colOf c' j = colOf c j := by
  unfold colOf; rw [r.heap]; simp [hj]

theorem AccRecol.colOf_t {c c' t o o'} (r : AccRecol c c' t o o') : colOf c' t = some o'.color := by
  unfold colOf; rw [r.heap]; simp

theorem AccRecol.colOf_t0 {c c' t o o'} (r : AccRecol c c' t o o') : colOf c t = some o.color := by
  unfold colOf; rw [r.get_t]; rfl

theorem AccRecol.nM_mono {c c' t o o'} (r : AccRecol c c' t o o') (l : List Nat)
    (h : o.color ≠ .white → o'.color ≠ .white) : nM c l ≤ nM c' l := by
  apply countP_le_of_imp
  intro j _ hq
  by_cases hj : j = t
  · subst hj
    unfold isMk at hq ⊢
    rw [r.colOf_t0] at hq
    rw [r.colOf_t]
    simp at hq ⊢
    exact h hq
  · unfold isMk at hq ⊢; rw [r.colOf_ne hj]; exact hq

theorem AccRecol.nM_up {c c' t o o'} (r : AccRecol c c' t o o') (l : List Nat) (ht : t ∈ l)
    (h0 : o.color = .white) (h1 : o'.color ≠ .white) : nM c l + 1 ≤ nM c' l := by
  apply countP_lt_of_imp l _ t ht
  · unfold isMk; rw [r.colOf_t]; simp [h1]
  · unfold isMk; rw [r.colOf_t0]; simp [h0]
  · intro j _ hq
    by_cases hj : j = t
    · subst hj; unfold isMk at hq; rw [r.colOf_t0] at hq; simp [h0] at hq
    · unfold isMk at hq ⊢; rw [r.colOf_ne hj]; exact hq

theorem AccRecol.nB_mono {c c' t o o'} (r : AccRecol c c' t o o') (l : List Nat)
    (h : o.color = .black → o'.color = .black) : nB c l ≤ nB c' l := by
  apply countP_le_of_imp
  intro j _ hq
  by_cases hj : j = t
  · subst hj
    unfold isBlk at hq ⊢
    rw [r.colOf_t0] at hq
    rw [r.colOf_t]
    simp at hq ⊢
    exact h hq
  · unfold isBlk at hq ⊢; rw [r.colOf_ne hj]; exact hq

theorem AccRecol.nB_up {c c' t o o'} (r : AccRecol c c' t o o') (l : List Nat) (ht : t ∈ l)
    (h0 : o.color ≠ .black) (h1 : o'.color = .black) : nB c l + 1 ≤ nB c' l := by
  apply countP_lt_of_imp l _ t ht
  · unfold isBlk; rw [r.colOf_t]; simp [h1]
  · unfold isBlk; rw [r.colOf_t0]; simp [h0]
  · intro j _ hq
    by_cases hj : j = t
    · subst hj; unfold isBlk at hq; rw [r.colOf_t0] at hq; simp [h0] at hq
    · unfold isBlk at hq ⊢; rw [r.colOf_ne hj]; exact hq

theorem AccRecol.nB_down {c c' t o o'} (r : AccRecol c c' t o o') (l : List Nat) (hnd : l.Nodup) :
    nB c l ≤ nB c' l + 1 := by
  apply countP_le_succ_of_imp t l hnd
  intro j _ hj hq
  unfold isBlk at hq ⊢; rw [r.colOf_ne hj]; exact hq

/-! ### The invariant -/

/-- What the counting needs of the list shape (two clauses of `CInvH`). -/
structure LI (c : Ctx) : Prop where
  nodup : (c.pre ++ c.rest).Nodup
  mem : ∀ i, i ∈ c.pre ++ c.rest ↔ ∃ o, c.heap.get i = some o

theorem CInvH.li {c : Ctx} {root temps hole} (h : CInvH c root temps hole) : LI c := ⟨h.nodup, h.memAll⟩

def SleepAcc (c : Ctx) : Prop :=
  c.metrics.marked = 0 ∧ c.metrics.traced = 0 ∧ c.metrics.remembered = 0 ∧ c.metrics.dropped = 0 ∧
    c.metrics.freed = 0

structure MarkAcc (c : Ctx) : Prop where
  rem : c.metrics.remembered = 0
  drp : c.metrics.dropped = 0
  frd : c.metrics.freed = 0
  mkd : c.metrics.marked ≤ nM c (c.pre ++ c.rest)
  trd : c.metrics.traced ≤ nB c (c.pre ++ c.rest)

/-- `rb`: black objects remembered; `rw`: weakly-marked objects remembered (as shells); `dw`: of
    those, the ones whose value was destructed by this sweep; `dfr`: white objects destructed and
    released. -/
def SweepAcc (c : Ctx) : Prop :=
  ∃ rb rw dw dfr : Nat, c.metrics.remembered = rb + rw ∧ c.metrics.dropped = dw + dfr ∧ dw ≤ rw ∧
    dfr ≤ c.metrics.freed ∧ rb + rw ≤ c.pre.length ∧ c.metrics.traced ≤ nB c c.rest + rb ∧
    c.metrics.marked ≤ nM c c.rest + rb + rw

/-- The accounting invariant. -/
def Acc (c : Ctx) : Prop :=
  (c.phase = .sleep → SleepAcc c) ∧ (c.phase = .mark → MarkAcc c) ∧ (c.phase = .sweep → SweepAcc c)

theorem acc_new : Acc Ctx.new := by
  refine ⟨fun _ => ?_, fun h => ?_, fun h => ?_⟩
  · simp [SleepAcc, Ctx.new, Metrics.new]
  · simp [Ctx.new] at h
  · simp [Ctx.new] at h

/-- The five work counters. -/
def Metrics.work (m : Metrics) : Nat × Nat × Nat × Nat × Nat :=
  (m.marked, m.traced, m.remembered, m.dropped, m.freed)

theorem work_eq {m m' : Metrics} (h : m'.work = m.work) :
    m'.marked = m.marked ∧ m'.traced = m.traced ∧ m'.remembered = m.remembered ∧
    m'.dropped = m.dropped ∧ m'.freed = m.freed := by
  simp only [Metrics.work, Prod.mk.injEq] at h; exact h

/-- Same lists, same colours, same work counters (phase may differ: per-phase lemmas below). -/
structure AccSame (c c' : Ctx) : Prop where
  pre : c'.pre = c.pre
  rest : c'.rest = c.rest
  col : ∀ j, colOf c' j = colOf c j
  work : c'.metrics.work = c.metrics.work

theorem AccSame.of_heap {c c' : Ctx} (pre : c'.pre = c.pre) (rest : c'.rest = c.rest)
    (heap : ∀ j, c'.heap.get j = c.heap.get j) (work : c'.metrics.work = c.metrics.work) :
    AccSame c c' := ⟨pre, rest, fun j => by unfold colOf; rw [heap], work⟩

theorem AccSame.refl (c : Ctx) : AccSame c c := ⟨rfl, rfl, fun _ => rfl, rfl⟩

theorem AccSame.trans {a b c : Ctx} (h1 : AccSame a b) (h2 : AccSame b c) : AccSame a c :=
  ⟨h2.pre.trans h1.pre, h2.rest.trans h1.rest, fun j => (h2.col j).trans (h1.col j),
   h2.work.trans h1.work⟩

theorem AccSame.sleep {c c' : Ctx} (s : AccSame c c') (h : SleepAcc c) : SleepAcc c' := by
  obtain ⟨e1, e2, e3, e4, e5⟩ := work_eq s.work
  unfold SleepAcc at *
  rw [e1, e2, e3, e4, e5]; exact h

theorem AccSame.mark {c c' : Ctx} (s : AccSame c c') (h : MarkAcc c) : MarkAcc c' := by
  obtain ⟨e1, e2, e3, e4, e5⟩ := work_eq s.work
  have hb : nB c' (c'.pre ++ c'.rest) = nB c (c.pre ++ c.rest) := by
    rw [s.pre, s.rest]; exact nB_congr _ (fun j _ => s.col j)
  have hm : nM c' (c'.pre ++ c'.rest) = nM c (c.pre ++ c.rest) := by
    rw [s.pre, s.rest]; exact nM_congr _ (fun j _ => s.col j)
  exact ⟨by rw [e3]; exact h.rem, by rw [e4]; exact h.drp, by rw [e5]; exact h.frd,
    by rw [e1, hm]; exact h.mkd, by rw [e2, hb]; exact h.trd⟩

theorem AccSame.sweep {c c' : Ctx} (s : AccSame c c') (h : SweepAcc c) : SweepAcc c' := by
  obtain ⟨e1, e2, e3, e4, e5⟩ := work_eq s.work
  obtain ⟨rb, rw, dw, dfr, h1, h2, h3, h4, h5, h6, h7⟩ := h
  have hb : nB c' c'.rest = nB c c.rest := by
    rw [s.rest]; exact nB_congr _ (fun j _ => s.col j)
  have hm : nM c' c'.rest = nM c c.rest := by
    rw [s.rest]; exact nM_congr _ (fun j _ => s.col j)
  refine ⟨rb, rw, dw, dfr, ?_, ?_, h3, ?_, ?_, ?_, ?_⟩
  · rw [e3]; exact h1
  · rw [e4]; exact h2
  · rw [e5]; exact h4
  · rw [s.pre]; exact h5
  · rw [e2, hb]; exact h6
  · rw [e1, hm]; exact h7

theorem AccSame.acc {c c' : Ctx} (s : AccSame c c') (hp : c'.phase = c.phase) (h : Acc c) : Acc c' := by
  refine ⟨fun hs => s.sleep (h.1 (hp ▸ hs)), fun hs => s.mark (h.2.1 (hp ▸ hs)),
    fun hs => s.sweep (h.2.2 (hp ▸ hs))⟩

theorem LI.same {c c' : Ctx} (li : LI c) (pre : c'.pre = c.pre) (rest : c'.rest = c.rest)
    (alloc : ∀ j, (∃ o, c'.heap.get j = some o) ↔ ∃ o, c.heap.get j = some o) : LI c' := by
  refine ⟨by rw [pre, rest]; exact li.nodup, fun i => ?_⟩
  rw [pre, rest, alloc]; exact li.mem i

theorem AccRecol.alloc {c c' t o o'} (r : AccRecol c c' t o o') (j : Nat) :
    (∃ x, c'.heap.get j = some x) ↔ ∃ x, c.heap.get j = some x := by
  rw [r.heap]
  by_cases hj : j = t
  · subst hj; simp [r.get_t]
  · simp [hj]

theorem LI.recol {c c' t o o'} (li : LI c) (r : AccRecol c c' t o o') (pre : c'.pre = c.pre)
    (rest : c'.rest = c.rest) : LI c' := li.same pre rest r.alloc

/-- One object changes colour in the mark phase, with the matching counter update. -/
theorem MarkAcc.recol {c c' : Ctx} {t : Nat} {o o' : Obj} (li : LI c) (h : MarkAcc c)
    (r : AccRecol c c' t o o') (pre : c'.pre = c.pre) (rest : c'.rest = c.rest)
    (e3 : c'.metrics.remembered = c.metrics.remembered) (e4 : c'.metrics.dropped = c.metrics.dropped)
    (e5 : c'.metrics.freed = c.metrics.freed)
    (hm : (c'.metrics.marked = c.metrics.marked ∧ (o.color ≠ .white → o'.color ≠ .white)) ∨
          (c'.metrics.marked = c.metrics.marked + 1 ∧ o.color = .white ∧ o'.color ≠ .white))
    (ht : (c'.metrics.traced = c.metrics.traced ∧ (o.color = .black → o'.color = .black)) ∨
          (c'.metrics.traced = c.metrics.traced + 1 ∧ o.color ≠ .black ∧ o'.color = .black) ∨
          (c'.metrics.traced = c.metrics.traced - 1)) : MarkAcc c' := by
  have hmem : t ∈ c.pre ++ c.rest := (li.mem t).mpr ⟨o, r.get_t⟩
  refine ⟨by rw [e3]; exact h.rem, by rw [e4]; exact h.drp, by rw [e5]; exact h.frd, ?_, ?_⟩
  · rw [pre, rest]
    have := h.mkd
    rcases hm with ⟨e, hc⟩ | ⟨e, h0, h1⟩
    · have := r.nM_mono (c.pre ++ c.rest) hc; omega
    · have := r.nM_up (c.pre ++ c.rest) hmem h0 h1; omega
  · rw [pre, rest]
    have := h.trd
    rcases ht with ⟨e, hc⟩ | ⟨e, h0, h1⟩ | e
    · have := r.nB_mono (c.pre ++ c.rest) hc; omega
    · have := r.nB_up (c.pre ++ c.rest) hmem h0 h1; omega
    · have := r.nB_down (c.pre ++ c.rest) li.nodup; omega

/-! ### What the mark-phase primitives do to one object and to the metrics -/

theorem trace_none {c : Ctx} {t : Nat} (h : c.heap.get t = none) : c.trace t = c.fail .dangling := by
  simp [Ctx.trace, h]

theorem trace_marked {c : Ctx} {t : Nat} {o : Obj} (ho : c.heap.get t = some o)
    (hc : o.color = .gray ∨ o.color = .black) : c.trace t = c := by
  rcases hc with hc | hc <;> simp [Ctx.trace, ho, hc]

theorem trace_unmarked {c : Ctx} {t : Nat} {o : Obj} (ho : c.heap.get t = some o)
    (hc : o.color = .white ∨ o.color = .whiteWeak) :
    AccRecol c (c.trace t) t o { o with color := if o.needsTrace then .gray else .black } ∧
    (c.trace t).metrics = if o.color = .white then c.metrics.markGcMarked else c.metrics := by
  refine ⟨⟨ho, fun j => ?_⟩, ?_⟩
  · rcases hc with hc | hc <;> cases hnt : o.needsTrace <;> cases hl : o.live <;>
      simp [Ctx.trace, ho, hc, hnt, hl]
  · rcases hc with hc | hc <;> cases hnt : o.needsTrace <;> cases hl : o.live <;>
      simp [Ctx.trace, ho, hc, hnt, hl]

theorem traceWeak_none {c : Ctx} {t : Nat} (h : c.heap.get t = none) :
    c.traceWeak t = c.fail .dangling := by
  simp [Ctx.traceWeak, h]

theorem traceWeak_nonwhite {c : Ctx} {t : Nat} {o : Obj} (ho : c.heap.get t = some o)
    (hc : o.color ≠ .white) : c.traceWeak t = c := by
  simp [Ctx.traceWeak, ho, hc]

theorem traceWeak_white {c : Ctx} {t : Nat} {o : Obj} (ho : c.heap.get t = some o)
    (hc : o.color = .white) :
    AccRecol c (c.traceWeak t) t o { o with color := .whiteWeak } ∧
    (c.traceWeak t).metrics = c.metrics.markGcMarked := by
  refine ⟨⟨ho, fun j => ?_⟩, ?_⟩ <;> simp [Ctx.traceWeak, ho, hc]

theorem makeGrayAgain_none {c : Ctx} {t : Nat} (h : c.heap.get t = none) :
    c.makeGrayAgain t = c.fail .dangling := by
  simp [Ctx.makeGrayAgain, h]

theorem makeGrayAgain_some {c : Ctx} {t : Nat} {o : Obj} (ho : c.heap.get t = some o) :
    AccRecol c (c.makeGrayAgain t) t o { o with color := .gray } ∧
    (c.makeGrayAgain t).metrics = c.metrics.markGcUntraced ∧
    (c.makeGrayAgain t).pre = c.pre ∧ (c.makeGrayAgain t).rest = c.rest ∧
    (c.makeGrayAgain t).phase = c.phase := by
  unfold Ctx.makeGrayAgain
  simp only [ho]
  refine ⟨⟨ho, fun j => ?_⟩, ?_, ?_, ?_, ?_⟩ <;> split <;> simp

theorem resurrect_none {c : Ctx} {t : Nat} (h : c.heap.get t = none) :
    c.resurrect t = c.fail .dangling := by
  simp [Ctx.resurrect, h]

/-! ### Frames -/

/-- What no collector step other than `finish_cycle`, and no mutator step other than allocation,
    `set_pacing` and `adjust_debt`, changes: the inputs of `cycle_debits` and the pacing. -/
structure MFrame (m m' : Metrics) : Prop where
  pacing : m'.pacing = m.pacing
  wakeup : m'.wakeup = m.wakeup
  artificial : m'.artificial = m.artificial
  allocated : m'.allocated = m.allocated

theorem MFrame.refl (m : Metrics) : MFrame m m := ⟨rfl, rfl, rfl, rfl⟩

theorem MFrame.trans {a b c : Metrics} (h1 : MFrame a b) (h2 : MFrame b c) : MFrame a c :=
  ⟨h2.pacing.trans h1.pacing, h2.wakeup.trans h1.wakeup, h2.artificial.trans h1.artificial,
   h2.allocated.trans h1.allocated⟩

theorem MFrame.debits {m m' : Metrics} (f : MFrame m m') : m'.cycleDebits = m.cycleDebits := by
  unfold Metrics.cycleDebits; rw [f.wakeup, f.artificial, f.allocated]

/-- Nothing the accounting reads changed. -/
structure Silent (c c' : Ctx) : Prop where
  phase : c'.phase = c.phase
  pre : c'.pre = c.pre
  rest : c'.rest = c.rest
  heap : ∀ j, c'.heap.get j = c.heap.get j
  metrics : c'.metrics = c.metrics

theorem Silent.refl (c : Ctx) : Silent c c := ⟨rfl, rfl, rfl, fun _ => rfl, rfl⟩

theorem Silent.trans {a b c : Ctx} (h1 : Silent a b) (h2 : Silent b c) : Silent a c :=
  ⟨h2.phase.trans h1.phase, h2.pre.trans h1.pre, h2.rest.trans h1.rest,
   fun j => (h2.heap j).trans (h1.heap j), h2.metrics.trans h1.metrics⟩

theorem silent_fail (c : Ctx) (f : Fault) : Silent c (c.fail f) :=
  ⟨Ctx.fail_phase c f, Ctx.fail_pre c f, Ctx.fail_rest c f, fun _ => by rw [Ctx.fail_heap],
   Ctx.fail_metrics c f⟩

theorem silent_step (c : Ctx) (ch : Char) : Silent c (c.step ch) := ⟨rfl, rfl, rfl, fun _ => rfl, rfl⟩

theorem Silent.accSame {c c' : Ctx} (s : Silent c c') : AccSame c c' :=
  AccSame.of_heap s.pre s.rest s.heap (by rw [s.metrics])

theorem Silent.acc {c c' : Ctx} (s : Silent c c') (h : Acc c) : Acc c' := s.accSame.acc s.phase h

theorem Silent.li {c c' : Ctx} (s : Silent c c') (li : LI c) : LI c' :=
  li.same s.pre s.rest (fun j => by rw [s.heap])

/-- A mark-phase primitive: keeps phase and lists, preserves the list shape and the mark-phase
    accounting, and does not touch the debit side or the count. -/
structure MarkPrim (c c' : Ctx) : Prop where
  phase : c'.phase = c.phase
  pre : c'.pre = c.pre
  rest : c'.rest = c.rest
  li : LI c → LI c'
  macc : LI c → MarkAcc c → MarkAcc c'
  mf : MFrame c.metrics c'.metrics
  total : c'.metrics.totalGcs = c.metrics.totalGcs
  freed : c'.metrics.freed = c.metrics.freed

theorem MarkPrim.refl (c : Ctx) : MarkPrim c c :=
  ⟨rfl, rfl, rfl, id, fun _ h => h, MFrame.refl _, rfl, rfl⟩

theorem MarkPrim.trans {a b c : Ctx} (h1 : MarkPrim a b) (h2 : MarkPrim b c) : MarkPrim a c :=
  ⟨h2.phase.trans h1.phase, h2.pre.trans h1.pre, h2.rest.trans h1.rest, fun l => h2.li (h1.li l),
   fun l h => h2.macc (h1.li l) (h1.macc l h), h1.mf.trans h2.mf, h2.total.trans h1.total,
   h2.freed.trans h1.freed⟩

theorem Silent.markPrim {c c' : Ctx} (s : Silent c c') : MarkPrim c c' :=
  ⟨s.phase, s.pre, s.rest, s.li, fun _ h => s.accSame.mark h, by rw [s.metrics]; exact MFrame.refl _,
   by rw [s.metrics], by rw [s.metrics]⟩

theorem MarkPrim.ofRecol {c c' : Ctx} {t : Nat} {o o' : Obj} (r : AccRecol c c' t o o')
    (phase : c'.phase = c.phase) (pre : c'.pre = c.pre) (rest : c'.rest = c.rest)
    (mf : MFrame c.metrics c'.metrics) (total : c'.metrics.totalGcs = c.metrics.totalGcs)
    (e3 : c'.metrics.remembered = c.metrics.remembered) (e4 : c'.metrics.dropped = c.metrics.dropped)
    (e5 : c'.metrics.freed = c.metrics.freed)
    (hm : (c'.metrics.marked = c.metrics.marked ∧ (o.color ≠ .white → o'.color ≠ .white)) ∨
          (c'.metrics.marked = c.metrics.marked + 1 ∧ o.color = .white ∧ o'.color ≠ .white))
    (ht : (c'.metrics.traced = c.metrics.traced ∧ (o.color = .black → o'.color = .black)) ∨
          (c'.metrics.traced = c.metrics.traced + 1 ∧ o.color ≠ .black ∧ o'.color = .black) ∨
          (c'.metrics.traced = c.metrics.traced - 1)) : MarkPrim c c' :=
  ⟨phase, pre, rest, fun l => l.recol r pre rest,
   fun l h => h.recol l r pre rest e3 e4 e5 hm ht, mf, total, e5⟩

theorem trace_phase (c : Ctx) (t : Nat) : (c.trace t).phase = c.phase := by
  unfold Ctx.trace
  split
  · simp
  · split <;> (try rfl)
    split <;> split <;> (try split) <;> simp

theorem traceWeak_phase (c : Ctx) (t : Nat) : (c.traceWeak t).phase = c.phase := by
  unfold Ctx.traceWeak
  split
  · simp
  · split <;> simp

theorem trace_markPrim (c : Ctx) (t : Nat) : MarkPrim c (c.trace t) := by
  cases hg : c.heap.get t with
  | none => rw [trace_none hg]; exact (silent_fail c _).markPrim
  | some o =>
    by_cases hc : o.color = .gray ∨ o.color = .black
    · rw [trace_marked hg hc]; exact MarkPrim.refl c
    · have hc' : o.color = .white ∨ o.color = .whiteWeak := by
        cases hcol : o.color <;> simp_all
      obtain ⟨r, hmet⟩ := trace_unmarked hg hc'
      have hcol' : ({ o with color := if o.needsTrace then Color.gray else Color.black } : Obj).color
          ≠ .white := by
        show (if o.needsTrace then Color.gray else Color.black) ≠ .white
        split <;> simp
      apply MarkPrim.ofRecol r (trace_phase c t) (Ctx.trace_pre c t) (Ctx.trace_rest c t)
      all_goals rw [hmet]
      · split <;> exact ⟨rfl, rfl, rfl, rfl⟩
      · split <;> rfl
      · split <;> rfl
      · split <;> rfl
      · split <;> rfl
      · by_cases hw : o.color = .white
        · right; rw [if_pos hw]; exact ⟨rfl, hw, hcol'⟩
        · left; rw [if_neg hw]; exact ⟨rfl, fun _ => hcol'⟩
      · left
        refine ⟨by split <;> rfl, fun hb => ?_⟩
        rcases hc' with h | h <;> rw [h] at hb <;> cases hb

theorem traceWeak_markPrim (c : Ctx) (t : Nat) : MarkPrim c (c.traceWeak t) := by
  cases hg : c.heap.get t with
  | none => rw [traceWeak_none hg]; exact (silent_fail c _).markPrim
  | some o =>
    by_cases hc : o.color = .white
    · obtain ⟨r, hmet⟩ := traceWeak_white hg hc
      apply MarkPrim.ofRecol r (traceWeak_phase c t) (Ctx.traceWeak_pre c t) (Ctx.traceWeak_rest c t)
      all_goals rw [hmet]
      · exact ⟨rfl, rfl, rfl, rfl⟩
      · rfl
      · rfl
      · rfl
      · rfl
      · right; exact ⟨rfl, hc, by simp⟩
      · left; exact ⟨rfl, fun hb => by rw [hc] at hb; cases hb⟩
    · rw [traceWeak_nonwhite hg hc]; exact MarkPrim.refl c

theorem makeGrayAgain_markPrim (c : Ctx) (t : Nat) : MarkPrim c (c.makeGrayAgain t) := by
  cases hg : c.heap.get t with
  | none => rw [makeGrayAgain_none hg]; exact (silent_fail c _).markPrim
  | some o =>
    obtain ⟨r, hmet, hpre, hrest, hph⟩ := makeGrayAgain_some hg
    apply MarkPrim.ofRecol r hph hpre hrest
    all_goals rw [hmet]
    · exact ⟨rfl, rfl, rfl, rfl⟩
    · rfl
    · rfl
    · rfl
    · rfl
    · left; exact ⟨rfl, fun _ => by simp⟩
    · right; right; rfl

theorem resurrect_markPrim (c : Ctx) (t : Nat) : MarkPrim c (c.resurrect t) := by
  cases hg : c.heap.get t with
  | none => rw [resurrect_none hg]; exact (silent_fail c _).markPrim
  | some o =>
    have s1 : Silent c (if c.phase = .mark then c else c.fail .debugAssert) := by
      split
      · exact Silent.refl c
      · exact silent_fail c _
    generalize hc1 : (if c.phase = .mark then c else c.fail .debugAssert) = c1 at s1
    have s2 : Silent c (if o.live = true then c1 else c1.fail .debugAssert) := by
      split
      · exact s1
      · exact s1.trans (silent_fail c1 _)
    generalize hc2 : (if o.live = true then c1 else c1.fail .debugAssert) = c2 at s2
    have hdef : c.resurrect t =
        if o.color = .white || o.color = .whiteWeak then
          (if o.color = .white then
            ({ (c2.setObj t { o with color := .gray }) with gray := t :: c2.gray } : Ctx).withMetrics
              Metrics.markGcMarked
           else { (c2.setObj t { o with color := .gray }) with gray := t :: c2.gray })
        else c2 := by
      unfold Ctx.resurrect
      simp only [hg, hc1, hc2]
    rw [hdef]
    have hg2 : c2.heap.get t = some o := by rw [s2.heap]; exact hg
    refine s2.markPrim.trans ?_
    by_cases hw : o.color = .white
    · simp only [hw, decide_true, Bool.true_or, if_true]
      refine MarkPrim.ofRecol (t := t) (o := o) (o' := { o with color := .gray })
        ⟨hg2, fun j => by simp⟩ rfl rfl rfl ⟨rfl, rfl, rfl, rfl⟩ rfl rfl rfl rfl ?_ ?_
      · right; exact ⟨rfl, hw, by simp⟩
      · left; exact ⟨rfl, fun hb => by rw [hw] at hb; cases hb⟩
    · by_cases hww : o.color = .whiteWeak
      · simp only [hww, decide_true, Bool.or_true, if_true]
        have : ¬ (Color.whiteWeak = Color.white) := by decide
        simp only [this, if_false]
        refine MarkPrim.ofRecol (t := t) (o := o) (o' := { o with color := .gray })
          ⟨hg2, fun j => by simp⟩ rfl rfl rfl ⟨rfl, rfl, rfl, rfl⟩ rfl rfl rfl rfl ?_ ?_
        · left; exact ⟨rfl, fun _ => by simp⟩
        · left; exact ⟨rfl, fun hb => by rw [hww] at hb; cases hb⟩
      · simp only [hw, hww, decide_false, Bool.or_self, Bool.false_eq_true, if_false]
        exact MarkPrim.refl c2

theorem traceSlot_markPrim (c : Ctx) (s : Slot) : MarkPrim c (c.traceSlot s) := by
  cases s with
  | none => exact MarkPrim.refl c
  | some p =>
    cases p with
    | strong t => exact trace_markPrim c t
    | weak t => exact traceWeak_markPrim c t

theorem traceSlots_markPrim (ss : List Slot) : ∀ c : Ctx, MarkPrim c (c.traceSlots ss) := by
  induction ss with
  | nil => intro c; exact MarkPrim.refl c
  | cons s ss ih =>
    intro c
    simp only [Ctx.traceSlots, List.foldl_cons]
    exact (traceSlot_markPrim c s).trans (ih _)

/-- The popped-object arm of `mark_one`: `traced += 1` together with gray → black, then a
    sequence of primitives.  `i` must be allocated and not yet black (it is gray: `CInvH.qGray`). -/
theorem markObj_markPrim {c : Ctx} {i : Nat} {o : Obj} (ho : c.heap.get i = some o)
    (hnb : o.color ≠ .black) (f : Option Nat) : MarkPrim c (c.markObj i f).1 := by
  have hb : MarkPrim c ((c.withMetrics Metrics.markGcTraced).setObj i { o with color := .black }) := by
    refine MarkPrim.ofRecol (t := i) (o := o) (o' := { o with color := .black })
      ⟨ho, fun j => by simp⟩ rfl rfl rfl ⟨rfl, rfl, rfl, rfl⟩ rfl rfl rfl rfl ?_ ?_
    · left; exact ⟨rfl, fun _ => by simp⟩
    · right; left; exact ⟨rfl, hnb, rfl⟩
  generalize hc2 : (c.withMetrics Metrics.markGcTraced).setObj i { o with color := .black } = c2 at hb
  have s3 : Silent c2 (if o.live = true then c2 else c2.fail .debugAssert) := by
    split
    · exact Silent.refl c2
    · exact silent_fail c2 _
  generalize hc3 : (if o.live = true then c2 else c2.fail .debugAssert) = c3 at s3
  have hdef : c.markObj i f =
      match f with
      | none => (c3.traceSlots o.slots, Flow.continue)
      | some j => ((c3.traceSlots (o.slots.take j)).makeGrayAgain i, Flow.unwind) := by
    unfold Ctx.markObj
    simp only [Ctx.withMetrics_heap, ho, hc2, hc3]
    cases f <;> rfl
  rw [hdef]
  cases f with
  | none => exact (hb.trans s3.markPrim).trans (traceSlots_markPrim _ _)
  | some j =>
    exact ((hb.trans s3.markPrim).trans (traceSlots_markPrim _ _)).trans (makeGrayAgain_markPrim _ _)

/-- `mark_one`, given the queue clause of the invariant. -/
theorem markOne_markPrim {c : Ctx} {root temps} (h : CInv c root temps) (f : Option Nat) :
    MarkPrim c (c.markOne root f).1 := by
  have pop : ∀ (c0 : Ctx) (i : Nat), Silent c c0 → (i ∈ c.gray ∨ i ∈ c.grayAgain) →
      MarkPrim c (c0.markObj i f).1 := by
    intro c0 i s hi
    obtain ⟨o, ho, hg⟩ := h.qGray i hi
    have ho0 : c0.heap.get i = some o := by rw [s.heap]; exact ho
    exact s.markPrim.trans (markObj_markPrim ho0 (by rw [hg]; simp) f)
  unfold Ctx.markOne
  cases hgq : c.gray with
  | cons i g =>
    simp only
    exact pop _ i ⟨rfl, rfl, rfl, fun _ => rfl, rfl⟩ (by rw [hgq]; simp)
  | nil =>
    simp only
    cases hga : c.grayAgain with
    | cons i g =>
      simp only
      exact pop _ i ⟨rfl, rfl, rfl, fun _ => rfl, rfl⟩ (by rw [hga]; simp)
    | nil =>
      simp only
      split
      · cases f with
        | none =>
          simp only
          refine ((silent_step c 'r').markPrim.trans (traceSlots_markPrim root _)).trans ?_
          exact Silent.markPrim ⟨rfl, rfl, rfl, fun _ => rfl, rfl⟩
        | some j =>
          simp only
          exact (silent_step c 'r').markPrim.trans (traceSlots_markPrim _ _)
      · exact (silent_step c 'b').markPrim

/-! ### The sweep phase -/

/-- The cursor passes the object `i`. -/
theorem SweepAcc.advance {c c' : Ctx} {i : Nat} {rest' : List Nat} (h : SweepAcc c)
    (hr : c.rest = i :: rest') (hr' : c'.rest = rest')
    (hcol : ∀ j, j ∈ rest' → colOf c' j = colOf c j)
    (e1 : c'.metrics.marked = c.metrics.marked) (e2 : c'.metrics.traced = c.metrics.traced)
    (hcase :
      -- white: released (destructed first if still live)
      (isMk c i = false ∧ c'.pre = c.pre ∧ c'.metrics.remembered = c.metrics.remembered ∧
        c'.metrics.freed = c.metrics.freed + 1 ∧ c.metrics.dropped ≤ c'.metrics.dropped ∧
        c'.metrics.dropped ≤ c.metrics.dropped + 1) ∨
      -- black: remembered
      (c'.pre.length = c.pre.length + 1 ∧ c'.metrics.remembered = c.metrics.remembered + 1 ∧
        c'.metrics.freed = c.metrics.freed ∧ c'.metrics.dropped = c.metrics.dropped) ∨
      -- white-weak: remembered as a shell (destructed if still live)
      (isBlk c i = false ∧ c'.pre.length = c.pre.length + 1 ∧
        c'.metrics.remembered = c.metrics.remembered + 1 ∧ c'.metrics.freed = c.metrics.freed ∧
        c.metrics.dropped ≤ c'.metrics.dropped ∧ c'.metrics.dropped ≤ c.metrics.dropped + 1)) :
    SweepAcc c' := by
  obtain ⟨rb, rw, dw, dfr, h1, h2, h3, h4, h5, h6, h7⟩ := h
  have hb : nB c' c'.rest = nB c rest' := by rw [hr']; exact nB_congr _ hcol
  have hm : nM c' c'.rest = nM c rest' := by rw [hr']; exact nM_congr _ hcol
  rw [hr, nB_cons] at h6
  rw [hr, nM_cons] at h7
  have hB1 : (if isBlk c i = true then 1 else 0) ≤ 1 := by split <;> omega
  have hM1 : (if isMk c i = true then 1 else 0) ≤ 1 := by split <;> omega
  have hBM : (if isBlk c i = true then 1 else 0) ≤ (if isMk c i = true then 1 else 0) := by
    have := nB_le_nM c [i]
    simpa [nB, nM, List.countP_cons] using this
  rcases hcase with ⟨hw, p1, p2, p3, p4, p5⟩ | ⟨p1, p2, p3, p4⟩ | ⟨hnb, p1, p2, p3, p4, p5⟩
  · rw [hw] at hBM h7
    simp only [Bool.false_eq_true, if_false] at hBM h7
    refine ⟨rb, rw, dw, dfr + (c'.metrics.dropped - c.metrics.dropped), ?_, ?_, h3, ?_, ?_, ?_, ?_⟩
    · omega
    · omega
    · omega
    · rw [p1]; exact h5
    · rw [e2, hb]; omega
    · rw [e1, hm]; omega
  · refine ⟨rb + 1, rw, dw, dfr, ?_, ?_, h3, ?_, ?_, ?_, ?_⟩
    · omega
    · omega
    · omega
    · omega
    · rw [e2, hb]; omega
    · rw [e1, hm]; omega
  · rw [hnb] at h6
    simp only [Bool.false_eq_true, if_false] at h6
    refine ⟨rb, rw + 1, dw + (c'.metrics.dropped - c.metrics.dropped), dfr, ?_, ?_, ?_, ?_, ?_, ?_, ?_⟩
    · omega
    · omega
    · omega
    · omega
    · omega
    · rw [e2, hb]; omega
    · rw [e1, hm]; omega

theorem sweepOne_mframe (c : Ctx) : MFrame c.metrics c.sweepOne.1.metrics := by
  unfold Ctx.sweepOne
  cases hr : c.rest with
  | nil => exact ⟨rfl, rfl, rfl, rfl⟩
  | cons i rest' =>
    simp only [Ctx.step_heap]
    cases hg : c.heap.get i with
    | none => simp only [Ctx.fail_metrics]; exact ⟨rfl, rfl, rfl, rfl⟩
    | some o =>
      simp only
      cases o.color <;> simp only <;> (try cases o.live) <;>
        simp only [Ctx.withMetrics_metrics, Ctx.emit_metrics, Ctx.setObj_metrics, Ctx.step_metrics,
          Ctx.fail_metrics, Metrics.markGcFreed, Metrics.markGcDropped, Metrics.markGcRemembered,
          if_true, Bool.false_eq_true, if_false] <;>
        exact ⟨rfl, rfl, rfl, rfl⟩

theorem sweepOne_sacc {c : Ctx} {root temps} (h : CInv c root temps) (hp : c.phase = .sweep)
    (ha : SweepAcc c) : SweepAcc c.sweepOne.1 := by
  unfold Ctx.sweepOne
  cases hr : c.rest with
  | nil => exact (silent_step c 'e').accSame.sweep ha
  | cons i rest' =>
    simp only
    have hnd := h.nodup
    rw [hr] at hnd
    have hi_nr : i ∉ rest' := by
      have := (List.nodup_append.mp hnd).2.1
      simp only [List.nodup_cons] at this; exact this.1
    obtain ⟨o, ho⟩ := (h.memAll i).mp (by rw [hr]; simp)
    have hng : o.color ≠ .gray := by
      intro hg
      have := h.grayQ i o ho hg
      have hq := h.qMark (by rw [hp]; simp)
      rw [hq.1, hq.2] at this; simp at this
    simp only [Ctx.step_heap, ho]
    have hci : colOf c i = some o.color := by unfold colOf; rw [ho]; rfl
    -- colours of the rest are untouched by an update at `i`
    have hcol : ∀ (c2 : Ctx), (∀ j, j ≠ i → c2.heap.get j = c.heap.get j) →
        ∀ j, j ∈ rest' → colOf c2 j = colOf c j := by
      intro c2 hf j hj
      have : j ≠ i := fun he => hi_nr (he ▸ hj)
      unfold colOf; rw [hf j this]
    cases hcol0 : o.color with
    | gray => exact absurd hcol0 hng
    | white =>
      simp only
      have hmk : isMk c i = false := by unfold isMk; rw [hci, hcol0]; rfl
      cases hl : o.live with
      | true =>
        simp only [if_true]
        apply ha.advance hr rfl
        · apply hcol; intro j hj; simp [Heap.get_set, hj]
        · rfl
        · rfl
        · left
          refine ⟨hmk, rfl, rfl, rfl, ?_, ?_⟩ <;>
            simp [Metrics.markGcFreed, Metrics.markGcDropped]
      | false =>
        simp only [Bool.false_eq_true, if_false]
        apply ha.advance hr rfl
        · apply hcol; intro j hj; simp [Heap.get_set, hj]
        · rfl
        · rfl
        · left
          refine ⟨hmk, rfl, rfl, rfl, ?_, ?_⟩ <;> simp [Metrics.markGcFreed]
    | whiteWeak =>
      simp only
      have hnb : isBlk c i = false := by unfold isBlk; rw [hci, hcol0]; rfl
      cases hl : o.live with
      | true =>
        simp only [if_true]
        apply ha.advance hr rfl
        · apply hcol; intro j hj; simp [hj]
        · rfl
        · rfl
        · right; right
          refine ⟨hnb, by simp, rfl, rfl, ?_, ?_⟩ <;>
            simp [Metrics.markGcRemembered, Metrics.markGcDropped]
      | false =>
        simp only [Bool.false_eq_true, if_false]
        apply ha.advance hr rfl
        · apply hcol; intro j hj; simp [hj]
        · rfl
        · rfl
        · right; right
          refine ⟨hnb, by simp, rfl, rfl, ?_, ?_⟩ <;> simp [Metrics.markGcRemembered]
    | black =>
      simp only
      apply ha.advance hr rfl
      · apply hcol; intro j hj; simp [hj]
      · rfl
      · rfl
      · right; left
        exact ⟨by simp, rfl, rfl, rfl⟩

/-! ### Phase switches and micro-steps -/

theorem MarkPrim.acc {c c' : Ctx} (p : MarkPrim c c') (hm : c.phase = .mark) (li : LI c) (ha : Acc c) :
    Acc c' := by
  have hp : c'.phase = .mark := by rw [p.phase]; exact hm
  refine ⟨fun h => ?_, fun _ => p.macc li (ha.2.1 hm), fun h => ?_⟩
  · rw [hp] at h; cases h
  · rw [hp] at h; cases h

theorem wake_acc {c : Ctx} (hp : c.phase = .sleep) (ha : Acc c) : Acc (c.switch .mark) := by
  obtain ⟨e1, e2, e3, e4, e5⟩ := ha.1 hp
  have hph : (c.switch .mark).phase = .mark := rfl
  refine ⟨fun h => ?_, fun _ => ?_, fun h => ?_⟩
  · rw [hph] at h; cases h
  · refine ⟨e3, e4, e5, ?_, ?_⟩
    · show c.metrics.marked ≤ _; omega
    · show c.metrics.traced ≤ _; omega
  · rw [hph] at h; cases h

theorem enterSweep_acc {c : Ctx} (hp : c.phase = .mark) (ha : Acc c) : Acc c.enterSweep := by
  have hm := ha.2.1 hp
  have hph : c.enterSweep.phase = .sweep := rfl
  refine ⟨fun h => ?_, fun h => ?_, fun _ => ?_⟩
  · rw [hph] at h; cases h
  · rw [hph] at h; cases h
  · refine ⟨0, 0, 0, 0, hm.rem, hm.drp, Nat.le_refl _, Nat.zero_le _, Nat.zero_le _, ?_, ?_⟩
    · have : nB c.enterSweep c.enterSweep.rest = nB c (c.pre ++ c.rest) :=
        nB_congr _ (fun _ _ => rfl)
      rw [this]; exact hm.trd
    · have : nM c.enterSweep c.enterSweep.rest = nM c (c.pre ++ c.rest) :=
        nM_congr _ (fun _ _ => rfl)
      rw [this]; exact hm.mkd

theorem enterSleep_acc (c : Ctx) (hs : Bool) : Acc (c.enterSleep hs) := by
  have hph : (c.enterSleep hs).phase = .sleep := rfl
  refine ⟨fun _ => ⟨rfl, rfl, rfl, rfl, rfl⟩, fun h => ?_, fun h => ?_⟩
  · rw [hph] at h; cases h
  · rw [hph] at h; cases h

theorem sweepOne_acc {c : Ctx} {root temps} (h : CInv c root temps) (hp : c.phase = .sweep)
    (ha : Acc c) : Acc c.sweepOne.1 := by
  have hph := (sweepOne_spec h hp).2
  refine ⟨fun hq => ?_, fun hq => ?_, fun _ => sweepOne_sacc h hp (ha.2.2 hp)⟩
  · rw [hph] at hq; cases hq
  · rw [hph] at hq; cases hq

/-- Every enabled micro-step of the driver loop preserves the accounting invariant. -/
theorem micro_acc {c c' : Ctx} {root} (h : CInv c root []) (ha : Acc c) (m : Micro)
    (hs : c.micro root m = some c') : Acc c' := by
  cases m with
  | wake =>
    simp only [Ctx.micro] at hs
    split at hs
    · cases hs; rename_i hp; exact wake_acc hp ha
    · cases hs
  | markStep f =>
    simp only [Ctx.micro] at hs
    split at hs
    · cases hs; rename_i hp
      simp only [Bool.and_eq_true, decide_eq_true_eq] at hp
      exact (markOne_markPrim h f).acc hp.1 h.li ha
    · cases hs
  | markBreak =>
    simp only [Ctx.micro] at hs
    split at hs
    · cases hs; rename_i hp
      simp only [Bool.and_eq_true, decide_eq_true_eq] at hp
      exact (markOne_markPrim h none).acc hp.1 h.li ha
    · cases hs
  | toSweep =>
    simp only [Ctx.micro] at hs
    split at hs
    · cases hs; rename_i hp
      simp only [Bool.and_eq_true, decide_eq_true_eq] at hp
      exact enterSweep_acc hp.1 ha
    · cases hs
  | sweepStep =>
    simp only [Ctx.micro] at hs
    split at hs
    · cases hs; rename_i hp
      simp only [Bool.and_eq_true, decide_eq_true_eq] at hp
      exact sweepOne_acc h hp.1 ha
    · cases hs
  | sweepEnd =>
    simp only [Ctx.micro] at hs
    split at hs
    · cases hs; rename_i hp
      simp only [Bool.and_eq_true, decide_eq_true_eq] at hp
      exact sweepOne_acc h hp.1 ha
    · cases hs
  | toSleep b =>
    simp only [Ctx.micro] at hs
    split at hs
    · cases hs; exact enterSleep_acc c b
    · cases hs

theorem micros_acc {root} (ms : List Micro) : ∀ {c c' : Ctx}, CInv c root [] → Acc c →
    c.micros root ms = some c' → Acc c' := by
  induction ms with
  | nil => intro c c' _ ha hs; cases hs; exact ha
  | cons m ms ih =>
    intro c c' h ha hs
    simp only [Ctx.micros] at hs
    cases hm : c.micro root m with
    | none => rw [hm] at hs; cases hs
    | some c1 =>
      rw [hm] at hs
      exact ih (micro_inv h m hm) (micro_acc h ha m hm) hs

theorem Reaches.acc {c c' : Ctx} {root} (r : Reaches c root c') (h : CInv c root []) (ha : Acc c) :
    Acc c' := by
  obtain ⟨ms, hs⟩ := r; exact micros_acc ms h ha hs

/-- Every run of `do_collection` preserves the accounting invariant. -/
theorem doCollection_acc {c : Ctx} {root ru stop fault} (h : CInv c root []) (ha : Acc c) :
    Acc (c.doCollection root ru stop fault).1 :=
  (doCollection_reaches h).acc h ha

end GcArena
