import GcArena.Model.CallGraphM
import GcArena.Generated.CallGraph
/-!
Definitions used by `Props/C03s` and `Props/C20s`: which extracted functions count as
callback-side entry points, which as destructive (as bit masks over the node ids of
`Generated.CallGraph.fns`), and the closure certificates.
-/
namespace GcArena.CallGraphDefs
open GcArena.CallGraphM GcArena.Generated.CallGraph

/-- Entry points a running callback of arena `A` cannot use on `A`: they need `&mut Arena` /
`Arena` by value / a `MarkedArena` (all excluded by the borrow the callback holds), or they build
a *different* arena (`Arena::new`, `try_new`, `rootless_mutate`: they call `Context::new`). -/
def excludedRoot (f : FnInfo) : Bool :=
  (f.selfKind == .arena && (f.recv == .refMut || f.recv == .value)) ||
  f.selfKind == .markedArena || f.makesArena

/-- Everything client code can call (or implicitly run, for `Drop` impls of public types). -/
def callbackRoots : Nat := maskWhere fns (fun f => f.clientCallable && !excludedRoot f)

/-- `Drop` impls of the builder types: they release a block that was never linked (C18). -/
def builderDrops : Nat := maskWhere fns (fun f => f.isDropImpl && f.isBuilder)

/-- Structural anchors only: the collector driver — a `&mut self` method of `Context` that an
`Arena` / `MarkedArena` method calls and from which a primitive destructor call is reachable
(`Context::do_collection` today; tagged by the translator from the graph, not from its name). -/
def destructiveTags : List Tag := [.doCollection]

/-- Every node that directly calls a primitive destructor / deallocator (`ptr::drop_in_place`,
`alloc::dealloc`, `ManuallyDrop::drop`, `mem::drop`, `Box::from_raw`; the vtable's `drop_value` /
`dealloc` closures are such nodes), other than the builder `Drop` impls, plus the collector
driver.  No function name is involved: whatever path leads to reclaiming memory ends in one of
these nodes, so "cannot reach `destructive`" covers `sweep_one`, the arena destructor,
`GcPtr::drop_in_place` / `dealloc` under any name. -/
def destructive : Nat :=
  maskWhere fns (fun f => destructiveTags.contains f.tag) |||
  -- `p &&& (p ^^^ b)` is `p \ b`
  (maskOf primDestructive &&& (maskOf primDestructive ^^^ builderDrops))

/-- The generated certificate (checked by `closedB` in `Props/C03s`);
`closure adj builderDrops callbackRoots n` computes the same mask by evaluation. -/
def callbackClosure : Nat := callbackClosureCert

def doCollection : Nat := maskWhere fns (fun f => f.tag == .doCollection)

def collectorClosure : Nat := collectorClosureCert

/-- Private helpers of the driver (`PhaseGuard::step_*`-like functions a refactoring may split the
driver loop into): not callable by clients, and — checked on the graph by `entersOnlyVia` in
`Props/C03s.driver_parts_private` — called by nothing but the driver and one another. -/
def driverParts : Nat := maskWhere fns (fun f => f.tag == .driverPart)

/-- The driver with its private helpers. -/
def driver : Nat := doCollection ||| driverParts

/-- `&mut self` on `Arena`, or consumes a `MarkedArena`. -/
def exclusiveEntry (f : FnInfo) : Bool :=
  (f.selfKind == .arena && f.recv == .refMut) || (f.selfKind == .markedArena && f.recv == .value)

end GcArena.CallGraphDefs
