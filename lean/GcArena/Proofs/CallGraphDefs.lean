import GcArena.Model.CallGraphM
import GcArena.Generated.CallGraph
/-!
Definitions used by `Props/C03s` and `Props/C20s`: which extracted functions count as
callback-side entry points, which as destructive (as bit masks over the node ids of
`Generated.CallGraph.fns`), and the closure certificates.
-/
namespace GcArena.CallGraphDefs
open GcArena.CallGraphM GcArena.Generated.CallGraph

/-- Entry points a running callback of arena `A` cannot use on `A`: they need `&mut Arena` /
`Arena` by value / a `MarkedArena` (all excluded by the borrow the callback holds), or they build
a *different* arena (`Arena::new`, `try_new`, `rootless_mutate`: they call `Context::new`). -/
def excludedRoot (f : FnInfo) : Bool :=
  (f.selfKind == .arena && (f.recv == .refMut || f.recv == .value)) ||
  f.selfKind == .markedArena || f.makesArena

/-- Everything client code can call (or implicitly run, for `Drop` impls of public types). -/
def callbackRoots : Nat := maskWhere fns (fun f => f.clientCallable && !excludedRoot f)

/-- `Drop` impls of the builder types: they release a block that was never linked (C18). -/
def builderDrops : Nat := maskWhere fns (fun f => f.isDropImpl && f.isBuilder)

def destructiveTags : List Tag :=
  [.doCollection, .sweepOne, .contextDrop, .dropAllDrop, .gcPtrDropInPlace, .gcPtrDealloc]

/-- The named collector functions (`Context::do_collection`, `Context::sweep_one`,
`<Context as Drop>::drop`, `<DropAll as Drop>::drop`, `GcPtr::drop_in_place`, `GcPtr::dealloc`)
plus every node that directly calls a primitive destructor / deallocator, other than the builder
`Drop` impls. -/
def destructive : Nat :=
  maskWhere fns (fun f => destructiveTags.contains f.tag) |||
  -- `p &&& (p ^^^ b)` is `p \ b`
  (maskOf primDestructive &&& (maskOf primDestructive ^^^ builderDrops))

/-- The generated certificate (checked by `closedB` in `Props/C03s`);
`closure adj builderDrops callbackRoots n` computes the same mask by evaluation. -/
def callbackClosure : Nat := callbackClosureCert

def doCollection : Nat := maskWhere fns (fun f => f.tag == .doCollection)

def collectorClosure : Nat := collectorClosureCert

/-- `&mut self` on `Arena`, or consumes a `MarkedArena`. -/
def exclusiveEntry (f : FnInfo) : Bool :=
  (f.selfKind == .arena && f.recv == .refMut) || (f.selfKind == .markedArena && f.recv == .value)

end GcArena.CallGraphDefs
