import GcArena.Proofs.ProtRun
/-!
  The collector never changes what a surviving value holds: across every micro-step, every
  collection call and every `.collect` op, an object that is allocated and undestructed afterwards
  was so before, with exactly the same slots.  With the per-op description of the mutator
  operations (Proofs/MutFrame) this gives the history-level frame for single slots: along any run,
  slot `k` of object `i` changes only by a store op into `(i, k)`.
-/
namespace GcArena

/-- Every object undestructed in `c'` was undestructed in `c`, with the same slots. -/
def LiveFrame (c c' : Ctx) : Prop :=
  ∀ i o', c'.heap.get i = some o' → o'.live = true →
    ∃ o, c.heap.get i = some o ∧ o.live = true ∧ o'.slots = o.slots

theorem LiveFrame.refl (c : Ctx) : LiveFrame c c := fun _ o' h hl => ⟨o', h, hl, rfl⟩

theorem LiveFrame.trans {a b c : Ctx} (h1 : LiveFrame a b) (h2 : LiveFrame b c) : LiveFrame a c := by
  intro i o2 ho2 hl2
  obtain ⟨o1, ho1, hl1, s1⟩ := h2 i o2 ho2 hl2
  obtain ⟨o, ho, hl, s⟩ := h1 i o1 ho1 hl1
  exact ⟨o, ho, hl, s1.trans s⟩

theorem LiveFrame.ofHeap {c c' : Ctx} (h : ∀ j, c'.heap.get j = c.heap.get j) : LiveFrame c c' :=
  fun i o' ho' hl => ⟨o', by rw [← h]; exact ho', hl, rfl⟩

theorem MarkFrame.liveFrame {c c' : Ctx} (f : MarkFrame c c') : LiveFrame c c' := by
  intro i o' ho' hl
  obtain ⟨o, ho⟩ := (f.alloc i).mp ⟨o', ho'⟩
  obtain ⟨l, s, _⟩ := f.live i o o' ho ho'
  exact ⟨o, ho, l ▸ hl, s⟩

theorem sweepOne_liveFrame (c : Ctx) : LiveFrame c c.sweepOne.1 := by
  cases hr : c.rest with
  | nil => rw [sweepOne_end hr]; exact LiveFrame.ofHeap (fun _ => rfl)
  | cons i rest' =>
    cases ho : c.heap.get i with
    | none =>
      have : c.sweepOne.1.heap = c.heap := by
        unfold Ctx.sweepOne
        simp [hr, ho]
      exact LiveFrame.ofHeap (fun _ => by rw [this])
    | some o =>
      obtain ⟨_, _, hframe, hcases⟩ := sweepOne_cases hr ho
      intro j oj' hoj' hl
      by_cases hj : j = i
      · subst hj
        rcases hcases with ⟨_, hn, _⟩ | ⟨_, _, o', ho', _, hd, _⟩ | ⟨_, _, hb⟩ | ⟨_, _, hg⟩
        · rw [hn] at hoj'; cases hoj'
        · rw [ho'] at hoj'; cases hoj'; rw [hd] at hl; cases hl
        · rw [hb] at hoj'; cases hoj'; exact ⟨o, ho, hl, rfl⟩
        · rw [hg] at hoj'; cases hoj'; exact ⟨o, ho, hl, rfl⟩
      · rw [hframe j hj] at hoj'
        exact ⟨oj', hoj', hl, rfl⟩

/-- **Frame for collector steps**: one micro-step leaves the slots of every surviving live object
    unchanged (and resurrects nothing). -/
theorem micro_liveFrame {c c' : Ctx} {root} (h : CInv c root []) (m : Micro)
    (hs : c.micro root m = some c') : LiveFrame c c' := by
  cases m with
  | wake =>
    simp only [Ctx.micro] at hs
    split at hs
    · cases hs; exact LiveFrame.ofHeap (fun _ => rfl)
    · cases hs
  | markStep f =>
    simp only [Ctx.micro] at hs
    split at hs
    · cases hs; rename_i hp
      simp only [Bool.and_eq_true, decide_eq_true_eq] at hp
      exact (markOne_spec h hp.1 f).2.liveFrame
    · cases hs
  | markBreak =>
    simp only [Ctx.micro] at hs
    split at hs
    · cases hs; rename_i hp
      simp only [Bool.and_eq_true, decide_eq_true_eq] at hp
      exact (markOne_spec h hp.1 none).2.liveFrame
    · cases hs
  | toSweep =>
    simp only [Ctx.micro] at hs
    split at hs
    · cases hs; exact LiveFrame.ofHeap (fun _ => rfl)
    · cases hs
  | toSleep b =>
    simp only [Ctx.micro] at hs
    split at hs
    · cases hs; exact LiveFrame.ofHeap (fun _ => rfl)
    · cases hs
  | sweepStep =>
    simp only [Ctx.micro] at hs
    split at hs
    · cases hs; exact sweepOne_liveFrame c
    · cases hs
  | sweepEnd =>
    simp only [Ctx.micro] at hs
    split at hs
    · cases hs; exact sweepOne_liveFrame c
    · cases hs

theorem micros_liveFrame {root} (ms : List Micro) : ∀ {c c' : Ctx}, CInv c root [] →
    c.micros root ms = some c' → LiveFrame c c' := by
  induction ms with
  | nil => intro c c' _ hs; simp only [Ctx.micros] at hs; cases hs; exact LiveFrame.refl c
  | cons m ms ih =>
    intro c c' h hs
    simp only [Ctx.micros] at hs
    cases hm : c.micro root m with
    | none => rw [hm] at hs; cases hs
    | some c1 =>
      rw [hm] at hs
      exact (micro_liveFrame h m hm).trans (ih (micro_inv h m hm) hs)

theorem Reaches.liveFrame {c c' : Ctx} {root} (r : Reaches c root c') (h : CInv c root []) :
    LiveFrame c c' := by
  obtain ⟨ms, hs⟩ := r; exact micros_liveFrame ms h hs

/-- … a whole `Context::do_collection` call (any `RunUntil`, `Stop`, debt, fault position) … -/
theorem doCollection_liveFrame {c : Ctx} {root} (h : CInv c root []) (ru : RunUntil) (stop : Stop)
    (fault : TraceFault) : LiveFrame c (c.doCollection root ru stop fault).1 :=
  (doCollection_reaches h).liveFrame h

theorem CollectRel.liveFrame {a a' : Arena} (h : Inv a) (rel : CollectRel a a') :
    LiveFrame a.ctx a'.ctx := by
  obtain ⟨ms, hms, hnil⟩ := rel.reach
  by_cases hcb : a.cb = none
  · exact micros_liveFrame ms (h.cinv0 hcb) hms
  · have := hnil hcb
    subst this
    simp only [Ctx.micros, Option.some.injEq] at hms
    rw [← hms]; exact LiveFrame.refl _

/-- … and every `.collect` op of the API (every method, continuation, fault position, oracle). -/
theorem step_collect_liveFrame {a : Arena} (h : Inv a) (m : Method) (k : Cont) (f : TraceFault)
    (o : Option (List Micro)) : LiveFrame a.ctx (a.step (.collect m k f o)).1.ctx :=
  (step_collect_rel h m k f o).liveFrame h

/-! ### Single slots along a history -/

/-- The op is a store into slot `k` of object `i` (by any write path). -/
def Op.writesSlot (op : Op) (i k : Nat) : Bool :=
  match op with
  | .store _ p j _ => p = i && j = k
  | _ => false

/-- Slot `k` of every surviving live object `i` that existed before the step reads the same,
    unless the op is a store into `(i, k)`. -/
def SlotFrame (i k : Nat) (a a' : Arena) : Prop :=
  ∀ o', a'.ctx.heap.get i = some o' → o'.live = true → i < a.ctx.heap.size →
    ∃ o, a.ctx.heap.get i = some o ∧ o.live = true ∧ o'.slots[k]? = o.slots[k]?

theorem step_slotFrame {a : Arena} (h : Inv a) (op : Op) (hal : (a.step op).1.alive = true)
    (i k : Nat) (hw : op.writesSlot i k = false) : SlotFrame i k a (a.step op).1 := by
  intro o' ho' hl hlt
  rcases step_kind h op hal with hop | rel
  · have m := step_mutFacts h op hop
    cases ho : a.ctx.heap.get i with
    | none =>
      have := (m.fresh i o' ho' ho).1
      omega
    | some o =>
      obtain ⟨o2, ho2, l, _, _, _, _, sl⟩ := m.keep i o ho
      rw [ho'] at ho2; cases ho2
      refine ⟨o, rfl, l ▸ hl, ?_⟩
      rcases sl with sl | ⟨idx, v, ⟨path, hop'⟩, sl, _⟩
      · rw [sl]
      · subst hop'
        have hne : idx ≠ k := by
          intro he
          simp [Op.writesSlot, he] at hw
        rw [sl, List.getElem?_set_ne hne]
  · obtain ⟨o, ho, hlo, sl⟩ := rel.liveFrame h i o' ho' hl
    exact ⟨o, ho, hlo, by rw [sl]⟩

theorem step_size_le {a : Arena} (h : Inv a) (op : Op) (hal : (a.step op).1.alive = true) :
    a.ctx.heap.size ≤ (a.step op).1.ctx.heap.size := by
  rcases step_kind h op hal with hop | rel
  · exact (step_quiet h op hop).sizeLe
  · obtain ⟨ms, hms, hnil⟩ := rel.reach
    by_cases hcb : a.cb = none
    · have key : ∀ (ms : List Micro) (c c' : Ctx), c.micros a.root ms = some c' → c'.heap.size = c.heap.size := by
        intro ms
        induction ms with
        | nil => intro c c' hs; simp only [Ctx.micros] at hs; cases hs; rfl
        | cons m ms ih =>
          intro c c' hs
          simp only [Ctx.micros] at hs
          cases hm : c.micro a.root m with
          | none => rw [hm] at hs; cases hs
          | some c1 =>
            rw [hm] at hs
            have e1 : c1.heap.size = c.heap.size := by
              cases m <;> simp only [Ctx.micro] at hm <;> split at hm <;> cases hm <;>
                first | rfl | exact Ctx.markOne_size _ _ _ | exact Ctx.sweepOne_size _
            exact (ih c1 c' hs).trans e1
      rw [key ms _ _ hms]; exact Nat.le_refl _
    · have := hnil hcb
      subst this
      simp only [Ctx.micros, Option.some.injEq] at hms
      rw [← hms]; exact Nat.le_refl _

theorem run_slotFrame (i k : Nat) (ops : List Op) : ∀ (a : Arena), Inv a → (a.run ops).alive = true →
    (∀ op, op ∈ ops → op.writesSlot i k = false) → SlotFrame i k a (a.run ops) := by
  induction ops with
  | nil => intro a _ _ _ o' ho' hl _; exact ⟨o', ho', hl, rfl⟩
  | cons op ops ih =>
    intro a h hal hw
    simp only [Arena.run] at hal ⊢
    have hal1 := alive_of_run_alive hal
    have h1 := inv_step h op hal1
    intro o2 ho2 hl2 hlt
    have hsz := step_size_le h op hal1
    obtain ⟨o1, ho1, hl1, s1⟩ := ih _ h1 hal (fun op' hm => hw op' (List.mem_cons_of_mem _ hm)) o2 ho2 hl2
      (by omega)
    obtain ⟨o, ho, hl, s⟩ := step_slotFrame h op hal1 i k (hw op (by simp)) o1 ho1 hl1 hlt
    exact ⟨o, ho, hl, s1.trans s⟩

theorem slotOf_eq_some {c : Ctx} {i k : Nat} {v : Slot} :
    Arena.slotOf c i k = some v ↔ ∃ o, c.heap.get i = some o ∧ o.slots[k]? = some v := by
  unfold Arena.slotOf
  cases c.heap.get i with
  | none => simp
  | some o => simp

/-- **History-level frame for one slot.**  If slot `k` of object `i` reads `v` now, then after any
    operations none of which is a store into `(i, k)` — allocations, stores elsewhere (also into
    other slots of `i`), barriers, root replacement, collection calls of every kind — it still
    reads `v`, provided `i` has not been destructed. -/
theorem slot_reads_back {a : Arena} (hinv : Inv a) (i k : Nat) (v : Slot) (ops : List Op)
    (hv : Arena.slotOf a.ctx i k = some v)
    (hops : ∀ op, op ∈ ops → op.writesSlot i k = false)
    (halive : (a.run ops).alive = true)
    (hl : ∃ o', (a.run ops).ctx.heap.get i = some o' ∧ o'.live = true) :
    Arena.slotOf (a.run ops).ctx i k = some v := by
  obtain ⟨o0, ho0, hs0⟩ := slotOf_eq_some.mp hv
  obtain ⟨o', ho', hl'⟩ := hl
  obtain ⟨o, ho, _, s⟩ := run_slotFrame i k ops a hinv halive hops o' ho' hl'
    (Heap.lt_size_of_get _ _ _ ho0)
  rw [ho0] at ho; cases ho
  exact slotOf_eq_some.mpr ⟨o', ho', by rw [s]; exact hs0⟩

/-! ### What a store, an allocation and a read do to / see of a slot -/

theorem setSlot_slotOf {c : Ctx} {p i : Nat} {v : Slot} (h : (Arena.slotOf c p i).isSome = true) :
    Arena.slotOf (Arena.setSlot c p i v) p i = some v := by
  unfold Arena.slotOf at h
  cases ho : c.heap.get p with
  | none => rw [ho] at h; cases h
  | some o =>
    rw [ho] at h
    simp only at h
    have hi : i < o.slots.length := by
      cases hg : o.slots[i]? with
      | none => rw [hg] at h; cases h
      | some s => exact (List.getElem?_eq_some_iff.mp hg).1
    simp [Arena.slotOf, Arena.setSlot, ho, hi]

theorem recol_slotOf {T} {c c' : Ctx} (r : Recol T c c') (p i : Nat) :
    Arena.slotOf c' p i = Arena.slotOf c p i := by
  unfold Arena.slotOf
  cases ho : c.heap.get p with
  | none =>
    cases ho' : c'.heap.get p with
    | none => rfl
    | some o' => obtain ⟨o, ho2⟩ := r.noNew p o' ho'; rw [ho] at ho2; cases ho2
  | some o =>
    obtain ⟨o', ho', _, sl, _⟩ := r.keep p o ho
    rw [ho']; simp [sl]

theorem stepBody_store_sets_slot {b : Arena} (fin : Bool) (path : StorePath) (p i : Nat) (v : Slot)
    (hok : (b.stepBody fin (.store path p i v)).2 = "ok") :
    Arena.slotOf (b.stepBody fin (.store path p i v)).1.ctx p i = some v := by
  simp only [Arena.stepBody] at hok ⊢
  split at hok
  · simp [Arena.bad] at hok
  · rw [if_neg ‹_›]
    split at hok
    · simp [Arena.bad] at hok
    · rename_i s hs
      have hsome : (Arena.slotOf b.ctx p i).isSome = true := by rw [hs]; rfl
      split at hok
      · simp [Arena.bad] at hok
      · rw [if_neg ‹_›]
        cases path with
        | write =>
          simp only
          apply setSlot_slotOf
          rw [recol_slotOf (recol_backwardBarrier (T := fun _ => True) b.ctx p none trivial)]
          exact hsome
        | raw =>
          simp only at hok ⊢
          split at hok
          · simp [Arena.bad] at hok
          · rw [if_neg ‹_›]
            exact setSlot_slotOf hsome
        | storeThenBarrier =>
          simp only
          rw [recol_slotOf (recol_backwardBarrier (T := fun _ => True) _ p none trivial)]
          exact setSlot_slotOf hsome

/-- An accepted store (any write path) leaves the stored value in the slot. -/
theorem store_sets_slot {a : Arena} (path : StorePath) (p i : Nat) (v : Slot)
    (hok : (a.step (.store path p i v)).2 = "ok") :
    Arena.slotOf (a.step (.store path p i v)).1.ctx p i = some v := by
  unfold Arena.step at hok ⊢
  split at hok
  · simp [Arena.bad] at hok
  · rw [if_neg ‹_›]
    exact stepBody_store_sets_slot _ path p i v hok

/-- A read through a held pointer returns what the slot holds. -/
theorem read_returns_slot {a : Arena} (hal : a.alive = true) (hcb : a.cb ≠ none) {p i : Nat} {v : Slot}
    (hh : a.holds (.strong p) = true) (hv : Arena.slotOf a.ctx p i = some v) :
    (a.step (.read p i)).2 = Arena.showSlot v := by
  have hnot : (!a.alive) = false := by rw [hal]; rfl
  have hcb' : a.cb.isNone = false := by cases hc : a.cb <;> simp_all
  unfold Arena.step
  rw [hnot]
  simp only [Bool.false_eq_true, if_false, Arena.stepBody, hcb', Arena.holds] at hh ⊢
  simp only [hh, Bool.not_true, Bool.or_self, Bool.false_eq_true, if_false, hv]
  cases v with
  | none => rfl
  | some q => rfl

end GcArena
