import GcArena.Proofs.LogRun
/-!
  Termination of the driver loop: with the fuel `Ctx.doCollection` supplies, `collectLoop` never
  runs out — for every state satisfying the invariant, every `RunUntil` / `Stop`, every pacing
  and debt, every fault position.  The measure: (cycles still ahead, phase, non-black objects on
  the list + root flag, resp. remaining sweep list).
-/
namespace GcArena

def nonBlack (c : Ctx) (i : Nat) : Bool :=
  match c.heap.get i with
  | some o => o.color != .black
  | none => false

/-- Number of objects on the `all` list that are not black. -/
def NB (c : Ctx) : Nat := c.all.countP (nonBlack c)

def markMeasure (c : Ctx) : Nat := NB c + (if c.rootNeedsTrace then 1 else 0)

theorem countP_le_of_imp {p q : Nat → Bool} (l : List Nat) (h : ∀ i, i ∈ l → q i = true → p i = true) :
    l.countP q ≤ l.countP p := by
  induction l with
  | nil => simp
  | cons a l ih =>
    have ih' := ih (fun i hi => h i (List.mem_cons_of_mem _ hi))
    simp only [List.countP_cons]
    have := h a (by simp)
    cases hq : q a <;> cases hp : p a <;> simp_all <;> omega

theorem countP_lt_of_imp {p q : Nat → Bool} (l : List Nat) (h : ∀ i, i ∈ l → q i = true → p i = true)
    (t : Nat) (ht : t ∈ l) (hpt : p t = true) (hqt : q t = false) : l.countP q < l.countP p := by
  induction l with
  | nil => cases ht
  | cons a l ih =>
    simp only [List.countP_cons]
    have hle := countP_le_of_imp l (fun i hi => h i (List.mem_cons_of_mem _ hi))
    simp only [List.mem_cons] at ht
    rcases ht with ht | ht
    · subst ht; simp [hpt, hqt]; omega
    · have ih' := ih (fun i hi => h i (List.mem_cons_of_mem _ hi)) ht
      have := h a (by simp)
      cases hq : q a <;> cases hp : p a <;> simp_all <;> omega

theorem NB_le_length (c : Ctx) : NB c ≤ c.all.length := List.countP_le_length

/-- Tracing (which never changes a gray or black object) does not increase the measure. -/
theorem NB_le_of_keep {c c' : Ctx} {root temps hole} (h : CInvH c root temps hole) (k : KeepMarked c c')
    (hall : c'.all = c.all) : NB c' ≤ NB c := by
  unfold NB
  rw [hall]
  apply countP_le_of_imp
  intro i hi hq
  obtain ⟨o, ho⟩ := (h.memAll i).mp hi
  unfold nonBlack at hq ⊢
  rw [ho]
  by_cases hb : o.color = .black
  · rw [k i o ho (Or.inr hb)] at hq
    simp [hb] at hq
  · simp [hb]

theorem all_of_markFrame {c c' : Ctx} (f : MarkFrame c c') : c'.all = c.all := by
  unfold Ctx.all; rw [f.pre, f.rest]

/-- One `mark_one` that traces something and returns normally strictly decreases the measure. -/
theorem markOne_measure {c : Ctx} {root} (h : CInv c root []) (hm : c.phase = .mark)
    (hg : c.grayRemaining = true) : markMeasure (c.markOne root none).1 < markMeasure c := by
  have hsame : ∀ (c0 : Ctx) (i : Nat), c0.heap = c.heap → c0.pre = c.pre → c0.rest = c.rest →
      c0.rootNeedsTrace = c.rootNeedsTrace → (i ∈ c.gray ∨ i ∈ c.grayAgain) →
      markMeasure (c0.markObj i none).1 < markMeasure c := by
    intro c0 i e1 e2 e3 e4 hi
    obtain ⟨o, ho, hgr⟩ := h.qGray i hi
    have hlive := h.markedLive i o ho (Or.inl hgr)
    have ho0 : c0.heap.get i = some o := by rw [e1]; exact ho
    let c2 : Ctx := (c0.withMetrics Metrics.markGcTraced).setObj i { o with color := .black }
    have hdef : (c0.markObj i none).1 = c2.traceSlots o.slots := by
      unfold Ctx.markObj
      simp only [Ctx.withMetrics_heap, ho0]
      rw [if_pos hlive]
    rw [hdef]
    -- c2: i black, everything else as in c
    have hget2 : ∀ j, c2.heap.get j = if j = i then some { o with color := .black } else c.heap.get j := by
      intro j; simp [c2, e1]
    have hall2 : c2.all = c.all := by simp [c2, Ctx.all, e2, e3]
    have hNB2 : NB c2 < NB c := by
      unfold NB
      rw [hall2]
      apply countP_lt_of_imp _ _ i ((h.memAll i).mpr ⟨o, ho⟩)
      · simp [nonBlack, ho, hgr]
      · simp [nonBlack, hget2]
      · intro j _ hq
        unfold nonBlack at hq ⊢
        rw [hget2] at hq
        by_cases hj : j = i
        · simp [hj] at hq
        · simpa [hj] using hq
    -- tracing the slots from c2 keeps marked objects (no CInv for c2 needed: use frame lemmas)
    have hkeep : ∀ (ss : List Slot) (x : Ctx), KeepMarked x (x.traceSlots ss) ∧ (x.traceSlots ss).all = x.all ∧
        (x.traceSlots ss).rootNeedsTrace = x.rootNeedsTrace ∧
        (∀ j, (∃ oj, (x.traceSlots ss).heap.get j = some oj) ↔ ∃ oj, x.heap.get j = some oj) := by
      intro ss
      induction ss with
      | nil => intro x; exact ⟨KeepMarked.refl x, rfl, rfl, fun _ => Iff.rfl⟩
      | cons s ss ih =>
        intro x
        simp only [Ctx.traceSlots, List.foldl_cons]
        have step : KeepMarked x (x.traceSlot s) ∧ (x.traceSlot s).all = x.all ∧
            (x.traceSlot s).rootNeedsTrace = x.rootNeedsTrace ∧
            (∀ j, (∃ oj, (x.traceSlot s).heap.get j = some oj) ↔ ∃ oj, x.heap.get j = some oj) := by
          cases s with
          | none => exact ⟨KeepMarked.refl x, rfl, rfl, fun _ => Iff.rfl⟩
          | some p =>
            cases p with
            | strong t =>
              refine ⟨trace_keep t, ?_, Ctx.trace_rnt x t, fun j => Ctx.trace_alloc x t j⟩
              show (x.trace t).pre ++ (x.trace t).rest = x.pre ++ x.rest
              rw [Ctx.trace_pre, Ctx.trace_rest]
            | weak t =>
              refine ⟨traceWeak_keep t, ?_, Ctx.traceWeak_rnt x t, fun j => Ctx.traceWeak_alloc x t j⟩
              show (x.traceWeak t).pre ++ (x.traceWeak t).rest = x.pre ++ x.rest
              rw [Ctx.traceWeak_pre, Ctx.traceWeak_rest]
        obtain ⟨k1, a1, r1, al1⟩ := step
        obtain ⟨k2, a2, r2, al2⟩ := ih (x.traceSlot s)
        exact ⟨k1.trans k2, a2.trans a1, r2.trans r1, fun j => (al2 j).trans (al1 j)⟩
    obtain ⟨k3, a3, r3, al3⟩ := hkeep o.slots c2
    have hNB3 : NB (c2.traceSlots o.slots) ≤ NB c2 := by
      unfold NB
      rw [a3]
      apply countP_le_of_imp
      intro j hj hq
      rw [hall2] at hj
      obtain ⟨oj, hoj⟩ := (h.memAll j).mp hj
      have hj2 : ∃ oj2, c2.heap.get j = some oj2 := by
        rw [hget2]; by_cases hji : j = i
        · exact ⟨{ o with color := .black }, by simp [hji]⟩
        · exact ⟨oj, by simp [hji, hoj]⟩
      obtain ⟨oj2, hoj2⟩ := hj2
      unfold nonBlack at hq ⊢
      rw [hoj2]
      by_cases hb : oj2.color = .black
      · rw [k3 j oj2 hoj2 (Or.inr hb)] at hq; simp [hb] at hq
      · simp [hb]
    unfold markMeasure
    rw [r3]
    have : c2.rootNeedsTrace = c.rootNeedsTrace := by simp [c2, e4]
    rw [this]
    omega
  unfold Ctx.markOne
  cases hgq : c.gray with
  | cons i g =>
    simp only
    exact hsame _ i rfl rfl rfl rfl (by rw [hgq]; simp)
  | nil =>
    simp only
    cases hga : c.grayAgain with
    | cons i g =>
      simp only
      exact hsame _ i rfl rfl rfl rfl (by rw [hga]; simp)
    | nil =>
      simp only
      have hr : c.rootNeedsTrace = true := by
        simpa [Ctx.grayRemaining, hgq, hga] using hg
      simp only [hr, if_true]
      have hs : CInv (c.step 'r') root [] := h.sameView (sameView_step c 'r')
      obtain ⟨_, m3, k3, _⟩ := traceSlots_spec root hs (show (c.step 'r').phase = .mark from hm)
        (fun p hp => hs.rootOK p hp)
      have hall : ((c.step 'r').traceSlots root).all = c.all := by
        unfold Ctx.all; rw [m3.pre, m3.rest]; rfl
      have := NB_le_of_keep hs k3 (by rw [hall]; rfl)
      unfold markMeasure
      simp only [hr, if_true]
      have e : NB { ((c.step 'r').traceSlots root) with rootNeedsTrace := false } = NB ((c.step 'r').traceSlots root) := rfl
      rw [e]
      have e2 : NB (c.step 'r') = NB c := rfl
      simp only [Bool.false_eq_true, if_false]
      omega


/-- With the invariant, a `mark_one` that traced something and *returned normally* was not the
    faulted one. -/
theorem markOne_continue_fault {c : Ctx} {root} (h : CInv c root []) (hg : c.grayRemaining = true)
    (f : Option Nat) (hfl : (c.markOne root f).2 = .continue) :
    c.markOne root f = c.markOne root none := by
  cases f with
  | none => rfl
  | some j =>
    exfalso
    have hobj : ∀ (c0 : Ctx) (i : Nat), (c0.markObj i (some j)).2 = .continue → c0.heap = c.heap →
        (i ∈ c.gray ∨ i ∈ c.grayAgain) → False := by
      intro c0 i hc e1 hi
      obtain ⟨o, ho, _⟩ := h.qGray i hi
      have ho0 : c0.heap.get i = some o := by rw [e1]; exact ho
      unfold Ctx.markObj at hc
      simp only [Ctx.withMetrics_heap, ho0] at hc
      cases hc
    unfold Ctx.markOne at hfl
    cases hgq : c.gray with
    | cons i g =>
      rw [hgq] at hfl
      simp only at hfl
      exact hobj _ i hfl rfl (by rw [hgq]; simp)
    | nil =>
      rw [hgq] at hfl
      simp only at hfl
      cases hga : c.grayAgain with
      | cons i g =>
        rw [hga] at hfl
        simp only at hfl
        exact hobj _ i hfl rfl (by rw [hga]; simp)
      | nil =>
        rw [hga] at hfl
        simp only at hfl
        have hr : c.rootNeedsTrace = true := by
          simpa [Ctx.grayRemaining, hgq, hga] using hg
        simp only [hr, if_true] at hfl
        cases hfl

/-- Loop iterations still ahead, at most: the rest of this cycle, plus — when the loop has not yet
    passed through `Sleep` — one whole further cycle. -/
def cycleFuel (c : Ctx) (hasSlept : Bool) : Nat :=
  let n := c.pre.length + c.rest.length
  match c.phase with
  | .sleep => 2 * n + 4
  | .mark => markMeasure c + n + 2 + (if hasSlept then 0 else 2 * n + 5)
  | .sweep => c.rest.length + 1 + (if hasSlept then 0 else 2 * n + 5)
  | .drop => 0

theorem all_length (c : Ctx) : c.all.length = c.pre.length + c.rest.length := by
  simp [Ctx.all]

theorem markMeasure_le (c : Ctx) : markMeasure c ≤ c.pre.length + c.rest.length + 1 := by
  have := NB_le_length c
  rw [all_length] at this
  unfold markMeasure
  split <;> omega

theorem sweepOne_lengths {c : Ctx} (i : Nat) (r : List Nat) (hr : c.rest = i :: r) :
    c.sweepOne.1.rest = r ∧ c.sweepOne.1.pre.length ≤ c.pre.length + 1 ∧
    c.sweepOne.1.pre.length + c.sweepOne.1.rest.length ≤ c.pre.length + c.rest.length := by
  unfold Ctx.sweepOne
  rw [hr]
  simp only
  repeat' split
  all_goals (simp <;> try omega)

/-- **The fuel suffices.**  For every state satisfying the invariant, every `RunUntil`, `Stop`,
    fault position and trace count, a loop started with more fuel than `cycleFuel` never runs
    out of it. -/
theorem collectLoop_fuel {root ru stop fault} (fuel : Nat) :
    ∀ (c : Ctx) (hs : Bool) (k : Nat), CInv c root [] → cycleFuel c hs < fuel →
      (Ctx.collectLoop root ru stop fault fuel c hs k).2 ≠ .outOfFuel := by
  induction fuel with
  | zero => intro c hs k _ hf; omega
  | succ fuel ih =>
    intro c hs k h hf
    unfold Ctx.collectLoop
    cases hp : c.phase with
    | drop => exact absurd hp h.notDrop
    | sleep =>
      simp only
      have h1 : CInv (c.switch .mark) root [] := wake_spec h hp
      split
      · simp
      · apply ih _ _ _ h1
        have hm := markMeasure_le (c.switch .mark)
        have e1 : (c.switch .mark).pre = c.pre := rfl
        have e2 : (c.switch .mark).rest = c.rest := rfl
        have e3 : (c.switch .mark).phase = .mark := rfl
        unfold cycleFuel at hf ⊢
        rw [hp] at hf
        rw [e3]
        simp only [e1, e2] at hm ⊢
        simp only at hf
        simp only [if_true]
        omega
    | mark =>
      simp only
      cases hg : c.grayRemaining with
      | false =>
        rw [markOne_break _ hg]
        simp only
        split
        · simp
        · have hg' : (c.step 'b').grayRemaining = false := hg
          have h1 : CInv (c.step 'b') root [] := h.sameView (sameView_step c 'b')
          have h2 : CInv (c.step 'b').enterSweep root [] := enterSweep_spec h1 hp hg'
          split
          · simp
          · apply ih _ _ _ h2
            have hrn : c.rest = [] := h.restNil (by rw [hp]; simp)
            have e1 : (c.step 'b').enterSweep.pre = [] := rfl
            have e2 : (c.step 'b').enterSweep.rest = c.pre ++ c.rest := rfl
            have e3 : (c.step 'b').enterSweep.phase = .sweep := rfl
            unfold cycleFuel at hf ⊢
            rw [hp] at hf
            rw [e3]
            simp only [e1, e2, List.length_append, List.length_nil] at ⊢
            simp only at hf
            split at hf <;> simp_all <;> omega
      | true =>
        have hnb := markOne_not_break (root := root) (faultAt fault k) hg
        cases hfl : (c.markOne root (faultAt fault k)).2 with
        | «break» => exact absurd hfl hnb
        | unwind =>
          simp
        | «continue» =>
          have heq := markOne_continue_fault h hg _ hfl
          simp only []
          split
          · simp
          · have hsp := markOne_spec h hp none (root := root)
            have hms := markOne_measure h hp hg (root := root)
            rw [heq]
            apply ih _ _ _ hsp.1
            have f := hsp.2
            unfold cycleFuel at hf ⊢
            rw [hp] at hf
            rw [f.phase, hp, f.pre, f.rest]
            simp only at hf ⊢
            omega
    | sweep =>
      simp only
      split
      · simp
      · cases hr : c.rest with
        | nil =>
          rw [sweepOne_end hr]
          simp only
          have h1 : CInv (c.step 'e') root [] := h.sameView (sameView_step c 'e')
          have h2 : CInv ((c.step 'e').enterSleep hs) root [] := enterSleep_spec h1 hp hr hs
          split
          · simp
          · split
            · split <;> simp
            · split
              · simp
              · apply ih _ _ _ h2
                rename_i hns _
                have e1 : ((c.step 'e').enterSleep hs).pre = c.pre := rfl
                have e2 : ((c.step 'e').enterSleep hs).rest = c.rest := rfl
                have e3 : ((c.step 'e').enterSleep hs).phase = .sleep := rfl
                unfold cycleFuel at hf ⊢
                rw [hp] at hf
                rw [e3]
                simp only [e1, e2] at ⊢
                simp only at hf
                simp_all
                omega
        | cons i rest' =>
          have hne : c.rest ≠ [] := by rw [hr]; simp
          have hfl := sweepOne_flow hne
          have hsp := sweepOne_spec h hp
          obtain ⟨l1, l2, l3⟩ := sweepOne_lengths i rest' hr
          rw [show c.sweepOne = (c.sweepOne.1, c.sweepOne.2) from rfl, hfl]
          simp only
          split
          · simp
          · apply ih _ _ _ hsp.1
            unfold cycleFuel at hf ⊢
            rw [hp] at hf
            rw [hsp.2]
            simp only at hf ⊢
            rw [hr] at hf l3
            rw [l1] at l3 ⊢
            simp only [List.length_cons] at hf l3
            split <;> simp_all <;> omega

end GcArena

namespace GcArena

/-- `Context::do_collection` terminates: the fuel `Ctx.doCollection` supplies is never used up. -/
theorem doCollection_terminates {c : Ctx} {root} (h : CInv c root []) (ru : RunUntil) (stop : Stop)
    (fault : TraceFault) : (c.doCollection root ru stop fault).2 ≠ .outOfFuel := by
  unfold Ctx.doCollection
  split
  · simp
  · apply collectLoop_fuel _ _ _ _ h
    have hm := markMeasure_le c
    unfold cycleFuel Ctx.fuelBound
    cases c.phase <;> simp <;> omega

end GcArena
