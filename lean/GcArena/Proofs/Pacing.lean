import GcArena.Proofs.AccountingRun
import GcArena.Proofs.Debt
/-!
  Pacing (C09): with per-object work paths summing to at most `ρ`, the credits of a cycle never
  exceed `ρ ×` (objects the cycle has to deal with); hence a debt-driven call that returns with
  the cycle unfinished bounds the allocations made since the cycle woke.
-/
namespace GcArena

/-! ### The arithmetic core -/

theorem credits_arith (mk tr rem drp frd B M rb rw dw dfr pre rl mf tf kf df ff ρ : Rat)
    (hB : 0 ≤ B) (hBM : B ≤ M) (hMl : M ≤ rl) (hrb : 0 ≤ rb) (hrw : 0 ≤ rw) (hfrd : 0 ≤ frd)
    (hmf : 0 ≤ mf) (htf : 0 ≤ tf) (hkf : 0 ≤ kf) (hdf : 0 ≤ df)
    (h1 : mf + tf + kf ≤ ρ) (h2 : df + ff ≤ ρ) (h3 : mf + df + kf ≤ ρ)
    (e1 : rem = rb + rw) (e2 : drp = dw + dfr) (e3 : dw ≤ rw) (e4 : dfr ≤ frd) (e5 : rb + rw ≤ pre)
    (e6 : tr ≤ B + rb) (e7 : mk ≤ M + rb + rw) :
    mk * mf + tr * tf + rem * kf + drp * df + frd * ff ≤ ρ * (pre + rl + frd) := by
  obtain ⟨W, hW⟩ : ∃ W, M = B + W := ⟨M - B, by grind⟩
  subst hW
  have hW0 : 0 ≤ W := by grind
  have f1 : mk * mf ≤ (B + W + rb + rw) * mf := Rat.mul_le_mul_of_nonneg_right e7 hmf
  have f2 : tr * tf ≤ (B + rb) * tf := Rat.mul_le_mul_of_nonneg_right e6 htf
  have f3 : drp * df ≤ (rw + frd) * df := Rat.mul_le_mul_of_nonneg_right (by grind) hdf
  have f4 : rem * kf = (rb + rw) * kf := by rw [e1]
  have g1 : B * (mf + tf) ≤ B * ρ := Rat.mul_le_mul_of_nonneg_left (by grind) hB
  have g2 : W * mf ≤ W * ρ := Rat.mul_le_mul_of_nonneg_left (by grind) hW0
  have g3 : rb * (mf + tf + kf) ≤ rb * ρ := Rat.mul_le_mul_of_nonneg_left h1 hrb
  have g4 : rw * (mf + kf + df) ≤ rw * ρ := Rat.mul_le_mul_of_nonneg_left (by grind) hrw
  have g5 : frd * (df + ff) ≤ frd * ρ := Rat.mul_le_mul_of_nonneg_left h2 hfrd
  have g6 : (B + W + rb + rw) * ρ ≤ (rl + pre) * ρ :=
    Rat.mul_le_mul_of_nonneg_right (by grind) (by grind)
  rw [Rat.mul_comm ρ]
  simp only [Rat.add_mul, Rat.mul_add] at f1 f2 f3 f4 g1 g3 g4 g5 g6 ⊢
  grind

/-- The hypothesis of the ρ-bound: non-negative work factors whose sum along each of the three
    per-object work paths — black: mark + trace + keep; unreachable: drop + free; weakly reachable
    only: mark + drop + keep — is at most `ρ`.  (`free_factor` itself may even be negative.) -/
structure RhoPacing (p : Pacing) (ρ : Rat) : Prop where
  mf : 0 ≤ p.markFactor
  tf : 0 ≤ p.traceFactor
  kf : 0 ≤ p.keepFactor
  df : 0 ≤ p.dropFactor
  black : p.markFactor + p.traceFactor + p.keepFactor ≤ ρ
  white : p.dropFactor + p.freeFactor ≤ ρ
  weak : p.markFactor + p.dropFactor + p.keepFactor ≤ ρ

theorem credits_nat {p : Pacing} {ρ : Rat} (hp : RhoPacing p ρ)
    (mk tr rem drp frd B M rb rw dw dfr pre rl total : Nat)
    (hBM : B ≤ M) (hMl : M ≤ rl)
    (e1 : rem = rb + rw) (e2 : drp = dw + dfr) (e3 : dw ≤ rw) (e4 : dfr ≤ frd) (e5 : rb + rw ≤ pre)
    (e6 : tr ≤ B + rb) (e7 : mk ≤ M + rb + rw) (htot : total = pre + rl) :
    (mk : Rat) * p.markFactor + (tr : Rat) * p.traceFactor + (rem : Rat) * p.keepFactor
      + (drp : Rat) * p.dropFactor + (frd : Rat) * p.freeFactor ≤ ρ * ((total : Rat) + (frd : Rat)) := by
  have := credits_arith mk tr rem drp frd B M rb rw dw dfr pre rl p.markFactor p.traceFactor
    p.keepFactor p.dropFactor p.freeFactor ρ Rat.natCast_nonneg (by exact_mod_cast hBM)
    (by exact_mod_cast hMl) Rat.natCast_nonneg Rat.natCast_nonneg Rat.natCast_nonneg
    hp.mf hp.tf hp.kf hp.df hp.black hp.white hp.weak
    (by exact_mod_cast e1) (by exact_mod_cast e2) (by exact_mod_cast e3) (by exact_mod_cast e4)
    (by exact_mod_cast e5) (by exact_mod_cast e6) (by exact_mod_cast e7)
  have ht : (total : Rat) = (pre : Rat) + (rl : Rat) := by exact_mod_cast htot
  rw [ht]; exact this

/-- **Credits never run ahead of the work there is.**  In every state satisfying the two
    invariants, the credits of the running cycle are at most `ρ ×` (allocations still held +
    allocations released by this cycle). -/
theorem credits_le {c : Ctx} {root : List Slot} {ρ : Rat} (hp : RhoPacing c.metrics.pacing ρ)
    (ha : Acc c) (h : CInv c root []) :
    c.metrics.cycleCredits ≤ ρ * ((c.metrics.totalGcs : Rat) + (c.metrics.freed : Rat)) := by
  unfold Metrics.cycleCredits
  have hcount := h.count
  cases hph : c.phase with
  | drop => exact absurd hph h.notDrop
  | sleep =>
    obtain ⟨e1, e2, e3, e4, e5⟩ := ha.1 hph
    exact credits_nat hp _ _ _ _ _ 0 0 0 0 0 0 c.metrics.totalGcs 0 _ (Nat.le_refl _) (Nat.le_refl _)
      e3 e4 (Nat.le_refl _) (Nat.zero_le _) (Nat.zero_le _) (by omega) (by omega) rfl
  | mark =>
    have hm := ha.2.1 hph
    exact credits_nat hp _ _ _ _ _ (nB c (c.pre ++ c.rest)) (nM c (c.pre ++ c.rest)) 0 0 0 0 0
      (c.pre ++ c.rest).length _ (nB_le_nM _ _) (nM_le_length _ _) hm.rem hm.drp (Nat.le_refl _)
      (Nat.zero_le _) (Nat.zero_le _) hm.trd hm.mkd (by omega)
  | sweep =>
    obtain ⟨rb, rw, dw, dfr, h1, h2, h3, h4, h5, h6, h7⟩ := ha.2.2 hph
    exact credits_nat hp _ _ _ _ _ (nB c c.rest) (nM c c.rest) rb rw dw dfr c.pre.length
      c.rest.length _ (nB_le_nM _ _) (nM_le_length _ _) h1 h2 h3 h4 h5 h6 (by omega)
      (by rw [hcount, List.length_append])

/-! ### What a collection call that does not pass through `finish_cycle` leaves alone -/

/-- The debit side (`allocated`, `wakeup`, `artificial`), the pacing, and the number of
    allocations the cycle has had to deal with (`total_gcs + freed`). -/
structure CFrame (m m' : Metrics) : Prop where
  mf : MFrame m m'
  sum : m'.totalGcs + m'.freed = m.totalGcs + m.freed

theorem CFrame.refl (m : Metrics) : CFrame m m := ⟨MFrame.refl m, rfl⟩

theorem CFrame.trans {a b c : Metrics} (h1 : CFrame a b) (h2 : CFrame b c) : CFrame a c :=
  ⟨h1.mf.trans h2.mf, h2.sum.trans h1.sum⟩

theorem CFrame.ghost {m m' : Metrics} (f : CFrame m m') :
    m'.totalGcs + m'.freed + m.allocated = m.totalGcs + m.freed + m'.allocated := by
  rw [f.sum, f.mf.allocated]

theorem MarkPrim.cframe {c c' : Ctx} (p : MarkPrim c c') : CFrame c.metrics c'.metrics :=
  ⟨p.mf, by rw [p.total, p.freed]⟩

theorem sweepOne_sum {c : Ctx} {root temps} (h : CInv c root temps) :
    c.sweepOne.1.metrics.totalGcs + c.sweepOne.1.metrics.freed = c.metrics.totalGcs + c.metrics.freed := by
  unfold Ctx.sweepOne
  cases hr : c.rest with
  | nil => rfl
  | cons i rest' =>
    have htot : 0 < c.metrics.totalGcs := by rw [h.count, hr]; simp; omega
    simp only [Ctx.step_heap]
    cases hg : c.heap.get i with
    | none => simp only [Ctx.fail_metrics]; rfl
    | some o =>
      simp only
      cases o.color <;> simp only <;> (try cases o.live) <;>
        simp only [Ctx.withMetrics_metrics, Ctx.emit_metrics, Ctx.setObj_metrics, Ctx.step_metrics,
          Ctx.fail_metrics, Metrics.markGcFreed, Metrics.markGcDropped, Metrics.markGcRemembered,
          if_true, Bool.false_eq_true, if_false] <;>
        omega

theorem sweepOne_cframe {c : Ctx} {root temps} (h : CInv c root temps) :
    CFrame c.metrics c.sweepOne.1.metrics := ⟨sweepOne_mframe c, sweepOne_sum h⟩

theorem debtBreak_payDebt {c : Ctx} (h : c.debtBreak .payDebt = true) : c.metrics.hasDebt = false := by
  simp only [Ctx.debtBreak, decide_true, Bool.true_and, Bool.and_eq_true, Bool.not_eq_true'] at h
  exact h.1

/-- The loop never stops on the debt test in `Sweep` with nothing left to sweep (repair D5). -/
theorem debtBreak_not_parked {c : Ctx} {ru} (h : c.debtBreak ru = true) : ¬ (c.phase = .sweep ∧ c.rest = []) := by
  simp only [Ctx.debtBreak, Bool.and_eq_true, Bool.not_eq_true', Bool.and_eq_false_iff,
    decide_eq_false_iff_not, List.isEmpty_eq_false_iff] at h
  rintro ⟨h1, h2⟩
  rcases h.2 with h3 | h3
  · exact h3 h1
  · exact h3 h2

theorem not_debtBreak_payDebt {c : Ctx} (h : ¬ c.debtBreak .payDebt = true) (hp : c.phase ≠ .sweep) :
    c.metrics.hasDebt = true := by
  simp only [Ctx.debtBreak, decide_true, Bool.true_and, Bool.and_eq_true, Bool.not_eq_true',
    Bool.and_eq_false_iff, decide_eq_false_iff_not, not_and] at h
  cases hd : c.metrics.hasDebt with
  | true => rfl
  | false => exact absurd (Or.inl hp) (h hd)

/-- A `cycle_debt` / `finish_cycle` loop (`Stop::FinishCycle`) that ends with the collector not
    asleep never ran `finish_cycle`; and a debt-driven one that *returned* that way stopped
    because the debt test failed. -/
theorem collectLoop_cycle_frame {root ru fault} (fuel : Nat) :
    ∀ (c : Ctx) (hs : Bool) (k : Nat) (c' : Ctx) (ex : Exit), CInv c root [] →
      Ctx.collectLoop root ru .finishCycle fault fuel c hs k = (c', ex) → c'.phase ≠ .sleep →
      CFrame c.metrics c'.metrics ∧ (ru = .payDebt → ex = .returned → c'.metrics.hasDebt = false) := by
  induction fuel with
  | zero =>
    intro c hs k c' ex _ h _
    simp only [Ctx.collectLoop, Prod.mk.injEq] at h
    rw [← h.1, ← h.2]
    exact ⟨CFrame.refl _, fun _ he => by cases he⟩
  | succ fuel ih =>
    intro c hs k c' ex hinv h hns
    have nle1 : ¬ (Stop.finishCycle ≤ Stop.fullyMarked) := by decide
    have nle2 : ¬ (Stop.finishCycle ≤ Stop.atSweep) := by decide
    -- a return through the debt test
    have ret : ∀ (c1 : Ctx), CFrame c.metrics c1.metrics → c1.debtBreak ru = true →
        (c1, Exit.returned) = (c', ex) →
        CFrame c.metrics c'.metrics ∧ (ru = .payDebt → ex = .returned → c'.metrics.hasDebt = false) := by
      intro c1 f hb he
      simp only [Prod.mk.injEq] at he
      rw [← he.1]
      refine ⟨f, fun hru _ => ?_⟩
      subst hru; exact debtBreak_payDebt hb
    -- a recursive call
    have recur : ∀ (c1 : Ctx) (hs1 : Bool) (k1 : Nat), CFrame c.metrics c1.metrics → CInv c1 root [] →
        Ctx.collectLoop root ru .finishCycle fault fuel c1 hs1 k1 = (c', ex) →
        CFrame c.metrics c'.metrics ∧ (ru = .payDebt → ex = .returned → c'.metrics.hasDebt = false) := by
      intro c1 hs1 k1 f h1 he
      obtain ⟨f2, d2⟩ := ih c1 hs1 k1 c' ex h1 he hns
      exact ⟨f.trans f2, d2⟩
    unfold Ctx.collectLoop at h
    cases hp : c.phase with
    | drop => exact absurd hp hinv.notDrop
    | sleep =>
      simp only [hp] at h
      have f1 : CFrame c.metrics (c.switch .mark).metrics := CFrame.refl _
      split at h
      · rename_i hb; exact ret _ f1 hb h
      · exact recur _ _ _ f1 (wake_spec hinv hp) h
    | mark =>
      simp only [hp] at h
      have hsp := markOne_spec hinv hp (faultAt fault k) (root := root)
      have f1 : CFrame c.metrics (c.markOne root (faultAt fault k)).1.metrics :=
        (markOne_markPrim hinv _).cframe
      cases hg : c.grayRemaining with
      | false =>
        rw [markOne_break _ hg] at h hsp f1
        simp only [nle1, if_false] at h
        have hg' : (c.step 'b').grayRemaining = false := hg
        have h2 : CInv (c.step 'b').enterSweep root [] := enterSweep_spec hsp.1 hp hg'
        have f2 : CFrame c.metrics (c.step 'b').enterSweep.metrics := f1
        split at h
        · rename_i hb; exact ret _ f2 hb h
        · exact recur _ _ _ f2 h2 h
      | true =>
        have hnb := markOne_not_break (root := root) (faultAt fault k) hg
        generalize hmo : c.markOne root (faultAt fault k) = r at h hsp f1 hnb
        obtain ⟨c1, fl⟩ := r
        simp only at h hsp f1 hnb
        cases fl with
        | «break» => exact absurd rfl hnb
        | unwind =>
          simp only [Prod.mk.injEq] at h
          rw [← h.1, ← h.2]
          exact ⟨f1, fun _ he => by cases he⟩
        | «continue» =>
          simp only at h
          split at h
          · rename_i hb; exact ret _ f1 hb h
          · exact recur _ _ _ f1 hsp.1 h
    | sweep =>
      simp only [hp, nle2, if_false] at h
      have hsp := sweepOne_spec hinv hp
      have f1 : CFrame c.metrics c.sweepOne.1.metrics := sweepOne_cframe hinv
      cases hr : c.rest with
      | nil =>
        rw [sweepOne_end hr] at h
        simp only [if_true, Prod.mk.injEq] at h
        exfalso; apply hns; rw [← h.1]; rfl
      | cons i rest' =>
        have hne : c.rest ≠ [] := by rw [hr]; simp
        have hfl := sweepOne_flow hne
        rw [show c.sweepOne = (c.sweepOne.1, c.sweepOne.2) from rfl, hfl] at h
        simp only at h
        split at h
        · rename_i hb; exact ret _ f1 hb h
        · exact recur _ _ _ f1 hsp.1 h

/-- The same for a whole `do_collection(_, Stop::FinishCycle)` call. -/
theorem doCollection_cycle_frame {c c' : Ctx} {root ru fault ex} (h : CInv c root [])
    (hr : c.doCollection root ru .finishCycle fault = (c', ex)) (hns : c'.phase ≠ .sleep) :
    CFrame c.metrics c'.metrics ∧ (ru = .payDebt → ex = .returned → c'.metrics.hasDebt = false) := by
  unfold Ctx.doCollection at hr
  split at hr
  · rename_i hb
    simp only [Prod.mk.injEq] at hr
    rw [← hr.1]
    refine ⟨CFrame.refl _, fun hru _ => ?_⟩
    subst hru
    simpa using hb
  · exact collectLoop_cycle_frame _ _ _ _ _ _ h hr hns

/-! ### The ρ-bound -/

theorem not_hasDebt_le {m : Metrics} (h : m.hasDebt = false) (hne : m.totalGcs ≠ 0)
    (hd : 0 < m.cycleDebits) : m.cycleDebits ≤ m.cycleCredits := by
  have hz := debt_zero_of_not_hasDebt m h
  unfold Metrics.allocationDebt at hz
  rw [if_neg hne, if_neg (by grind)] at hz
  grind

/-- **ρ-bound**, context level.  `Aw`: allocations counted when the cycle woke; `A'`: allocations
    made since; `H`: allocations held when it woke.  If the cycle woke in debt
    (`0 < Aw - wakeup + artificial`, no artificial reduction since) and a `cycle_debt` call returns
    with the cycle still unfinished and the arena non-empty, then `A' (1 - ρ) < ρ H`. -/
theorem rho_bound_ctx {c c' : Ctx} {root : List Slot} {fault : TraceFault} {ρ : Rat} {Aw H A' : Nat}
    (hinv : CInv c root []) (hacc : Acc c) (hp : RhoPacing c.metrics.pacing ρ)
    (hA : Aw + A' = c.metrics.allocated) (hH : H + A' = c.metrics.totalGcs + c.metrics.freed)
    (hwoke : 0 < (Aw : Rat) - c.metrics.wakeup + c.metrics.artificial)
    (hr : c.doCollection root .payDebt .finishCycle fault = (c', .returned))
    (hns : c'.phase ≠ .sleep) (hne : c'.metrics.totalGcs ≠ 0) :
    (A' : Rat) * (1 - ρ) < ρ * (H : Rat) := by
  have hreach : Reaches c root c' := by
    have := doCollection_reaches (ru := .payDebt) (stop := .finishCycle) (fault := fault) hinv
    rw [hr] at this; exact this
  have hinv' := hreach.inv hinv
  have hacc' := hreach.acc hinv hacc
  obtain ⟨fr, hnd⟩ := doCollection_cycle_frame hinv hr hns
  have hnd' := hnd rfl rfl
  have hp' : RhoPacing c'.metrics.pacing ρ := by rw [fr.mf.pacing]; exact hp
  have hcred := credits_le hp' hacc' hinv'
  have hdeb : c'.metrics.cycleDebits = (A' : Rat) + ((Aw : Rat) - c.metrics.wakeup + c.metrics.artificial) := by
    rw [fr.mf.debits]
    unfold Metrics.cycleDebits
    have : (c.metrics.allocated : Rat) = (Aw : Rat) + (A' : Rat) := by exact_mod_cast hA.symm
    rw [this]; grind
  have hA0 : (0 : Rat) ≤ (A' : Rat) := Rat.natCast_nonneg
  have hle := not_hasDebt_le hnd' hne (by rw [hdeb]; grind)
  have hsum : (c'.metrics.totalGcs : Rat) + (c'.metrics.freed : Rat) = (H : Rat) + (A' : Rat) := by
    have := fr.sum
    exact_mod_cast this.trans hH.symm
  rw [hsum] at hcred
  rw [hdeb] at hle
  grind

/-- The same bound in quotient form, for `ρ < 1`. -/
theorem rho_bound_ctx_div {c c' : Ctx} {root : List Slot} {fault : TraceFault} {ρ : Rat} {Aw H A' : Nat}
    (hinv : CInv c root []) (hacc : Acc c) (hp : RhoPacing c.metrics.pacing ρ) (hρ : ρ < 1)
    (hA : Aw + A' = c.metrics.allocated) (hH : H + A' = c.metrics.totalGcs + c.metrics.freed)
    (hwoke : 0 < (Aw : Rat) - c.metrics.wakeup + c.metrics.artificial)
    (hr : c.doCollection root .payDebt .finishCycle fault = (c', .returned))
    (hns : c'.phase ≠ .sleep) (hne : c'.metrics.totalGcs ≠ 0) :
    (A' : Rat) < ρ * (H : Rat) / (1 - ρ) := by
  rw [Rat.lt_div_iff (by grind)]
  exact rho_bound_ctx hinv hacc hp hA hH hwoke hr hns hne

/-! ### Stop-the-world pacing (all work factors zero) -/

structure ZeroWork (p : Pacing) : Prop where
  mf : p.markFactor = 0
  tf : p.traceFactor = 0
  kf : p.keepFactor = 0
  df : p.dropFactor = 0
  ff : p.freeFactor = 0

theorem ZeroWork.credits {m : Metrics} (z : ZeroWork m.pacing) : m.cycleCredits = 0 := by
  unfold Metrics.cycleCredits
  rw [z.mf, z.tf, z.kf, z.df, z.ff]
  simp [Rat.mul_zero, Rat.add_zero]

theorem hasDebt_debits {m : Metrics} (h : m.hasDebt = true) : 0 < m.cycleDebits := by
  simp only [Metrics.hasDebt, decide_eq_true_eq] at h
  unfold Metrics.allocationDebt at h
  split at h
  · exact absurd h (Rat.lt_irrefl)
  · split at h
    · exact absurd h (Rat.lt_irrefl)
    · grind

theorem ZeroWork.empty_of_not_hasDebt {m : Metrics} (z : ZeroWork m.pacing) (hd : 0 < m.cycleDebits)
    (h : m.hasDebt = false) : m.totalGcs = 0 := by
  apply Classical.byContradiction
  intro hne
  have := not_hasDebt_le h hne hd
  rw [z.credits] at this
  grind

theorem hasDebt_total {m : Metrics} (h : m.hasDebt = true) : m.totalGcs ≠ 0 := by
  intro h0
  simp only [Metrics.hasDebt, decide_eq_true_eq] at h
  unfold Metrics.allocationDebt at h
  rw [if_pos h0] at h
  exact absurd h Rat.lt_irrefl

/-- With all work factors zero, a debt-driven loop that runs whole cycles (`Stop::FinishCycle` or
    `Stop::Full`), entered with positive debits and a non-empty arena, returns only Sleeping. -/
theorem collectLoop_stw {root fault stop} (hst : ¬ stop ≤ Stop.atSweep) (fuel : Nat) :
    ∀ (c : Ctx) (hs : Bool) (k : Nat) (c' : Ctx), CInv c root [] → ZeroWork c.metrics.pacing →
      0 < c.metrics.cycleDebits → (c.phase ≠ .sweep → c.metrics.totalGcs ≠ 0) →
      Ctx.collectLoop root .payDebt stop fault fuel c hs k = (c', .returned) →
      c'.phase = .sleep := by
  induction fuel with
  | zero => intro c hs k c' _ _ _ _ h; simp [Ctx.collectLoop] at h
  | succ fuel ih =>
    intro c hs k c' hinv hz hd hne h
    have nle1 : ¬ (stop ≤ Stop.fullyMarked) := by
      intro h1; apply hst
      cases stop <;> first | decide | exact absurd h1 (by decide)
    -- a return through the debt test is impossible: no debt with zero credits means an empty
    -- arena, which is only possible while Sweeping with nothing left — where the loop does not stop
    have ret : ∀ (c1 : Ctx), MFrame c.metrics c1.metrics → CInv c1 root [] →
        (c1.phase ≠ .sweep → c1.metrics.totalGcs ≠ 0) → c1.debtBreak .payDebt = true → False := by
      intro c1 f h1 hne1 hb
      have hz1 : ZeroWork c1.metrics.pacing := by rw [f.pacing]; exact hz
      have h0 := hz1.empty_of_not_hasDebt (by rw [f.debits]; exact hd) (debtBreak_payDebt hb)
      have hsw : c1.phase = .sweep := Classical.byContradiction (fun hn => hne1 hn h0)
      have hlen := h1.count
      rw [h0] at hlen
      have hnil : c1.pre ++ c1.rest = [] := List.eq_nil_of_length_eq_zero hlen.symm
      exact debtBreak_not_parked hb ⟨hsw, (List.append_eq_nil_iff.mp hnil).2⟩
    have recur : ∀ (c1 : Ctx) (hs1 : Bool) (k1 : Nat), MFrame c.metrics c1.metrics → CInv c1 root [] →
        (c1.phase ≠ .sweep → c1.metrics.totalGcs ≠ 0) →
        Ctx.collectLoop root .payDebt stop fault fuel c1 hs1 k1 = (c', .returned) →
        c'.phase = .sleep := by
      intro c1 hs1 k1 f h1 hne1 he
      exact ih c1 hs1 k1 c' h1 (by rw [f.pacing]; exact hz) (by rw [f.debits]; exact hd) hne1 he
    unfold Ctx.collectLoop at h
    cases hp : c.phase with
    | drop => exact absurd hp hinv.notDrop
    | sleep =>
      simp only [hp] at h
      have f1 : MFrame c.metrics (c.switch .mark).metrics := MFrame.refl _
      have hne1 : (c.switch .mark).phase ≠ .sweep → (c.switch .mark).metrics.totalGcs ≠ 0 :=
        fun _ => hne (by rw [hp]; simp)
      split at h
      · rename_i hb; exact absurd hb (fun hb => ret _ f1 (wake_spec hinv hp) hne1 hb)
      · exact recur _ _ _ f1 (wake_spec hinv hp) hne1 h
    | mark =>
      simp only [hp] at h
      have hsp := markOne_spec hinv hp (faultAt fault k) (root := root)
      have hprim := markOne_markPrim hinv (faultAt fault k) (root := root)
      have f1 : MFrame c.metrics (c.markOne root (faultAt fault k)).1.metrics := hprim.mf
      have htot : (c.markOne root (faultAt fault k)).1.metrics.totalGcs = c.metrics.totalGcs := by
        have e1 := hsp.1.count
        have e2 := hinv.count
        rw [hsp.2.pre, hsp.2.rest] at e1
        omega
      have hne0 : c.metrics.totalGcs ≠ 0 := hne (by rw [hp]; simp)
      cases hg : c.grayRemaining with
      | false =>
        rw [markOne_break _ hg] at h hsp f1
        simp only [nle1, if_false] at h
        have hg' : (c.step 'b').grayRemaining = false := hg
        have h2 : CInv (c.step 'b').enterSweep root [] := enterSweep_spec hsp.1 hp hg'
        have f2 : MFrame c.metrics (c.step 'b').enterSweep.metrics := f1
        have hne2 : (c.step 'b').enterSweep.phase ≠ .sweep → (c.step 'b').enterSweep.metrics.totalGcs ≠ 0 :=
          fun hn => absurd rfl hn
        split at h
        · rename_i hb; exact absurd hb (fun hb => ret _ f2 h2 hne2 hb)
        · exact recur _ _ _ f2 h2 hne2 h
      | true =>
        have hnb := markOne_not_break (root := root) (faultAt fault k) hg
        generalize hmo : c.markOne root (faultAt fault k) = r at h hsp f1 hnb htot
        obtain ⟨c1, fl⟩ := r
        simp only at h hsp f1 hnb htot
        have hne1 : c1.phase ≠ .sweep → c1.metrics.totalGcs ≠ 0 := fun _ => by rw [htot]; exact hne0
        cases fl with
        | «break» => exact absurd rfl hnb
        | unwind => simp at h
        | «continue» =>
          simp only at h
          split at h
          · rename_i hb; exact absurd hb (fun hb => ret _ f1 hsp.1 hne1 hb)
          · exact recur _ _ _ f1 hsp.1 hne1 h
    | sweep =>
      simp only [hp, hst, if_false] at h
      have hsp := sweepOne_spec hinv hp
      have f1 : MFrame c.metrics c.sweepOne.1.metrics := sweepOne_mframe c
      cases hr : c.rest with
      | nil =>
        rw [sweepOne_end hr] at h
        have h1 : CInv (c.step 'e') root [] := hinv.sameView (sameView_step c 'e')
        have h2 : CInv ((c.step 'e').enterSleep hs) root [] := enterSleep_spec h1 hp hr hs
        have hph : ((c.step 'e').enterSleep hs).phase = .sleep := rfl
        simp only at h
        split at h
        · simp only [Prod.mk.injEq, and_true] at h
          rw [← h]; exact hph
        · split at h
          · simp only [Prod.mk.injEq, and_true] at h
            rw [← h]
            split
            · exact hph
            · show (((c.step 'e').enterSleep hs).fail .unreachable).phase = .sleep
              rw [Ctx.fail_phase]; exact hph
          · split at h
            · simp only [Prod.mk.injEq, and_true] at h
              rw [← h]; exact hph
            · rename_i hnb
              have hdb : ((c.step 'e').enterSleep hs).metrics.hasDebt = true :=
                not_debtBreak_payDebt hnb (by rw [hph]; simp)
              exact ih _ _ _ c' h2 hz (hasDebt_debits hdb) (fun _ => hasDebt_total hdb) h
      | cons i rest' =>
        have hne' : c.rest ≠ [] := by rw [hr]; simp
        have hfl := sweepOne_flow hne'
        rw [show c.sweepOne = (c.sweepOne.1, c.sweepOne.2) from rfl, hfl] at h
        simp only at h
        have hne1 : c.sweepOne.1.phase ≠ .sweep → c.sweepOne.1.metrics.totalGcs ≠ 0 :=
          fun hn => absurd hsp.2 hn
        split at h
        · rename_i hb; exact absurd hb (fun hb => ret _ f1 hsp.1 hne1 hb)
        · exact recur _ _ _ f1 hsp.1 hne1 h

/-- **Stop-the-world pacing** (C09): with all five work factors zero, `collect_debt` called with
    positive debt does not return until the collector is Sleeping again. -/
theorem doCollection_stw {c c' : Ctx} {root : List Slot} {fault : TraceFault} (hinv : CInv c root [])
    (hz : ZeroWork c.metrics.pacing) (hd : 0 < c.metrics.allocationDebt)
    (hr : c.doCollection root .payDebt .full fault = (c', .returned)) :
    c'.phase = .sleep := by
  have hhd : c.metrics.hasDebt = true := by simpa [Metrics.hasDebt] using hd
  unfold Ctx.doCollection at hr
  simp only [hhd, decide_true, Bool.not_true, Bool.and_false, Bool.false_eq_true, if_false] at hr
  exact collectLoop_stw (by decide) _ _ _ _ _ hinv hz (hasDebt_debits hhd) (fun _ => hasDebt_total hhd) hr

/-- … and the same for `cycle_debt` (`Stop::FinishCycle`). -/
theorem doCollection_stw_cycle {c c' : Ctx} {root : List Slot} {fault : TraceFault}
    (hinv : CInv c root []) (hz : ZeroWork c.metrics.pacing) (hd : 0 < c.metrics.allocationDebt)
    (hr : c.doCollection root .payDebt .finishCycle fault = (c', .returned)) :
    c'.phase = .sleep := by
  have hhd : c.metrics.hasDebt = true := by simpa [Metrics.hasDebt] using hd
  unfold Ctx.doCollection at hr
  simp only [hhd, decide_true, Bool.not_true, Bool.and_false, Bool.false_eq_true, if_false] at hr
  exact collectLoop_stw (by decide) _ _ _ _ _ hinv hz (hasDebt_debits hhd) (fun _ => hasDebt_total hhd) hr

/-! ### Sleep is honoured -/

/-- What `finish_cycle` schedules: the next cycle wakes after
    `max(sleep_factor × remembered, min_sleep)` allocations, counted from zero; no artificial debt
    is carried over when the cycle was atomic (`reset_debt`) or ended without debt. -/
theorem finishCycle_schedule (m : Metrics) (reset : Bool) :
    (m.finishCycle reset).wakeup = max ((m.remembered : Rat) * m.pacing.sleepFactor) (m.pacing.minSleep : Rat) ∧
    (m.finishCycle reset).allocated = 0 ∧ (m.finishCycle reset).pacing = m.pacing ∧
    (m.finishCycle reset).totalGcs = m.totalGcs ∧
    (reset = true ∨ m.allocationDebt = 0 → (m.finishCycle reset).artificial = 0) := by
  refine ⟨rfl, rfl, rfl, rfl, ?_⟩
  intro h
  show (if reset = true then 0 else m.allocationDebt) = 0
  rcases h with h | h
  · rw [if_pos h]
  · split <;> first | rfl | exact h

theorem enterSleep_schedule (c : Ctx) (hasSlept : Bool) :
    (c.enterSleep hasSlept).phase = .sleep ∧
    (c.enterSleep hasSlept).metrics = c.metrics.finishCycle hasSlept := ⟨rfl, rfl⟩

/-- **Sleep is honoured** (C09).  Asleep with no artificial debt: as long as the allocations made
    since the cycle ended do not exceed the wake-up amount, every debt-driven call returns at once
    with the state unchanged and the reported debt is zero; once they exceed it (and the arena
    holds something) the reported debt is positive — exactly the excess. -/
theorem sleep_honoured {c : Ctx} (root : List Slot) (stop : Stop) (fault : TraceFault)
    (hs : c.phase = .sleep) (hacc : Acc c) (hart : c.metrics.artificial = 0) :
    ((c.metrics.allocated : Rat) ≤ c.metrics.wakeup →
      c.doCollection root .payDebt stop fault = (c, .returned) ∧ c.metrics.allocationDebt = 0) ∧
    (c.metrics.wakeup < (c.metrics.allocated : Rat) → c.metrics.totalGcs ≠ 0 →
      0 < c.metrics.allocationDebt ∧
      c.metrics.allocationDebt = (c.metrics.allocated : Rat) - c.metrics.wakeup) := by
  obtain ⟨e1, e2, e3, e4, e5⟩ := hacc.1 hs
  have hcred : c.metrics.cycleCredits = 0 := by
    unfold Metrics.cycleCredits
    rw [e1, e2, e3, e4, e5]
    simp [Rat.zero_mul, Rat.add_zero]
  have hdeb : c.metrics.cycleDebits = (c.metrics.allocated : Rat) - c.metrics.wakeup := by
    unfold Metrics.cycleDebits; rw [hart]; grind
  constructor
  · intro hle
    have hz : c.metrics.allocationDebt = 0 := by
      unfold Metrics.allocationDebt
      split
      · rfl
      · rw [if_pos (by rw [hdeb]; grind)]
    have hnd : c.metrics.hasDebt = false := by
      simp only [Metrics.hasDebt, hz, decide_eq_false_iff_not]; exact Rat.lt_irrefl
    exact ⟨by simp [Ctx.doCollection, hnd], hz⟩
  · intro hlt hne
    have hv : c.metrics.allocationDebt = (c.metrics.allocated : Rat) - c.metrics.wakeup := by
      unfold Metrics.allocationDebt
      rw [if_neg hne, if_neg (by rw [hdeb]; grind), hcred, hdeb]
      grind
    exact ⟨by rw [hv]; grind, hv⟩

end GcArena
