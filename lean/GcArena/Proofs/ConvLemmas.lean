import GcArena.Model.Conv
/-!
  Lemmas about the conversion model (Model/Conv.lean): every step keeps the allocation and the
  address, preserves the shape invariant `WF`, and fails only when ill-typed or when a weak
  pointer to a destructed value is upgraded.
-/
namespace GcArena.Conv

theorem Target.hdrLen_of_isSized {t : Target} (h : t.isSized = true) : t.hdrLen = none := by
  cases t <;> simp_all [Target.isSized, Target.hdrLen]

theorem Target.pmeta_of_isSized {t : Target} (h : t.isSized = true) : t.pmeta = .unit := by
  cases t <;> simp_all [Target.isSized, Target.pmeta]

theorem Target.hdrLen_of_pmeta {t : Target} (h : t.pmeta ≠ .unit) :
    ∃ n, t.hdrLen = some n := by
  cases t <;> simp_all [Target.pmeta, Target.hdrLen]

/-- Unfolding of `step` when the typing test passes. -/
theorem step_of_applicable {a : Alloc} {s : Step} {p : PtrVal} (h : applicable a.target s p = true) :
    step a s p = conv a s p := by
  simp [step, h]

theorem step_none_of_not_applicable {a : Alloc} {s : Step} {p : PtrVal}
    (h : applicable a.target s p = false) : step a s p = none := by
  simp [step, h]

theorem applicable_of_step {a : Alloc} {s : Step} {p q : PtrVal} (h : step a s p = some q) :
    applicable a.target s p = true := by
  cases hh : applicable a.target s p
  · rw [step_none_of_not_applicable hh] at h; cases h
  · rfl

/-- No conversion changes the allocation referred to or the address. -/
theorem step_same {a : Alloc} {s : Step} {p q : PtrVal} (h : step a s p = some q) :
    q.obj = p.obj ∧ q.off = p.off := by
  have ha := applicable_of_step h
  rw [step_of_applicable ha] at h
  cases s <;> simp only [conv, Option.some.injEq] at h <;> try (subst h; exact ⟨rfl, rfl⟩)
  -- upgrade
  split at h
  · cases h; exact ⟨rfl, rfl⟩
  · cases h

theorem apply_same {a : Alloc} : ∀ {ch : Chain} {p q : PtrVal}, apply a ch p = some q →
    q.obj = p.obj ∧ q.off = p.off
  | [], p, q, h => by simp [apply] at h; subst h; exact ⟨rfl, rfl⟩
  | s :: ch, p, q, h => by
    simp only [apply] at h
    cases hs : step a s p with
    | none => rw [hs] at h; cases h
    | some r =>
      rw [hs] at h
      have h1 := step_same hs
      have h2 := apply_same h
      exact ⟨h2.1.trans h1.1, h2.2.trans h1.2⟩

/-- The strength of the result of a step. -/
theorem step_weak {a : Alloc} {s : Step} {p q : PtrVal} (h : step a s p = some q) :
    q.weak = (match s with
      | .downgrade => true
      | .upgrade => false
      | _ => p.weak) := by
  have ha := applicable_of_step h
  rw [step_of_applicable ha] at h
  cases s <;> simp only [conv, Option.some.injEq] at h <;> try (subst h; rfl)
  split at h
  · cases h; rfl
  · cases h

/-- A step fails only when ill-typed or when it upgrades a weak pointer to a destructed value. -/
theorem step_eq_none_iff {a : Alloc} {s : Step} {p : PtrVal} :
    step a s p = none ↔ applicable a.target s p = false ∨ (s = .upgrade ∧ a.upgradable = false) := by
  cases hh : applicable a.target s p
  · simp [step_none_of_not_applicable hh]
  · rw [step_of_applicable hh]
    cases s <;> simp [conv]

/-- The result of a step does not depend on the allocation's identity, and on its liveness only
    through `upgrade`. -/
theorem step_live_irrel {a : Alloc} {s : Step} {p q : PtrVal} (h : step a s p = some q) (x : Nat) :
    step ⟨x, a.target, true, false⟩ s p = some q := by
  have ha := applicable_of_step h
  rw [step_of_applicable ha] at h
  have ha' : applicable (Alloc.mk x a.target true false).target s p = true := ha
  rw [step_of_applicable ha']
  cases s <;> simp_all [conv, Alloc.upgradable]

theorem step_of_live {a : Alloc} {s : Step} {p q : PtrVal} (x : Nat)
    (h : step ⟨x, a.target, true, false⟩ s p = some q) (hl : a.upgradable = true ∨ s ≠ .upgrade) :
    step a s p = some q := by
  have ha := applicable_of_step h
  rw [step_of_applicable ha] at h
  have ha' : applicable a.target s p = true := ha
  rw [step_of_applicable ha']
  cases s <;> simp_all [conv, Alloc.upgradable]

/-! ### The shape invariant -/

theorem initPtr_wf (a : Alloc) : WF a (initPtr a) := by
  cases a with
  | mk id t live cond =>
    cases t <;>
      exact ⟨rfl, rfl, by simp [initPtr], by simp [initPtr, fatMeta],
        by simp [initPtr, Target.pmeta], by simp [initPtr],
        by simp [initPtr, Target.isSized, Target.pmeta]⟩

theorem derefMeta_wf {a : Alloc} {p : PtrVal} (h : WF a p) :
    derefMeta a.target p = fatMeta a.target p.ty := by
  unfold derefMeta
  cases ht : p.thin
  · simp [h.fat ht]
  · have hk := h.thinKind ht
    simp only [if_true]
    unfold hasPtrMeta at hk
    cases hp : p.pmeta <;> rw [hp] at hk <;> simp only at hk ⊢
    · -- unit: the static type is sized
      cases hty : p.ty <;> rw [hty] at hk <;> simp only [tySized] at hk
      · simp [fatMeta, Target.hdrLen_of_isSized hk]
      · simp [fatMeta]
      · cases hk
    · simp only [Bool.and_eq_true, beq_iff_eq] at hk
      have hne : a.target.pmeta ≠ .unit := by rw [← hk.1]; simp
      obtain ⟨n, hn⟩ := Target.hdrLen_of_pmeta hne
      simp [hk.2, fatMeta, hn]
    · simp only [Bool.and_eq_true, beq_iff_eq] at hk
      have hne : a.target.pmeta ≠ .unit := by rw [← hk.1]; simp
      obtain ⟨n, hn⟩ := Target.hdrLen_of_pmeta hne
      simp [hk.2, fatMeta, hn]

/-- Every step preserves the shape invariant. -/
theorem step_wf {a : Alloc} {s : Step} {p q : PtrVal} (hw : WF a p) (h : step a s p = some q) :
    WF a q := by
  have ha := applicable_of_step h
  have hd := derefMeta_wf hw
  rw [step_of_applicable ha] at h
  cases s <;> simp only [conv, Option.some.injEq] at h
  case copy => subst h; exact hw
  case ptrKind => subst h; exact hw
  case thinPtr => subst h; exact hw
  case stash => subst h; exact hw
  case downgrade =>
    subst h
    exact ⟨hw.obj, hw.off, hw.thinMeta, hw.fat, hw.kind, hw.thinKind, hw.uns⟩
  case upgrade =>
    split at h
    · cases h
      exact ⟨hw.obj, hw.off, hw.thinMeta, hw.fat, hw.kind, hw.thinKind, hw.uns⟩
    · cases h
  case erase =>
    subst h
    exact ⟨hw.obj, hw.off, by simp, by simp [fatMeta], Or.inl rfl, by simp, by simp⟩
  case eraseKind =>
    subst h
    simp only [applicable, Bool.and_eq_true, Bool.not_eq_true'] at ha
    refine ⟨hw.obj, hw.off, hw.thinMeta, hw.fat, Or.inl rfl, ?_, ?_⟩
    · intro ht; simp [ha.2] at ht
    · intro hu; exact ⟨(hw.uns hu).1, (hw.uns hu).2.1, rfl⟩
  case cast =>
    subst h
    simp only [applicable, Bool.and_eq_true, Bool.not_eq_true'] at ha
    refine ⟨hw.obj, hw.off, by simp, ?_, ?_, ?_, by simp⟩
    · intro _; simp [fatMeta, Target.hdrLen_of_isSized ha.2]
    · cases hw.kind with
      | inl h1 => exact Or.inl h1
      | inr h1 => exact Or.inr ⟨h1.1, rfl⟩
    · intro ht; simp [ha.1] at ht
  case fromThin =>
    subst h
    refine ⟨hw.obj, hw.off, by simp, by simp, Or.inr ⟨rfl, rfl⟩, ?_, by simp⟩
    intro _
    simp only [hasPtrMeta]
    cases hp : a.target.pmeta <;> simp only [tySized, beq_self_eq_true, Bool.and_self]
    cases ht : a.target <;> simp_all [Target.pmeta, Target.isSized]
  case asThin =>
    subst h
    simp only [applicable, Bool.and_eq_true, Bool.not_eq_true'] at ha
    refine ⟨hw.obj, hw.off, by simp, by simp, hw.kind, ?_, ?_⟩
    · intro _; exact ha.2
    · intro hu
      have hu' : p.ty = .uns := hu
      have := hw.uns hu'
      have hk := ha.2
      simp [hasPtrMeta, this.2.2, hu', tySized] at hk
  case asFat =>
    subst h
    refine ⟨hw.obj, hw.off, by simp, ?_, hw.kind, by simp, ?_⟩
    · intro _; exact hd
    · intro hu; exact ⟨(hw.uns hu).1, rfl, (hw.uns hu).2.2⟩
  case ptr =>
    subst h
    refine ⟨hw.obj, hw.off, by simp, ?_, Or.inl rfl, by simp, ?_⟩
    · intro _; exact hd
    · intro hu; exact ⟨(hw.uns hu).1, rfl, rfl⟩
  case unsize =>
    subst h
    simp only [applicable, Bool.and_eq_true, beq_iff_eq] at ha
    exact ⟨hw.obj, hw.off, by simp, by simp, Or.inl rfl, by simp, fun _ => ⟨ha.2, rfl, rfl⟩⟩

theorem apply_wf {a : Alloc} : ∀ {ch : Chain} {p q : PtrVal}, WF a p → apply a ch p = some q → WF a q
  | [], p, q, hw, h => by simp [apply] at h; subst h; exact hw
  | s :: ch, p, q, hw, h => by
    simp only [apply] at h
    cases hs : step a s p with
    | none => rw [hs] at h; cases h
    | some r => rw [hs] at h; exact apply_wf (step_wf hw hs) h

/-! ### Well-typed chains -/

/-- On a live allocation a chain succeeds exactly when it is well typed. -/
theorem apply_isSome_iff_wellTyped {a : Alloc} (hl : a.upgradable = true) :
    ∀ {ch : Chain} {p : PtrVal}, (apply a ch p).isSome = wellTyped a.target ch p
  | [], p => by simp [apply, wellTyped]
  | s :: ch, p => by
    simp only [apply, wellTyped]
    cases hs : step a s p with
    | none =>
      cases hs' : step ⟨p.obj, a.target, true, false⟩ s p with
      | none => simp
      | some r =>
        have := step_of_live (a := a) p.obj hs' (Or.inl hl)
        rw [hs] at this; cases this
    | some q =>
      rw [step_live_irrel hs p.obj]
      simp only [applicable_of_step hs, Bool.true_and]
      exact apply_isSome_iff_wellTyped hl

/-- A well-typed chain fails exactly when the value is destructed or condemned and the chain
    upgrades. -/
theorem apply_eq_none_iff {a : Alloc} :
    ∀ {ch : Chain} {p : PtrVal}, wellTyped a.target ch p = true →
      (apply a ch p = none ↔ a.upgradable = false ∧ Step.upgrade ∈ ch)
  | [], p, _ => by simp [apply]
  | s :: ch, p, hwt => by
    simp only [wellTyped, Bool.and_eq_true] at hwt
    obtain ⟨happ, hrest⟩ := hwt
    cases hs' : step ⟨p.obj, a.target, true, false⟩ s p with
    | none => rw [hs'] at hrest; cases hrest
    | some q =>
      rw [hs'] at hrest
      simp only at hrest
      simp only [apply]
      by_cases hu : s = .upgrade
      · subst hu
        cases hl : a.upgradable
        · have : step a .upgrade p = none := by
            rw [step_eq_none_iff]; exact Or.inr ⟨rfl, hl⟩
          simp [this]
        · have := step_of_live (a := a) p.obj hs' (Or.inl hl)
          rw [this]
          simp only
          rw [apply_eq_none_iff hrest]
          simp [hl]
      · have := step_of_live (a := a) p.obj hs' (Or.inr hu)
        rw [this]
        simp only
        rw [apply_eq_none_iff hrest]
        constructor
        · intro ⟨h1, h2⟩; exact ⟨h1, List.mem_cons_of_mem _ h2⟩
        · intro ⟨h1, h2⟩
          refine ⟨h1, ?_⟩
          cases h2 with
          | head => exact absurd rfl hu
          | tail _ h => exact h

/-- What the collector sees of the result of a chain: the original target, strong or weak. -/
theorem apply_toPtr {a : Alloc} {ch : Chain} {p q : PtrVal} (h : apply a ch p = some q) :
    q.toPtr = if q.weak then .weak p.obj else .strong p.obj := by
  simp [PtrVal.toPtr, (apply_same h).1]

/-! ### Powers of two -/

theorem pow2_dvd_of_le {a m : Nat} (ha : isPow2 a) (hm : isPow2 m) (h : a ≤ m) : a ∣ m := by
  obtain ⟨i, rfl⟩ := ha
  obtain ⟨j, rfl⟩ := hm
  apply Nat.pow_dvd_pow
  by_cases hij : i ≤ j
  · exact hij
  · exfalso
    have : j < i := Nat.lt_of_not_le hij
    have := Nat.pow_lt_pow_right (a := 2) (by decide) this
    omega

end GcArena.Conv
