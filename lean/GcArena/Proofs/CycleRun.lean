import GcArena.Proofs.Sleep
/-!
  One collection cycle over whole operation sequences.

  * `CycRel`: what a stretch of history that appended no `'Z'` (no `Sweep → Sleep` switch, i.e. no
    `finish_cycle`) to the step log, changed no pacing and made no negative `adjust_debt` does to
    the metrics — the debit side only grows by allocations, `total_gcs + freed - allocated` is
    constant, and `allocated` grows by exactly the number of successful `alloc` operations.
  * `WInv`: the wake-up amount is never negative, and while asleep `allocated ≤ total_gcs`.
-/
namespace GcArena

/-! ### Micro-steps: either the `Sweep → Sleep` switch, or a step inside the cycle -/

theorem micro_kind {c c' : Ctx} {root} (h : CInv c root []) (m : Micro)
    (hs : c.micro root m = some c') :
    (∃ b, c.phase = .sweep ∧ c' = c.enterSleep b) ∨
    (∃ ch, ch ≠ 'Z' ∧ c'.steps = ch :: c.steps ∧ CFrame c.metrics c'.metrics ∧ c'.phase ≠ .sleep) := by
  cases m with
  | wake =>
    simp only [Ctx.micro] at hs
    split at hs
    · cases hs
      exact Or.inr ⟨'W', by decide, rfl, CFrame.refl _, by simp [Ctx.switch, Ctx.step]⟩
    · cases hs
  | markStep f =>
    simp only [Ctx.micro] at hs
    split at hs
    · cases hs; rename_i hp
      simp only [Bool.and_eq_true, decide_eq_true_eq] at hp
      obtain ⟨ch, hz, _, est⟩ := markOne_steps c root f
      have p := markOne_markPrim h f (root := root)
      exact Or.inr ⟨ch, hz, est, p.cframe, by rw [p.phase, hp.1]; simp⟩
    · cases hs
  | markBreak =>
    simp only [Ctx.micro] at hs
    split at hs
    · cases hs; rename_i hp
      simp only [Bool.and_eq_true, decide_eq_true_eq] at hp
      obtain ⟨ch, hz, _, est⟩ := markOne_steps c root none
      have p := markOne_markPrim h none (root := root)
      exact Or.inr ⟨ch, hz, est, p.cframe, by rw [p.phase, hp.1]; simp⟩
    · cases hs
  | toSweep =>
    simp only [Ctx.micro] at hs
    split at hs
    · cases hs
      exact Or.inr ⟨'S', by decide, rfl, CFrame.refl _, by simp [Ctx.enterSweep, Ctx.switch, Ctx.step]⟩
    · cases hs
  | sweepStep =>
    simp only [Ctx.micro] at hs
    split at hs
    · cases hs; rename_i hp
      simp only [Bool.and_eq_true, decide_eq_true_eq] at hp
      obtain ⟨ch, hz, _, est⟩ := sweepOne_steps c
      exact Or.inr ⟨ch, hz, est, sweepOne_cframe h, by rw [(sweepOne_spec h hp.1).2]; simp⟩
    · cases hs
  | sweepEnd =>
    simp only [Ctx.micro] at hs
    split at hs
    · cases hs; rename_i hp
      simp only [Bool.and_eq_true, decide_eq_true_eq] at hp
      obtain ⟨ch, hz, _, est⟩ := sweepOne_steps c
      exact Or.inr ⟨ch, hz, est, sweepOne_cframe h, by rw [(sweepOne_spec h hp.1).2]; simp⟩
    · cases hs
  | toSleep b =>
    simp only [Ctx.micro] at hs
    split at hs
    · cases hs; rename_i hp
      simp only [Bool.and_eq_true, decide_eq_true_eq] at hp
      exact Or.inl ⟨b, hp.1, rfl⟩
    · cases hs

theorem enterSleep_steps (c : Ctx) (b : Bool) : (c.enterSleep b).steps = 'Z' :: c.steps := rfl

/-- A micro-step sequence only appends to the step log, and if it appended no `'Z'` it stayed
    inside the cycle. -/
theorem micros_cframe {root} (ms : List Micro) : ∀ {c c' : Ctx}, CInv c root [] →
    c.micros root ms = some c' →
    ∃ new, c'.steps = new ++ c.steps ∧ ('Z' ∉ new → CFrame c.metrics c'.metrics) := by
  induction ms with
  | nil => intro c c' _ hs; cases hs; exact ⟨[], rfl, fun _ => CFrame.refl _⟩
  | cons m ms ih =>
    intro c c' h hs
    simp only [Ctx.micros] at hs
    cases hm : c.micro root m with
    | none => rw [hm] at hs; cases hs
    | some c1 =>
      rw [hm] at hs
      obtain ⟨new2, e2, f2⟩ := ih (micro_inv h m hm) hs
      rcases micro_kind h m hm with ⟨b, _, hb⟩ | ⟨ch, hz, e1, f1, _⟩
      · refine ⟨new2 ++ ['Z'], by rw [e2, hb, enterSleep_steps]; simp, fun hn => ?_⟩
        exact absurd (List.mem_append_right _ (by simp)) hn
      · refine ⟨new2 ++ [ch], by rw [e2, e1]; simp, fun hn => ?_⟩
        exact f1.trans (f2 (fun hmem => hn (List.mem_append_left _ hmem)))

theorem Reaches.cframe {c c' : Ctx} {root} (r : Reaches c root c') (h : CInv c root []) :
    ∃ new, c'.steps = new ++ c.steps ∧ ('Z' ∉ new → CFrame c.metrics c'.metrics) := by
  obtain ⟨ms, hs⟩ := r; exact micros_cframe ms h hs

/-! ### Staying inside one cycle -/

/-- From `m` to `m'` no `finish_cycle` ran, the pacing was not changed and the debt was not
    artificially reduced. -/
structure SameCycle (m m' : Metrics) : Prop where
  pacing : m'.pacing = m.pacing
  wakeup : m'.wakeup = m.wakeup
  art : m.artificial ≤ m'.artificial
  ghost : m'.totalGcs + m'.freed + m.allocated = m.totalGcs + m.freed + m'.allocated

/-- The step log only grew, and if no `'Z'` was appended the metrics stayed inside the cycle and
    `allocated` grew by exactly `k`. -/
def CycRel (k : Nat) (c c' : Ctx) : Prop :=
  ∃ new, c'.steps = new ++ c.steps ∧
    ('Z' ∉ new → SameCycle c.metrics c'.metrics ∧ c'.metrics.allocated = c.metrics.allocated + k)

theorem CycRel.trans {k1 k2 : Nat} {a b c : Ctx} (h1 : CycRel k1 a b) (h2 : CycRel k2 b c) :
    CycRel (k1 + k2) a c := by
  obtain ⟨n1, e1, f1⟩ := h1
  obtain ⟨n2, e2, f2⟩ := h2
  refine ⟨n2 ++ n1, by rw [e2, e1, List.append_assoc], fun hn => ?_⟩
  obtain ⟨s1, a1⟩ := f1 (fun hm => hn (List.mem_append_right _ hm))
  obtain ⟨s2, a2⟩ := f2 (fun hm => hn (List.mem_append_left _ hm))
  refine ⟨⟨s2.pacing.trans s1.pacing, s2.wakeup.trans s1.wakeup, Rat.le_trans s1.art s2.art, ?_⟩, ?_⟩
  · have g1 := s1.ghost; have g2 := s2.ghost; omega
  · omega

/-- No new step, metrics given. -/
theorem CycRel.ofSteps {k : Nat} {c c' : Ctx} (hs : c'.steps = c.steps)
    (h : SameCycle c.metrics c'.metrics ∧ c'.metrics.allocated = c.metrics.allocated + k) :
    CycRel k c c' := ⟨[], by simpa using hs, fun _ => h⟩

theorem CycRel.refl (c : Ctx) : CycRel 0 c c :=
  CycRel.ofSteps rfl ⟨⟨rfl, rfl, Rat.le_refl, rfl⟩, rfl⟩

theorem CFrame.sameCycle {m m' : Metrics} (f : CFrame m m') :
    SameCycle m m' ∧ m'.allocated = m.allocated + 0 :=
  ⟨⟨f.mf.pacing, f.mf.wakeup, by rw [f.mf.artificial]; exact Rat.le_refl, f.ghost⟩, f.mf.allocated⟩

theorem Reaches.cycRel {c c' : Ctx} {root} (r : Reaches c root c') (h : CInv c root []) :
    CycRel 0 c c' := by
  obtain ⟨new, e, f⟩ := r.cframe h
  exact ⟨new, e, fun hn => (f hn).sameCycle⟩

theorem runCollector_reaches_c {a : Arena} (h : Inv a) (hcb : a.cb = none) {ru stop fault oracle c ex}
    (hr : a.runCollector ru stop fault oracle = some (c, ex)) : Reaches a.ctx a.root c := by
  have h0 : CInv a.ctx a.root [] := by have := h.cinv; rw [h.cbTemps hcb] at this; exact this
  unfold Arena.runCollector at hr
  cases oracle with
  | none =>
    simp only [Option.some.injEq] at hr
    have hc : c = (a.ctx.doCollection a.root ru stop fault).1 := by rw [hr]
    rw [hc]
    exact doCollection_reaches h0
  | some ms =>
    simp only at hr
    split at hr
    · cases hr
    · rename_i c' hc'
      simp only [Option.some.injEq, Prod.mk.injEq] at hr
      rw [← hr.1]
      exact ⟨ms, hc'⟩

theorem runCollector_cyc {a : Arena} (h : Inv a) (hcb : a.cb = none) {ru stop fault oracle c ex}
    (hr : a.runCollector ru stop fault oracle = some (c, ex)) : CycRel 0 a.ctx c := by
  have h0 : CInv a.ctx a.root [] := by have := h.cinv; rw [h.cbTemps hcb] at this; exact this
  exact (runCollector_reaches_c h hcb hr).cycRel h0

theorem marked?_cyc {a : Arena} (h : Inv a) (hcb : a.cb = none)
    (k : Cont) (o2 : Option (List Micro)) : CycRel 0 a.ctx (a.marked? k o2).1.ctx := by
  unfold Arena.marked?
  split
  · cases k with
    | drop => exact CycRel.refl _
    | finalize => exact CycRel.refl _
    | sweep =>
      simp only
      cases hss : a.startSweeping o2 with
      | none => exact CycRel.refl _
      | some c' =>
        simp only
        unfold Arena.startSweeping at hss
        cases hr2 : a.runCollector .stop .atSweep none o2 with
        | none => rw [hr2] at hss; cases hss
        | some res2 =>
          obtain ⟨c2, ex2⟩ := res2
          rw [hr2] at hss
          simp only at hss
          split at hss
          · cases hss; exact runCollector_cyc h hcb hr2
          · cases hss
  · exact CycRel.refl _

theorem sb_collect_cyc {a : Arena} (h : Inv a) (hm : a.marked = false) (fin : Bool)
    (m : Method) (k : Cont) (fault : TraceFault) (oracle : Option (List Micro)) :
    CycRel 0 a.ctx (a.stepBody fin (.collect m k fault oracle)).1.ctx := by
  simp only [Arena.stepBody]
  split
  · exact CycRel.refl _
  · rename_i hcb0
    have hcb : a.cb = none := by cases hc : a.cb <;> simp_all
    generalize Arena.splitOracle oracle k m = os
    cases hr : a.runCollector (Arena.methodArgs m).1 (Arena.methodArgs m).2 fault os.1 with
    | none => exact CycRel.refl _
    | some res =>
      obtain ⟨c, ex⟩ := res
      simp only
      have hc := runCollector_inv h hcb hr
      have r1 := runCollector_cyc h hcb hr
      have hi := h.afterCollect hm hcb hc
      split
      · exact r1
      · split
        · exact r1
        · cases m with
          | markDebt => exact r1.trans (marked?_cyc hi hcb k os.2)
          | finishMarking => exact r1.trans (marked?_cyc hi hcb k os.2)
          | collectDebt => exact r1
          | cycleDebt => exact r1
          | finishCycle => exact r1

/-! ### Mutator operations do not touch the step log -/

theorem backwardBarrier_steps (c : Ctx) (p : Nat) (ch : Option Nat) :
    (c.backwardBarrier p ch).steps = c.steps := by
  unfold Ctx.backwardBarrier
  repeat' split
  all_goals first
    | rfl
    | exact Ctx.fail_steps _ _
    | exact makeGrayAgain_steps _ _

theorem backwardBarrierWeak_steps (c : Ctx) (p ch : Nat) :
    (c.backwardBarrierWeak p ch).steps = c.steps := by
  unfold Ctx.backwardBarrierWeak
  repeat' split
  all_goals first
    | rfl
    | exact Ctx.fail_steps _ _
    | exact makeGrayAgain_steps _ _

theorem forwardBarrier_steps (c : Ctx) (p : Option Nat) (ch : Nat) :
    (c.forwardBarrier p ch).steps = c.steps := by
  unfold Ctx.forwardBarrier
  repeat' split
  all_goals first
    | rfl
    | exact Ctx.fail_steps _ _
    | exact trace_steps _ _

theorem forwardBarrierWeak_steps (c : Ctx) (p : Option Nat) (ch : Nat) :
    (c.forwardBarrierWeak p ch).steps = c.steps := by
  unfold Ctx.forwardBarrierWeak
  repeat' split
  all_goals first
    | rfl
    | exact Ctx.fail_steps _ _
    | exact traceWeak_steps _ _

theorem upgrade_steps (c : Ctx) (t : Nat) : (c.upgrade t).1.steps = c.steps := by
  unfold Ctx.upgrade
  repeat' split
  all_goals first
    | rfl
    | exact Ctx.fail_steps _ _

theorem resurrect_steps_c (c : Ctx) (t : Nat) : (c.resurrect t).steps = c.steps := by
  unfold Ctx.resurrect
  split
  · exact Ctx.fail_steps _ _
  · simp only
    have h0 : ∀ (b1 b2 : Prop) [Decidable b1] [Decidable b2],
        (if b2 then (if b1 then c else c.fail .debugAssert)
         else (if b1 then c else c.fail .debugAssert).fail .debugAssert).steps = c.steps := by
      intro b1 b2 _ _; split <;> split <;> simp
    split
    · split
      · simp only [Ctx.withMetrics_steps, Ctx.setObj_steps]; rw [h0]
      · simp only [Ctx.setObj_steps]; rw [h0]
    · rw [h0]

theorem setSlot_steps (c : Ctx) (p i : Nat) (v : Slot) : (Arena.setSlot c p i v).steps = c.steps := by
  unfold Arena.setSlot
  split
  · exact Ctx.fail_steps _ _
  · rfl

theorem rootBarrier_steps (c : Ctx) : c.rootBarrier.steps = c.steps := by
  unfold Ctx.rootBarrier; split <;> rfl

theorem stepBody_steps (a : Arena) (fin : Bool) (op : Op) (hop : op.isMutator = true) :
    (a.stepBody fin op).1.ctx.steps = a.ctx.steps := by
  cases op with
  | collect m k f o => simp [Op.isMutator] at hop
  | dropArena => simp [Op.isMutator] at hop
  | setPacing p => rfl
  | adjustDebt x => rfl
  | leave => simp only [Arena.stepBody]; split <;> rfl
  | enter k =>
    simp only [Arena.stepBody]
    split
    · rfl
    · cases k with
      | mutate => rfl
      | mutateRoot => exact rootBarrier_steps _
      | finalize => simp only; split <;> rfl
  | alloc nt slots =>
    simp only [Arena.stepBody]
    split
    · rfl
    · split
      · rfl
      · split
        · rfl
        · simp only [quiet_push]; rfl
  | readRoot i =>
    simp only [Arena.stepBody]
    split
    · rfl
    · split <;> first | rfl | (simp only [quiet_push])
  | read p i =>
    simp only [Arena.stepBody]
    split
    · rfl
    · split <;> first | rfl | (simp only [quiet_push])
  | downgrade p =>
    simp only [Arena.stepBody]
    split
    · rfl
    · simp only [quiet_push]
  | upgrade w =>
    simp only [Arena.stepBody]
    split
    · rfl
    · have hs := upgrade_steps a.ctx w
      rw [show a.ctx.upgrade w = ((a.ctx.upgrade w).1, (a.ctx.upgrade w).2) from rfl]
      simp only
      split
      · simp only [quiet_push]; exact hs
      · exact hs
  | isDropped w =>
    simp only [Arena.stepBody]
    split
    · rfl
    · split
      · exact Ctx.fail_steps _ _
      · rfl
  | isDead p =>
    simp only [Arena.stepBody]
    split
    · rfl
    · split
      · exact Ctx.fail_steps _ _
      · rfl
  | resurrect p =>
    simp only [Arena.stepBody]
    split
    · rfl
    · cases p with
      | strong t => exact resurrect_steps_c _ _
      | weak t =>
        simp only
        split
        · exact Ctx.fail_steps _ _
        · split
          · simp only [quiet_push]; exact resurrect_steps_c _ _
          · rfl
  | barrier b =>
    simp only [Arena.stepBody]
    split
    · rfl
    · cases b with
      | bb p c =>
        cases c with
        | none => simp only; split <;> first | rfl | exact backwardBarrier_steps _ _ _
        | some c => simp only; split <;> first | rfl | exact backwardBarrier_steps _ _ _
      | bbw p c => simp only; split <;> first | rfl | exact backwardBarrierWeak_steps _ _ _
      | fb p c =>
        cases p with
        | none => simp only; split <;> first | rfl | exact forwardBarrier_steps _ _ _
        | some p => simp only; split <;> first | rfl | exact forwardBarrier_steps _ _ _
      | fbw p c =>
        cases p with
        | none => simp only; split <;> first | rfl | exact forwardBarrierWeak_steps _ _ _
        | some p => simp only; split <;> first | rfl | exact forwardBarrierWeak_steps _ _ _
  | store path p i v =>
    simp only [Arena.stepBody]
    split
    · rfl
    · split
      · rfl
      · split
        · rfl
        · cases path with
          | write =>
            simp only
            rw [setSlot_steps, backwardBarrier_steps]
          | raw =>
            simp only
            split
            · rfl
            · exact setSlot_steps _ _ _ _
          | storeThenBarrier =>
            simp only
            rw [backwardBarrier_steps, setSlot_steps]
  | rootStore i v =>
    simp only [Arena.stepBody]
    split <;> rfl

theorem step_steps (a : Arena) (op : Op) (hop : op.isMutator = true) :
    (a.step op).1.ctx.steps = a.ctx.steps := by
  unfold Arena.step
  split
  · rfl
  · exact stepBody_steps _ _ op hop

/-! ### Successful allocations -/

/-- The `alloc` operation is accepted in `a` (inside a callback, operands held, a non-tracing value
    holds no pointers): exactly then `Context::link` runs. -/
def Arena.allocates (a : Arena) : Op → Bool
  | .alloc nt slots =>
    a.alive && a.cb.isSome && slots.all a.holdsSlot && (nt || slots.all (· == none))
  | _ => false

theorem step_alloc_allocated (a : Arena) (nt : Bool) (slots : List Slot) :
    (a.step (.alloc nt slots)).1.ctx.metrics.allocated =
      a.ctx.metrics.allocated + (if a.allocates (.alloc nt slots) then 1 else 0) := by
  unfold Arena.step
  by_cases hal : a.alive = true
  · have hnot : (!a.alive) = false := by rw [hal]; rfl
    rw [hnot]
    simp only [Bool.false_eq_true, if_false]
    generalize hb : ({ a with marked := false } : Arena) = b
    have e1 : b.ctx = a.ctx := by rw [← hb]
    have e2 : b.cb = a.cb := by rw [← hb]
    have e3 : b.holdsSlot = a.holdsSlot := by
      rw [← hb]; funext s; cases s <;> rfl
    have hn : a.cb.isNone = !a.cb.isSome := by cases a.cb <;> rfl
    simp only [Arena.stepBody, Arena.allocates, hal, e2, e3, hn, Bool.true_and]
    cases h0 : a.cb.isSome <;> cases h1 : slots.all a.holdsSlot <;> cases nt <;>
      cases h2 : slots.all (· == none) <;>
      simp [Arena.bad, quiet_push, Ctx.link, Metrics.markGcAllocated, e1]
  · have hal' : a.alive = false := by simpa using hal
    simp [hal', Arena.bad, Arena.allocates]

/-! ### Every operation, and operation sequences -/

/-- Operations that can neither change the pacing nor reduce the debt artificially: everything
    except `set_pacing` and `adjust_debt` with a negative amount. -/
def Op.keepsCycle : Op → Bool
  | .setPacing _ => false
  | .adjustDebt x => decide (0 ≤ x)
  | _ => true

theorem PlainMet.sameCycle {b : Bool} {m m' : Metrics} (h : PlainMet b m m') : SameCycle m m' := by
  obtain ⟨e1, e2, e3, _, _⟩ := h.frame
  exact ⟨e1, e2, by rw [e3]; exact Rat.le_refl, h.ghost⟩

theorem FwdMet.sameCycle {m m' : Metrics} (h : FwdMet m m') : SameCycle m m' := by
  obtain ⟨e1, e2, e3, _⟩ := h.frame
  exact ⟨e1, e2, by rw [e3]; exact Rat.le_refl, h.ghost⟩

theorem allocates_of_not_isAlloc (a : Arena) {op : Op} (h : op.isAlloc = false) :
    a.allocates op = false := by
  cases op <;> simp [Op.isAlloc] at h <;> rfl

theorem step_cycRel {a : Arena} (h : Inv a) (op : Op) (hk : op.keepsCycle = true)
    (hal : (a.step op).1.alive = true) :
    CycRel (if a.allocates op then 1 else 0) a.ctx (a.step op).1.ctx := by
  have hnot : (!a.alive) = false := by rw [h.alive]; rfl
  by_cases hmut : op.isMutator = true
  · apply CycRel.ofSteps (step_steps a op hmut)
    by_cases hkn : op.isKnob = true
    · cases op with
      | setPacing p => simp [Op.keepsCycle] at hk
      | adjustDebt x =>
        have hx : (0 : Rat) ≤ x := by simpa [Op.keepsCycle] using hk
        have hm : (a.step (.adjustDebt x)).1.ctx.metrics = a.ctx.metrics.adjustDebt x := by
          unfold Arena.step; rw [hnot]; rfl
        rw [hm]
        refine ⟨⟨rfl, rfl, ?_, rfl⟩, ?_⟩
        · show a.ctx.metrics.artificial ≤ a.ctx.metrics.artificial + x
          grind
        · simp [Arena.allocates, Metrics.adjustDebt]
      | _ => simp [Op.isKnob] at hkn
    · have hkn' : op.isKnob = false := by simpa using hkn
      cases hf : op.isForwardLike with
      | false =>
        have pm := step_plainMet a op hmut hkn' hf
        refine ⟨pm.sameCycle, ?_⟩
        cases hia : op.isAlloc with
        | true =>
          cases op with
          | alloc nt slots => exact step_alloc_allocated a nt slots
          | _ => simp [Op.isAlloc] at hia
        | false =>
          obtain ⟨_, _, _, l1, l2⟩ := pm.frame
          rw [hia] at l2
          rw [allocates_of_not_isAlloc a hia]
          simp only [Bool.false_eq_true, if_false, Nat.add_zero] at l2 ⊢
          omega
      | true =>
        have fm := step_fwdMet a op hf
        refine ⟨fm.sameCycle, ?_⟩
        have hia : op.isAlloc = false := by
          cases op <;> simp [Op.isForwardLike] at hf <;> rfl
        rw [allocates_of_not_isAlloc a hia, fm.frame.2.2.2]
        simp
  · cases op with
    | collect m k f o =>
      have := sb_collect_cyc h.unmark rfl a.marked m k f o
      unfold Arena.step; rw [hnot]
      simpa [Arena.allocates] using this
    | dropArena =>
      have ha : a.allocates .dropArena = false := rfl
      rw [ha]
      unfold Arena.step at hal ⊢
      rw [hnot] at hal ⊢
      simp only [Bool.false_eq_true, if_false, Arena.stepBody] at hal ⊢
      by_cases hcb : a.cb.isSome = true
      · rw [if_pos hcb]; exact CycRel.refl a.ctx
      · rw [if_neg hcb] at hal; simp at hal
    | _ => simp [Op.isMutator] at hmut

/-- The number of `alloc` operations of `ops` that are accepted when `ops` is run from `a`. -/
def allocsIn (a : Arena) : List Op → Nat
  | [] => 0
  | op :: ops => (if a.allocates op then 1 else 0) + allocsIn (a.step op).1 ops

/-- Over a whole operation sequence. -/
theorem run_cycRel (ops : List Op) : ∀ (a : Arena), Inv a → (∀ op, op ∈ ops → op.keepsCycle = true) →
    (a.run ops).alive = true → CycRel (allocsIn a ops) a.ctx (a.run ops).ctx := by
  induction ops with
  | nil => intro a _ _ _; exact CycRel.refl _
  | cons op ops ih =>
    intro a h hall hal
    simp only [Arena.run] at hal ⊢
    have hal1 : (a.step op).1.alive = true := by
      cases hx : (a.step op).1.alive with
      | true => rfl
      | false => rw [run_dead hx] at hal; rw [hx] at hal; cases hal
    exact (step_cycRel h op (hall op (by simp)) hal1).trans
      (ih _ (inv_step h op hal1) (fun o ho => hall o (List.mem_cons_of_mem _ ho)) hal)

theorem run_append (l1 l2 : List Op) : ∀ a : Arena, a.run (l1 ++ l2) = (a.run l1).run l2 := by
  induction l1 with
  | nil => intro a; rfl
  | cons op l1 ih => intro a; simp only [List.cons_append, Arena.run]; exact ih _

theorem acc_run_from (ops : List Op) : ∀ (a : Arena), Inv a → Acc a.ctx → (a.run ops).alive = true →
    Acc (a.run ops).ctx := by
  induction ops with
  | nil => intro a _ ha _; exact ha
  | cons op ops ih =>
    intro a h ha hal
    simp only [Arena.run] at hal ⊢
    have hal1 : (a.step op).1.alive = true := by
      cases hx : (a.step op).1.alive with
      | true => rfl
      | false => rw [run_dead hx] at hal; rw [hx] at hal; cases hal
    exact ih _ (inv_step h op hal1) (acc_step h ha op) hal

/-! ### The ρ-bound along a history -/

/-- One cycle over a history, the facts behind the ρ-bound and the heap bound: from a sleeping
    state `a0` with positive debt, over operations `more` that keep the cycle (`Op.keepsCycle`) and
    append no `'Z'`, followed by a `cycle_debt` call that returns with the cycle unfinished:
    `allocated` grew by exactly the number of accepted `alloc` operations; the allocations the
    cycle has had to deal with are those held in `a0` plus those; the arena held something in
    `a0`; and the ρ-bound holds when the arena is not empty at the end. -/
theorem cycle_from_sleep {a0 : Arena} (h0 : Inv a0) (hacc0 : Acc a0.ctx)
    (hs : a0.ctx.phase = .sleep) (hd : 0 < a0.ctx.metrics.allocationDebt)
    (more : List Op) (hk : ∀ op, op ∈ more → op.keepsCycle = true)
    (hal : (a0.run more).alive = true) (hcb : (a0.run more).cb = none)
    (new : List Char) (hsteps : (a0.run more).ctx.steps = new ++ a0.ctx.steps) (hz : 'Z' ∉ new)
    {ρ : Rat} (hp : RhoPacing a0.ctx.metrics.pacing ρ) {fault : TraceFault} {c' : Ctx}
    (hr : (a0.run more).ctx.doCollection (a0.run more).root .payDebt .finishCycle fault = (c', .returned))
    (hns : c'.phase ≠ .sleep) :
    (a0.run more).ctx.metrics.allocated = a0.ctx.metrics.allocated + allocsIn a0 more ∧
    c'.metrics.totalGcs + c'.metrics.freed = a0.ctx.metrics.totalGcs + allocsIn a0 more ∧
    a0.ctx.metrics.totalGcs ≠ 0 ∧
    (c'.metrics.totalGcs ≠ 0 →
      ((allocsIn a0 more : Nat) : Rat) * (1 - ρ) < ρ * (a0.ctx.metrics.totalGcs : Rat)) := by

  obtain ⟨new', e', f'⟩ := run_cycRel more a0 h0 hk hal
  have hnew : new' = new := List.append_cancel_right (e'.symm.trans hsteps)
  obtain ⟨sc, hallo⟩ := f' (hnew ▸ hz)
  have hi2 := inv_run_from more h0 hal
  have hc2 : CInv (a0.run more).ctx (a0.run more).root [] := by
    have := hi2.cinv; rw [hi2.cbTemps hcb] at this; exact this
  have hacc2 := acc_run_from more a0 h0 hacc0 hal
  have hfr0 : a0.ctx.metrics.freed = 0 := (hacc0.1 hs).2.2.2.2
  have hhd : a0.ctx.metrics.hasDebt = true := by simpa [Metrics.hasDebt] using hd
  have hdeb := hasDebt_debits hhd
  have hH : a0.ctx.metrics.totalGcs + allocsIn a0 more
      = (a0.run more).ctx.metrics.totalGcs + (a0.run more).ctx.metrics.freed := by
    have := sc.ghost; omega
  obtain ⟨fr, _⟩ := doCollection_cycle_frame hc2 hr hns
  refine ⟨hallo, by rw [fr.sum]; exact hH.symm, ?_, fun hne => ?_⟩
  · intro h0'
    have : a0.ctx.metrics.hasDebt = false := by
      simp [Metrics.hasDebt, Metrics.allocationDebt, h0']
    rw [this] at hhd; cases hhd
  refine rho_bound_ctx (Aw := a0.ctx.metrics.allocated) hc2 hacc2 (by rw [sc.pacing]; exact hp)
    hallo.symm hH ?_ hr hns hne
  · rw [sc.wakeup]
    unfold Metrics.cycleDebits at hdeb
    have := sc.art
    grind

/-- **ρ-bound over a history.**  `a0`: a sleeping state with positive debt (the next debt-driven
    call wakes the collector).  `more`: any further operations — mutator operations, collection
    calls of every kind (self-driven or replayed, `finalize` / `start_sweeping` included) — that
    change no pacing, make no negative `adjust_debt`, and during which no cycle completes (no `'Z'`
    is appended to the step log).  If a `cycle_debt` call then returns with the cycle unfinished
    and the arena non-empty, the number of allocations made by `more` is bounded by the number of
    allocations held in `a0`: `A' (1 - ρ) < ρ H`. -/
theorem rho_bound_from_sleep {a0 : Arena} (h0 : Inv a0) (hacc0 : Acc a0.ctx)
    (hs : a0.ctx.phase = .sleep) (hd : 0 < a0.ctx.metrics.allocationDebt)
    (more : List Op) (hk : ∀ op, op ∈ more → op.keepsCycle = true)
    (hal : (a0.run more).alive = true) (hcb : (a0.run more).cb = none)
    (new : List Char) (hsteps : (a0.run more).ctx.steps = new ++ a0.ctx.steps) (hz : 'Z' ∉ new)
    {ρ : Rat} (hp : RhoPacing a0.ctx.metrics.pacing ρ) {fault : TraceFault} {c' : Ctx}
    (hr : (a0.run more).ctx.doCollection (a0.run more).root .payDebt .finishCycle fault = (c', .returned))
    (hns : c'.phase ≠ .sleep) (hne : c'.metrics.totalGcs ≠ 0) :
    (a0.run more).ctx.metrics.allocated = a0.ctx.metrics.allocated + allocsIn a0 more ∧
    ((allocsIn a0 more : Nat) : Rat) * (1 - ρ) < ρ * (a0.ctx.metrics.totalGcs : Rat) :=
  have hc := cycle_from_sleep h0 hacc0 hs hd more hk hal hcb new hsteps hz hp hr hns
  ⟨hc.1, hc.2.2.2 hne⟩
/-- A collection call made asleep with positive debt wakes the collector — a debt-driven one
    because of the debt, `finish_marking` / `finish_cycle` anyway: the steps it appends start with
    `'W'`. -/
theorem doCollection_wakes {c : Ctx} {root : List Slot} {ru : RunUntil} {stop : Stop} {fault : TraceFault}
    (h : CInv c root []) (hs : c.phase = .sleep) (hd : 0 < c.metrics.allocationDebt) :
    ∃ new, (c.doCollection root ru stop fault).1.steps = new ++ 'W' :: c.steps := by
  have hhd : c.metrics.hasDebt = true := by simpa [Metrics.hasDebt] using hd
  unfold Ctx.doCollection
  simp only [hhd, Bool.not_true, Bool.and_false, Bool.false_eq_true, if_false]
  show ∃ new, (Ctx.collectLoop root ru stop fault (2 * c.fuelBound root + 7 + 1) c false 0).1.steps = _
  unfold Ctx.collectLoop
  simp only [hs]
  split
  · exact ⟨[], rfl⟩
  · obtain ⟨new, e, _⟩ := (collectLoop_reaches (ru := ru) (stop := stop) (fault := fault)
      (2 * c.fuelBound root + 7) (c.switch .mark) true 0 (wake_spec h hs)).cframe (wake_spec h hs)
    exact ⟨new, e⟩

/-! ### A predicate kept by every micro-step is kept by every collection operation -/

section Pres
variable (P : Ctx → Prop)
variable (hP : ∀ (c c' : Ctx) (root : List Slot) (m : Micro), CInv c root [] → P c →
  c.micro root m = some c' → P c')
include hP

theorem micros_pres {root} (ms : List Micro) : ∀ {c c' : Ctx}, CInv c root [] → P c →
    c.micros root ms = some c' → P c' := by
  induction ms with
  | nil => intro c c' _ hp hs; cases hs; exact hp
  | cons m ms ih =>
    intro c c' h hp hs
    simp only [Ctx.micros] at hs
    cases hm : c.micro root m with
    | none => rw [hm] at hs; cases hs
    | some c1 =>
      rw [hm] at hs
      exact ih (micro_inv h m hm) (hP c c1 root m h hp hm) hs

theorem runCollector_pres {a : Arena} (h : Inv a) (hp : P a.ctx) (hcb : a.cb = none)
    {ru stop fault oracle c ex} (hr : a.runCollector ru stop fault oracle = some (c, ex)) : P c := by
  have h0 : CInv a.ctx a.root [] := by have := h.cinv; rw [h.cbTemps hcb] at this; exact this
  obtain ⟨ms, hms⟩ := runCollector_reaches_c h hcb hr
  exact micros_pres P hP ms h0 hp hms

theorem marked?_pres {a : Arena} (h : Inv a) (hp : P a.ctx) (hcb : a.cb = none)
    (k : Cont) (o2 : Option (List Micro)) : P (a.marked? k o2).1.ctx := by
  unfold Arena.marked?
  split
  · cases k with
    | drop => exact hp
    | finalize => exact hp
    | sweep =>
      simp only
      cases hss : a.startSweeping o2 with
      | none => exact hp
      | some c' =>
        simp only
        unfold Arena.startSweeping at hss
        cases hr2 : a.runCollector .stop .atSweep none o2 with
        | none => rw [hr2] at hss; cases hss
        | some res2 =>
          obtain ⟨c2, ex2⟩ := res2
          rw [hr2] at hss
          simp only at hss
          split at hss
          · cases hss; exact runCollector_pres P hP h hp hcb hr2
          · cases hss
  · exact hp

theorem sb_collect_pres {a : Arena} (h : Inv a) (hp : P a.ctx) (hm : a.marked = false) (fin : Bool)
    (m : Method) (k : Cont) (fault : TraceFault) (oracle : Option (List Micro)) :
    P (a.stepBody fin (.collect m k fault oracle)).1.ctx := by
  simp only [Arena.stepBody]
  split
  · exact hp
  · rename_i hcb0
    have hcb : a.cb = none := by cases hc : a.cb <;> simp_all
    generalize Arena.splitOracle oracle k m = os
    cases hr : a.runCollector (Arena.methodArgs m).1 (Arena.methodArgs m).2 fault os.1 with
    | none => exact hp
    | some res =>
      obtain ⟨c, ex⟩ := res
      simp only
      have hc := runCollector_inv h hcb hr
      have hpc := runCollector_pres P hP h hp hcb hr
      have hi := h.afterCollect hm hcb hc
      split
      · exact hpc
      · split
        · exact hpc
        · cases m with
          | markDebt => exact marked?_pres P hP hi hpc hcb k os.2
          | finishMarking => exact marked?_pres P hP hi hpc hcb k os.2
          | collectDebt => exact hpc
          | cycleDebt => exact hpc
          | finishCycle => exact hpc

end Pres

/-! ### The wake-up amount is never negative; asleep, `allocated ≤ total_gcs` -/

/-- (Nothing is demanded of a dropped arena.) -/
def WInv (c : Ctx) : Prop :=
  c.phase ≠ .drop → 0 ≤ c.metrics.wakeup ∧ (c.phase = .sleep → c.metrics.allocated ≤ c.metrics.totalGcs)

theorem winv_new : WInv Ctx.new := fun _ => ⟨Rat.le_refl, fun _ => Nat.le_refl _⟩

theorem micro_winv (c c' : Ctx) (root : List Slot) (m : Micro) (h : CInv c root []) (hw : WInv c)
    (hs : c.micro root m = some c') : WInv c' := by
  intro _
  obtain ⟨w0, _⟩ := hw h.notDrop
  rcases micro_kind h m hs with ⟨b, _, hb⟩ | ⟨ch, _, _, f, hns⟩
  · rw [hb]
    have hm : (0 : Rat) ≤ (c.metrics.pacing.minSleep : Rat) := Rat.natCast_nonneg
    refine ⟨?_, fun _ => Nat.zero_le _⟩
    show 0 ≤ max ((c.metrics.remembered : Rat) * c.metrics.pacing.sleepFactor) (c.metrics.pacing.minSleep : Rat)
    grind
  · exact ⟨by rw [f.mf.wakeup]; exact w0, fun hsl => absurd hsl hns⟩

theorem winv_step {a : Arena} (h : Inv a) (hw : WInv a.ctx) (op : Op) : WInv (a.step op).1.ctx := by
  have hnot : (!a.alive) = false := by rw [h.alive]; rfl
  obtain ⟨w0, ws⟩ := hw h.cinv.notDrop
  by_cases hmut : op.isMutator = true
  · have hq := step_quiet h op hmut
    intro _
    -- knobs
    by_cases hkn : op.isKnob = true
    · cases op with
      | setPacing p =>
        have hm : (a.step (.setPacing p)).1.ctx.metrics = a.ctx.metrics.setPacing p := by
          unfold Arena.step; rw [hnot]; rfl
        rw [hm, hq.phase]; exact ⟨w0, ws⟩
      | adjustDebt x =>
        have hm : (a.step (.adjustDebt x)).1.ctx.metrics = a.ctx.metrics.adjustDebt x := by
          unfold Arena.step; rw [hnot]; rfl
        rw [hm, hq.phase]; exact ⟨w0, ws⟩
      | _ => simp [Op.isKnob] at hkn
    · have hkn' : op.isKnob = false := by simpa using hkn
      rw [hq.phase]
      cases hf : op.isForwardLike with
      | false =>
        rcases step_plainMet a op hmut hkn' hf with e | ⟨_, e⟩ | e <;> rw [e]
        · exact ⟨w0, ws⟩
        · refine ⟨w0, fun hs => ?_⟩
          have := ws hs
          show a.ctx.metrics.allocated + 1 ≤ a.ctx.metrics.totalGcs + 1
          omega
        · exact ⟨w0, ws⟩
      | true =>
        rcases step_fwdMet a op hf with e | e <;> rw [e] <;> exact ⟨w0, ws⟩
  · cases op with
    | collect m k f o =>
      unfold Arena.step; rw [hnot]
      simp only [Bool.false_eq_true, if_false]
      exact sb_collect_pres WInv micro_winv h.unmark hw rfl a.marked m k f o
    | dropArena =>
      unfold Arena.step; rw [hnot]
      simp only [Bool.false_eq_true, if_false, Arena.stepBody]
      split
      · exact hw
      · intro hnd; exact absurd (dropAll_phase a.ctx) hnd
    | _ => simp [Op.isMutator] at hmut

/-- In every state of every history. -/
theorem winv_run (n : Nat) (ops : List Op) : WInv ((Arena.new n).run ops).ctx := by
  suffices ∀ (a : Arena), (a.alive = true → Inv a) → WInv a.ctx → WInv (a.run ops).ctx from
    this _ (fun _ => inv_init n) winv_new
  induction ops with
  | nil => intro a _ hw; exact hw
  | cons op ops ih =>
    intro a hi hw
    simp only [Arena.run]
    cases hal : a.alive with
    | false => rw [step_dead hal]; exact ih a (fun h => by rw [hal] at h; cases h) hw
    | true =>
      have h := hi hal
      exact ih _ (fun h' => inv_step h op h') (winv_step h hw op)

/-- Asleep with more allocations counted than the wake-up amount, the arena is not empty. -/
theorem WInv.nonempty {c : Ctx} (hw : WInv c) (hs : c.phase = .sleep)
    (hlt : c.metrics.wakeup < (c.metrics.allocated : Rat)) : c.metrics.totalGcs ≠ 0 := by
  obtain ⟨w0, ws⟩ := hw (by rw [hs]; simp)
  have h1 := ws hs
  intro h0
  have : c.metrics.allocated = 0 := by omega
  rw [this] at hlt
  have : ((0 : Nat) : Rat) = 0 := rfl
  grind

/-- A self-driven collection operation (any method) executed outside callbacks in a sleeping state
    with positive debt wakes the collector: the oldest step it appends is `'W'`. -/
theorem collect_wakes {a : Arena} (h : Inv a) (hcb : a.cb = none) (hs : a.ctx.phase = .sleep)
    (hd : 0 < a.ctx.metrics.allocationDebt) (m : Method) (k : Cont) (fault : TraceFault) :
    ∃ new, (a.step (.collect m k fault none)).1.ctx.steps = new ++ 'W' :: a.ctx.steps := by
  have key : ∀ (b : Arena) (fin : Bool), Inv b → b.marked = false → b.cb = none →
      b.ctx.phase = .sleep → 0 < b.ctx.metrics.allocationDebt →
      ∃ new, (b.stepBody fin (.collect m k fault none)).1.ctx.steps = new ++ 'W' :: b.ctx.steps := by
    intro b fin hb hbm hbcb hbs hbd
    have h0 : CInv b.ctx b.root [] := by have := hb.cinv; rw [hb.cbTemps hbcb] at this; exact this
    obtain ⟨new1, e1⟩ := doCollection_wakes (root := b.root) (ru := (Arena.methodArgs m).1)
      (stop := (Arena.methodArgs m).2) (fault := fault) h0 hbs hbd
    simp only [Arena.stepBody]
    split
    · rename_i hsome; rw [hbcb] at hsome; simp at hsome
    · have hso : Arena.splitOracle none k m = (none, none) := rfl
      rw [hso]
      cases hr : b.runCollector (Arena.methodArgs m).1 (Arena.methodArgs m).2 fault none with
      | none => simp [Arena.runCollector] at hr
      | some res =>
        obtain ⟨c, ex⟩ := res
        have hc := runCollector_inv hb hbcb hr
        have hi := hb.afterCollect hbm hbcb hc
        have e1' : c.steps = new1 ++ 'W' :: b.ctx.steps := by
          simp only [Arena.runCollector, Option.some.injEq] at hr
          rw [hr] at e1; exact e1
        simp only
        have mk : ∀ o2, ∃ new, (({ b with ctx := c, cover := [] } : Arena).marked? k o2).1.ctx.steps
            = new ++ 'W' :: b.ctx.steps := by
          intro o2
          obtain ⟨new2, e2, _⟩ := marked?_cyc hi hbcb k o2
          exact ⟨new2 ++ new1, by rw [e2]; show new2 ++ c.steps = _; rw [e1', List.append_assoc]⟩
        split
        · exact ⟨new1, e1'⟩
        · split
          · exact ⟨new1, e1'⟩
          · cases m with
            | markDebt => exact mk none
            | finishMarking => exact mk none
            | collectDebt => exact ⟨new1, e1'⟩
            | cycleDebt => exact ⟨new1, e1'⟩
            | finishCycle => exact ⟨new1, e1'⟩
  have hnot : (!a.alive) = false := by rw [h.alive]; rfl
  unfold Arena.step
  rw [hnot]
  simp only [Bool.false_eq_true, if_false]
  exact key _ a.marked h.unmark rfl hcb hs hd

end GcArena
