import GcArena.Model.Brand
/-!
# General lemmas about the brand model (proved once, for all tables)

Used by `GcArena.Props.C12`.  Nothing here depends on the generated table.
-/
namespace GcArena.Brand

/-! ## Variance lattice -/

theorem Variance.glb_inv_left (v : Variance) : Variance.glb .inv v = .inv := by
  cases v <;> rfl

theorem Variance.glb_inv_right (v : Variance) : Variance.glb v .inv = .inv := by
  cases v <;> rfl

theorem Variance.glb_bi_left (v : Variance) : Variance.glb .bi v = v := by
  cases v <;> rfl

theorem Variance.glb_bi_right (v : Variance) : Variance.glb v .bi = v := by
  cases v <;> rfl

theorem Variance.glb_comm (v w : Variance) : Variance.glb v w = Variance.glb w v := by
  cases v <;> cases w <;> rfl

theorem Variance.glb_idem (v : Variance) : Variance.glb v v = v := by
  cases v <;> rfl

theorem Variance.xform_inv (v : Variance) (h : v ≠ .bi) : Variance.xform v .inv = .inv := by
  cases v <;> first | rfl | exact absurd rfl h

/-- A field list with one field invariant in the target is invariant, whatever else it holds. -/
theorem fieldsVar_inv_of_mem (look : VarOracle) (tgt : Target) :
    ∀ (fs : List Field) (f : Field), f ∈ fs → f.cfg = "" → varTy look tgt .co f.ty = .inv →
      fieldsVar look tgt fs = .inv
  | [], _, h, _, _ => by cases h
  | g :: gs, f, h, hc, hv => by
    simp only [fieldsVar]
    cases h with
    | head => simp [hc, hv, Variance.glb_inv_left]
    | tail _ h' =>
      rw [fieldsVar_inv_of_mem look tgt gs f h' hc hv]
      split
      · exact Variance.glb_inv_right _
      · rfl

/-- `variance_inv_of_field`: a struct with a field invariant in `'a` is invariant in `'a`. -/
theorem variance_inv_of_field (tbl : Table) (n : String) (d : AdtDef) (f : Field) (tgt : Target)
    (hd : tbl.find n = some d) (hf : f ∈ d.fields) (hc : f.cfg = "")
    (hv : varTy (adtVarOracle tbl fuel) tgt .co f.ty = .inv) :
    tbl.variance n tgt = .inv := by
  unfold Table.variance
  rw [hd]
  exact fieldsVar_inv_of_mem _ _ _ f hf hc hv

/-- `invariant_marker`: `PhantomData<Cell<&'a ()>>` is invariant in `'a` (for every oracle, so for
every table and fuel). -/
theorem invariant_marker (look : VarOracle) (a : String) :
    varTy look (.lt a) .co (.std .phantomData [.std .cell [.ref (.named a) (.tuple [])]]) = .inv := by
  simp [varTy, varTys, varLt, StdCtor.variance, Variance.xform, Variance.glb]

/-- The covariant look-alike `PhantomData<&'a ()>` is *not* invariant (non-vacuity of the check). -/
theorem covariant_marker (look : VarOracle) (a : String) :
    varTy look (.lt a) .co (.std .phantomData [.ref (.named a) (.tuple [])]) = .co := by
  simp [varTy, varTys, varLt, StdCtor.variance, Variance.xform, Variance.glb]

/-! ## Auto traits -/

theorem fieldsAuto_send_false (look : AutoOracle) (env : List (String × Auto)) :
    ∀ (fs : List Field) (f : Field), f ∈ fs → f.cfg = "" → (autoTy look env f.ty).send = false →
      (fieldsAuto look env fs).send = false
  | [], _, h, _, _ => by cases h
  | g :: gs, f, h, hc, hv => by
    simp only [fieldsAuto]
    cases h with
    | head => simp [hc, hv, Auto.and]
    | tail _ h' =>
      have ih := fieldsAuto_send_false look env gs f h' hc hv
      split
      · simp [Auto.and, ih]
      · exact ih

theorem fieldsAuto_sync_false (look : AutoOracle) (env : List (String × Auto)) :
    ∀ (fs : List Field) (f : Field), f ∈ fs → f.cfg = "" → (autoTy look env f.ty).sync = false →
      (fieldsAuto look env fs).sync = false
  | [], _, h, _, _ => by cases h
  | g :: gs, f, h, hc, hv => by
    simp only [fieldsAuto]
    cases h with
    | head => simp [hc, hv, Auto.and]
    | tail _ h' =>
      have ih := fieldsAuto_sync_false look env gs f h' hc hv
      split
      · simp [Auto.and, ih]
      · exact ih

/-- `not_send_of_field`: a struct with a non-`Send` field and no explicit `unsafe impl Send` is not
`Send`, for any instantiation of its parameters. -/
theorem not_send_of_field (tbl : Table) (n : String) (d : AdtDef) (f : Field)
    (hd : tbl.find n = some d) (hf : f ∈ d.fields) (hc : f.cfg = "")
    (hv : (autoTy (adtAutoOracle tbl fuel) [] f.ty).send = false)
    (hi : tbl.hasAutoImpl "Send" n false = false) :
    (tbl.autoOf n).send = false := by
  unfold Table.autoOf
  rw [hd]
  simp only [applyImpls, hi]
  rw [fieldsAuto_send_false _ _ _ f hf hc hv]
  simp

/-- `not_sync_of_field`. -/
theorem not_sync_of_field (tbl : Table) (n : String) (d : AdtDef) (f : Field)
    (hd : tbl.find n = some d) (hf : f ∈ d.fields) (hc : f.cfg = "")
    (hv : (autoTy (adtAutoOracle tbl fuel) [] f.ty).sync = false)
    (hi : tbl.hasAutoImpl "Sync" n false = false) :
    (tbl.autoOf n).sync = false := by
  unfold Table.autoOf
  rw [hd]
  simp only [applyImpls, hi]
  rw [fieldsAuto_sync_false _ _ _ f hf hc hv]
  simp

/-! ## Binder closure -/

theorem ltsMention_mem (a : String) : ∀ ls : List Lt, ltsMention a ls = true → a ∈ ltsNames ls
  | [], h => by simp [ltsMention] at h
  | l :: ls, h => by
    cases l with
    | static => simp [ltsMention, Lt.isNamed] at h; simpa [ltsNames] using ltsMention_mem a ls h
    | erased => simp [ltsMention, Lt.isNamed] at h; simpa [ltsNames] using ltsMention_mem a ls h
    | named b =>
      simp [ltsMention, Lt.isNamed] at h
      simp only [ltsNames, List.mem_cons]
      cases h with
      | inl h => exact Or.inl h
      | inr h => exact Or.inr (ltsMention_mem a ls h)

theorem isNamed_mem (a : String) (l : Lt) (h : l.isNamed a = true) : a ∈ ltsNames [l] := by
  cases l with
  | static => simp [Lt.isNamed] at h
  | erased => simp [Lt.isNamed] at h
  | named b => simp [Lt.isNamed] at h; simp [ltsNames, h]

mutual
/-- A lifetime that occurs free in a type is among its free lifetimes. -/
theorem mentions_mem_free (a : String) : ∀ t : Ty, t.mentionsLt a = true → a ∈ t.freeLts
  | .prim _, h => by simp [Ty.mentionsLt] at h
  | .param _, h => by simp [Ty.mentionsLt] at h
  | .ref l t, h => by
    simp only [Ty.mentionsLt, Bool.or_eq_true] at h
    simp only [Ty.freeLts, List.mem_append]
    cases h with
    | inl h => exact Or.inl (isNamed_mem a l h)
    | inr h => exact Or.inr (mentions_mem_free a t h)
  | .refMut l t, h => by
    simp only [Ty.mentionsLt, Bool.or_eq_true] at h
    simp only [Ty.freeLts, List.mem_append]
    cases h with
    | inl h => exact Or.inl (isNamed_mem a l h)
    | inr h => exact Or.inr (mentions_mem_free a t h)
  | .rawConst t, h => by
    simp only [Ty.mentionsLt] at h
    simpa [Ty.freeLts] using mentions_mem_free a t h
  | .rawMut t, h => by
    simp only [Ty.mentionsLt] at h
    simpa [Ty.freeLts] using mentions_mem_free a t h
  | .std _ ts, h => by
    simp only [Ty.mentionsLt] at h
    simpa [Ty.freeLts] using mentionsL_mem_free a ts h
  | .tuple ts, h => by
    simp only [Ty.mentionsLt] at h
    simpa [Ty.freeLts] using mentionsL_mem_free a ts h
  | .slice t, h => by
    simp only [Ty.mentionsLt] at h
    simpa [Ty.freeLts] using mentions_mem_free a t h
  | .proj s _ ls ts _, h => by
    simp only [Ty.mentionsLt, Bool.or_eq_true] at h
    simp only [Ty.freeLts, List.mem_append]
    rcases h with (h | h) | h
    · exact Or.inl (mentions_mem_free a s h)
    · exact Or.inr (Or.inl (ltsMention_mem a ls h))
    · exact Or.inr (Or.inr (mentionsL_mem_free a ts h))
  | .fnPtr bound args ret, h => by
    simp only [Ty.mentionsLt] at h
    cases hb : bound.contains a with
    | true => rw [hb] at h; simp at h
    | false =>
      rw [hb] at h
      simp only [Bool.false_eq_true, ↓reduceIte, Bool.or_eq_true] at h
      simp only [Ty.freeLts, List.mem_filter, List.mem_append]
      refine ⟨?_, by simpa using hb⟩
      cases h with
      | inl h => exact Or.inl (mentionsL_mem_free a args h)
      | inr h => exact Or.inr (mentions_mem_free a ret h)
  | .adt _ ls ts, h => by
    simp only [Ty.mentionsLt, Bool.or_eq_true] at h
    simp only [Ty.freeLts, List.mem_append]
    cases h with
    | inl h => exact Or.inl (ltsMention_mem a ls h)
    | inr h => exact Or.inr (mentionsL_mem_free a ts h)
  | .unclassified _, h => by simp [Ty.mentionsLt] at h
theorem mentionsL_mem_free (a : String) : ∀ ts : List Ty, mentionsLtL a ts = true → a ∈ freeLtsL ts
  | [], h => by simp [mentionsLtL] at h
  | t :: ts, h => by
    simp only [mentionsLtL, Bool.or_eq_true] at h
    simp only [freeLtsL, List.mem_append]
    cases h with
    | inl h => exact Or.inl (mentions_mem_free a t h)
    | inr h => exact Or.inr (mentionsL_mem_free a ts h)
end

/-- A type all of whose free lifetimes are declared in `outer` does not mention a lifetime that is
not in `outer` (in particular the one bound by a `for<'gc>` binder, which cannot shadow). -/
theorem not_mentions_of_free_subset (t : Ty) (outer : List String) (g : String)
    (hsub : ∀ a ∈ t.freeLts, a ∈ outer) (hg : g ∉ outer) : t.mentionsLt g = false := by
  cases h : t.mentionsLt g with
  | false => rfl
  | true => exact absurd (hsub g (mentions_mem_free g t h)) hg

mutual
/-- Instantiating type parameters by types that do not mention `g` cannot make a type mention
`g`. -/
theorem subst_not_mentions (g : String) (σ : String → Ty) :
    ∀ t : Ty, (∀ p ∈ t.tyParams, (σ p).mentionsLt g = false) → t.mentionsLt g = false →
      (t.subst σ).mentionsLt g = false
  | .prim _, _, _ => by simp [Ty.subst, Ty.mentionsLt]
  | .param n, hσ, _ => by
    simp only [Ty.subst]
    exact hσ n (by simp [Ty.tyParams])
  | .ref l t, hσ, h => by
    simp only [Ty.mentionsLt, Bool.or_eq_false_iff] at h
    simp only [Ty.subst, Ty.mentionsLt, Bool.or_eq_false_iff]
    exact ⟨h.1, subst_not_mentions g σ t (fun p hp => hσ p (by simpa [Ty.tyParams] using hp)) h.2⟩
  | .refMut l t, hσ, h => by
    simp only [Ty.mentionsLt, Bool.or_eq_false_iff] at h
    simp only [Ty.subst, Ty.mentionsLt, Bool.or_eq_false_iff]
    exact ⟨h.1, subst_not_mentions g σ t (fun p hp => hσ p (by simpa [Ty.tyParams] using hp)) h.2⟩
  | .rawConst t, hσ, h => by
    simp only [Ty.mentionsLt] at h
    simp only [Ty.subst, Ty.mentionsLt]
    exact subst_not_mentions g σ t (fun p hp => hσ p (by simpa [Ty.tyParams] using hp)) h
  | .rawMut t, hσ, h => by
    simp only [Ty.mentionsLt] at h
    simp only [Ty.subst, Ty.mentionsLt]
    exact subst_not_mentions g σ t (fun p hp => hσ p (by simpa [Ty.tyParams] using hp)) h
  | .std _ ts, hσ, h => by
    simp only [Ty.mentionsLt] at h
    simp only [Ty.subst, Ty.mentionsLt]
    exact substL_not_mentions g σ ts (fun p hp => hσ p (by simpa [Ty.tyParams] using hp)) h
  | .tuple ts, hσ, h => by
    simp only [Ty.mentionsLt] at h
    simp only [Ty.subst, Ty.mentionsLt]
    exact substL_not_mentions g σ ts (fun p hp => hσ p (by simpa [Ty.tyParams] using hp)) h
  | .slice t, hσ, h => by
    simp only [Ty.mentionsLt] at h
    simp only [Ty.subst, Ty.mentionsLt]
    exact subst_not_mentions g σ t (fun p hp => hσ p (by simpa [Ty.tyParams] using hp)) h
  | .proj s _ ls ts _, hσ, h => by
    simp only [Ty.mentionsLt, Bool.or_eq_false_iff] at h
    simp only [Ty.subst, Ty.mentionsLt, Bool.or_eq_false_iff]
    refine ⟨⟨?_, h.1.2⟩, ?_⟩
    · exact subst_not_mentions g σ s (fun p hp => hσ p (by simp [Ty.tyParams, hp])) h.1.1
    · exact substL_not_mentions g σ ts (fun p hp => hσ p (by simp [Ty.tyParams, hp])) h.2
  | .fnPtr bound args ret, hσ, h => by
    simp only [Ty.subst, Ty.mentionsLt]
    simp only [Ty.mentionsLt] at h
    cases hb : bound.contains g with
    | true => simp
    | false =>
      rw [hb] at h
      simp only [Bool.false_eq_true, ↓reduceIte, Bool.or_eq_false_iff] at h ⊢
      refine ⟨?_, ?_⟩
      · exact substL_not_mentions g σ args (fun p hp => hσ p (by simp [Ty.tyParams, hp])) h.1
      · exact subst_not_mentions g σ ret (fun p hp => hσ p (by simp [Ty.tyParams, hp])) h.2
  | .adt _ ls ts, hσ, h => by
    simp only [Ty.mentionsLt, Bool.or_eq_false_iff] at h
    simp only [Ty.subst, Ty.mentionsLt, Bool.or_eq_false_iff]
    exact ⟨h.1, substL_not_mentions g σ ts (fun p hp => hσ p (by simpa [Ty.tyParams] using hp)) h.2⟩
  | .unclassified _, _, _ => by simp [Ty.subst, Ty.mentionsLt]
theorem substL_not_mentions (g : String) (σ : String → Ty) :
    ∀ ts : List Ty, (∀ p ∈ tyParamsL ts, (σ p).mentionsLt g = false) → mentionsLtL g ts = false →
      mentionsLtL g (substL σ ts) = false
  | [], _, _ => by simp [substL, mentionsLtL]
  | t :: ts, hσ, h => by
    simp only [mentionsLtL, Bool.or_eq_false_iff] at h
    simp only [substL, mentionsLtL, Bool.or_eq_false_iff]
    refine ⟨?_, ?_⟩
    · exact subst_not_mentions g σ t (fun p hp => hσ p (by simp [tyParamsL, hp])) h.1
    · exact substL_not_mentions g σ ts (fun p hp => hσ p (by simp [tyParamsL, hp])) h.2
end

/-- `binder_closed`: a type whose lifetime and type parameters are all bound *outside* a
`for<'g>` binder (`closedUnder outerLts outerTys`, and `'g` is not one of the outer lifetimes)
cannot mention `'g`, under any instantiation of the outer type parameters by types that were
themselves formed outside the binder. -/
theorem binder_closed (t : Ty) (outerLts outerTys : List String) (g : String) (σ : String → Ty)
    (hc : t.closedUnder outerLts outerTys = true) (hg : g ∉ outerLts)
    (hσ : ∀ p ∈ outerTys, (σ p).mentionsLt g = false) :
    (t.subst σ).mentionsLt g = false := by
  simp only [Ty.closedUnder, Bool.and_eq_true, List.all_eq_true, List.contains_eq_mem,
    decide_eq_true_eq] at hc
  obtain ⟨⟨⟨hl, hp⟩, _⟩, _⟩ := hc
  apply subst_not_mentions g σ t
  · intro p hpm
    exact hσ p (hp p hpm)
  · exact not_mentions_of_free_subset t outerLts g hl hg

end GcArena.Brand
