import GcArena.Proofs.MarkOne
import GcArena.Proofs.Sweep
/-!
  Every micro-step of the driver loop preserves the invariant, and every run of
  `Context::do_collection` — whatever the debt arithmetic decides, whatever `RunUntil` / `Stop`
  it was given, wherever a `trace` call unwinds — is a sequence of enabled micro-steps.
-/
namespace GcArena

theorem micro_inv {c c' : Ctx} {root} (h : CInv c root []) (m : Micro)
    (hs : c.micro root m = some c') : CInv c' root [] := by
  cases m with
  | wake =>
    simp only [Ctx.micro] at hs
    split at hs
    · cases hs; rename_i hp; exact wake_spec h hp
    · cases hs
  | markStep f =>
    simp only [Ctx.micro] at hs
    split at hs
    · cases hs; rename_i hp
      simp only [Bool.and_eq_true, decide_eq_true_eq] at hp
      exact (markOne_spec h hp.1 f).1
    · cases hs
  | markBreak =>
    simp only [Ctx.micro] at hs
    split at hs
    · cases hs; rename_i hp
      simp only [Bool.and_eq_true, decide_eq_true_eq] at hp
      exact (markOne_spec h hp.1 none).1
    · cases hs
  | toSweep =>
    simp only [Ctx.micro] at hs
    split at hs
    · cases hs; rename_i hp
      simp only [Bool.and_eq_true, decide_eq_true_eq, Bool.not_eq_true'] at hp
      exact enterSweep_spec h hp.1 hp.2
    · cases hs
  | sweepStep =>
    simp only [Ctx.micro] at hs
    split at hs
    · cases hs; rename_i hp
      simp only [Bool.and_eq_true, decide_eq_true_eq] at hp
      exact (sweepOne_spec h hp.1).1
    · cases hs
  | sweepEnd =>
    simp only [Ctx.micro] at hs
    split at hs
    · cases hs; rename_i hp
      simp only [Bool.and_eq_true, decide_eq_true_eq] at hp
      exact (sweepOne_spec h hp.1).1
    · cases hs
  | toSleep b =>
    simp only [Ctx.micro] at hs
    split at hs
    · cases hs; rename_i hp
      simp only [Bool.and_eq_true, decide_eq_true_eq, List.isEmpty_iff] at hp
      exact enterSleep_spec h hp.1 hp.2 b
    · cases hs

theorem micros_inv {root} (ms : List Micro) : ∀ {c c' : Ctx}, CInv c root [] →
    c.micros root ms = some c' → CInv c' root [] := by
  induction ms with
  | nil => intro c c' h hs; simp only [Ctx.micros] at hs; cases hs; exact h
  | cons m ms ih =>
    intro c c' h hs
    simp only [Ctx.micros] at hs
    split at hs
    · rename_i c1 hc1; exact ih (micro_inv h m hc1) hs
    · cases hs

theorem micros_append {root} (ms1 ms2 : List Micro) : ∀ {c c1 : Ctx},
    c.micros root ms1 = some c1 → c.micros root (ms1 ++ ms2) = c1.micros root ms2 := by
  induction ms1 with
  | nil => intro c c1 h; cases h; rfl
  | cons m ms ih =>
    intro c c1 h
    simp only [Ctx.micros, List.cons_append] at h ⊢
    cases hc2 : c.micro root m with
    | none => rw [hc2] at h; cases h
    | some c2 =>
      rw [hc2] at h
      exact ih h

/-- A state reachable from `c` by enabled micro-steps. -/
def Reaches (c : Ctx) (root : List Slot) (c' : Ctx) : Prop := ∃ ms, c.micros root ms = some c'

theorem Reaches.refl (c : Ctx) (root) : Reaches c root c := ⟨[], rfl⟩

theorem Reaches.trans {a b c : Ctx} {root} (h1 : Reaches a root b) (h2 : Reaches b root c) :
    Reaches a root c := by
  obtain ⟨m1, h1⟩ := h1
  obtain ⟨m2, h2⟩ := h2
  exact ⟨m1 ++ m2, by rw [micros_append m1 m2 h1]; exact h2⟩

theorem Reaches.step {c c' : Ctx} {root} (m : Micro) (h : c.micro root m = some c') :
    Reaches c root c' := ⟨[m], by simp [Ctx.micros, h]⟩

theorem Reaches.inv {c c' : Ctx} {root} (r : Reaches c root c') (h : CInv c root []) :
    CInv c' root [] := by
  obtain ⟨ms, hs⟩ := r; exact micros_inv ms h hs

theorem markOne_break {c : Ctx} {root} (f : Option Nat) (hg : c.grayRemaining = false) :
    c.markOne root f = (c.step 'b', .break) := by
  simp only [Ctx.grayRemaining, Bool.or_eq_false_iff, Bool.not_eq_false', List.isEmpty_iff] at hg
  simp [Ctx.markOne, hg.1.1, hg.1.2, hg.2]

theorem markObj_flow (c : Ctx) (i : Nat) (f : Option Nat) : (c.markObj i f).2 ≠ .break := by
  unfold Ctx.markObj
  simp only
  split
  · simp
  · split <;> simp

theorem markOne_not_break {c : Ctx} {root} (f : Option Nat) (hg : c.grayRemaining = true) :
    (c.markOne root f).2 ≠ .break := by
  unfold Ctx.markOne
  split
  · exact markObj_flow _ _ _
  · split
    · exact markObj_flow _ _ _
    · rename_i hq1 _ hq2
      simp only [Ctx.grayRemaining, hq1, hq2, List.isEmpty_nil, Bool.not_true, Bool.false_or] at hg
      simp only [hg, if_true]
      split <;> simp

theorem sweepOne_end {c : Ctx} (hr : c.rest = []) : c.sweepOne = (c.step 'e', .break) := by
  simp [Ctx.sweepOne, hr]

theorem sweepOne_flow {c : Ctx} (hr : c.rest ≠ []) : c.sweepOne.2 = .continue := by
  unfold Ctx.sweepOne
  cases h : c.rest with
  | nil => exact absurd h hr
  | cons i r =>
    simp only
    split
    · rfl
    · split <;> rfl

/-- Every run of the driver loop is a sequence of enabled micro-steps. -/
theorem collectLoop_reaches {root ru stop fault} (fuel : Nat) :
    ∀ (c : Ctx) (hs : Bool) (k : Nat), CInv c root [] →
      Reaches c root (Ctx.collectLoop root ru stop fault fuel c hs k).1 := by
  induction fuel with
  | zero => intro c hs k _; exact Reaches.refl c root
  | succ fuel ih =>
    intro c hs k h
    unfold Ctx.collectLoop
    cases hp : c.phase with
    | drop => exact absurd hp h.notDrop
    | sleep =>
      simp only
      have r1 : Reaches c root (c.switch .mark) := Reaches.step .wake (by simp [Ctx.micro, hp])
      split
      · exact r1
      · exact r1.trans (ih _ _ _ (r1.inv h))
    | mark =>
      simp only
      cases hg : c.grayRemaining with
      | false =>
        rw [markOne_break _ hg]
        simp only
        have r1 : Reaches c root (c.step 'b') :=
          Reaches.step .markBreak (by simp [Ctx.micro, hp, hg, markOne_break none hg])
        split
        · exact r1
        · have hg' : (c.step 'b').grayRemaining = false := hg
          have r2 : Reaches (c.step 'b') root (c.step 'b').enterSweep :=
            Reaches.step .toSweep (by simp [Ctx.micro, hp, hg'])
          split
          · exact r1.trans r2
          · exact (r1.trans r2).trans (ih _ _ _ ((r1.trans r2).inv h))
      | true =>
        have hnb := markOne_not_break (root := root) (faultAt fault k) hg
        have r1 : Reaches c root (c.markOne root (faultAt fault k)).1 :=
          Reaches.step (.markStep (faultAt fault k)) (by simp [Ctx.micro, hp, hg])
        cases hfl : (c.markOne root (faultAt fault k)).2 with
        | «break» => exact absurd hfl hnb
        | unwind =>
          simp only []
          rw [show c.markOne root (faultAt fault k) =
            ((c.markOne root (faultAt fault k)).1, (c.markOne root (faultAt fault k)).2) from rfl, hfl]
          exact r1
        | «continue» =>
          simp only []
          rw [show c.markOne root (faultAt fault k) =
            ((c.markOne root (faultAt fault k)).1, (c.markOne root (faultAt fault k)).2) from rfl, hfl]
          simp only
          split
          · exact r1
          · exact r1.trans (ih _ _ _ (r1.inv h))
    | sweep =>
      simp only
      split
      · exact Reaches.refl c root
      · cases hr : c.rest with
        | nil =>
          rw [sweepOne_end hr]
          simp only
          have r1 : Reaches c root (c.step 'e') :=
            Reaches.step .sweepEnd (by simp [Ctx.micro, hp, hr, sweepOne_end hr])
          have r2 : Reaches (c.step 'e') root ((c.step 'e').enterSleep hs) :=
            Reaches.step (.toSleep hs) (by simp [Ctx.micro, hp, hr])
          have r12 := r1.trans r2
          split
          · exact r12
          · split
            · split
              · exact r12
              · -- `assert!(stop == Stop::Full)` cannot fire: past `stop <= AtSweep` and
                -- `stop == FinishCycle`, only `Full` is left
                rename_i h1 h2 h3 h4
                exfalso
                cases stop
                · exact h1 (by decide)
                · exact h1 (by decide)
                · exact h2 rfl
                · exact h4 rfl
            · split
              · exact r12
              · exact r12.trans (ih _ _ _ (r12.inv h))
        | cons i rest' =>
          have hne : c.rest ≠ [] := by rw [hr]; simp
          have hfl := sweepOne_flow hne
          have r1 : Reaches c root c.sweepOne.1 :=
            Reaches.step .sweepStep (by simp [Ctx.micro, hp, hr])
          rw [show c.sweepOne = (c.sweepOne.1, c.sweepOne.2) from rfl, hfl]
          simp only
          split
          · exact r1
          · exact r1.trans (ih _ _ _ (r1.inv h))

end GcArena
