import GcArena.Proofs.Pacing
import GcArena.Proofs.DebtMono
/-!
  Sleep is honoured over operation sequences (C09): a sleeping collector with no artificial debt
  stays asleep, makes no progress and reports zero debt for as long as the allocations made do
  not exceed the wake-up amount.
-/
namespace GcArena

theorem sleep_no_debt {c : Ctx} (hart : c.metrics.artificial = 0)
    (hle : (c.metrics.allocated : Rat) ≤ c.metrics.wakeup) : c.metrics.hasDebt = false := by
  simp only [Metrics.hasDebt, decide_eq_false_iff_not]
  unfold Metrics.allocationDebt
  split
  · exact Rat.lt_irrefl
  · rw [if_pos (by unfold Metrics.cycleDebits; rw [hart]; grind)]; exact Rat.lt_irrefl

/-- While asleep within the wake-up amount, the debt-driven methods (`collect_debt`, `mark_debt`,
    `cycle_debt`) leave the collector state untouched: no progress is made. -/
theorem sleep_collect_noop {a : Arena} (hs : a.ctx.phase = .sleep)
    (hart : a.ctx.metrics.artificial = 0) (hle : (a.ctx.metrics.allocated : Rat) ≤ a.ctx.metrics.wakeup)
    (m : Method) (hm : (Arena.methodArgs m).1 = .payDebt) (k : Cont) (fault : TraceFault) :
    (a.step (.collect m k fault none)).1.ctx = a.ctx := by
  have hnd := sleep_no_debt hart hle
  have hcall : ∀ stop, a.ctx.doCollection a.root .payDebt stop fault = (a.ctx, .returned) := by
    intro stop; simp [Ctx.doCollection, hnd]
  have hnm : Arena.isMarked a.ctx = false := by simp [Arena.isMarked, hs]
  unfold Arena.step
  split
  · rfl
  · simp only [Arena.stepBody]
    split
    · rfl
    · cases m with
      | finishMarking => simp [Arena.methodArgs] at hm
      | finishCycle => simp [Arena.methodArgs] at hm
      | collectDebt => simp [Arena.splitOracle, Arena.runCollector, Arena.methodArgs, hcall]
      | cycleDebt => simp [Arena.splitOracle, Arena.runCollector, Arena.methodArgs, hcall]
      | markDebt =>
        simp [Arena.splitOracle, Arena.runCollector, Arena.methodArgs, hcall, Arena.marked?, hnm]

/-- A self-driven debt-driven collection call (`collect_debt`, `mark_debt`, `cycle_debt`). -/
def Op.isDebtCall : Op → Bool
  | .collect m _ _ none => decide ((Arena.methodArgs m).1 = .payDebt)
  | _ => false

/-- What a client may do while the statement "the collector stays asleep" is claimed: anything
    except `set_pacing` / `adjust_debt`, the unconditional collection methods, and dropping the
    arena. -/
def Op.isSleepy (op : Op) : Bool := (op.isMutator && !op.isKnob) || op.isDebtCall

/-- What one sleepy operation does to a sleeping collector within its wake-up amount. -/
theorem sleepy_step {a : Arena} (h : Inv a) (hs : a.ctx.phase = .sleep)
    (hart : a.ctx.metrics.artificial = 0) (hle : (a.ctx.metrics.allocated : Rat) ≤ a.ctx.metrics.wakeup)
    (op : Op) (hop : op.isSleepy = true) :
    (a.step op).1.ctx.phase = .sleep ∧ (a.step op).1.ctx.log = a.ctx.log ∧
    (a.step op).1.ctx.metrics.wakeup = a.ctx.metrics.wakeup ∧
    (a.step op).1.ctx.metrics.artificial = 0 ∧
    (a.step op).1.ctx.metrics.allocated ≤ a.ctx.metrics.allocated + (if op.isAlloc then 1 else 0) := by
  by_cases hd : op.isDebtCall = true
  · cases op with
    | collect m k f o =>
      cases o with
      | some ms => simp [Op.isDebtCall] at hd
      | none =>
        have hm : (Arena.methodArgs m).1 = .payDebt := by simpa [Op.isDebtCall] using hd
        rw [sleep_collect_noop hs hart hle m hm k f]
        exact ⟨hs, rfl, rfl, hart, Nat.le_add_right _ _⟩
    | _ => simp [Op.isDebtCall] at hd
  · have hmk : op.isMutator = true ∧ op.isKnob = false := by
      simp only [Op.isSleepy, Bool.or_eq_true, Bool.and_eq_true, Bool.not_eq_true'] at hop
      rcases hop with hop | hop
      · exact hop
      · exact absurd hop hd
    have hq := step_quiet h op hmk.1
    cases hf : op.isForwardLike with
    | false =>
      obtain ⟨_, e2, e3, _, e5⟩ := (step_plainMet a op hmk.1 hmk.2 hf).frame
      exact ⟨by rw [hq.phase]; exact hs, hq.log, e2, by rw [e3]; exact hart, e5⟩
    | true =>
      obtain ⟨_, e2, e3, e4⟩ := (step_fwdMet a op hf).frame
      exact ⟨by rw [hq.phase]; exact hs, hq.log, e2, by rw [e3]; exact hart,
        by rw [e4]; exact Nat.le_add_right _ _⟩

/-- **The collector stays asleep** (C09).  From a sleeping state with no artificial debt, over any
    sequence of mutator operations and debt-driven collection calls during which at most
    `wakeup - allocated` allocations are made: the phase is still `Sleep`, no destructor ran and
    no block was released (the event log is unchanged), the schedule is unchanged, and the
    reported debt is zero. -/
theorem stays_asleep (ops : List Op) : ∀ (a : Arena), Inv a → a.ctx.phase = .sleep →
    a.ctx.metrics.artificial = 0 → (∀ op, op ∈ ops → op.isSleepy = true) → (a.run ops).alive = true →
    ((a.ctx.metrics.allocated + ops.countP Op.isAlloc : Nat) : Rat) ≤ a.ctx.metrics.wakeup →
    (a.run ops).ctx.phase = .sleep ∧ (a.run ops).ctx.log = a.ctx.log ∧
    (a.run ops).ctx.metrics.wakeup = a.ctx.metrics.wakeup ∧
    (a.run ops).ctx.metrics.artificial = 0 ∧
    (a.run ops).ctx.metrics.allocated ≤ a.ctx.metrics.allocated + ops.countP Op.isAlloc ∧
    (a.run ops).ctx.metrics.allocationDebt = 0 := by
  induction ops with
  | nil =>
    intro a _ hs hart _ _ hb
    simp only [List.countP_nil, Nat.add_zero] at hb
    exact ⟨hs, rfl, rfl, hart, Nat.le_refl _, debt_zero_of_not_hasDebt _ (sleep_no_debt hart hb)⟩
  | cons op ops ih =>
    intro a h hs hart hall hal hb
    simp only [Arena.run] at hal ⊢
    have hal1 : (a.step op).1.alive = true := by
      cases hx : (a.step op).1.alive with
      | true => rfl
      | false => rw [run_dead hx] at hal; rw [hx] at hal; cases hal
    have hle : (a.ctx.metrics.allocated : Rat) ≤ a.ctx.metrics.wakeup := by
      refine Rat.le_trans (Rat.natCast_le_natCast.mpr ?_) hb
      exact Nat.le_add_right _ _
    obtain ⟨s1, s2, s3, s4, s5⟩ := sleepy_step h hs hart hle op (hall op (by simp))
    have hcount : (if op.isAlloc = true then 1 else 0) + ops.countP Op.isAlloc
        = (op :: ops).countP Op.isAlloc := by
      rw [List.countP_cons]; omega
    have hb1 : (((a.step op).1.ctx.metrics.allocated + ops.countP Op.isAlloc : Nat) : Rat)
        ≤ (a.step op).1.ctx.metrics.wakeup := by
      rw [s3]
      refine Rat.le_trans (Rat.natCast_le_natCast.mpr ?_) hb
      omega
    obtain ⟨r1, r2, r3, r4, r5, r6⟩ := ih (a.step op).1 (inv_step h op hal1) s1 s4
      (fun o ho => hall o (List.mem_cons_of_mem _ ho)) hal hb1
    exact ⟨r1, r2.trans s2, r3.trans s3, r4, by omega, r6⟩

end GcArena
