import GcArena.Model.WriteCap
/-! Helper lemmas for `GcArena.Props.C13`. -/
namespace GcArena.WriteCap

theorem Table.ok_unpack {t : Table} (h : t.ok = true) :
    (∀ c, c ∈ t.ctors → c.ok = true) ∧ (∀ p, p ∈ t.projs → p.ok = true) ∧
    (∀ u, u ∈ t.unlocks → u.ok = true) ∧ (∀ f, f ∈ t.lockFns → f.ok = true) ∧
    t.fieldMacro = .byPattern := by
  simp only [Table.ok, Bool.and_eq_true, List.all_eq_true, beq_iff_eq] at h
  obtain ⟨⟨⟨⟨⟨⟨_, h1⟩, h2⟩, h3⟩, h4⟩, h5⟩, _⟩ := h
  exact ⟨h1, h2, h3, h4, h5⟩

theorem holders_projPlace_exclusive (env : Env) (cls : OwnClass) (p : Place) (k : Nat)
    (h : cls.exclusive = true) : holders env (projPlace cls p k) = holders env p := by
  cases cls <;> simp_all [OwnClass.exclusive, projPlace, holders]

end GcArena.WriteCap
