import GcArena.Model.WriteCap
/-! Helper lemmas for `GcArena.Props.C13`. -/
namespace GcArena.WriteCap

theorem Table.ok_unpack {t : Table} (h : t.ok = true) :
    (∀ c, c ∈ t.ctors → c.ok = true) ∧ (∀ p, p ∈ t.projs → p.ok t.projs = true) ∧
    (∀ u, u ∈ t.unlocks → u.ok = true) ∧ (∀ f, f ∈ t.lockFns → f.ok = true) ∧
    t.fieldMacro = .byPattern ∧ (∀ r, r ∈ t.rawSites → r.ok = true) ∧
    t.markerTraitsUnsafe = true := by
  simp only [Table.ok, Bool.and_eq_true, List.all_eq_true, beq_iff_eq] at h
  obtain ⟨⟨⟨⟨⟨⟨⟨⟨_, h1⟩, h2⟩, h3⟩, h4⟩, h5⟩, _⟩, h7⟩, h8⟩ := h
  exact ⟨h1, h2, h3, h4, h5, h7, h8⟩

theorem holders_projPlace_exclusive (env : Env) (cls : OwnClass) (p : Place) (k : Nat)
    (h : cls.exclusive = true) : holders env (projPlace cls p k) = holders env p := by
  cases cls <;> simp_all [OwnClass.exclusive, projPlace, holders]

/-! Entries used by `Props/C13.mutant_witness` and the non-vacuity examples: the six slice
entries as extracted, the `Vec` entry as it is in the crate, and the mutated one. -/
namespace Example

def sliceEntries : List ProjImpl :=
  ["usize", "Range<usize>", "RangeFrom<usize>", "RangeInclusive<usize>", "RangeTo<usize>",
   "RangeToInclusive<usize>"].map (fun i =>
    { kind := .index, recv := .slice, text := "<T> IndexWrite<" ++ i ++ "> for [T]",
      targetStatic := false, idx := .concrete, gate := "" })

/-- `unsafe impl<T, I> IndexWrite<I> for Vec<T> where [T]: IndexWrite<I>, Self: Index<I> {}` -/
def vecCurrent : ProjImpl :=
  { kind := .index, recv := .vec,
    text := "<T, I> IndexWrite<I> for Vec<T> where [T]: IndexWrite<I>, Self: Index<I>",
    targetStatic := false, idx := .delegates .slice, gate := "" }

/-- `unsafe impl<T, I> IndexWrite<I> for Vec<T> where Self: Index<I> {}` -/
def vecMutant : ProjImpl :=
  { kind := .index, recv := .vec, text := "<T, I> IndexWrite<I> for Vec<T> where Self: Index<I>",
    targetStatic := false, idx := .unconstrained, gate := "" }

/-- `unsafe impl<T, I, const N: usize> IndexWrite<I> for [T; N] where [T]: Index<I> {}`
(std's array impl forwards to `<[T] as Index<I>>::index`, which a client may write). -/
def arrayMutant : ProjImpl :=
  { kind := .index, recv := .array, text := "<T, I, const N: usize> IndexWrite<I> for [T; N] where [T]: Index<I>",
    targetStatic := false, idx := .unconstrained, gate := "" }

def gcWriteCtor : Ctor := ⟨"Gc::write", .gcWrite, false, false, true⟩

def tableWith (projs : List ProjImpl) : Table :=
  { ctors := [gcWriteCtor], projs := projs, unlocks := [⟨"RefLock", true, true⟩], cells := [],
    lockFns := [], rawSites := [⟨"Write::unlock", false, true, false⟩], fieldMacro := .byPattern,
    writeNonExhaustive := true, markerTraitsUnsafe := true, unclassified := [] }

end Example

end GcArena.WriteCap
