import GcArena.Proofs.MarkOne
import GcArena.Proofs.Sweep
/-!
  Mutator-side primitives preserve the invariant: `link` (allocation), slot stores under the
  barrier premises, holding more / fewer pointers in the callback, root replacement.
-/
namespace GcArena

/-! ### Holding pointers in the callback -/

theorem CInvH.withTemps {c : Ctx} {root temps temps' hole} (h : CInvH c root temps hole)
    (ht : ∀ p, p ∈ temps' → PtrOK c p) : CInvH c root temps' hole :=
  { h with tempsOK := ht }

theorem CInvH.pushTemp {c : Ctx} {root temps hole} (h : CInvH c root temps hole) {p : Ptr}
    (hp : PtrOK c p) : CInvH c root (p :: temps) hole :=
  h.withTemps (fun q hq => by
    simp only [List.mem_cons] at hq
    rcases hq with hq | hq
    · subst hq; exact hp
    · exact h.tempsOK q hq)

theorem CInvH.clearTemps {c : Ctx} {root temps hole} (h : CInvH c root temps hole) :
    CInvH c root [] hole := h.withTemps (fun _ hq => by cases hq)

/-- `Gc::downgrade`: a weak pointer to a safe object is fine. -/
theorem weakOK_of_safe {c : Ctx} {t : Nat} (h : Safe c t) : WeakOK c t := by
  obtain ⟨o, ho, _, hb⟩ := h
  exact ⟨o, ho, fun hp hm => Or.inr (hb hp hm)⟩

/-- `GcWeak::upgrade` succeeding yields a safe object (C05 soundness, in every phase). -/
theorem safe_of_upgrade {c : Ctx} {t : Nat} (h : WeakOK c t) (hu : (c.upgrade t).2 = true) :
    Safe c t := by
  obtain ⟨o, ho, hw⟩ := h
  unfold Ctx.upgrade at hu
  simp only [ho] at hu
  cases hl : o.live with
  | false => simp [hl] at hu
  | true =>
    simp only [hl, Bool.not_true, Bool.false_eq_true, if_false] at hu
    refine ⟨o, ho, hl, ?_⟩
    intro hp hm
    rcases hw hp hm with hc | hc
    · simp [hp, hc] at hu
    · exact hc

theorem upgrade_ctx {c : Ctx} {t : Nat} (h : ∃ o, c.heap.get t = some o) : (c.upgrade t).1 = c := by
  obtain ⟨o, ho⟩ := h
  unfold Ctx.upgrade
  simp only [ho]
  split
  · rfl
  · split <;> rfl

/-! ### `Context::link` -/

theorem link_spec {c : Ctx} {root temps} (h : CInv c root temps) (nt : Bool) (slots : List Slot)
    (hs : ∀ p, some p ∈ slots → PtrOK c p) (hleaf : nt = false → ∀ s, s ∈ slots → s = none) :
    let o : Obj := { color := .white, needsTrace := nt, live := true, slots := slots }
    CInv (c.link o).1 root (.strong (c.link o).2 :: temps) ∧
      (∀ j, j ≠ c.heap.fresh → (c.link o).1.heap.get j = c.heap.get j) ∧
      (c.link o).1.heap.get c.heap.fresh = some o := by
  intro o
  have hfresh : c.heap.get c.heap.fresh = none := Heap.get_fresh _
  have hne : ∀ j oj, c.heap.get j = some oj → j ≠ c.heap.fresh := by
    intro j oj hj he; rw [he, hfresh] at hj; cases hj
  let i := c.heap.fresh
  have hget : ∀ j, (c.link o).1.heap.get j = if j = i then some o else c.heap.get j := by
    intro j; simp [Ctx.link, Heap.get_set, i]
  have hi_nm : i ∉ c.pre ++ c.rest := by
    intro hm
    obtain ⟨oi, hoi⟩ := (h.memAll i).mp hm
    rw [hfresh] at hoi; cases hoi
  have hi_nr : i ∉ c.rest := fun hm => hi_nm (List.mem_append_right _ hm)
  have hph : (c.link o).1.phase = c.phase := rfl
  have hrest : (c.link o).1.rest = c.rest := rfl
  have hsafe : ∀ t, Safe c t → Safe (c.link o).1 t := by
    rintro t ⟨ot, hot, hl, hb⟩
    exact ⟨ot, by rw [hget]; simp [hne t ot hot, i, hot], hl, hb⟩
  have hsafe' : ∀ t, t ≠ i → Safe (c.link o).1 t → Safe c t := by
    rintro t hti ⟨ot, hot, hl, hb⟩
    rw [hget] at hot; simp only [hti, if_false] at hot
    exact ⟨ot, hot, hl, hb⟩
  have hptr : ∀ p, PtrOK c p → PtrOK (c.link o).1 p := by
    intro p hp
    cases p with
    | strong t => exact hsafe t hp
    | weak t =>
      obtain ⟨ot, hot, hb⟩ := hp
      exact ⟨ot, by rw [hget]; simp [hne t ot hot, i, hot], hb⟩
  have hmk : ∀ p, PtrMarked c p → PtrMarked (c.link o).1 p := by
    intro p hp
    cases p with
    | strong t => obtain ⟨ot, hot, hc⟩ := hp; exact ⟨ot, by rw [hget]; simp [hne t ot hot, i, hot], hc⟩
    | weak t => obtain ⟨ot, hot, hc⟩ := hp; exact ⟨ot, by rw [hget]; simp [hne t ot hot, i, hot], hc⟩
  refine ⟨?_, fun j hj => by rw [hget]; simp [hj, i], by rw [hget]; simp [i]⟩
  constructor
  · exact h.noErr
  · simpa [Ctx.link, Metrics.markGcAllocated] using h.noUnderflow
  · exact h.notDrop
  · show (i :: c.pre ++ c.rest).Nodup
    simp only [List.cons_append, List.nodup_cons]; exact ⟨hi_nm, h.nodup⟩
  · intro j
    show j ∈ i :: c.pre ++ c.rest ↔ _
    rw [hget]
    by_cases hj : j = i
    · subst hj; simp
    · simp only [List.cons_append, List.mem_cons, hj, false_or, if_false]; exact h.memAll j
  · exact h.restNil
  · show (c.metrics.markGcAllocated).totalGcs = (i :: c.pre ++ c.rest).length
    simp [Metrics.markGcAllocated, h.count]
  · intro j oj hoj hg
    rw [hget] at hoj
    by_cases hj : j = i
    · subst hj; simp at hoj; subst hoj; cases hg
    · simp only [hj, if_false] at hoj; exact h.grayQ j oj hoj hg
  · intro j hj
    obtain ⟨oj, hoj, hg⟩ := h.qGray j hj
    exact ⟨oj, by rw [hget]; simp [hne j oj hoj, i, hoj], hg⟩
  · exact h.qNodup
  · exact h.qMark
  · intro hp j oj hoj
    rw [hget] at hoj
    by_cases hj : j = i
    · subst hj; simp at hoj; subst hoj; rfl
    · simp only [hj, if_false] at hoj; exact h.sleepWhite hp j oj hoj
  · exact h.sleepRoot
  · exact h.sweepRoot
  · intro hp j hj oj hoj
    rw [hget] at hoj
    by_cases hji : j = i
    · subst hji; simp at hoj; subst hoj; rfl
    · simp only [hji, if_false] at hoj
      have : j ∈ c.pre := by
        have : j ∈ i :: c.pre := hj
        simpa [hji] using this
      exact h.preWhite hp j this oj hoj
  · intro j oj hoj hc
    rw [hget] at hoj
    by_cases hj : j = i
    · subst hj; simp at hoj; subst hoj; rcases hc with hc | hc <;> cases hc
    · simp only [hj, if_false] at hoj; exact h.markedLive j oj hoj hc
  · intro j oj hoj hc
    rw [hget] at hoj
    by_cases hj : j = i
    · subst hj; simp at hoj; subst hoj; cases hc
    · simp only [hj, if_false] at hoj; exact h.deadNoSlots j oj hoj hc
  · intro j oj hoj hc
    rw [hget] at hoj
    by_cases hj : j = i
    · subst hj; simp at hoj; subst hoj; exact hleaf hc
    · simp only [hj, if_false] at hoj; exact h.leafNoPtr j oj hoj hc
  · intro hm j oj hoj hb hh p hp
    rw [hget] at hoj
    by_cases hj : j = i
    · subst hj; simp at hoj; subst hoj; cases hb
    · simp only [hj, if_false] at hoj; exact hmk p (h.tri hm j oj hoj hb hh p hp)
  · intro hm hr p hp; exact hmk p (h.triRoot hm hr p hp)
  · intro j oj hoj hsf p hp
    rw [hget] at hoj
    by_cases hj : j = i
    · subst hj; simp at hoj; subst hoj; exact hptr p (hs p hp)
    · simp only [hj, if_false] at hoj; exact hptr p (h.closed j oj hoj (hsafe' j hj hsf) p hp)
  · intro p hp; exact hptr p (h.rootOK p hp)
  · intro p hp
    simp only [List.mem_cons] at hp
    rcases hp with hp | hp
    · subst hp
      exact ⟨o, by rw [hget]; simp [Ctx.link, i], rfl, fun _ hm => absurd hm hi_nr⟩
    · exact hptr p (h.tempsOK p hp)

end GcArena

namespace GcArena

/-! ### Storing into a slot of an allocated object -/

/-- `c'` is `c` with the slot list of object `p` replaced; header flags untouched. -/
theorem setSlots_spec {c : Ctx} {root temps} (h : CInv c root temps) {p : Nat} {o : Obj}
    (ho : c.heap.get p = some o) (slots' : List Slot)
    (hnew : ∀ q, some q ∈ slots' → some q ∈ o.slots ∨
      (PtrOK c q ∧ (c.phase = .mark → o.color = .black → PtrMarked c q) ∧ o.needsTrace = true))
    (hdead : o.live = false → slots' = []) :
    CInv (c.setObj p { o with slots := slots' }) root temps := by
  let c' := c.setObj p { o with slots := slots' }
  have hget : ∀ j, c'.heap.get j = if j = p then some { o with slots := slots' } else c.heap.get j := by
    intro j; simp [c']
  have hsafe : ∀ t, Safe c' t ↔ Safe c t := by
    intro t
    unfold Safe
    rw [hget]
    by_cases ht : t = p
    · subst ht; simp [ho, c']
    · simp [ht, c']
  have hweak : ∀ t, WeakOK c' t ↔ WeakOK c t := by
    intro t
    unfold WeakOK
    rw [hget]
    by_cases ht : t = p
    · subst ht; simp [ho, c']
    · simp [ht, c']
  have hptr : ∀ q, PtrOK c' q ↔ PtrOK c q := by
    intro q; cases q with
    | strong t => exact hsafe t
    | weak t => exact hweak t
  have hmk : ∀ q, PtrMarked c' q ↔ PtrMarked c q := by
    intro q
    cases q with
    | strong t =>
      simp only [PtrMarked]
      rw [hget]
      by_cases ht : t = p
      · subst ht; simp [ho]
      · simp [ht]
    | weak t =>
      simp only [PtrMarked]
      rw [hget]
      by_cases ht : t = p
      · subst ht; simp [ho]
      · simp [ht]
  show CInv c' root temps
  constructor
  · exact h.noErr
  · exact h.noUnderflow
  · exact h.notDrop
  · exact h.nodup
  · intro j
    show j ∈ c.pre ++ c.rest ↔ _
    rw [hget, h.memAll j]
    by_cases hj : j = p
    · subst hj; simp [ho]
    · simp [hj]
  · exact h.restNil
  · exact h.count
  · intro j oj hoj hg
    rw [hget] at hoj
    by_cases hj : j = p
    · subst hj; simp at hoj; subst hoj; exact h.grayQ j o ho hg
    · simp only [hj, if_false] at hoj; exact h.grayQ j oj hoj hg
  · intro j hj
    obtain ⟨oj, hoj, hg⟩ := h.qGray j hj
    by_cases hjp : j = p
    · subst hjp; rw [ho] at hoj; cases hoj
      exact ⟨{ o with slots := slots' }, by rw [hget]; simp, hg⟩
    · exact ⟨oj, by rw [hget]; simp [hjp, hoj], hg⟩
  · exact h.qNodup
  · exact h.qMark
  · intro hp j oj hoj
    rw [hget] at hoj
    by_cases hj : j = p
    · subst hj; simp at hoj; subst hoj; exact h.sleepWhite hp j o ho
    · simp only [hj, if_false] at hoj; exact h.sleepWhite hp j oj hoj
  · exact h.sleepRoot
  · exact h.sweepRoot
  · intro hp j hjm oj hoj
    rw [hget] at hoj
    by_cases hj : j = p
    · subst hj; simp at hoj; subst hoj; exact h.preWhite hp j hjm o ho
    · simp only [hj, if_false] at hoj; exact h.preWhite hp j hjm oj hoj
  · intro j oj hoj hc
    rw [hget] at hoj
    by_cases hj : j = p
    · subst hj; simp at hoj; subst hoj; exact h.markedLive j o ho hc
    · simp only [hj, if_false] at hoj; exact h.markedLive j oj hoj hc
  · intro j oj hoj hc
    rw [hget] at hoj
    by_cases hj : j = p
    · subst hj; simp at hoj; subst hoj; exact hdead hc
    · simp only [hj, if_false] at hoj; exact h.deadNoSlots j oj hoj hc
  · intro j oj hoj hc s hs
    rw [hget] at hoj
    by_cases hj : j = p
    · subst hj; simp at hoj; subst hoj
      cases s with
      | none => rfl
      | some q =>
        rcases hnew q hs with hold | ⟨_, _, hnt⟩
        · exact h.leafNoPtr j o ho hc _ hold
        · simp only at hc; rw [hnt] at hc; cases hc
    · simp only [hj, if_false] at hoj; exact h.leafNoPtr j oj hoj hc s hs
  · intro hm j oj hoj hb hh q hq
    rw [hmk]
    rw [hget] at hoj
    by_cases hj : j = p
    · subst hj; simp at hoj; subst hoj
      rcases hnew q hq with hold | ⟨_, hmq, _⟩
      · exact h.tri hm j o ho hb hh q hold
      · exact hmq hm hb
    · simp only [hj, if_false] at hoj; exact h.tri hm j oj hoj hb hh q hq
  · intro hm hr q hq; rw [hmk]; exact h.triRoot hm hr q hq
  · intro j oj hoj hsf q hq
    rw [hptr]
    rw [hsafe] at hsf
    rw [hget] at hoj
    by_cases hj : j = p
    · subst hj; simp at hoj; subst hoj
      rcases hnew q hq with hold | ⟨hok, _, _⟩
      · exact h.closed j o ho hsf q hold
      · exact hok
    · simp only [hj, if_false] at hoj; exact h.closed j oj hoj hsf q hq
  · intro q hq; rw [hptr]; exact h.rootOK q hq
  · intro q hq; rw [hptr]; exact h.tempsOK q hq

theorem mem_set_slot {l : List Slot} {i : Nat} {v : Slot} {q : Ptr} (h : some q ∈ l.set i v) :
    some q ∈ l ∨ v = some q := by
  rcases List.mem_or_eq_of_mem_set h with h | h
  · exact Or.inl h
  · exact Or.inr h.symm

/-- The slot store performed by every write path (`Arena.setSlot`). -/
theorem setSlot_spec {c : Ctx} {root temps} (h : CInv c root temps) {p i : Nat} {v : Slot} {o : Obj}
    (ho : c.heap.get p = some o) (hlive : o.live = true)
    (hv : ∀ q, v = some q → PtrOK c q ∧ (c.phase = .mark → o.color = .black → PtrMarked c q) ∧
      o.needsTrace = true) :
    CInv (Arena.setSlot c p i v) root temps := by
  unfold Arena.setSlot
  simp only [ho]
  apply setSlots_spec h ho
  · intro q hq
    rcases mem_set_slot hq with hq | hq
    · exact Or.inl hq
    · exact Or.inr (hv q hq)
  · intro hd; rw [hlive] at hd; cases hd

/-! ### Root replacement (`mutate_root`) -/

theorem setRoot_spec {c : Ctx} {root temps} (h : CInv c root temps) (root' : List Slot)
    (hnew : ∀ q, some q ∈ root' → some q ∈ root ∨ PtrOK c q)
    (hrnt : c.phase = .mark → c.rootNeedsTrace = true) : CInv c root' temps := by
  refine { h with triRoot := ?_, rootOK := ?_ }
  · intro hm hr; rw [hrnt hm] at hr; cases hr
  · intro q hq
    rcases hnew q hq with hq | hq
    · exact h.rootOK q hq
    · exact hq

end GcArena
