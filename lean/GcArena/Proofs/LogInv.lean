import GcArena.Proofs.Quiet
/-!
  The log invariant: over any history no value is destructed twice, no block released twice, a
  release follows the destruction, `is_dropped` (the cleared `live` flag) is exact, and every id
  ever allocated is either still allocated or logged as released.
-/
namespace GcArena

structure LInv (c : Ctx) : Prop where
  nodup : c.log.Nodup
  droppedDead : ∀ i, Event.dropped i ∈ c.log → ∀ o, c.heap.get i = some o → o.live = false
  deadDropped : ∀ i o, c.heap.get i = some o → o.live = false → Event.dropped i ∈ c.log
  freedGone : ∀ i, Event.freed i ∈ c.log → c.heap.get i = none
  freedDropped : ∀ i, Event.freed i ∈ c.log → Event.dropped i ∈ c.log
  bound : ∀ e, e ∈ c.log → e.target < c.heap.size
  goneFreed : ∀ i, i < c.heap.size → c.heap.get i = none → Event.freed i ∈ c.log

theorem linv_new : LInv Ctx.new := by
  constructor <;> simp [Ctx.new, Heap.size]
  all_goals simp [Heap.empty]

/-- Transfer along a step that emits nothing and keeps allocations and liveness (no phase
    condition: used for the phase switches too). -/
theorem LInv.still {c c' : Ctx} (h : LInv c) (hlog : c'.log = c.log)
    (keep : ∀ i o, c.heap.get i = some o → ∃ o', c'.heap.get i = some o' ∧ o'.live = o.live)
    (sizeLe : c.heap.size ≤ c'.heap.size)
    (noNew : ∀ i o', c'.heap.get i = some o' →
      (∃ o, c.heap.get i = some o) ∨ (c.heap.size ≤ i ∧ o'.live = true))
    (noGap : ∀ i, c.heap.size ≤ i → i < c'.heap.size → ∃ o', c'.heap.get i = some o') : LInv c' := by
  constructor
  · rw [hlog]; exact h.nodup
  · intro i hi o' ho'
    rw [hlog] at hi
    rcases noNew i o' ho' with ⟨o, ho⟩ | ⟨hsz, _⟩
    · obtain ⟨o2, ho2, hl2⟩ := keep i o ho
      rw [ho'] at ho2; cases ho2
      rw [hl2]; exact h.droppedDead i hi o ho
    · have := h.bound _ hi; simp only [Event.target] at this; omega
  · intro i o' ho' hl'
    rw [hlog]
    rcases noNew i o' ho' with ⟨o, ho⟩ | ⟨_, hl⟩
    · obtain ⟨o2, ho2, hl2⟩ := keep i o ho
      rw [ho'] at ho2; cases ho2
      exact h.deadDropped i o ho (by rw [← hl2]; exact hl')
    · rw [hl] at hl'; cases hl'
  · intro i hi
    rw [hlog] at hi
    cases hg : c'.heap.get i with
    | none => rfl
    | some o' =>
      rcases noNew i o' hg with ⟨o, ho⟩ | ⟨hsz, _⟩
      · rw [h.freedGone i hi] at ho; cases ho
      · have := h.bound _ hi; simp only [Event.target] at this; omega
  · intro i hi; rw [hlog] at hi ⊢; exact h.freedDropped i hi
  · intro e he; rw [hlog] at he; exact Nat.lt_of_lt_of_le (h.bound e he) sizeLe
  · intro i hi hg
    rw [hlog]
    by_cases hlt : i < c.heap.size
    · apply h.goneFreed i hlt
      cases hc : c.heap.get i with
      | none => rfl
      | some o =>
        obtain ⟨o', ho', _⟩ := keep i o hc
        rw [hg] at ho'; cases ho'
    · obtain ⟨o', ho'⟩ := noGap i (by omega) hi
      rw [hg] at ho'; cases ho'

theorem LInv.quiet {c c' : Ctx} (h : LInv c) (q : Quiet c c') : LInv c' :=
  h.still q.log q.keep q.sizeLe q.noNew q.noGap

theorem LInv.sameHeap {c c' : Ctx} (h : LInv c) (hh : c'.heap = c.heap) (hlog : c'.log = c.log) : LInv c' :=
  h.still hlog (fun i o ho => ⟨o, by rw [hh]; exact ho, rfl⟩) (by rw [hh]; exact Nat.le_refl _)
    (fun i o' ho' => Or.inl ⟨o', by rw [← hh]; exact ho'⟩) (fun i h1 h2 => by rw [hh] at h2; omega)

/-- Destruct (if still live) and release object `i`. -/
theorem LInv.release {c c' : Ctx} (h : LInv c) {i : Nat} {o : Obj} (ho : c.heap.get i = some o)
    (hlog : c'.log = Event.freed i :: ((if o.live then [Event.dropped i] else []) ++ c.log))
    (hget : ∀ j, c'.heap.get j = if j = i then none else c.heap.get j)
    (hsz : c'.heap.size = c.heap.size) : LInv c' := by
  have hlt : i < c.heap.size := Heap.lt_size_of_get _ _ _ ho
  have hnf : Event.freed i ∉ c.log := fun hm => by rw [h.freedGone i hm] at ho; cases ho
  have hd : Event.dropped i ∈ (if o.live then [Event.dropped i] else []) ++ c.log := by
    cases hl : o.live with
    | true => simp
    | false => simpa using h.deadDropped i o ho hl
  have hmem : ∀ e, e ∈ c'.log ↔ e = .freed i ∨ (e = .dropped i ∧ o.live = true) ∨ e ∈ c.log := by
    intro e
    rw [hlog]
    cases hl : o.live <;> simp
  constructor
  · rw [hlog, List.nodup_cons]
    refine ⟨?_, ?_⟩
    · cases hl : o.live <;> simp [hnf]
    · cases hl : o.live with
      | false => simpa using h.nodup
      | true =>
        simp only [if_true, List.singleton_append, List.nodup_cons]
        refine ⟨?_, h.nodup⟩
        intro hm
        have := h.droppedDead i hm o ho
        rw [hl] at this; cases this
  · intro j hj oj hoj
    rw [hget] at hoj
    by_cases hji : j = i
    · simp [hji] at hoj
    · simp only [hji, if_false] at hoj
      rcases (hmem _).mp hj with hj | ⟨hj, _⟩ | hj
      · cases hj
      · cases hj; exact absurd rfl hji
      · exact h.droppedDead j hj oj hoj
  · intro j oj hoj hl
    rw [hget] at hoj
    by_cases hji : j = i
    · simp [hji] at hoj
    · simp only [hji, if_false] at hoj
      exact (hmem _).mpr (Or.inr (Or.inr (h.deadDropped j oj hoj hl)))
  · intro j hj
    rw [hget]
    by_cases hji : j = i
    · simp [hji]
    · simp only [hji, if_false]
      rcases (hmem _).mp hj with hj | ⟨hj, _⟩ | hj
      · cases hj; exact absurd rfl hji
      · cases hj
      · exact h.freedGone j hj
  · intro j hj
    rcases (hmem _).mp hj with hj | ⟨hj, _⟩ | hj
    · cases hj
      rw [hlog]; exact List.mem_cons_of_mem _ hd
    · cases hj
    · exact (hmem _).mpr (Or.inr (Or.inr (h.freedDropped j hj)))
  · intro e he
    rw [hsz]
    rcases (hmem _).mp he with he | ⟨he, _⟩ | he
    · subst he; exact hlt
    · subst he; exact hlt
    · exact h.bound e he
  · intro j hj hgj
    rw [hsz] at hj
    rw [hget] at hgj
    by_cases hji : j = i
    · subst hji; exact (hmem _).mpr (Or.inl rfl)
    · simp only [hji, if_false] at hgj
      exact (hmem _).mpr (Or.inr (Or.inr (h.goneFreed j hj hgj)))

/-- Destruct a live value but keep its block (the white-weak arm of `sweep_one`). -/
theorem LInv.shell {c c' : Ctx} (h : LInv c) {i : Nat} {o o' : Obj} (ho : c.heap.get i = some o)
    (hl : o.live = true) (hl' : o'.live = false)
    (hlog : c'.log = Event.dropped i :: c.log)
    (hget : ∀ j, c'.heap.get j = if j = i then some o' else c.heap.get j)
    (hsz : c'.heap.size = c.heap.size) : LInv c' := by
  have hlt : i < c.heap.size := Heap.lt_size_of_get _ _ _ ho
  have hnd : Event.dropped i ∉ c.log := fun hm => by
    have := h.droppedDead i hm o ho; rw [hl] at this; cases this
  constructor
  · rw [hlog, List.nodup_cons]; exact ⟨hnd, h.nodup⟩
  · intro j hj oj hoj
    rw [hlog, List.mem_cons] at hj
    rw [hget] at hoj
    by_cases hji : j = i
    · subst hji; simp at hoj; subst hoj; exact hl'
    · simp only [hji, if_false] at hoj
      rcases hj with hj | hj
      · cases hj; exact absurd rfl hji
      · exact h.droppedDead j hj oj hoj
  · intro j oj hoj hlj
    rw [hget] at hoj
    rw [hlog, List.mem_cons]
    by_cases hji : j = i
    · subst hji; exact Or.inl rfl
    · simp only [hji, if_false] at hoj
      exact Or.inr (h.deadDropped j oj hoj hlj)
  · intro j hj
    rw [hlog, List.mem_cons] at hj
    rcases hj with hj | hj
    · cases hj
    · have hne : j ≠ i := by
        intro he; subst he
        rw [h.freedGone j hj] at ho; cases ho
      rw [hget]; simp only [hne, if_false]; exact h.freedGone j hj
  · intro j hj
    rw [hlog, List.mem_cons] at hj ⊢
    rcases hj with hj | hj
    · cases hj
    · exact Or.inr (h.freedDropped j hj)
  · intro e he
    rw [hlog, List.mem_cons] at he
    rw [hsz]
    rcases he with he | he
    · subst he; exact hlt
    · exact h.bound e he
  · intro j hj hgj
    rw [hsz] at hj
    rw [hget] at hgj
    rw [hlog, List.mem_cons]
    by_cases hji : j = i
    · simp [hji] at hgj
    · simp only [hji, if_false] at hgj
      exact Or.inr (h.goneFreed j hj hgj)

/-- `sweep_one` keeps the log invariant. -/
theorem LInv.sweepOne {c : Ctx} {root temps} (h : LInv c) (hc : CInv c root temps) :
    LInv c.sweepOne.1 := by
  unfold Ctx.sweepOne
  cases hr : c.rest with
  | nil => exact h.quiet (quiet_of_heap_log rfl rfl)
  | cons i rest' =>
    simp only
    obtain ⟨o, ho⟩ := (hc.memAll i).mp (by rw [hr]; simp)
    simp only [Ctx.step_heap, ho]
    have recolor : ∀ (c2 : Ctx), c2.log = c.log → c2.phase = c.phase →
        (∀ j, c2.heap.get j = if j = i then some { o with color := .white } else c.heap.get j) →
        c2.heap.size = c.heap.size → LInv c2 := by
      intro c2 e1 e2 e3 e4
      refine h.quiet (Quiet.ofSame e1 e2 ?_ e4 ?_)
      · intro j oj hoj
        by_cases hj : j = i
        · subst hj; rw [ho] at hoj; cases hoj
          exact ⟨{ o with color := .white }, by rw [e3]; simp, rfl⟩
        · exact ⟨oj, by rw [e3]; simp [hj, hoj], rfl⟩
      · intro j oj' hoj'
        rw [e3] at hoj'
        by_cases hj : j = i
        · subst hj; exact ⟨o, ho⟩
        · exact ⟨oj', by simpa [hj] using hoj'⟩
    cases hcol : o.color with
    | gray => exact h.quiet (quiet_of_heap_log (by simp) (by simp))
    | black =>
      simp only
      apply recolor
      · simp
      · simp
      · intro j; simp
      · simp [Ctx.setObj, Heap.size_set_of_get ho]
    | white =>
      simp only
      apply h.release ho
      · cases hl : o.live <;> simp
      · intro j; cases hl : o.live <;> simp [Heap.get_set]
      · cases hl : o.live <;> simp [Heap.size_set_of_get ho]
    | whiteWeak =>
      simp only
      cases hl : o.live with
      | false =>
        simp only [Bool.false_eq_true, if_false]
        apply recolor
        · simp
        · simp
        · intro j; simp [← hl]
        · simp [Ctx.setObj, Heap.size_set_of_get ho]
      | true =>
        simp only [if_true]
        apply h.shell ho hl (o' := { o with color := .white, live := false, slots := [] }) rfl
        · simp
        · intro j; simp
        · simp [Ctx.setObj, Heap.size_set_of_get ho]

end GcArena
