import GcArena.Proofs.CycleRun
/-!
  Relating a self-driven collection call to its replay, for the non-vacuity examples: the debt
  tests of a self-driven call compare exact rationals, which the kernel does not evaluate, so a
  concrete self-driven call is first shown equal to the replay of its micro-steps.
-/
namespace GcArena

/-- A self-driven collection operation whose call returned normally in `c`, and the replay of a
    fault-free micro-step list that ends in `c`, are the same operation. -/
theorem step_collect_self_eq_oracle {a : Arena} {m : Method} {k : Cont} {fault : TraceFault}
    {ms : List Micro} {c : Ctx} (hk : k ≠ .sweep)
    (hself : a.ctx.doCollection a.root (Arena.methodArgs m).1 (Arena.methodArgs m).2 fault = (c, .returned))
    (horacle : a.runCollector (Arena.methodArgs m).1 (Arena.methodArgs m).2 fault (some ms)
      = some (c, .returned)) :
    a.step (.collect m k fault none) = a.step (.collect m k fault (some ms)) := by
  have so1 : Arena.splitOracle none k m = (none, none) := rfl
  have so2 : Arena.splitOracle (some ms) k m = (some ms, none) := by
    simp [Arena.splitOracle, hk]
  unfold Arena.step
  split
  · rfl
  · simp only [Arena.stepBody]
    split
    · rfl
    · rw [so1, so2]
      have r1 : ({ a with marked := false } : Arena).runCollector (Arena.methodArgs m).1
          (Arena.methodArgs m).2 fault none = some (c, .returned) := by
        show some (a.ctx.doCollection a.root _ _ fault) = _
        rw [hself]
      have r2 : ({ a with marked := false } : Arena).runCollector (Arena.methodArgs m).1
          (Arena.methodArgs m).2 fault (some ms) = some (c, .returned) := horacle
      rw [r1, r2]

/-- `mark_debt` called asleep with a debt that marking the (pointer-free) root does not pay:
    it wakes, traces the root, finds nothing gray, and returns fully marked. -/
theorem doCollection_markDebt_wake {c c2 c3 : Ctx} {root : List Slot}
    (hs : c.phase = .sleep) (hd : c.metrics.hasDebt = true)
    (e1 : (c.switch .mark).markOne root none = (c2, .continue))
    (hm1 : c2.metrics.hasDebt = true) (hp1 : c2.phase = .mark)
    (e2 : c2.markOne root none = (c3, .break)) :
    c.doCollection root .payDebt .fullyMarked none = (c3, .returned) := by
  unfold Ctx.doCollection
  simp only [hd, decide_true, Bool.not_true, Bool.and_false, Bool.false_eq_true, if_false]
  have hf : 2 * c.fuelBound root + 8 = (2 * c.fuelBound root + 5) + 1 + 1 + 1 := by omega
  rw [hf]
  -- wake
  unfold Ctx.collectLoop
  simp only [hs]
  have hb0 : (c.switch .mark).debtBreak .payDebt = false := by
    have : (c.switch .mark).metrics.hasDebt = true := hd
    simp [Ctx.debtBreak, this]
  simp only [hb0, Bool.false_eq_true, if_false]
  -- trace the root
  unfold Ctx.collectLoop
  have hpm : (c.switch .mark).phase = .mark := rfl
  simp only [hpm, faultAt_none, e1]
  have hb1 : c2.debtBreak .payDebt = false := by simp [Ctx.debtBreak, hm1]
  simp only [hb1, Bool.false_eq_true, if_false]
  -- nothing gray
  unfold Ctx.collectLoop
  simp only [hp1, faultAt_none, e2]
  have : Stop.fullyMarked ≤ Stop.fullyMarked := by decide
  simp only [this, if_true]

/-! ### Stepping a self-driven loop by hand -/

theorem debtBreak_false_of_hasDebt {c : Ctx} {ru : RunUntil} (h : c.metrics.hasDebt = true) :
    c.debtBreak ru = false := by
  simp [Ctx.debtBreak, h]

/-- Mark phase, nothing gray, stop beyond `FullyMarked`, still in debt: `b`, `S`, and on. -/
theorem collectLoop_toSweep {c : Ctx} {root ru stop fault fuel hs k}
    (hp : c.phase = .mark) (hg : c.grayRemaining = false) (hstop : ¬ stop ≤ Stop.fullyMarked)
    (hd : (c.step 'b').enterSweep.metrics.hasDebt = true) :
    Ctx.collectLoop root ru stop fault (fuel + 1) c hs k =
      Ctx.collectLoop root ru stop fault fuel (c.step 'b').enterSweep hs k := by
  conv => lhs; unfold Ctx.collectLoop
  simp only [hp, markOne_break _ hg, hstop, if_false, debtBreak_false_of_hasDebt hd,
    Bool.false_eq_true, hg]

/-- Sweep phase, something left, stop beyond `AtSweep`, still in debt afterwards: `x`, and on. -/
theorem collectLoop_sweep_on {c : Ctx} {root ru stop fault fuel hs k}
    (hp : c.phase = .sweep) (hr : c.rest ≠ []) (hstop : ¬ stop ≤ Stop.atSweep)
    (hd : c.sweepOne.1.metrics.hasDebt = true) :
    Ctx.collectLoop root ru stop fault (fuel + 1) c hs k =
      Ctx.collectLoop root ru stop fault fuel c.sweepOne.1 hs k := by
  conv => lhs; unfold Ctx.collectLoop
  simp only [hp, hstop, if_false]
  rw [show c.sweepOne = (c.sweepOne.1, c.sweepOne.2) from rfl, sweepOne_flow hr]
  simp only [debtBreak_false_of_hasDebt hd, Bool.false_eq_true, if_false]

/-- … debt paid afterwards, and something still left to sweep: `x`, and return. -/
theorem collectLoop_sweep_paid {c : Ctx} {root stop fault fuel hs k}
    (hp : c.phase = .sweep) (hr : c.rest ≠ []) (hstop : ¬ stop ≤ Stop.atSweep)
    (hd : c.sweepOne.1.metrics.hasDebt = false) (hr1 : c.sweepOne.1.rest ≠ []) :
    Ctx.collectLoop root .payDebt stop fault (fuel + 1) c hs k = (c.sweepOne.1, .returned) := by
  conv => lhs; unfold Ctx.collectLoop
  simp only [hp, hstop, if_false]
  rw [show c.sweepOne = (c.sweepOne.1, c.sweepOne.2) from rfl, sweepOne_flow hr]
  have hb : c.sweepOne.1.debtBreak .payDebt = true := by
    have : c.sweepOne.1.rest.isEmpty = false := by
      cases hx : c.sweepOne.1.rest with
      | nil => exact absurd hx hr1
      | cons _ _ => rfl
    simp [Ctx.debtBreak, hd, this]
  simp only [hb, if_true]

/-- Entering a call in debt with explicit fuel. -/
theorem doCollection_loop {c : Ctx} {root ru stop fault} (hd : c.metrics.hasDebt = true) :
    c.doCollection root ru stop fault =
      Ctx.collectLoop root ru stop fault (2 * c.fuelBound root + 8) c false 0 := by
  unfold Ctx.doCollection
  simp [hd]

end GcArena
