import GcArena.Model.CollectTy
/-! Helper lemmas for `GcArena.Props.C16`. -/
namespace GcArena.CollectTy

theorem flatMap_congr' {α β} (l : List α) (f g : α → List β) (h : ∀ a, a ∈ l → f a = g a) :
    l.flatMap f = l.flatMap g := by
  induction l with
  | nil => rfl
  | cons a l ih =>
    simp only [List.flatMap_cons]
    rw [h a (by simp), ih (fun b hb => h b (by simp [hb]))]

theorem flatMap_nil' {α β} (l : List α) (f : α → List β) (h : ∀ a, a ∈ l → f a = []) :
    l.flatMap f = [] := by
  induction l with
  | nil => rfl
  | cons a l ih =>
    simp only [List.flatMap_cons]
    rw [h a (by simp), ih (fun b hb => h b (by simp [hb]))]
    rfl

theorem Table.complete_unpack {t : Table} (h : t.complete = true) :
    (∀ en, en ∈ t.entries → en.complete = true) ∧ t.gcLeaf = ⟨true, .traceGc⟩ ∧
    t.weakLeaf = ⟨true, .traceGcWeak⟩ := by
  simp only [Table.complete, Bool.and_eq_true, List.all_eq_true, beq_iff_eq] at h
  obtain ⟨⟨⟨⟨⟨_, h1⟩, h2⟩, h3⟩, _⟩, _⟩ := h
  exact ⟨h1, h2, h3⟩

theorem Table.entry_mem {t : Table} {e : Nat} {en : Entry} (h : t.entry? e = some en) :
    en ∈ t.entries := by
  unfold Table.entry? at h
  exact List.mem_of_getElem? h

theorem Entry.complete_stored {en : Entry} (h : en.complete = true) (k : Nat)
    (hk : k ∈ en.held) :
    (en.traced.contains k = true ∧ (en.constNeeds = true ∨ en.disjuncts.contains k = true)) ∨
      en.isStaticAt k = true := by
  simp only [Entry.complete, Bool.and_eq_true, List.all_eq_true] at h
  have := h.1.1.1.2 k hk
  simp only [Bool.and_eq_true, Bool.or_eq_true, decide_eq_true_eq] at this
  exact this.2

theorem Entry.complete_guard {en : Entry} (h : en.complete = true) (g : List Nat)
    (hg : g ∈ en.guards) (k : Nat) (hk : k ∈ en.held) :
    g.contains k = true ∨ en.isStaticAt k = true := by
  simp only [Entry.complete, Bool.and_eq_true, List.all_eq_true] at h
  have := h.1.1.2 g hg k hk
  simpa only [Bool.or_eq_true] using this

/-- The induction: for every type shape, tracing through the impl reports exactly the contained
pointers; a type claiming `NEEDS_TRACE = false`, or bounded `'static`, contains none. -/
theorem core (t : Table) (hc : t.complete = true) (ty : Ty) :
    ∀ v, HasType t v ty →
      traceBody t ty v = ptrsOf v ∧ (needsTrace t ty = false → ptrsOf v = []) ∧
      (isStatic t ty = true → ptrsOf v = []) := by
  obtain ⟨hent, hgc, hweak⟩ := Table.complete_unpack hc
  induction ty with
  | gc =>
    intro v h
    cases v <;> simp [HasType] at h
    simp [traceBody, ptrsOf, needsTrace, isStatic, hgc]
  | gcWeak =>
    intro v h
    cases v <;> simp [HasType] at h
    simp [traceBody, ptrsOf, needsTrace, isStatic, hweak]
  | prim =>
    intro v h
    cases v <;> simp [HasType] at h
    simp [traceBody, ptrsOf]
  | app e args ih =>
    intro v h
    cases v with
    | gc id => simp [HasType] at h
    | weak id => simp [HasType] at h
    | prim => simp [HasType] at h
    | node len pos elem =>
      simp only [HasType] at h
      obtain ⟨en, hen, hbounds, helems⟩ := h
      have hcomp := hent en (Table.entry_mem hen)
      -- per-element facts
      have hstatic : ∀ j, j < len → en.isStaticAt (pos j) = true → ptrsOf (elem j) = [] := by
        intro j hj hs
        obtain ⟨_, hlt, hty⟩ := helems j hj
        exact (ih (pos j) (elem j) hty).2.2 (hbounds (pos j) hs hlt)
      refine ⟨?_, ?_, ?_⟩
      · -- traceBody = ptrsOf
        simp only [traceBody, hen, ptrsOf]
        split
        · apply flatMap_congr'
          intro j hj
          have hj' : j < len := by simpa using hj
          obtain ⟨hst, hlt, hty⟩ := helems j hj'
          obtain ⟨ihb, ihn, _⟩ := ih (pos j) (elem j) hty
          by_cases htr : en.traced.contains (pos j) = true
          · simp only [htr, if_true]
            split
            · exact ihb
            · rename_i hno
              simp only [Bool.or_eq_true, not_or, Bool.not_eq_true] at hno
              exact (ihn hno.2).symm
          · simp only [htr]
            rcases Entry.complete_stored hcomp (pos j) hst with ⟨h1, _⟩ | hs
            · exact absurd h1 htr
            · simpa using (hstatic j hj' hs).symm
        · rename_i hg
          -- some guard fails: every element is pointer-free
          rw [Bool.not_eq_true, List.all_eq_false] at hg
          obtain ⟨g, hgm, hgf⟩ := hg
          symm
          apply flatMap_nil'
          intro j hj
          have hj' : j < len := by simpa using hj
          obtain ⟨hst, hlt, hty⟩ := helems j hj'
          rcases Entry.complete_guard hcomp g hgm (pos j) hst with hin | hs
          · have hn : needsTrace t (args (pos j)) = false := by
              cases hnt : needsTrace t (args (pos j)) with
              | false => rfl
              | true =>
                exfalso
                apply hgf
                rw [List.any_eq_true]
                exact ⟨pos j, by simpa using hin, hnt⟩
            exact (ih (pos j) (elem j) hty).2.1 hn
          · exact hstatic j hj' hs
      · -- NEEDS_TRACE = false ⇒ no pointers
        intro hn
        simp only [needsTrace, hen, Bool.or_eq_false_iff, List.any_eq_false] at hn
        simp only [ptrsOf]
        apply flatMap_nil'
        intro j hj
        have hj' : j < len := by simpa using hj
        obtain ⟨hst, hlt, hty⟩ := helems j hj'
        rcases Entry.complete_stored hcomp (pos j) hst with ⟨_, hd⟩ | hs
        · rcases hd with hd | hd
          · rw [hn.1] at hd; cases hd
          · have := hn.2 (pos j) (by simpa using hd)
            exact (ih (pos j) (elem j) hty).2.1 (by simpa using this)
        · exact hstatic j hj' hs
      · -- 'static ⇒ no pointers
        intro hs
        simp only [isStatic, hen, List.all_eq_true] at hs
        simp only [ptrsOf]
        apply flatMap_nil'
        intro j hj
        have hj' : j < len := by simpa using hj
        obtain ⟨hst, hlt, hty⟩ := helems j hj'
        exact (ih (pos j) (elem j) hty).2.2 (hs (pos j) (by simpa using hlt))

/-- A `'static` type contains no arena pointer, whatever the table (no completeness needed). -/
theorem static_no_ptrs (t : Table) (ty : Ty) :
    ∀ v, HasType t v ty → isStatic t ty = true → ptrsOf v = [] := by
  induction ty with
  | gc => intro v _ hs; simp [isStatic] at hs
  | gcWeak => intro v _ hs; simp [isStatic] at hs
  | prim =>
    intro v h _
    cases v <;> simp [HasType] at h
    simp [ptrsOf]
  | app e args ih =>
    intro v h hs
    cases v with
    | gc id => simp [HasType] at h
    | weak id => simp [HasType] at h
    | prim => simp [HasType] at h
    | node len pos elem =>
      simp only [HasType] at h
      obtain ⟨en, hen, _, helems⟩ := h
      simp only [isStatic, hen, List.all_eq_true] at hs
      simp only [ptrsOf]
      apply flatMap_nil'
      intro j hj
      have hj' : j < len := by simpa using hj
      obtain ⟨_, hlt, hty⟩ := helems j hj'
      exact ih (pos j) (elem j) hty (hs (pos j) (by simpa using hlt))

theorem Entry.untraced_held {en : Entry} (h : en.untracedStatic = true) (k : Nat) (hk : k ∈ en.held)
    (hnt : en.traced.contains k = false) : en.isStaticAt k = true := by
  simp only [Entry.untracedStatic, Bool.and_eq_true, List.all_eq_true] at h
  have := h.1.1 k hk
  simp only [Bool.or_eq_true] at this
  rcases this with h1 | h1
  · rw [hnt] at h1; cases h1
  · exact h1

theorem Table.untraced_unpack {t : Table} (h : t.untracedStatic = true) {e : Nat} {en : Entry}
    (he : t.entry? e = some en) : en.untracedStatic = true := by
  simp only [Table.untracedStatic, List.all_eq_true] at h
  exact h en (Table.entry_mem he)

/-- Components a `trace` does not visit are `'static` and pointer-free (used by `Props/C16` and
`Props/C12s`). -/
theorem no_hidden_brand (t : Table) (hu : t.untracedStatic = true) (e : Nat) (en : Entry)
    (he : t.entry? e = some en) (args : Nat → Ty) (len : Nat) (pos : Nat → Nat) (elem : Nat → Val)
    (h : HasType t (.node len pos elem) (.app e args)) (j : Nat) (hj : j < len)
    (hnt : en.traced.contains (pos j) = false) :
    isStatic t (args (pos j)) = true ∧ ptrsOf (elem j) = [] := by
  simp only [HasType] at h
  obtain ⟨en', hen', hbounds, helems⟩ := h
  rw [he] at hen'
  cases hen'
  obtain ⟨hheld, hlt, hty⟩ := helems j hj
  have hs := Entry.untraced_held (Table.untraced_unpack hu he) (pos j) hheld hnt
  have hst := hbounds (pos j) hs hlt
  exact ⟨hst, static_no_ptrs t _ _ hty hst⟩

/-! ## Tables extended by further impls (client instantiations of the exported macros) -/

/-- The table with further entries appended (the existing entry numbers keep their meaning). -/
def Table.extend (t : Table) (es : List Entry) : Table := { t with entries := t.entries ++ es }

theorem Table.extend_complete (t : Table) (es : List Entry) (ht : t.complete = true)
    (hes : ∀ e, e ∈ es → e.complete = true) : (t.extend es).complete = true := by
  simp only [Table.complete, Table.extend, Bool.and_eq_true, List.all_eq_true, List.mem_append] at ht ⊢
  obtain ⟨⟨⟨⟨⟨h0, h1⟩, h2⟩, h3⟩, h4⟩, h5⟩ := ht
  refine ⟨⟨⟨⟨⟨h0, ?_⟩, h2⟩, h3⟩, h4⟩, h5⟩
  intro e he
  rcases he with he | he
  · exact h1 e he
  · exact hes e he

theorem Table.extend_untracedStatic (t : Table) (es : List Entry) (ht : t.untracedStatic = true)
    (hes : ∀ e, e ∈ es → e.untracedStatic = true) : (t.extend es).untracedStatic = true := by
  simp only [Table.untracedStatic, Table.extend, List.all_eq_true, List.mem_append] at ht ⊢
  intro e he
  rcases he with he | he
  · exact ht e he
  · exact hes e he

/-! Small tables / types / values used by the non-vacuity examples of `Props/C16`. -/
namespace Example

def hm (disj traced : List Nat) : Entry :=
  { shape := .hashMap, text := "HashMap<K, V, S>", nparams := 3, constNeeds := false,
    disjuncts := disj, traced := traced, direct := [], guards := [], staticParams := [2],
    selfStatic := false, ptrFields := [], tracedFields := [], params := [], fieldParams := [],
    freeLifetimes := [], gate := "" }

/-- `unsafe impl<'gc, K, V, S> Collect<'gc> for HashMap<K, V, S> where K: Collect<'gc>,
V: Collect<'gc>, S: 'static` as extracted, with its per-parameter roles. -/
def hmCurrent : Entry :=
  { hm [0, 1] [0, 1] with
    params := [⟨"K", 0, .traced⟩, ⟨"V", 1, .traced⟩, ⟨"S", 2, .static⟩] }

/-- The same impl with `S: 'gc`: the hasher state is neither traced nor `'static`. -/
def hmMutant : Entry :=
  { hm [0, 1] [0, 1] with
    staticParams := [], params := [⟨"K", 0, .traced⟩, ⟨"V", 1, .traced⟩, ⟨"S", 2, .unbounded⟩] }

/-- `HashMap<u8, u8, Hasher<'gc>>` whose hasher state holds a `Gc<'gc, _>` (object 5). -/
def brandedHasher : Ty := .app 0 (fun k => if k = 2 then .gc else .prim)
def hasherHolds : Val := .node 1 (fun _ => 2) (fun _ => .gc 5)

def mini (e : Entry) : Table :=
  { entries := [e], gcLeaf := ⟨true, .traceGc⟩, weakLeaf := ⟨true, .traceGcWeak⟩,
    dynForward := ⟨false, false, false, false⟩, traceShortCircuit := true, unclassified := [] }

def keyOnly : Ty := .app 0 (fun k => if k = 0 then .gc else .prim)      -- HashMap<Gc, u8, S>
def weakVal : Ty := .app 0 (fun k => if k = 1 then .gcWeak else .prim)  -- HashMap<u8, GcWeak, S>
def oneKey : Val := .node 2 (fun j => j) (fun j => if j = 0 then .gc 5 else .prim)
def oneWeak : Val := .node 2 (fun j => j) (fun j => if j = 1 then .weak 9 else .prim)

end Example

end GcArena.CollectTy
