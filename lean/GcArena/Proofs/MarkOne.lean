import GcArena.Proofs.MarkPrims
import GcArena.Proofs.Congr
import GcArena.Proofs.Basic
/-!
  `make_gray_again`, `resurrect`, the slot loop of `Collect::trace`, and `Context::mark_one`
  (including a `trace` that unwinds after `j` slots) preserve the invariant.
-/
namespace GcArena

/-- Tracing never changes an object that is already gray or black. -/
def KeepMarked (c c' : Ctx) : Prop :=
  ∀ i o, c.heap.get i = some o → (o.color = .gray ∨ o.color = .black) → c'.heap.get i = some o

theorem KeepMarked.refl (c : Ctx) : KeepMarked c c := fun _ _ h _ => h

theorem KeepMarked.trans {a b c : Ctx} (h1 : KeepMarked a b) (h2 : KeepMarked b c) : KeepMarked a c :=
  fun i o ho hc => h2 i o (h1 i o ho hc) hc

theorem Recolored.keepMarked {c c' t o col} (r : Recolored c c' t o col)
    (hoc : ¬ (o.color = .gray ∨ o.color = .black)) : KeepMarked c c' := by
  intro i oi hoi hc
  rw [r.heap]
  by_cases hi : i = t
  · subst hi; rw [r.get_t] at hoi; cases hoi; exact absurd hc hoc
  · simp [hi, hoi]

theorem traceWeak_keep {c : Ctx} (t : Nat) : KeepMarked c (c.traceWeak t) := by
  intro i oi hoi hc
  by_cases hi : i = t
  · subst hi
    have : oi.color ≠ .white := by rcases hc with h | h <;> simp [h]
    simp [Ctx.traceWeak, hoi, this]
  · rw [Ctx.traceWeak_frame c t i hi]; exact hoi

theorem trace_keep {c : Ctx} (t : Nat) : KeepMarked c (c.trace t) := by
  intro i oi hoi hc
  by_cases hi : i = t
  · subst hi
    rcases hc with hc | hc <;> simp [Ctx.trace, hc, hoi]
  · rw [Ctx.trace_frame c t i hi]; exact hoi

/-! ### `Context::make_gray_again` -/

theorem makeGrayAgain_spec {c : Ctx} {root temps hole} (h : CInvH c root temps hole) (hm : c.phase = .mark)
    {t : Nat} {o : Obj} (ho : c.heap.get t = some o) (hb : o.color = .black) :
    CInvH (c.makeGrayAgain t) root temps hole ∧ MarkMono c (c.makeGrayAgain t) ∧
      (∃ o', (c.makeGrayAgain t).heap.get t = some o' ∧ o'.color = .gray) := by
  have r : Recolored c (c.makeGrayAgain t) t o .gray := by
    constructor <;> simp [Ctx.makeGrayAgain, Ctx.setObj, Heap.get_set, Metrics.markGcUntraced, ho, hb]
  have hlive := h.markedLive t o ho (Or.inr hb)
  refine ⟨?_, r.markMono (by simp [hb, cls]) ?_, ⟨{ o with color := .gray }, by rw [r.heap]; simp, rfl⟩⟩
  · apply h.recolor_pushAgain hm r hlive
    · simp [Ctx.makeGrayAgain, Ctx.setObj, ho, hb]
    · simp [Ctx.makeGrayAgain, Ctx.setObj, ho, hb]
    · simp [hb]
  · simp [Ctx.makeGrayAgain, Ctx.setObj, ho, hb]

/-! ### `Context::resurrect` -/

theorem resurrect_spec {c : Ctx} {root temps hole} (h : CInvH c root temps hole) (hm : c.phase = .mark)
    {t : Nat} (ht : Safe c t) :
    CInvH (c.resurrect t) root temps hole ∧ MarkMono c (c.resurrect t) ∧
      PtrMarked (c.resurrect t) (.strong t) := by
  obtain ⟨o, ho, hlive, _⟩ := ht
  by_cases hmk : o.color = .gray ∨ o.color = .black
  · have : c.resurrect t = c := by
      rcases hmk with hc | hc <;> simp [Ctx.resurrect, ho, hc, hm, hlive]
    rw [this]
    exact ⟨h, MarkMono.refl c, o, ho, hmk⟩
  · have hng : o.color ≠ .gray := fun hc => hmk (Or.inl hc)
    have r : Recolored c (c.resurrect t) t o .gray := by
      constructor <;> (cases hcol : o.color <;>
        simp_all [Ctx.resurrect, Ctx.setObj, Ctx.withMetrics, Heap.get_set, Metrics.markGcMarked])
    refine ⟨?_, r.markMono (by cases hcol : o.color <;> simp [cls]) ?_, ?_⟩
    · apply h.recolor_push hm r hlive _ _ hng
      · cases hcol : o.color <;> simp_all [Ctx.resurrect, Ctx.setObj, Ctx.withMetrics]
      · cases hcol : o.color <;> simp_all [Ctx.resurrect, Ctx.setObj, Ctx.withMetrics]
    · cases hcol : o.color <;> simp_all [Ctx.resurrect, Ctx.setObj, Ctx.withMetrics]
    · exact ⟨{ o with color := .gray }, by rw [r.heap]; simp, by simp⟩

/-! ### The slot loop of a value's `Collect::trace` -/

theorem MarkMono.ptrOK {c c' : Ctx} (h : MarkMono c c') (hm : c.phase = .mark) {p : Ptr}
    (hp : PtrOK c p) : PtrOK c' p := by
  cases p with
  | strong t => exact h.safe hm hp
  | weak t =>
    obtain ⟨o, ho, _⟩ := hp
    obtain ⟨o', ho', _⟩ := h.mono t o ho
    refine ⟨o', ho', ?_⟩
    intro hp'; rw [h.phase, hm] at hp'; cases hp'

theorem traceSlot_spec {c : Ctx} {root temps hole} (h : CInvH c root temps hole) (hm : c.phase = .mark)
    {s : Slot} (hs : ∀ p, s = some p → PtrOK c p) :
    CInvH (c.traceSlot s) root temps hole ∧ MarkMono c (c.traceSlot s) ∧ KeepMarked c (c.traceSlot s) ∧
      (∀ p, s = some p → PtrMarked (c.traceSlot s) p) := by
  cases s with
  | none => exact ⟨h, MarkMono.refl c, KeepMarked.refl c, fun _ hp => by cases hp⟩
  | some p =>
    cases p with
    | strong t =>
      obtain ⟨h1, h2, h3⟩ := trace_spec h hm (hs _ rfl)
      exact ⟨h1, h2, trace_keep t, fun p hp => by cases hp; exact h3⟩
    | weak t =>
      have : ∃ o, c.heap.get t = some o := by
        obtain ⟨o, ho, _⟩ := hs _ rfl; exact ⟨o, ho⟩
      obtain ⟨h1, h2, h3⟩ := traceWeak_spec h hm this
      exact ⟨h1, h2, traceWeak_keep t, fun p hp => by cases hp; exact h3⟩

theorem traceSlots_spec {root temps hole} (ss : List Slot) :
    ∀ {c : Ctx}, CInvH c root temps hole → c.phase = .mark → (∀ p, some p ∈ ss → PtrOK c p) →
      CInvH (c.traceSlots ss) root temps hole ∧ MarkMono c (c.traceSlots ss) ∧
      KeepMarked c (c.traceSlots ss) ∧ (∀ p, some p ∈ ss → PtrMarked (c.traceSlots ss) p) := by
  induction ss with
  | nil => intro c h _ _; exact ⟨h, MarkMono.refl c, KeepMarked.refl c, fun _ hp => by cases hp⟩
  | cons s ss ih =>
    intro c h hm hs
    obtain ⟨h1, m1, k1, p1⟩ := traceSlot_spec (s := s) h hm (fun p hp => hs p (by simp [hp]))
    have hm1 : (c.traceSlot s).phase = .mark := by rw [m1.phase]; exact hm
    obtain ⟨h2, m2, k2, p2⟩ := ih h1 hm1
      (fun p hp => m1.ptrOK hm (hs p (List.mem_cons_of_mem _ hp)))
    refine ⟨h2, m1.trans m2, k1.trans k2, ?_⟩
    intro p hp
    simp only [List.mem_cons] at hp
    rcases hp with hp | hp
    · exact m2.marked (p1 p hp.symm)
    · exact p2 p hp

/-! ### Closing the hole -/

theorem CInvH.fill {c : Ctx} {root temps} {i : Nat} (h : CInvH c root temps (some i))
    (hi : c.phase = .mark → ∀ o, c.heap.get i = some o → o.color = .black →
      ∀ p, some p ∈ o.slots → PtrMarked c p) : CInvH c root temps none := by
  refine { h with tri := ?_ }
  intro hm j o ho hb _ p hp
  by_cases hj : j = i
  · subst hj; exact hi hm o ho hb p hp
  · exact h.tri hm j o ho hb (by simpa using hj) p hp

theorem CInvH.open_ {c : Ctx} {root temps} (h : CInvH c root temps none) (i : Nat) :
    CInvH c root temps (some i) := by
  refine { h with tri := ?_ }
  intro hm j o ho hb _ p hp
  exact h.tri hm j o ho hb (by simp) p hp

end GcArena

namespace GcArena

/-- Changing `root_needs_trace` in the mark phase. -/
theorem CInvH.setRnt {c : Ctx} {root temps hole} (h : CInvH c root temps hole) (hm : c.phase = .mark)
    (b : Bool) (hb : b = false → ∀ p, some p ∈ root → PtrMarked c p) :
    CInvH { c with rootNeedsTrace := b } root temps hole := by
  constructor
  · exact h.noErr
  · exact h.noUnderflow
  · exact h.notDrop
  · exact h.nodup
  · exact h.memAll
  · exact h.restNil
  · exact h.count
  · exact h.grayQ
  · exact h.qGray
  · exact h.qNodup
  · exact h.qMark
  · exact h.sleepWhite
  · intro hp; simp only at hp; rw [hm] at hp; cases hp
  · intro hp; simp only at hp; rw [hm] at hp; cases hp
  · exact h.preWhite
  · exact h.markedLive
  · exact h.deadNoSlots
  · exact h.leafNoPtr
  · exact h.tri
  · intro _ hr p hp; exact hb hr p hp
  · exact h.closed
  · exact h.rootOK
  · exact h.tempsOK

/-- What every `mark_one` / barrier step keeps fixed. -/
structure MarkFrame (c c' : Ctx) : Prop where
  phase : c'.phase = c.phase
  pre : c'.pre = c.pre
  rest : c'.rest = c.rest
  log : c'.log = c.log
  alloc : ∀ i, (∃ o, c'.heap.get i = some o) ↔ (∃ o, c.heap.get i = some o)
  live : ∀ i o o', c.heap.get i = some o → c'.heap.get i = some o' →
    o'.live = o.live ∧ o'.slots = o.slots ∧ o'.needsTrace = o.needsTrace

theorem MarkMono.frame {c c' : Ctx} (m : MarkMono c c') : MarkFrame c c' := by
  refine ⟨m.phase, m.pre, m.rest, m.log, ?_, ?_⟩
  · intro i
    constructor
    · rintro ⟨o', ho'⟩; exact m.noNew i o' ho'
    · rintro ⟨o, ho⟩; obtain ⟨o', ho', _⟩ := m.mono i o ho; exact ⟨o', ho'⟩
  · intro i o o' ho ho'
    obtain ⟨o2, ho2, _, hs, hl, hn⟩ := m.mono i o ho
    rw [ho'] at ho2; cases ho2
    exact ⟨hl, hs, hn⟩

theorem MarkFrame.refl (c : Ctx) : MarkFrame c c :=
  ⟨rfl, rfl, rfl, rfl, fun _ => Iff.rfl, fun _ o o' h h' => by rw [h] at h'; cases h'; exact ⟨rfl, rfl, rfl⟩⟩

theorem MarkFrame.trans {a b c : Ctx} (h1 : MarkFrame a b) (h2 : MarkFrame b c) : MarkFrame a c := by
  refine ⟨h2.phase.trans h1.phase, h2.pre.trans h1.pre, h2.rest.trans h1.rest, h2.log.trans h1.log, ?_, ?_⟩
  · intro i; exact (h2.alloc i).trans (h1.alloc i)
  · intro i o o' ho ho'
    obtain ⟨ob, hob⟩ := (h1.alloc i).mpr ⟨o, ho⟩
    obtain ⟨l1, s1, n1⟩ := h1.live i o ob ho hob
    obtain ⟨l2, s2, n2⟩ := h2.live i ob o' hob ho'
    exact ⟨l2.trans l1, s2.trans s1, n2.trans n1⟩

theorem SameView.markFrame {c c' : Ctx} (s : SameView c c') (hlog : c'.log = c.log) : MarkFrame c c' := by
  refine ⟨s.phase, s.pre, s.rest, hlog, ?_, ?_⟩
  · intro i; rw [s.heap]
  · intro i o o' ho ho'; rw [s.heap, ho] at ho'; cases ho'; exact ⟨rfl, rfl, rfl⟩

/-- The "an object was popped" arm of `mark_one`: `c0` is `c` with `i` removed from the queues. -/
theorem markObj_spec {c c0 : Ctx} {root temps} (h : CInv c root temps) (hm : c.phase = .mark)
    {i : Nat} (hi : i ∈ c.gray ∨ i ∈ c.grayAgain)
    (hq0 : ∀ j, (j ∈ c0.gray ∨ j ∈ c0.grayAgain) ↔ (j ≠ i ∧ (j ∈ c.gray ∨ j ∈ c.grayAgain)))
    (hnd : (c0.gray ++ c0.grayAgain).Nodup)
    (hphase : c0.phase = c.phase) (hheap : c0.heap = c.heap) (hpre : c0.pre = c.pre)
    (hrest : c0.rest = c.rest) (hrnt : c0.rootNeedsTrace = c.rootNeedsTrace) (herr : c0.err = c.err)
    (hmet : c0.metrics = c.metrics) (hlog : c0.log = c.log) (fault : Option Nat) :
    CInv (c0.markObj i fault).1 root temps ∧ MarkFrame c (c0.markObj i fault).1 := by
  obtain ⟨o, ho, hg⟩ := h.qGray i hi
  have hlive := h.markedLive i o ho (Or.inl hg)
  have ho0 : c0.heap.get i = some o := by rw [hheap]; exact ho
  -- the state after popping and blackening
  let c2 : Ctx := (c0.withMetrics Metrics.markGcTraced).setObj i { o with color := .black }
  have r : Recolored c c2 i o .black := by
    constructor <;> simp [c2, Metrics.markGcTraced, ho, hheap, hphase, hpre, hrest, hrnt, herr, hmet]
  have hcls : cls o.color ≤ cls Color.black := by simp [hg, cls]
  have h2 : CInvH c2 root temps (some i) := by
    apply (h.open_ i).recolor hm r hcls (fun _ => hlive)
    · intro j
      simp only [c2, Ctx.setObj_gray, Ctx.setObj_grayAgain, Ctx.withMetrics_gray, Ctx.withMetrics_grayAgain]
      rw [hq0]
      constructor
      · intro hj; exact Or.inl hj
      · rintro (hj | ⟨_, hc⟩)
        · exact hj
        · cases hc
    · exact hnd
    · intro _ hne; exact absurd rfl hne
  have hm2 : c2.phase = .mark := by rw [r.phase]; exact hm
  have hsafe : Safe c i := ⟨o, ho, hlive, fun hp => by rw [hm] at hp; cases hp⟩
  have hslots : ∀ p, some p ∈ o.slots → PtrOK c2 p := fun p hp =>
    (r.ptrOK_iff hm p).mpr (h.closed i o ho hsafe p hp)
  have hgi2 : c2.heap.get i = some { o with color := .black } := by rw [r.heap]; simp
  have hmm2 : MarkMono c c2 := r.markMono hcls (by simp [c2, hlog])
  have hdef : c0.markObj i fault =
      match fault with
      | none => (c2.traceSlots o.slots, Flow.continue)
      | some j => ((c2.traceSlots (o.slots.take j)).makeGrayAgain i, Flow.unwind) := by
    unfold Ctx.markObj
    simp only [Ctx.withMetrics_heap, ho0]
    rw [if_pos hlive]
    cases fault <;> rfl
  rw [hdef]
  cases fault with
  | none =>
    simp only
    obtain ⟨h3, m3, k3, p3⟩ := traceSlots_spec o.slots h2 hm2 hslots
    refine ⟨?_, (hmm2.trans m3).frame⟩
    apply h3.fill
    intro _ o3 ho3 _ p hp
    have := k3 i _ hgi2 (Or.inr rfl)
    rw [this] at ho3; cases ho3
    exact p3 p hp
  | some j =>
    simp only
    have hsl : ∀ p, some p ∈ o.slots.take j → PtrOK c2 p :=
      fun p hp => hslots p (List.mem_of_mem_take hp)
    obtain ⟨h3, m3, k3, _⟩ := traceSlots_spec (o.slots.take j) h2 hm2 hsl
    have hgi3 := k3 i _ hgi2 (Or.inr rfl)
    have hm3 : (c2.traceSlots (o.slots.take j)).phase = .mark := by rw [m3.phase]; exact hm2
    obtain ⟨h4, m4, o4, ho4, hc4⟩ := makeGrayAgain_spec h3 hm3 hgi3 rfl
    refine ⟨?_, ((hmm2.trans m3).trans m4).frame⟩
    apply h4.fill
    intro _ o5 ho5 hb
    rw [ho4] at ho5; cases ho5; rw [hc4] at hb; cases hb

end GcArena

namespace GcArena

/-- `Context::mark_one` preserves the invariant (including when the traced value's `trace`
    unwinds after `j` slots), releases nothing and moves no object in the list. -/
theorem markOne_spec {c : Ctx} {root temps} (h : CInv c root temps) (hm : c.phase = .mark)
    (fault : Option Nat) :
    CInv (c.markOne root fault).1 root temps ∧ MarkFrame c (c.markOne root fault).1 := by
  unfold Ctx.markOne
  cases hgq : c.gray with
  | cons i g =>
    simp only
    have hnd := h.qNodup
    rw [hgq] at hnd
    simp only [List.cons_append, List.nodup_cons, List.mem_append] at hnd
    apply markObj_spec h hm (i := i) (by rw [hgq]; simp)
    · intro j
      simp only [Ctx.step_gray, Ctx.step_grayAgain, hgq, List.mem_cons]
      constructor
      · rintro (hj | hj)
        · exact ⟨fun he => by subst he; exact hnd.1 (Or.inl hj), Or.inl (Or.inr hj)⟩
        · exact ⟨fun he => by subst he; exact hnd.1 (Or.inr hj), Or.inr hj⟩
      · rintro ⟨hne, (hj | hj) | hj⟩
        · exact absurd hj hne
        · exact Or.inl hj
        · exact Or.inr hj
    · simpa using hnd.2
    all_goals rfl
  | nil =>
    simp only
    cases hga : c.grayAgain with
    | cons i g =>
      simp only
      have hnd := h.qNodup
      rw [hgq, hga] at hnd
      simp only [List.nil_append, List.nodup_cons] at hnd
      apply markObj_spec h hm (i := i) (by rw [hga]; simp)
      · intro j
        simp only [Ctx.step_gray, Ctx.step_grayAgain, hgq, hga, List.mem_cons, List.not_mem_nil, false_or]
        constructor
        · intro hj
          exact ⟨fun he => by subst he; exact hnd.1 hj, Or.inr hj⟩
        · rintro ⟨hne, hj | hj⟩
          · exact absurd hj hne
          · exact hj
      · simpa [hgq] using hnd.2
      all_goals rfl
    | nil =>
      simp only
      have hs : CInv (c.step 'r') root temps := h.sameView (sameView_step c 'r')
      have hms : (c.step 'r').phase = .mark := hm
      split
      · -- the root is traced
        cases fault with
        | none =>
          simp only
          obtain ⟨h3, m3, _, p3⟩ := traceSlots_spec root hs hms (fun p hp => hs.rootOK p hp)
          have hm3 : ((c.step 'r').traceSlots root).phase = .mark := by rw [m3.phase]; exact hms
          refine ⟨h3.setRnt hm3 false (fun _ => p3), ?_⟩
          have f3 := m3.frame
          exact ⟨f3.phase, f3.pre, f3.rest, f3.log, f3.alloc, f3.live⟩
        | some j =>
          simp only
          obtain ⟨h3, m3, _, _⟩ := traceSlots_spec (root.take j) hs hms
            (fun p hp => hs.rootOK p (List.mem_of_mem_take hp))
          have f3 := m3.frame
          exact ⟨h3, ⟨f3.phase, f3.pre, f3.rest, f3.log, f3.alloc, f3.live⟩⟩
      · exact ⟨h.sameView (sameView_step c 'b'), (sameView_step c 'b').markFrame rfl⟩

end GcArena
