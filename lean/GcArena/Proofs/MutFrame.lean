import GcArena.Proofs.RunBridge
import GcArena.Proofs.GrayMono
/-!
  What mutator operations can do to the heap, without any invariant: every primitive of
  src/context.rs that a callback can reach (`trace`, `trace_weak`, `make_gray_again`, the four
  barriers, `resurrect`, `upgrade`, the root barrier, slot stores, `link`) leaves the step log and
  the sweep list alone, never changes liveness, and recolours — upward in the marking order
  white < white-weak < gray/black — only objects it was handed a pointer to.
-/
namespace GcArena

/-- `c'` is `c` with some objects satisfying `T` recoloured upward; step log and sweep list equal. -/
structure Recol (T : Nat → Prop) (c c' : Ctx) : Prop where
  steps : c'.steps = c.steps
  rest : c'.rest = c.rest
  keep : ∀ j o, c.heap.get j = some o → ∃ o', c'.heap.get j = some o' ∧ o'.live = o.live ∧
    o'.slots = o.slots ∧ o'.needsTrace = o.needsTrace ∧ cls o.color ≤ cls o'.color ∧ (¬ T j → o' = o)
  noNew : ∀ j o', c'.heap.get j = some o' → ∃ o, c.heap.get j = some o

theorem Recol.ofSame {T} {c c' : Ctx} (steps : c'.steps = c.steps) (rest : c'.rest = c.rest)
    (heap : ∀ j, c'.heap.get j = c.heap.get j) : Recol T c c' :=
  ⟨steps, rest, fun j o ho => ⟨o, by rw [heap]; exact ho, rfl, rfl, rfl, Nat.le_refl _, fun _ => rfl⟩,
   fun j o' ho' => ⟨o', by rw [← heap]; exact ho'⟩⟩

theorem Recol.refl {T} (c : Ctx) : Recol T c c := Recol.ofSame rfl rfl (fun _ => rfl)

theorem Recol.trans {T} {a b c : Ctx} (h1 : Recol T a b) (h2 : Recol T b c) : Recol T a c := by
  refine ⟨h2.steps.trans h1.steps, h2.rest.trans h1.rest, ?_, ?_⟩
  · intro j o ho
    obtain ⟨o1, ho1, l1, s1, n1, c1, u1⟩ := h1.keep j o ho
    obtain ⟨o2, ho2, l2, s2, n2, c2, u2⟩ := h2.keep j o1 ho1
    exact ⟨o2, ho2, l2.trans l1, s2.trans s1, n2.trans n1, Nat.le_trans c1 c2,
      fun hT => (u2 hT).trans (u1 hT)⟩
  · intro j o2 ho2
    obtain ⟨o1, ho1⟩ := h2.noNew j o2 ho2
    exact h1.noNew j o1 ho1

theorem Recol.mono {T T' : Nat → Prop} {c c' : Ctx} (h : Recol T c c') (hT : ∀ j, T j → T' j) :
    Recol T' c c' :=
  ⟨h.steps, h.rest, fun j o ho => by
    obtain ⟨o', ho', l, s, n, cl, u⟩ := h.keep j o ho
    exact ⟨o', ho', l, s, n, cl, fun hn => u (fun ht => hn (hT j ht))⟩, h.noNew⟩

theorem recol_fail {T} (c : Ctx) (f : Fault) : Recol T c (c.fail f) :=
  Recol.ofSame (Ctx.fail_steps c f) (Ctx.fail_rest c f) (fun _ => by rw [Ctx.fail_heap])

/-- Recolouring one object (plus any bookkeeping that leaves heap, steps and sweep list alone). -/
theorem Recol.ofRecolor {T} {c c' : Ctx} {t : Nat} {o : Obj} {col : Color} (ho : c.heap.get t = some o)
    (hT : T t) (hcls : cls o.color ≤ cls col) (steps : c'.steps = c.steps) (rest : c'.rest = c.rest)
    (heap : ∀ j, c'.heap.get j = if j = t then some { o with color := col } else c.heap.get j) :
    Recol T c c' := by
  refine ⟨steps, rest, ?_, ?_⟩
  · intro j oj hoj
    by_cases hj : j = t
    · subst hj
      rw [ho] at hoj; cases hoj
      exact ⟨{ o with color := col }, by rw [heap]; simp, rfl, rfl, rfl, hcls, fun hn => absurd hT hn⟩
    · exact ⟨oj, by rw [heap]; simp [hj, hoj], rfl, rfl, rfl, Nat.le_refl _, fun _ => rfl⟩
  · intro j o' ho'
    rw [heap] at ho'
    by_cases hj : j = t
    · subst hj; exact ⟨o, ho⟩
    · simp only [hj, if_false] at ho'; exact ⟨o', ho'⟩

theorem recol_trace {T} (c : Ctx) (t : Nat) (hT : T t) : Recol T c (c.trace t) := by
  cases ho : c.heap.get t with
  | none =>
    have : c.trace t = c.fail .dangling := by simp [Ctx.trace, ho]
    rw [this]; exact recol_fail _ _
  | some o =>
    by_cases hmk : o.color = .gray ∨ o.color = .black
    · have : c.trace t = c := by rcases hmk with h | h <;> simp [Ctx.trace, ho, h]
      rw [this]; exact Recol.refl c
    · by_cases hnt : o.needsTrace = true
      · refine Recol.ofRecolor (col := .gray) ho hT (by cases hc : o.color <;> simp [cls])
          (trace_steps c t) (Ctx.trace_rest c t) ?_
        intro j
        cases hc : o.color <;> cases hl : o.live <;>
          simp_all [Ctx.trace, Ctx.setObj, Ctx.withMetrics, Heap.get_set]
      · refine Recol.ofRecolor (col := .black) ho hT (by cases hc : o.color <;> simp [cls])
          (trace_steps c t) (Ctx.trace_rest c t) ?_
        intro j
        cases hc : o.color <;> simp_all [Ctx.trace, Ctx.setObj, Ctx.withMetrics, Heap.get_set]

theorem recol_traceWeak {T} (c : Ctx) (t : Nat) (hT : T t) : Recol T c (c.traceWeak t) := by
  cases ho : c.heap.get t with
  | none =>
    have : c.traceWeak t = c.fail .dangling := by simp [Ctx.traceWeak, ho]
    rw [this]; exact recol_fail _ _
  | some o =>
    by_cases hw : o.color = .white
    · refine Recol.ofRecolor (col := .whiteWeak) ho hT (by simp [hw, cls])
        (traceWeak_steps c t) (Ctx.traceWeak_rest c t) ?_
      intro j
      simp [Ctx.traceWeak, ho, hw, Ctx.setObj, Ctx.withMetrics, Heap.get_set]
    · have : c.traceWeak t = c := by simp [Ctx.traceWeak, ho, hw]
      rw [this]; exact Recol.refl c

theorem makeGrayAgain_rest (c : Ctx) (t : Nat) : (c.makeGrayAgain t).rest = c.rest := by
  unfold Ctx.makeGrayAgain
  split
  · simp
  · simp only; split <;> simp

theorem recol_makeGrayAgain {T} (c : Ctx) (t : Nat) (hT : T t) : Recol T c (c.makeGrayAgain t) := by
  cases ho : c.heap.get t with
  | none =>
    have : c.makeGrayAgain t = c.fail .dangling := by simp [Ctx.makeGrayAgain, ho]
    rw [this]; exact recol_fail _ _
  | some o =>
    refine Recol.ofRecolor (col := .gray) ho hT (by cases hc : o.color <;> simp [cls])
      (makeGrayAgain_steps c t) (makeGrayAgain_rest c t) ?_
    intro j
    by_cases hb : o.color = .black <;> simp [Ctx.makeGrayAgain, ho, hb, Ctx.setObj, Heap.get_set]

theorem resurrect_steps (c : Ctx) (t : Nat) : (c.resurrect t).steps = c.steps := by
  unfold Ctx.resurrect
  split
  · simp
  · simp only
    (repeat' split) <;> simp

theorem resurrect_rest (c : Ctx) (t : Nat) : (c.resurrect t).rest = c.rest := by
  unfold Ctx.resurrect
  split
  · simp
  · simp only
    (repeat' split) <;> simp

theorem recol_resurrect {T} (c : Ctx) (t : Nat) (hT : T t) : Recol T c (c.resurrect t) := by
  cases ho : c.heap.get t with
  | none =>
    have : c.resurrect t = c.fail .dangling := by simp [Ctx.resurrect, ho]
    rw [this]; exact recol_fail _ _
  | some o =>
    by_cases hw : o.color = .white ∨ o.color = .whiteWeak
    · refine Recol.ofRecolor (col := .gray) ho hT (by cases hc : o.color <;> simp [cls])
        (resurrect_steps c t) (resurrect_rest c t) ?_
      intro j
      rw [resurrect_get c t o ho]
      simp [hw]
    · refine Recol.ofSame (resurrect_steps c t) (resurrect_rest c t) ?_
      intro j
      rw [resurrect_get c t o ho]
      simp [hw]

theorem recol_backwardBarrier {T} (c : Ctx) (p : Nat) (ch : Option Nat) (hT : T p) :
    Recol T c (c.backwardBarrier p ch) := by
  unfold Ctx.backwardBarrier
  split
  · split
    · exact recol_fail _ _
    · split
      · split
        · exact recol_makeGrayAgain _ _ hT
        · split
          · exact recol_fail _ _
          · split
            · exact recol_makeGrayAgain _ _ hT
            · exact Recol.refl _
      · exact Recol.refl _
  · exact Recol.refl _

theorem recol_backwardBarrierWeak {T} (c : Ctx) (p ch : Nat) (hT : T p) :
    Recol T c (c.backwardBarrierWeak p ch) := by
  unfold Ctx.backwardBarrierWeak
  split
  · split
    · exact recol_fail _ _
    · split
      · split
        · exact recol_fail _ _
        · split
          · exact recol_makeGrayAgain _ _ hT
          · exact Recol.refl _
      · exact Recol.refl _
  · exact Recol.refl _

theorem recol_forwardBarrier {T} (c : Ctx) (p : Option Nat) (ch : Nat) (hT : T ch) :
    Recol T c (c.forwardBarrier p ch) := by
  unfold Ctx.forwardBarrier
  split
  · split
    · exact recol_trace _ _ hT
    · split
      · exact recol_fail _ _
      · split
        · exact recol_trace _ _ hT
        · exact Recol.refl _
  · exact Recol.refl _

theorem recol_forwardBarrierWeak {T} (c : Ctx) (p : Option Nat) (ch : Nat) (hT : T ch) :
    Recol T c (c.forwardBarrierWeak p ch) := by
  unfold Ctx.forwardBarrierWeak
  split
  · split
    · exact recol_traceWeak _ _ hT
    · split
      · exact recol_fail _ _
      · split
        · exact recol_traceWeak _ _ hT
        · exact Recol.refl _
  · exact Recol.refl _

theorem recol_upgrade {T} (c : Ctx) (w : Nat) : Recol T c (c.upgrade w).1 := by
  unfold Ctx.upgrade
  split
  · exact recol_fail _ _
  · split
    · exact Recol.refl _
    · split <;> exact Recol.refl _

theorem recol_rootBarrier {T} (c : Ctx) : Recol T c c.rootBarrier := by
  unfold Ctx.rootBarrier
  split
  · exact Recol.ofSame rfl rfl (fun _ => rfl)
  · exact Recol.refl _

/-- Outside the mark phase the barriers do nothing at all. -/
theorem backwardBarrier_noop {c : Ctx} (h : c.phase ≠ .mark) (p : Nat) (ch : Option Nat) :
    c.backwardBarrier p ch = c := by simp [Ctx.backwardBarrier, h]

theorem backwardBarrierWeak_noop {c : Ctx} (h : c.phase ≠ .mark) (p ch : Nat) :
    c.backwardBarrierWeak p ch = c := by simp [Ctx.backwardBarrierWeak, h]

theorem forwardBarrier_noop {c : Ctx} (h : c.phase ≠ .mark) (p : Option Nat) (ch : Nat) :
    c.forwardBarrier p ch = c := by simp [Ctx.forwardBarrier, h]

theorem forwardBarrierWeak_noop {c : Ctx} (h : c.phase ≠ .mark) (p : Option Nat) (ch : Nat) :
    c.forwardBarrierWeak p ch = c := by simp [Ctx.forwardBarrierWeak, h]

end GcArena
