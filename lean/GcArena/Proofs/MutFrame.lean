import GcArena.Proofs.RunBridge
import GcArena.Proofs.GrayMono
/-!
  What mutator operations can do to the heap, without any invariant: every primitive of
  src/context.rs that a callback can reach (`trace`, `trace_weak`, `make_gray_again`, the four
  barriers, `resurrect`, `upgrade`, the root barrier, slot stores, `link`) leaves the step log and
  the sweep list alone, never changes liveness, and recolours — upward in the marking order
  white < white-weak < gray/black — only objects it was handed a pointer to.
-/
namespace GcArena

/-- `c'` is `c` with some objects satisfying `T` recoloured upward; step log and sweep list equal. -/
structure Recol (T : Nat → Prop) (c c' : Ctx) : Prop where
  steps : c'.steps = c.steps
  rest : c'.rest = c.rest
  pre : c'.pre = c.pre
  keep : ∀ j o, c.heap.get j = some o → ∃ o', c'.heap.get j = some o' ∧ o'.live = o.live ∧
    o'.slots = o.slots ∧ o'.needsTrace = o.needsTrace ∧ cls o.color ≤ cls o'.color ∧ (¬ T j → o' = o)
  noNew : ∀ j o', c'.heap.get j = some o' → ∃ o, c.heap.get j = some o

theorem Recol.ofSame {T} {c c' : Ctx} (steps : c'.steps = c.steps) (rest : c'.rest = c.rest)
    (heap : ∀ j, c'.heap.get j = c.heap.get j) (pre : c'.pre = c.pre := by first | rfl | simp) : Recol T c c' :=
  ⟨steps, rest, pre, fun j o ho => ⟨o, by rw [heap]; exact ho, rfl, rfl, rfl, Nat.le_refl _, fun _ => rfl⟩,
   fun j o' ho' => ⟨o', by rw [← heap]; exact ho'⟩⟩

theorem Recol.refl {T} (c : Ctx) : Recol T c c := Recol.ofSame rfl rfl (fun _ => rfl)

theorem Recol.trans {T} {a b c : Ctx} (h1 : Recol T a b) (h2 : Recol T b c) : Recol T a c := by
  refine ⟨h2.steps.trans h1.steps, h2.rest.trans h1.rest, h2.pre.trans h1.pre, ?_, ?_⟩
  · intro j o ho
    obtain ⟨o1, ho1, l1, s1, n1, c1, u1⟩ := h1.keep j o ho
    obtain ⟨o2, ho2, l2, s2, n2, c2, u2⟩ := h2.keep j o1 ho1
    exact ⟨o2, ho2, l2.trans l1, s2.trans s1, n2.trans n1, Nat.le_trans c1 c2,
      fun hT => (u2 hT).trans (u1 hT)⟩
  · intro j o2 ho2
    obtain ⟨o1, ho1⟩ := h2.noNew j o2 ho2
    exact h1.noNew j o1 ho1

theorem Recol.mono {T T' : Nat → Prop} {c c' : Ctx} (h : Recol T c c') (hT : ∀ j, T j → T' j) :
    Recol T' c c' :=
  ⟨h.steps, h.rest, h.pre, fun j o ho => by
    obtain ⟨o', ho', l, s, n, cl, u⟩ := h.keep j o ho
    exact ⟨o', ho', l, s, n, cl, fun hn => u (fun ht => hn (hT j ht))⟩, h.noNew⟩

theorem recol_fail {T} (c : Ctx) (f : Fault) : Recol T c (c.fail f) :=
  Recol.ofSame (Ctx.fail_steps c f) (Ctx.fail_rest c f) (fun _ => by rw [Ctx.fail_heap]) (Ctx.fail_pre c f)

/-- Recolouring one object (plus any bookkeeping that leaves heap, steps and sweep list alone). -/
theorem Recol.ofRecolor {T} {c c' : Ctx} {t : Nat} {o : Obj} {col : Color} (ho : c.heap.get t = some o)
    (hT : T t) (hcls : cls o.color ≤ cls col) (steps : c'.steps = c.steps) (rest : c'.rest = c.rest)
    (pre : c'.pre = c.pre)
    (heap : ∀ j, c'.heap.get j = if j = t then some { o with color := col } else c.heap.get j) :
    Recol T c c' := by
  refine ⟨steps, rest, pre, ?_, ?_⟩
  · intro j oj hoj
    by_cases hj : j = t
    · subst hj
      rw [ho] at hoj; cases hoj
      exact ⟨{ o with color := col }, by rw [heap]; simp, rfl, rfl, rfl, hcls, fun hn => absurd hT hn⟩
    · exact ⟨oj, by rw [heap]; simp [hj, hoj], rfl, rfl, rfl, Nat.le_refl _, fun _ => rfl⟩
  · intro j o' ho'
    rw [heap] at ho'
    by_cases hj : j = t
    · subst hj; exact ⟨o, ho⟩
    · simp only [hj, if_false] at ho'; exact ⟨o', ho'⟩

theorem recol_trace {T} (c : Ctx) (t : Nat) (hT : T t) : Recol T c (c.trace t) := by
  cases ho : c.heap.get t with
  | none =>
    have : c.trace t = c.fail .dangling := by simp [Ctx.trace, ho]
    rw [this]; exact recol_fail _ _
  | some o =>
    by_cases hmk : o.color = .gray ∨ o.color = .black
    · have : c.trace t = c := by rcases hmk with h | h <;> simp [Ctx.trace, ho, h]
      rw [this]; exact Recol.refl c
    · by_cases hnt : o.needsTrace = true
      · refine Recol.ofRecolor (col := .gray) ho hT (by cases hc : o.color <;> simp [cls])
          (trace_steps c t) (Ctx.trace_rest c t) (Ctx.trace_pre c t) ?_
        intro j
        cases hc : o.color <;> cases hl : o.live <;>
          simp_all [Ctx.trace, Ctx.setObj, Ctx.withMetrics, Heap.get_set]
      · refine Recol.ofRecolor (col := .black) ho hT (by cases hc : o.color <;> simp [cls])
          (trace_steps c t) (Ctx.trace_rest c t) (Ctx.trace_pre c t) ?_
        intro j
        cases hc : o.color <;> simp_all [Ctx.trace, Ctx.setObj, Ctx.withMetrics, Heap.get_set]

theorem recol_traceWeak {T} (c : Ctx) (t : Nat) (hT : T t) : Recol T c (c.traceWeak t) := by
  cases ho : c.heap.get t with
  | none =>
    have : c.traceWeak t = c.fail .dangling := by simp [Ctx.traceWeak, ho]
    rw [this]; exact recol_fail _ _
  | some o =>
    by_cases hw : o.color = .white
    · refine Recol.ofRecolor (col := .whiteWeak) ho hT (by simp [hw, cls])
        (traceWeak_steps c t) (Ctx.traceWeak_rest c t) (Ctx.traceWeak_pre c t) ?_
      intro j
      simp [Ctx.traceWeak, ho, hw, Ctx.setObj, Ctx.withMetrics, Heap.get_set]
    · have : c.traceWeak t = c := by simp [Ctx.traceWeak, ho, hw]
      rw [this]; exact Recol.refl c

theorem makeGrayAgain_rest (c : Ctx) (t : Nat) : (c.makeGrayAgain t).rest = c.rest := by
  unfold Ctx.makeGrayAgain
  split
  · simp
  · simp only; split <;> simp

theorem makeGrayAgain_pre (c : Ctx) (t : Nat) : (c.makeGrayAgain t).pre = c.pre := by
  unfold Ctx.makeGrayAgain
  split
  · simp
  · simp only; split <;> simp

theorem recol_makeGrayAgain {T} (c : Ctx) (t : Nat) (hT : T t) : Recol T c (c.makeGrayAgain t) := by
  cases ho : c.heap.get t with
  | none =>
    have : c.makeGrayAgain t = c.fail .dangling := by simp [Ctx.makeGrayAgain, ho]
    rw [this]; exact recol_fail _ _
  | some o =>
    refine Recol.ofRecolor (col := .gray) ho hT (by cases hc : o.color <;> simp [cls])
      (makeGrayAgain_steps c t) (makeGrayAgain_rest c t) (makeGrayAgain_pre c t) ?_
    intro j
    by_cases hb : o.color = .black <;> simp [Ctx.makeGrayAgain, ho, hb, Ctx.setObj, Heap.get_set]

theorem resurrect_steps (c : Ctx) (t : Nat) : (c.resurrect t).steps = c.steps := by
  unfold Ctx.resurrect
  split
  · simp
  · simp only
    (repeat' split) <;> simp

theorem resurrect_rest (c : Ctx) (t : Nat) : (c.resurrect t).rest = c.rest := by
  unfold Ctx.resurrect
  split
  · simp
  · simp only
    (repeat' split) <;> simp

theorem resurrect_pre (c : Ctx) (t : Nat) : (c.resurrect t).pre = c.pre := by
  unfold Ctx.resurrect
  split
  · simp
  · simp only
    (repeat' split) <;> simp

theorem recol_resurrect {T} (c : Ctx) (t : Nat) (hT : T t) : Recol T c (c.resurrect t) := by
  cases ho : c.heap.get t with
  | none =>
    have : c.resurrect t = c.fail .dangling := by simp [Ctx.resurrect, ho]
    rw [this]; exact recol_fail _ _
  | some o =>
    by_cases hw : o.color = .white ∨ o.color = .whiteWeak
    · refine Recol.ofRecolor (col := .gray) ho hT (by cases hc : o.color <;> simp [cls])
        (resurrect_steps c t) (resurrect_rest c t) (resurrect_pre c t) ?_
      intro j
      rw [resurrect_get c t o ho]
      simp [hw]
    · refine Recol.ofSame (resurrect_steps c t) (resurrect_rest c t) ?_ (resurrect_pre c t)
      intro j
      rw [resurrect_get c t o ho]
      simp [hw]

theorem recol_backwardBarrier {T} (c : Ctx) (p : Nat) (ch : Option Nat) (hT : T p) :
    Recol T c (c.backwardBarrier p ch) := by
  unfold Ctx.backwardBarrier
  split
  · split
    · exact recol_fail _ _
    · split
      · split
        · exact recol_makeGrayAgain _ _ hT
        · split
          · exact recol_fail _ _
          · split
            · exact recol_makeGrayAgain _ _ hT
            · exact Recol.refl _
      · exact Recol.refl _
  · exact Recol.refl _

theorem recol_backwardBarrierWeak {T} (c : Ctx) (p ch : Nat) (hT : T p) :
    Recol T c (c.backwardBarrierWeak p ch) := by
  unfold Ctx.backwardBarrierWeak
  split
  · split
    · exact recol_fail _ _
    · split
      · split
        · exact recol_fail _ _
        · split
          · exact recol_makeGrayAgain _ _ hT
          · exact Recol.refl _
      · exact Recol.refl _
  · exact Recol.refl _

theorem recol_forwardBarrier {T} (c : Ctx) (p : Option Nat) (ch : Nat) (hT : T ch) :
    Recol T c (c.forwardBarrier p ch) := by
  unfold Ctx.forwardBarrier
  split
  · split
    · exact recol_trace _ _ hT
    · split
      · exact recol_fail _ _
      · split
        · exact recol_trace _ _ hT
        · exact Recol.refl _
  · exact Recol.refl _

theorem recol_forwardBarrierWeak {T} (c : Ctx) (p : Option Nat) (ch : Nat) (hT : T ch) :
    Recol T c (c.forwardBarrierWeak p ch) := by
  unfold Ctx.forwardBarrierWeak
  split
  · split
    · exact recol_traceWeak _ _ hT
    · split
      · exact recol_fail _ _
      · split
        · exact recol_traceWeak _ _ hT
        · exact Recol.refl _
  · exact Recol.refl _

theorem recol_upgrade {T} (c : Ctx) (w : Nat) : Recol T c (c.upgrade w).1 := by
  unfold Ctx.upgrade
  split
  · exact recol_fail _ _
  · split
    · exact Recol.refl _
    · split <;> exact Recol.refl _

theorem recol_rootBarrier {T} (c : Ctx) : Recol T c c.rootBarrier := by
  unfold Ctx.rootBarrier
  split
  · exact Recol.ofSame rfl rfl (fun _ => rfl)
  · exact Recol.refl _

/-- Outside the mark phase the barriers do nothing at all. -/
theorem backwardBarrier_noop {c : Ctx} (h : c.phase ≠ .mark) (p : Nat) (ch : Option Nat) :
    c.backwardBarrier p ch = c := by simp [Ctx.backwardBarrier, h]

theorem backwardBarrierWeak_noop {c : Ctx} (h : c.phase ≠ .mark) (p ch : Nat) :
    c.backwardBarrierWeak p ch = c := by simp [Ctx.backwardBarrierWeak, h]

theorem forwardBarrier_noop {c : Ctx} (h : c.phase ≠ .mark) (p : Option Nat) (ch : Nat) :
    c.forwardBarrier p ch = c := by simp [Ctx.forwardBarrier, h]

theorem forwardBarrierWeak_noop {c : Ctx} (h : c.phase ≠ .mark) (p : Option Nat) (ch : Nat) :
    c.forwardBarrierWeak p ch = c := by simp [Ctx.forwardBarrierWeak, h]

/-! ### Arena level: what one mutator operation does -/

/-- The running callback holds a pointer (of either kind) to `j`. -/
def Held (a : Arena) (j : Nat) : Prop := ∃ p, p ∈ a.temps ∧ p.target = j

/-- The op is a store (by any write path) of `v` into slot `idx` of object `j`. -/
def Op.writes (op : Op) (j idx : Nat) (v : Slot) : Prop := ∃ path, op = Op.store path j idx v

/-- Where a pointer newly held by the callback can come from: it was held already, a pointer of
    the other kind to the same object was held (downgrade / upgrade / resurrect), it was read from
    the root or from a held object, or it is the fresh allocation. -/
def TempOK (a : Arena) (p : Ptr) : Prop :=
  p ∈ a.temps ∨ Held a p.target ∨ some p ∈ a.root ∨
    (∃ j o, Ptr.strong j ∈ a.temps ∧ a.ctx.heap.get j = some o ∧ some p ∈ o.slots) ∨
    p.target = a.ctx.heap.size

structure MutFacts (op : Op) (a a' : Arena) : Prop where
  steps : a'.ctx.steps = a.ctx.steps
  rest : a'.ctx.rest = a.ctx.rest
  keep : ∀ j o, a.ctx.heap.get j = some o → ∃ o', a'.ctx.heap.get j = some o' ∧ o'.live = o.live ∧
      o'.needsTrace = o.needsTrace ∧ cls o.color ≤ cls o'.color ∧
      (a.ctx.phase ≠ .mark → o'.color = o.color) ∧ (¬ Held a j → o' = o) ∧
      (o'.slots = o.slots ∨
        ∃ idx v, op.writes j idx v ∧ o'.slots = o.slots.set idx v ∧ a.holdsSlot v = true)
  fresh : ∀ j o', a'.ctx.heap.get j = some o' → a.ctx.heap.get j = none →
      j = a.ctx.heap.size ∧ o'.color = .white ∧ o'.live = true ∧ (∀ p, some p ∈ o'.slots → p ∈ a.temps)
  root : ∀ p, some p ∈ a'.root → some p ∈ a.root ∨ p ∈ a.temps
  temps : ∀ p, p ∈ a'.temps → TempOK a p
  pre : a'.ctx.pre = a.ctx.pre ∨
    (a'.ctx.pre = a.ctx.heap.size :: a.ctx.pre ∧ a.ctx.heap.get a.ctx.heap.size = none)

theorem MutFacts.ofRecol {op : Op} {a a' : Arena} (r : Recol (Held a) a.ctx a'.ctx)
    (hph : a.ctx.phase ≠ .mark → ∀ j, a'.ctx.heap.get j = a.ctx.heap.get j)
    (hroot : ∀ p, some p ∈ a'.root → some p ∈ a.root ∨ p ∈ a.temps)
    (htemps : ∀ p, p ∈ a'.temps → TempOK a p) : MutFacts op a a' := by
  refine ⟨r.steps, r.rest, ?_, ?_, hroot, htemps, Or.inl r.pre⟩
  · intro j o ho
    obtain ⟨o', ho', l, sl, n, cl, u⟩ := r.keep j o ho
    refine ⟨o', ho', l, n, cl, ?_, u, Or.inl sl⟩
    intro hne
    have := hph hne j
    rw [ho', ho] at this
    cases this; rfl
  · intro j o' ho' hn
    obtain ⟨o, ho⟩ := r.noNew j o' ho'
    rw [hn] at ho; cases ho

/-- Nothing but (possibly) the set of held pointers changed. -/
theorem MutFacts.ofSame {op : Op} {a a' : Arena} (hctx : a'.ctx = a.ctx) (hroot : a'.root = a.root)
    (htemps : ∀ p, p ∈ a'.temps → TempOK a p) : MutFacts op a a' :=
  MutFacts.ofRecol (by rw [hctx]; exact Recol.refl _) (fun _ j => by rw [hctx])
    (fun p hp => Or.inl (by rw [← hroot]; exact hp)) htemps

theorem MutFacts.refl (op : Op) (a : Arena) : MutFacts op a a :=
  MutFacts.ofSame rfl rfl (fun _ hp => Or.inl hp)

theorem tempOK_push {a b : Arena} {p : Ptr} (hb : b.temps = a.temps) (hp : TempOK a p) :
    ∀ q, q ∈ (b.push p).temps → TempOK a q := by
  intro q hq
  rcases (b.push_spec p).2.2.2.2.2.2.1 q hq with hq | hq
  · subst hq; exact hp
  · exact Or.inl (by rw [← hb]; exact hq)

theorem held_of_holds {a : Arena} {p : Ptr} {j : Nat} (h : a.holds p = true) (hj : p.target = j := by rfl) :
    Held a j :=
  ⟨p, (holds_iff a p).mp h, hj⟩

theorem stepBody_mutFacts {a : Arena} (h : Inv a) (fin : Bool) (op : Op) (hop : op.isMutator = true) :
    MutFacts op a (a.stepBody fin op).1 := by
  have rf := MutFacts.refl op a
  cases op with
  | collect m k f o => simp [Op.isMutator] at hop
  | dropArena => simp [Op.isMutator] at hop
  | setPacing p =>
    exact MutFacts.ofRecol (Recol.ofSame rfl rfl (fun _ => rfl)) (fun _ _ => rfl)
      (fun _ hp => Or.inl hp) (fun _ hp => Or.inl hp)
  | adjustDebt x =>
    exact MutFacts.ofRecol (Recol.ofSame rfl rfl (fun _ => rfl)) (fun _ _ => rfl)
      (fun _ hp => Or.inl hp) (fun _ hp => Or.inl hp)
  | leave =>
    simp only [Arena.stepBody]
    split
    · exact rf
    · exact MutFacts.ofSame rfl rfl (fun _ hp => by cases hp)
  | enter k =>
    simp only [Arena.stepBody]
    split
    · exact rf
    · cases k with
      | mutate => exact MutFacts.ofSame rfl rfl (fun _ hp => Or.inl hp)
      | mutateRoot =>
        exact MutFacts.ofRecol (recol_rootBarrier _)
          (fun _ j => by show a.ctx.rootBarrier.heap.get j = _; unfold Ctx.rootBarrier; split <;> rfl)
          (fun _ hp => Or.inl hp) (fun _ hp => Or.inl hp)
      | finalize =>
        simp only
        split
        · exact MutFacts.ofSame rfl rfl (fun _ hp => Or.inl hp)
        · exact rf
  | alloc nt slots =>
    simp only [Arena.stepBody]
    split
    · exact rf
    · split
      · exact rf
      · split
        · exact rf
        · rename_i hcb hheld hleaf
          have hheld' : slots.all a.holdsSlot = true := by simpa using hheld
          have hmem : ∀ p, some p ∈ slots → p ∈ a.temps :=
            fun p hp => (holds_iff a p).mp (all_holdsSlot hheld' p hp)
          obtain ⟨e1, e2, _, _, _, _, _, _⟩ :=
            ({ a with ctx := (a.ctx.link { color := .white, needsTrace := nt, live := true, slots := slots }).1 } : Arena).push_spec
              (.strong (a.ctx.link { color := .white, needsTrace := nt, live := true, slots := slots }).2)
          have hget : ∀ j, (a.ctx.link { color := .white, needsTrace := nt, live := true, slots := slots }).1.heap.get j =
              if j = a.ctx.heap.size then some { color := .white, needsTrace := nt, live := true, slots := slots }
              else a.ctx.heap.get j := by
            intro j; simp [Ctx.link, Heap.get_set, Heap.fresh]
          refine ⟨by rw [e1]; rfl, by rw [e1]; rfl, ?_, ?_, ?_, ?_,
            Or.inr ⟨by rw [e1]; rfl, by have := Heap.get_fresh a.ctx.heap; rwa [Heap.fresh] at this⟩⟩
          · intro j o ho
            have hj : j ≠ a.ctx.heap.size := by
              intro he; rw [he] at ho
              have := Heap.get_fresh a.ctx.heap
              rw [Heap.fresh, ho] at this; cases this
            exact ⟨o, by rw [e1, hget]; simp [hj, ho], rfl, rfl, Nat.le_refl _, fun _ => rfl, fun _ => rfl,
              Or.inl rfl⟩
          · intro j o' ho' hn
            rw [e1, hget] at ho'
            by_cases hj : j = a.ctx.heap.size
            · simp only [hj, if_true, Option.some.injEq] at ho'
              subst ho'
              exact ⟨hj, rfl, rfl, hmem⟩
            · simp only [hj, if_false] at ho'; rw [hn] at ho'; cases ho'
          · intro p hp; rw [e2] at hp; exact Or.inl hp
          · exact tempOK_push (a := a) rfl (Or.inr (Or.inr (Or.inr (Or.inr rfl))))
  | readRoot i =>
    simp only [Arena.stepBody]
    split
    · exact rf
    · split
      · exact rf
      · exact rf
      · rename_i p hp
        exact MutFacts.ofSame (a.push_spec p).1 (a.push_spec p).2.1
          (tempOK_push rfl (Or.inr (Or.inr (Or.inl (List.mem_of_getElem? hp)))))
  | read p i =>
    simp only [Arena.stepBody]
    split
    · exact rf
    · rename_i hg
      simp only [Bool.or_eq_true, Bool.not_eq_true', not_or, Bool.not_eq_false] at hg
      split
      · exact rf
      · exact rf
      · rename_i q hq
        obtain ⟨o, ho, hmem⟩ := slotOf_some hq
        exact MutFacts.ofSame (a.push_spec q).1 (a.push_spec q).2.1
          (tempOK_push rfl (Or.inr (Or.inr (Or.inr (Or.inl ⟨p, o, (holds_iff a _).mp hg.2, ho, hmem⟩)))))
  | downgrade p =>
    simp only [Arena.stepBody]
    split
    · exact rf
    · rename_i hg
      simp only [Bool.or_eq_true, Bool.not_eq_true', not_or, Bool.not_eq_false] at hg
      exact MutFacts.ofSame (a.push_spec _).1 (a.push_spec _).2.1
        (tempOK_push rfl (Or.inr (Or.inl (held_of_holds hg.2))))
  | upgrade w =>
    simp only [Arena.stepBody]
    split
    · exact rf
    · rename_i hg
      simp only [Bool.or_eq_true, Bool.not_eq_true', not_or, Bool.not_eq_false] at hg
      have hu : Recol (Held a) a.ctx (a.ctx.upgrade w).1 := recol_upgrade a.ctx w
      have hheap : ∀ j, (a.ctx.upgrade w).1.heap.get j = a.ctx.heap.get j := by
        intro j; unfold Ctx.upgrade
        split
        · simp
        · split
          · rfl
          · split <;> rfl
      generalize a.ctx.upgrade w = r at hu hheap ⊢
      obtain ⟨c, ok⟩ := r
      simp only
      split
      · obtain ⟨e1, e2, _⟩ := ({ a with ctx := c } : Arena).push_spec (.strong w)
        exact MutFacts.ofRecol (by rw [e1]; exact hu) (fun _ j => by rw [e1]; exact hheap j)
          (fun p hp => Or.inl (by rw [e2] at hp; exact hp))
          (tempOK_push (a := a) rfl (Or.inr (Or.inl (held_of_holds hg.2))))
      · exact MutFacts.ofRecol hu (fun _ j => hheap j) (fun _ hp => Or.inl hp) (fun _ hp => Or.inl hp)
  | isDropped w =>
    simp only [Arena.stepBody]
    split
    · exact rf
    · split
      · exact MutFacts.ofRecol (recol_fail _ _) (fun _ j => by simp) (fun _ hp => Or.inl hp)
          (fun _ hp => Or.inl hp)
      · exact rf
  | isDead p =>
    simp only [Arena.stepBody]
    split
    · exact rf
    · split
      · exact MutFacts.ofRecol (recol_fail _ _) (fun _ j => by simp) (fun _ hp => Or.inl hp)
          (fun _ hp => Or.inl hp)
      · exact rf
  | resurrect p =>
    simp only [Arena.stepBody]
    split
    · exact rf
    · rename_i hg
      simp only [Bool.or_eq_true, Bool.not_eq_true', not_or, Bool.not_eq_false, decide_eq_true_eq,
        Decidable.not_not] at hg
      have hmark : a.ctx.phase = .mark := h.finMark hg.1
      cases p with
      | strong t =>
        exact MutFacts.ofRecol (recol_resurrect _ _ (held_of_holds hg.2)) (fun hne => absurd hmark hne)
          (fun _ hp => Or.inl hp) (fun _ hp => Or.inl hp)
      | weak t =>
        simp only
        split
        · exact MutFacts.ofRecol (recol_fail _ _) (fun _ j => by simp) (fun _ hp => Or.inl hp)
            (fun _ hp => Or.inl hp)
        · split
          · obtain ⟨e1, e2, _⟩ := ({ a with ctx := a.ctx.resurrect t } : Arena).push_spec (.strong t)
            exact MutFacts.ofRecol (by rw [e1]; exact recol_resurrect _ _ (held_of_holds hg.2))
              (fun hne => absurd hmark hne) (fun p hp => Or.inl (by rw [e2] at hp; exact hp))
              (tempOK_push (a := a) rfl (Or.inr (Or.inl (held_of_holds hg.2))))
          · exact rf
  | barrier b =>
    simp only [Arena.stepBody]
    split
    · exact rf
    · cases b with
      | bb p c =>
        cases c with
        | none =>
          simp only
          split
          · exact rf
          · rename_i hg
            have hp : a.holds (.strong p) = true := by simpa using hg
            exact MutFacts.ofRecol (recol_backwardBarrier a.ctx p none (held_of_holds hp))
              (fun hne j => by show (a.ctx.backwardBarrier p none).heap.get j = _; rw [backwardBarrier_noop hne])
              (fun _ hp => Or.inl hp) (fun _ hp => Or.inl hp)
        | some c =>
          simp only
          split
          · exact rf
          · rename_i hg
            simp only [Bool.or_eq_true, Bool.not_eq_true', not_or, Bool.not_eq_false] at hg
            exact MutFacts.ofRecol (recol_backwardBarrier a.ctx p (some c) (held_of_holds hg.1))
              (fun hne j => by show (a.ctx.backwardBarrier p (some c)).heap.get j = _; rw [backwardBarrier_noop hne])
              (fun _ hp => Or.inl hp) (fun _ hp => Or.inl hp)
      | bbw p c =>
        simp only
        split
        · exact rf
        · rename_i hg
          simp only [Bool.or_eq_true, Bool.not_eq_true', not_or, Bool.not_eq_false] at hg
          exact MutFacts.ofRecol (recol_backwardBarrierWeak a.ctx p c (held_of_holds hg.1))
            (fun hne j => by show (a.ctx.backwardBarrierWeak p c).heap.get j = _; rw [backwardBarrierWeak_noop hne])
            (fun _ hp => Or.inl hp) (fun _ hp => Or.inl hp)
      | fb p c =>
        cases p with
        | none =>
          simp only
          split
          · exact rf
          · rename_i hg
            have hc : a.holds (.strong c) = true := by simpa using hg
            exact MutFacts.ofRecol (recol_forwardBarrier a.ctx none c (held_of_holds hc))
              (fun hne j => by show (a.ctx.forwardBarrier none c).heap.get j = _; rw [forwardBarrier_noop hne])
              (fun _ hp => Or.inl hp) (fun _ hp => Or.inl hp)
        | some p =>
          simp only
          split
          · exact rf
          · rename_i hg
            simp only [Bool.or_eq_true, Bool.not_eq_true', not_or, Bool.not_eq_false] at hg
            exact MutFacts.ofRecol (recol_forwardBarrier a.ctx (some p) c (held_of_holds hg.2))
              (fun hne j => by show (a.ctx.forwardBarrier (some p) c).heap.get j = _; rw [forwardBarrier_noop hne])
              (fun _ hp => Or.inl hp) (fun _ hp => Or.inl hp)
      | fbw p c =>
        cases p with
        | none =>
          simp only
          split
          · exact rf
          · rename_i hg
            have hc : a.holds (.weak c) = true := by simpa using hg
            exact MutFacts.ofRecol (recol_forwardBarrierWeak a.ctx none c (held_of_holds hc))
              (fun hne j => by show (a.ctx.forwardBarrierWeak none c).heap.get j = _; rw [forwardBarrierWeak_noop hne])
              (fun _ hp => Or.inl hp) (fun _ hp => Or.inl hp)
        | some p =>
          simp only
          split
          · exact rf
          · rename_i hg
            simp only [Bool.or_eq_true, Bool.not_eq_true', not_or, Bool.not_eq_false] at hg
            exact MutFacts.ofRecol (recol_forwardBarrierWeak a.ctx (some p) c (held_of_holds hg.2))
              (fun hne j => by show (a.ctx.forwardBarrierWeak (some p) c).heap.get j = _; rw [forwardBarrierWeak_noop hne])
              (fun _ hp => Or.inl hp) (fun _ hp => Or.inl hp)
  | store path p i v =>
    simp only [Arena.stepBody]
    split
    · exact rf
    · rename_i hg
      simp only [Bool.or_eq_true, Bool.not_eq_true', not_or, Bool.not_eq_false] at hg
      have hp : a.holds (.strong p) = true := hg.1.2
      have hv : a.holdsSlot v = true := hg.2
      have hheld : Held a p := held_of_holds hp
      split
      · exact rf
      · split
        · exact rf
        · -- the store itself: a barrier (before or after, or none) and one `setSlot`
          have key : ∀ (c1 c2 : Ctx), Recol (Held a) a.ctx c1 →
              (a.ctx.phase ≠ .mark → ∀ j, c1.heap.get j = a.ctx.heap.get j) →
              c2.steps = c1.steps → c2.rest = c1.rest → c2.pre = c1.pre →
              (∀ j, c2.heap.get j = match c1.heap.get p with
                | none => c1.heap.get j
                | some o => if j = p then some { o with slots := o.slots.set i v } else c1.heap.get j) →
              (∀ cover, MutFacts (.store path p i v) a { a with ctx := c2, cover := cover }) ∧
              (∀ j o', c2.heap.get j = some o' → ∃ o, a.ctx.heap.get j = some o) := by
            intro c1 c2 r hph hst hre hpr hget
            have noNew : ∀ j o', c2.heap.get j = some o' → ∃ o, a.ctx.heap.get j = some o := by
              intro j o' ho2
              rw [hget] at ho2
              have : ∃ o1, c1.heap.get j = some o1 := by
                split at ho2
                · exact ⟨o', ho2⟩
                · rename_i op hop
                  by_cases hj : j = p
                  · subst hj; exact ⟨op, hop⟩
                  · simp only [hj, if_false] at ho2; exact ⟨o', ho2⟩
              obtain ⟨o1, ho1⟩ := this
              exact r.noNew j o1 ho1
            refine ⟨fun cover => ?_, noNew⟩
            refine ⟨hst.trans r.steps, hre.trans r.rest, ?_, ?_, fun _ hq => Or.inl hq, fun _ hq => Or.inl hq,
              Or.inl (hpr.trans r.pre)⟩
            · intro j o ho
              obtain ⟨o1, ho1, l, sl, n, cl, u⟩ := r.keep j o ho
              have hcol : a.ctx.phase ≠ .mark → o1.color = o.color := by
                intro hne
                have := hph hne j
                rw [ho1, ho] at this; cases this; rfl
              by_cases hj : j = p
              · subst hj
                refine ⟨{ o1 with slots := o1.slots.set i v }, ?_, l, n, cl, hcol,
                  fun hn => absurd hheld hn, Or.inr ⟨i, v, ⟨path, rfl⟩, by rw [sl], hv⟩⟩
                show c2.heap.get j = _
                rw [hget, ho1]; simp
              · refine ⟨o1, ?_, l, n, cl, hcol, u, Or.inl sl⟩
                show c2.heap.get j = _
                rw [hget]
                split
                · exact ho1
                · simp [hj, ho1]
            · intro j o' ho' hn
              obtain ⟨o, ho⟩ := noNew j o' ho'
              rw [hn] at ho; cases ho
          have setget : ∀ (c1 : Ctx) j, (Arena.setSlot c1 p i v).heap.get j = match c1.heap.get p with
                | none => c1.heap.get j
                | some o => if j = p then some { o with slots := o.slots.set i v } else c1.heap.get j := by
            intro c1 j
            cases hc : c1.heap.get p <;> simp [Arena.setSlot, hc]
          have setsteps : ∀ (c1 : Ctx), (Arena.setSlot c1 p i v).steps = c1.steps := by
            intro c1; unfold Arena.setSlot; split <;> simp
          have setrest : ∀ (c1 : Ctx), (Arena.setSlot c1 p i v).rest = c1.rest := by
            intro c1; unfold Arena.setSlot; split <;> simp
          have setpre : ∀ (c1 : Ctx), (Arena.setSlot c1 p i v).pre = c1.pre := by
            intro c1; unfold Arena.setSlot; split <;> simp
          cases path with
          | write =>
            exact (key (a.ctx.backwardBarrier p none) _ (recol_backwardBarrier _ _ _ hheld)
              (fun hne j => by rw [backwardBarrier_noop hne]) (setsteps _) (setrest _) (setpre _) (setget _)).1 _
          | raw =>
            simp only
            split
            · exact rf
            · exact (key a.ctx _ (Recol.refl _) (fun _ _ => rfl) (setsteps _) (setrest _) (setpre _) (setget _)).1 _
          | storeThenBarrier =>
            -- barrier after the store: compose the other way round
            have r2 : Recol (Held a) (Arena.setSlot a.ctx p i v) ((Arena.setSlot a.ctx p i v).backwardBarrier p none) :=
              recol_backwardBarrier _ _ _ hheld
            obtain ⟨m1', nn1⟩ := key a.ctx (Arena.setSlot a.ctx p i v) (Recol.refl _) (fun _ _ => rfl) (setsteps _)
              (setrest _) (setpre _) (setget _)
            have m1 := m1' a.cover
            have hph1 : (Arena.setSlot a.ctx p i v).phase = a.ctx.phase := by
              unfold Arena.setSlot; split <;> simp
            refine ⟨r2.steps.trans m1.steps, r2.rest.trans m1.rest, ?_, ?_, fun _ hq => Or.inl hq,
              fun _ hq => Or.inl hq, Or.inl (r2.pre.trans (setpre _))⟩
            · intro j o ho
              obtain ⟨o1, ho1, l, n, cl, hc, u, sl⟩ := m1.keep j o ho
              obtain ⟨o2, ho2, l2, sl2, n2, cl2, u2⟩ := r2.keep j o1 ho1
              refine ⟨o2, ho2, l2.trans l, n2.trans n, Nat.le_trans cl cl2, ?_, ?_, ?_⟩
              · intro hne
                have : (Arena.setSlot a.ctx p i v).backwardBarrier p none = Arena.setSlot a.ctx p i v :=
                  backwardBarrier_noop (by rw [hph1]; exact hne) _ _
                have ho2' : (Arena.setSlot a.ctx p i v).heap.get j = some o2 := by rw [← this]; exact ho2
                have ho1' : (Arena.setSlot a.ctx p i v).heap.get j = some o1 := ho1
                rw [ho1'] at ho2'; cases ho2'
                exact hc hne
              · intro hn; rw [u2 hn]; exact u hn
              · rw [sl2]; exact sl
            · intro j o' ho' hn
              obtain ⟨o1, ho1⟩ := r2.noNew j o' ho'
              obtain ⟨o, ho⟩ := nn1 j o1 ho1
              rw [hn] at ho; cases ho
  | rootStore i v =>
    simp only [Arena.stepBody]
    split
    · exact rf
    · rename_i hg
      simp only [Bool.or_eq_true, Bool.not_eq_true', not_or, Bool.not_eq_false, decide_eq_true_eq,
        Decidable.not_not] at hg
      refine MutFacts.ofRecol (Recol.refl _) (fun _ _ => rfl) ?_ (fun _ hq => Or.inl hq)
      intro q hq
      rcases mem_set_slot hq with hq | hq
      · exact Or.inl hq
      · right
        have := hg.1.2
        rw [hq] at this
        exact (holds_iff a q).mp this

theorem step_mutFacts {a : Arena} (h : Inv a) (op : Op) (hop : op.isMutator = true) :
    MutFacts op a (a.step op).1 := by
  have hnot : (!a.alive) = false := by rw [h.alive]; rfl
  unfold Arena.step
  rw [hnot]
  simp only [Bool.false_eq_true, if_false]
  have m := stepBody_mutFacts h.unmark a.marked op hop
  exact ⟨m.steps, m.rest, m.keep, m.fresh, m.root, m.temps, m.pre⟩

end GcArena
