import GcArena.Proofs.RunBridge
/-!
  "A `MarkedArena` is outstanding ⇒ the arena is fully marked": the model's `marked` flag (the
  previous op handed out a `MarkedArena` that the client kept for `finalize`) is set only by the
  tail of `mark_debt` / `finish_marking` when `phase == Mark && !gray_remaining()`, and every
  operation resets it.  `Inv.markedMark` (Spec/Inv.lean) records `phase = mark ∧ cb = none`; this is
  the stronger fact, as a theorem about every run, without changing the invariant.
-/
namespace GcArena

/-- The pacing / debt knobs (usable through a cloned `Metrics` handle while a `MarkedArena` is held)
    keep the flag; they touch the metrics only. -/
def Op.isKnob' : Op → Bool
  | .setPacing _ | .adjustDebt _ => true
  | _ => false

/-- No op other than a collection call sets the flag (the knobs keep it). -/
theorem stepBody_marked_of_mutator (b : Arena) (fin : Bool) (op : Op) (hop : op.isMutator = true)
    (hk : op.isKnob' = false) : (b.stepBody fin op).1.marked = b.marked := by
  have pm : ∀ (x : Arena) (p : Ptr), (x.push p).marked = x.marked := fun x p => (x.push_spec p).2.2.2.2.1
  cases op with
  | collect m k f o => simp [Op.isMutator] at hop
  | dropArena => simp [Op.isMutator] at hop
  | setPacing p => simp [Op.isKnob'] at hk
  | adjustDebt x => simp [Op.isKnob'] at hk
  | leave => simp only [Arena.stepBody]; split <;> rfl
  | enter k =>
    simp only [Arena.stepBody]
    split
    · rfl
    · cases k with
      | mutate => rfl
      | mutateRoot => rfl
      | finalize => simp only; split <;> rfl
  | alloc nt slots =>
    simp only [Arena.stepBody]
    split
    · rfl
    · split
      · rfl
      · split
        · rfl
        · rw [pm]
  | readRoot i =>
    simp only [Arena.stepBody]
    split
    · rfl
    · split <;> first | rfl | rw [pm]
  | read p i =>
    simp only [Arena.stepBody]
    split
    · rfl
    · split <;> first | rfl | rw [pm]
  | downgrade p =>
    simp only [Arena.stepBody]
    split
    · rfl
    · rw [pm]
  | upgrade w =>
    simp only [Arena.stepBody]
    split
    · rfl
    · generalize b.ctx.upgrade w = r
      obtain ⟨c, ok⟩ := r
      simp only
      split
      · rw [pm]
      · rfl
  | isDropped w =>
    simp only [Arena.stepBody]
    split
    · rfl
    · split <;> rfl
  | isDead p =>
    simp only [Arena.stepBody]
    split
    · rfl
    · split <;> rfl
  | resurrect p =>
    simp only [Arena.stepBody]
    split
    · rfl
    · cases p with
      | strong t => rfl
      | weak t =>
        simp only
        split
        · rfl
        · split
          · rw [pm]
          · rfl
  | barrier bo =>
    simp only [Arena.stepBody]
    split
    · rfl
    · cases bo with
      | bb p c => cases c <;> simp only <;> split <;> rfl
      | bbw p c => simp only; split <;> rfl
      | fb p c => cases p <;> simp only <;> split <;> rfl
      | fbw p c => cases p <;> simp only <;> split <;> rfl
  | store path p i v =>
    simp only [Arena.stepBody]
    split
    · rfl
    · split
      · rfl
      · split
        · rfl
        · cases path with
          | write => rfl
          | raw => simp only; split <;> rfl
          | storeThenBarrier => rfl
  | rootStore i v =>
    simp only [Arena.stepBody]
    split <;> rfl

theorem marked?_flag (b : Arena) (k : Cont) (o2 : Option (List Micro)) (hb : b.marked = false)
    (hm : (b.marked? k o2).1.marked = true) : Arena.isMarked (b.marked? k o2).1.ctx = true := by
  unfold Arena.marked? at hm ⊢
  split at hm
  · rename_i hmk
    rw [if_pos hmk]
    cases k with
    | drop => simp only at hm; rw [hb] at hm; cases hm
    | finalize => exact hmk
    | sweep =>
      simp only at hm ⊢
      split at hm
      · simp only at hm; rw [hb] at hm; cases hm
      · simp only at hm; rw [hb] at hm; cases hm
  · simp only at hm; rw [hb] at hm; cases hm

/-- After any op on an arena whose flag was reset (as `Arena.step` does first): flag set ⇒ fully
    marked. -/
theorem stepBody_marked_flag (b : Arena) (fin : Bool) (op : Op) (hb : b.marked = false)
    (hfin : fin = true → Arena.isMarked b.ctx = true)
    (hm : (b.stepBody fin op).1.marked = true) : Arena.isMarked (b.stepBody fin op).1.ctx = true := by
  cases hop : op.isMutator with
  | true =>
    cases hk : op.isKnob' with
    | false => rw [stepBody_marked_of_mutator b fin op hop hk, hb] at hm; cases hm
    | true =>
      cases op with
      | setPacing p => exact hfin hm
      | adjustDebt x => exact hfin hm
      | _ => simp [Op.isKnob'] at hk
  | false =>
    cases op with
    | dropArena =>
      simp only [Arena.stepBody] at hm
      split at hm <;> (simp only [Arena.bad] at hm; rw [hb] at hm; cases hm)
    | collect m k f o =>
      simp only [Arena.stepBody] at hm ⊢
      split at hm
      · simp only [Arena.bad] at hm; rw [hb] at hm; cases hm
      · rename_i hcb
        rw [if_neg hcb]
        generalize Arena.splitOracle o k m = os at hm ⊢
        cases hr : b.runCollector (Arena.methodArgs m).1 (Arena.methodArgs m).2 f os.1 with
        | none => rw [hr] at hm; simp only at hm; rw [hb] at hm; cases hm
        | some res =>
          obtain ⟨c, ex⟩ := res
          rw [hr] at hm
          simp only at hm ⊢
          split at hm
          · simp only at hm; rw [hb] at hm; cases hm
          · rename_i h1
            rw [if_neg h1]
            split at hm
            · simp only at hm; rw [hb] at hm; cases hm
            · rename_i h2
              rw [if_neg h2]
              cases m with
              | markDebt => exact marked?_flag _ k os.2 hb hm
              | finishMarking => exact marked?_flag _ k os.2 hb hm
              | collectDebt => simp only at hm; rw [hb] at hm; cases hm
              | cycleDebt => simp only at hm; rw [hb] at hm; cases hm
              | finishCycle => simp only at hm; rw [hb] at hm; cases hm
    | _ => simp [Op.isMutator] at hop

/-- **A `MarkedArena` outstanding ⇒ the arena is fully marked**, in every state of every history. -/
theorem marked_flag_run (n : Nat) (ops : List Op) :
    ((Arena.new n).run ops).marked = true → Arena.isMarked ((Arena.new n).run ops).ctx = true := by
  have key : ∀ (ops : List Op) (a : Arena), (a.marked = true → Arena.isMarked a.ctx = true) →
      (a.run ops).marked = true → Arena.isMarked (a.run ops).ctx = true := by
    intro ops
    induction ops with
    | nil => intro a h; exact h
    | cons op ops ih =>
      intro a h
      simp only [Arena.run]
      apply ih
      cases hal : a.alive with
      | false => rw [step_dead hal]; exact h
      | true =>
        have hnot : (!a.alive) = false := by rw [hal]; rfl
        unfold Arena.step
        rw [hnot]
        simp only [Bool.false_eq_true, if_false]
        exact stepBody_marked_flag ({ a with marked := false } : Arena) a.marked op rfl h
  exact key ops _ (fun h => by simp [Arena.new] at h)

end GcArena
