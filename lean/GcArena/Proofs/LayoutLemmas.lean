import GcArena.Model.Layout
/-!
  Helper lemmas for `GcArena.Props.C17` / `C18`: arithmetic of `roundUp`, powers of two, the
  `Layout` functions, and the bit-level decomposition `w = 16·v + t` used for the tagged
  vtable pointer.
-/
namespace GcArena.Layout

/-! ### roundUp -/

theorem roundUp_dvd (n a : Nat) : a ∣ roundUp n a := by
  unfold roundUp; exact Nat.dvd_mul_left _ _

theorem roundUp_mod (n a : Nat) : roundUp n a % a = 0 :=
  Nat.mod_eq_zero_of_dvd (roundUp_dvd n a)

theorem roundUp_ge (n a : Nat) (h : 0 < a) : n ≤ roundUp n a := by
  unfold roundUp
  have h1 := Nat.div_add_mod (n + (a - 1)) a
  have h2 := Nat.mod_lt (n + (a - 1)) h
  have h3 : (n + (a - 1)) / a * a = a * ((n + (a - 1)) / a) := Nat.mul_comm _ _
  omega

theorem roundUp_lt (n a : Nat) (h : 0 < a) : roundUp n a < n + a := by
  unfold roundUp
  have h1 := Nat.div_add_mod (n + (a - 1)) a
  have h3 : (n + (a - 1)) / a * a = a * ((n + (a - 1)) / a) := Nat.mul_comm _ _
  omega

theorem roundUp_of_dvd (n a : Nat) (h : 0 < a) (hd : a ∣ n) : roundUp n a = n := by
  obtain ⟨c, rfl⟩ := hd
  unfold roundUp
  have : (a * c + (a - 1)) / a = c := by
    rw [Nat.mul_comm, Nat.add_comm, Nat.add_mul_div_right _ _ h, Nat.div_eq_of_lt (by omega)]; omega
  rw [this, Nat.mul_comm]

/-- `roundUp` is the least multiple of `a` that is `≥ n`. -/
theorem roundUp_le_of_dvd (n a m : Nat) (h : 0 < a) (hd : a ∣ m) (hle : n ≤ m) : roundUp n a ≤ m := by
  obtain ⟨c, rfl⟩ := hd
  unfold roundUp
  have : (n + (a - 1)) / a ≤ c := by
    apply Nat.le_of_lt_succ
    rw [Nat.div_lt_iff_lt_mul h, Nat.succ_mul, Nat.mul_comm]
    omega
  calc (n + (a - 1)) / a * a ≤ c * a := Nat.mul_le_mul_right a this
    _ = a * c := Nat.mul_comm _ _

/-! ### powers of two -/

theorem isPow2_exists {a : Nat} (h : isPow2 a = true) : ∃ k, a = 2 ^ k := by
  unfold isPow2 at h
  have h' : 2 ^ a.log2 = a := by simpa using h
  exact ⟨a.log2, h'.symm⟩

theorem isPow2_pow (k : Nat) : isPow2 (2 ^ k) = true := by
  unfold isPow2
  simp [Nat.log2_two_pow]

theorem isPow2_pos {a : Nat} (h : isPow2 a = true) : 0 < a := by
  obtain ⟨k, rfl⟩ := isPow2_exists h
  exact Nat.pow_pos (by decide)

theorem isPow2_dvd {a b : Nat} (ha : isPow2 a = true) (hb : isPow2 b = true) (h : a ≤ b) : a ∣ b := by
  obtain ⟨i, rfl⟩ := isPow2_exists ha
  obtain ⟨j, rfl⟩ := isPow2_exists hb
  exact Nat.pow_dvd_pow 2 ((Nat.pow_le_pow_iff_right (by decide)).1 h)

theorem isPow2_max {a b : Nat} (ha : isPow2 a = true) (hb : isPow2 b = true) :
    isPow2 (max a b) = true := by
  rcases Nat.le_total a b with h | h
  · rw [Nat.max_eq_right h]; exact hb
  · rw [Nat.max_eq_left h]; exact ha

theorem dvd_max_left {a b : Nat} (ha : isPow2 a = true) (hb : isPow2 b = true) : a ∣ max a b :=
  isPow2_dvd ha (isPow2_max ha hb) (Nat.le_max_left a b)

theorem dvd_max_right {a b : Nat} (ha : isPow2 a = true) (hb : isPow2 b = true) : b ∣ max a b :=
  isPow2_dvd hb (isPow2_max ha hb) (Nat.le_max_right a b)

/-! ### Layout functions -/

theorem fromSizeAlign_eq_some {maxSize size align : Nat} {l : Layout}
    (h : fromSizeAlign maxSize size align = some l) :
    l = ⟨size, align⟩ ∧ l.Valid maxSize := by
  unfold fromSizeAlign at h
  split at h
  · rename_i hv
    injection h with h
    subst h
    exact ⟨rfl, hv⟩
  · cases h

theorem fromSizeAlign_of_valid {maxSize : Nat} {l : Layout} (h : l.Valid maxSize) :
    fromSizeAlign maxSize l.size l.align = some l := by
  unfold fromSizeAlign
  have h' : isPow2 l.align = true ∧ l.size + (l.align - 1) ≤ maxSize := h
  rw [if_pos h']

theorem extend_eq_some {maxSize : Nat} {l next r : Layout} {off : Nat}
    (h : extend maxSize l next = some (r, off)) :
    off = roundUp l.size next.align ∧ r = ⟨off + next.size, max l.align next.align⟩ ∧
      r.Valid maxSize := by
  unfold extend at h
  simp only at h
  split at h
  · rename_i r' hr
    injection h with h
    injection h with h1 h2
    subst h1; subst h2
    obtain ⟨e, v⟩ := fromSizeAlign_eq_some hr
    exact ⟨rfl, e, v⟩
  · cases h

theorem extend_of_valid {maxSize : Nat} {l next : Layout}
    (h : (⟨roundUp l.size next.align + next.size, max l.align next.align⟩ : Layout).Valid maxSize) :
    extend maxSize l next =
      some (⟨roundUp l.size next.align + next.size, max l.align next.align⟩,
        roundUp l.size next.align) := by
  unfold extend
  simp only
  rw [fromSizeAlign_of_valid (l := ⟨_, _⟩) h]

theorem extend_eq_none {maxSize : Nat} {l next : Layout}
    (h : ¬ (⟨roundUp l.size next.align + next.size, max l.align next.align⟩ : Layout).Valid maxSize) :
    extend maxSize l next = none := by
  unfold extend fromSizeAlign
  have h' : ¬ (isPow2 (max l.align next.align) = true ∧
      roundUp l.size next.align + next.size + (max l.align next.align - 1) ≤ maxSize) := h
  simp only
  rw [if_neg h']

theorem array_eq_some {maxSize : Nat} {e r : Layout} {n : Nat} (he : e.Valid maxSize)
    (h : array maxSize e n = some r) : r = ⟨e.size * n, e.align⟩ ∧ r.Valid maxSize := by
  unfold array at h
  split at h
  · cases h
  · rename_i hc
    injection h with h
    subst h
    refine ⟨rfl, he.1, ?_⟩
    show e.size * n + (e.align - 1) ≤ maxSize
    have hv := he.2
    by_cases hz : e.size = 0
    · rw [hz, Nat.zero_mul]; omega
    · have hn : n ≤ (maxSize - (e.align - 1)) / e.size := by
        apply Nat.le_of_not_gt; intro hgt; exact hc ⟨hz, hgt⟩
      have := (Nat.le_div_iff_mul_le (Nat.pos_of_ne_zero hz)).1 hn
      rw [Nat.mul_comm] at this
      omega

/-- `Layout::array` succeeds exactly when the array (rounded up to the alignment) fits. -/
theorem array_isSome_iff {maxSize : Nat} {e : Layout} {n : Nat} (he : e.Valid maxSize) :
    (array maxSize e n).isSome = true ↔ e.size * n + (e.align - 1) ≤ maxSize := by
  constructor
  · intro h
    cases hr : array maxSize e n with
    | none => rw [hr] at h; cases h
    | some r =>
      obtain ⟨rfl, hv⟩ := array_eq_some he hr
      exact hv.2
  · intro h
    unfold array
    split
    · rename_i hc
      exfalso
      obtain ⟨hz, hgt⟩ := hc
      have hpos := Nat.pos_of_ne_zero hz
      have : ¬ n ≤ (maxSize - (e.align - 1)) / e.size := Nat.not_le.2 hgt
      apply this
      rw [Nat.le_div_iff_mul_le hpos, Nat.mul_comm]
      omega
    · rfl

theorem padToAlign_size_mod (l : Layout) : (padToAlign l).size % (padToAlign l).align = 0 := by
  unfold padToAlign; exact roundUp_mod _ _

/-! ### META_HEADER_LAYOUT and prefix_header_layout -/

/-- Everything one needs to know about a successful `META_HEADER_LAYOUT`. -/
theorem metaHeaderLayout_spec {maxSize : Nat} {pmeta hdr mhl : Layout}
    (hm : IsTypeLayout maxSize pmeta) (hh : IsTypeLayout maxSize hdr)
    (h : metaHeaderLayout maxSize pmeta hdr = some mhl) :
    mhl.align = max pmeta.align hdr.align ∧ isPow2 mhl.align = true ∧
      mhl.align ∣ mhl.size ∧ pmeta.size + hdr.size ≤ mhl.size ∧
      pmeta.align ∣ mhl.align ∧ hdr.align ∣ mhl.align := by
  unfold metaHeaderLayout at h
  split at h
  · rename_i l off he
    injection h with h
    subst h
    obtain ⟨hoff, hl, hv⟩ := extend_eq_some he
    subst hl
    have hpa := hm.1.1
    have hha := hh.1.1
    refine ⟨rfl, isPow2_max hpa hha, roundUp_dvd _ _, ?_, dvd_max_left hpa hha, dvd_max_right hpa hha⟩
    show pmeta.size + hdr.size ≤ roundUp (off + hdr.size) (max pmeta.align hdr.align)
    have h1 := roundUp_ge pmeta.size hdr.align (isPow2_pos hha)
    have h2 := roundUp_ge (off + hdr.size) (max pmeta.align hdr.align) (isPow2_pos (isPow2_max hpa hha))
    omega
  · cases h

/-- Arithmetic core of `prefix_header_layout`: for a header whose size is a multiple of its
    alignment, the offset `roundUp H.size V.align` is a multiple of both alignments. -/
theorem prefix_offset_dvd {hs ha va : Nat} (hha : isPow2 ha = true) (hva : isPow2 va = true)
    (hmul : ha ∣ hs) : va ∣ roundUp hs va ∧ ha ∣ roundUp hs va ∧ hs ≤ roundUp hs va := by
  refine ⟨roundUp_dvd _ _, ?_, roundUp_ge _ _ (isPow2_pos hva)⟩
  rcases Nat.le_total va ha with hle | hle
  · have : va ∣ hs := Nat.dvd_trans (isPow2_dvd hva hha hle) hmul
    rw [roundUp_of_dvd _ _ (isPow2_pos hva) this]; exact hmul
  · exact Nat.dvd_trans (isPow2_dvd hha hva hle) (roundUp_dvd _ _)

/-- Unfolding of a successful `gcAlloc`. -/
theorem gcAlloc_eq_some {maxSize : Nat} {hdr : Layout} {k : PtrKind} {ptrMeta : Nat} {p : Plan}
    (h : gcAlloc maxSize hdr k ptrMeta = some p) :
    metaHeaderLayout maxSize k.pmeta hdr = some p.mhl ∧ k.layoutOf ptrMeta = some p.value ∧
      prefixHeaderLayout maxSize p.mhl p.value = some (p.alloc, p.valueOff) := by
  unfold gcAlloc at h
  split at h
  · rename_i mhl v hm hv
    split at h
    · rename_i a off hp
      injection h with h
      subst h
      exact ⟨hm, hv, hp⟩
    · cases h
  · cases h

/-- The numeric facts about a successful `gcAlloc` from which every C17 layout theorem follows. -/
theorem gcAlloc_facts {maxSize : Nat} {hdr : Layout} {k : PtrKind} {ptrMeta : Nat} {p : Plan}
    (hk : k.Ok maxSize) (hh : IsTypeLayout maxSize hdr)
    (h : gcAlloc maxSize hdr k ptrMeta = some p) :
    p.alloc.size = p.valueOff + p.value.size ∧
    p.alloc.align = max p.mhl.align p.value.align ∧
    p.alloc.Valid maxSize ∧
    p.valueOff = roundUp p.mhl.size p.value.align ∧
    p.mhl.size ≤ p.valueOff ∧
    k.pmeta.size + hdr.size ≤ p.mhl.size ∧
    p.value.align ∣ p.valueOff ∧ p.mhl.align ∣ p.valueOff ∧ p.mhl.align ∣ p.mhl.size ∧
    p.value.align ∣ p.alloc.align ∧ p.mhl.align ∣ p.alloc.align ∧
    k.pmeta.align ∣ p.mhl.align ∧ hdr.align ∣ p.mhl.align ∧ hdr.align ∣ hdr.size := by
  obtain ⟨hm, hv, hp⟩ := gcAlloc_eq_some h
  obtain ⟨ha, hpow, hdvd, hsz, hpd, hhd⟩ := metaHeaderLayout_spec hk.pmeta hh hm
  have hval := hk.value _ _ hv
  unfold prefixHeaderLayout at hp
  split at hp
  · cases hp
  · obtain ⟨hoff, hl, hvalid⟩ := extend_eq_some hp
    obtain ⟨o1, o2, o3⟩ := prefix_offset_dvd hpow hval.1 hdvd
    rw [← hoff] at o1 o2 o3
    refine ⟨by rw [hl], by rw [hl], hvalid, hoff, o3, hsz, o1, o2, hdvd, ?_, ?_, hpd, hhd,
      Nat.dvd_of_mod_eq_zero hh.2⟩
    · rw [hl]; exact dvd_max_right hpow hval.1
    · rw [hl]; exact dvd_max_left hpow hval.1

theorem mod_zero_of_dvd_add {a x y : Nat} (hx : a ∣ x) (hy : a ∣ y) : (x + y) % a = 0 :=
  Nat.mod_eq_zero_of_dvd (Nat.dvd_add hx hy)

/-! ### memory cells -/

theorem applyWrites_outside (ws : List (Nat × Nat)) (m : Nat → Nat) (a : Nat)
    (h : ∀ w ∈ ws, w.1 ≠ a) : applyWrites m ws a = m a := by
  induction ws generalizing m with
  | nil => rfl
  | cons w ws ih =>
    obtain ⟨x, v⟩ := w
    unfold applyWrites
    rw [ih _ (fun w hw => h w (List.mem_cons_of_mem _ hw))]
    have : x ≠ a := h (x, v) List.mem_cons_self
    exact if_neg (fun e => this e.symm)

theorem readCells_congr (m m' : Nat → Nat) (lo n : Nat)
    (h : ∀ a, lo ≤ a → a < lo + n → m a = m' a) : readCells m lo n = readCells m' lo n := by
  unfold readCells
  apply List.map_congr_left
  intro i hi
  have := List.mem_range.1 hi
  exact h _ (by omega) (by omega)

theorem readCells_writeCells (m : Nat → Nat) (lo : Nat) (vals : List Nat) :
    readCells (writeCells m lo vals) lo vals.length = vals := by
  unfold readCells writeCells
  apply List.ext_getElem
  · simp
  · intro i h1 h2
    have h3 : i < vals.length := by simpa using h1
    simp [h3, List.getD_eq_getElem?_getD]

/-! ### the tagged word `w = 16·v + t` -/

theorem lowAnd (v a m : Nat) (ha : a < 16) (hm : m < 16) : (16 * v + a) &&& m = a &&& m := by
  apply Nat.eq_of_testBit_eq
  intro i
  have := Nat.testBit_two_pow_mul_add v (b := a) (i := 4) (by simpa using ha) i
  simp only [Nat.testBit_and]
  rw [show (16:Nat) = 2^4 from rfl, this]
  split
  · rfl
  · have : m.testBit i = false :=
      Nat.testBit_lt_two_pow (Nat.lt_of_lt_of_le (show m < 2^4 from hm)
        (Nat.pow_le_pow_right (by decide) (by omega)))
    simp [this]

theorem lowOr (v a b : Nat) (ha : a < 16) (hb : b < 16) :
    (16 * v + a) ||| b = 16 * v + (a ||| b) := by
  have hab : (a ||| b) < 2 ^ 4 := Nat.or_lt_two_pow (by simpa using ha) (by simpa using hb)
  apply Nat.eq_of_testBit_eq
  intro i
  have h1 := Nat.testBit_two_pow_mul_add v (b := a) (i := 4) (by simpa using ha) i
  have h2 := Nat.testBit_two_pow_mul_add v (b := a ||| b) (i := 4) hab i
  simp only [Nat.testBit_or]
  rw [show (16:Nat) = 2^4 from rfl, h1, h2]
  split
  · simp [Nat.testBit_or]
  · have : b.testBit i = false :=
      Nat.testBit_lt_two_pow (Nat.lt_of_lt_of_le (show b < 2^4 from hb)
        (Nat.pow_le_pow_right (by decide) (by omega)))
    simp [this]

theorem lowAndNot (bits v a m : Nat) (hb : 4 ≤ bits) (hw : 16 * v + a < 2 ^ bits) (ha : a < 16)
    (hm : m < 16) : andNot bits (16 * v + a) m = 16 * v + (a &&& (15 ^^^ m)) := by
  unfold andNot
  have hlt : (a &&& (15 ^^^ m)) < 2 ^ 4 := Nat.lt_of_le_of_lt Nat.and_le_left (by simpa using ha)
  apply Nat.eq_of_testBit_eq
  intro i
  have h1 := Nat.testBit_two_pow_mul_add v (b := a) (i := 4) (by simpa using ha) i
  have h2 := Nat.testBit_two_pow_mul_add v (b := a &&& (15 ^^^ m)) (i := 4) hlt i
  simp only [Nat.testBit_and, Nat.testBit_xor, Nat.testBit_two_pow_sub_one]
  rw [show (16:Nat) = 2^4 from rfl, h2]
  by_cases hi : i < 4
  · simp only [hi, if_true, Nat.testBit_and, Nat.testBit_xor]
    rw [h1]; simp only [hi, if_true]
    have : i < bits := by omega
    rw [show (15:Nat) = 2^4 - 1 from rfl, Nat.testBit_two_pow_sub_one]
    simp [this, hi]
  · simp only [hi, if_false]
    have hmf : m.testBit i = false :=
      Nat.testBit_lt_two_pow (Nat.lt_of_lt_of_le (show m < 2^4 from hm)
        (Nat.pow_le_pow_right (by decide) (by omega)))
    rw [h1]; simp only [hi, if_false, hmf]
    by_cases hib : i < bits
    · simp [hib]
    · have : (2 ^ 4 * v + a).testBit i = false :=
        Nat.testBit_lt_two_pow (Nat.lt_of_lt_of_le hw (Nat.pow_le_pow_right (by decide) (by omega)))
      rw [h1] at this; simp only [hi, if_false] at this
      simp [this]

/-- Every word splits into a 16-aligned part and a 4-bit tag. -/
theorem word_split (w : Nat) : ∃ v t, w = 16 * v + t ∧ t < 16 :=
  ⟨w / 16, w % 16, (Nat.div_add_mod w 16).symm, Nat.mod_lt _ (by decide)⟩

/-! ### the built-in kinds satisfy `PtrKind.Ok` -/

/-- `pad_to_align` keeps the `Layout` invariant when `maxSize + 1` is a power of two
    (`isize::MAX + 1 = 2^63`). -/
theorem padToAlign_valid {maxSize : Nat} {l : Layout} (hmax : isPow2 (maxSize + 1) = true)
    (h : l.Valid maxSize) : (padToAlign l).Valid maxSize := by
  obtain ⟨hp, hs⟩ := h
  refine ⟨hp, ?_⟩
  show roundUp l.size l.align + (l.align - 1) ≤ maxSize
  have hpos := isPow2_pos hp
  have hd : l.align ∣ maxSize + 1 := isPow2_dvd hp hmax (by omega)
  have hd2 : l.align ∣ maxSize + 1 - l.align := Nat.dvd_sub hd (Nat.dvd_refl _)
  have := roundUp_le_of_dvd l.size l.align (maxSize + 1 - l.align) hpos hd2 (by omega)
  omega

theorem unitLayout_type (maxSize : Nat) : IsTypeLayout maxSize unitLayout :=
  ⟨⟨by decide, by simp [unitLayout]⟩, by simp [unitLayout]⟩

/-- Unfolding of a successful `SliceWithHeader::layout`. -/
theorem sliceWithHeaderLayout_eq_some {maxSize : Nat} {h e v : Layout} {len : Nat}
    (he : IsTypeLayout maxSize e)
    (hs : sliceWithHeaderLayout maxSize h e len = some v) :
    ∃ l : Layout, l.Valid maxSize ∧ v = padToAlign l ∧
      l = ⟨sliceFieldOff h e + e.size * len, max h.align e.align⟩ ∧
      e.size * len + (e.align - 1) ≤ maxSize := by
  unfold sliceWithHeaderLayout at hs
  split at hs
  · rename_i arr harr
    split at hs
    · rename_i l off hext
      injection hs with hs
      obtain ⟨rfl, hav⟩ := array_eq_some he.1 harr
      obtain ⟨hoff, hl, hv⟩ := extend_eq_some hext
      refine ⟨l, hv, hs.symm, ?_, hav.2⟩
      rw [hl, hoff]; rfl
    · cases hs
  · cases hs

theorem sizedKind_ok {maxSize : Nat} {v : Layout} (hv : v.Valid maxSize) :
    (sizedKind v).Ok maxSize :=
  ⟨unitLayout_type maxSize, fun _ _ h => by
    have : v = _ := Option.some.inj h
    subst this; exact hv⟩

theorem customKind_ok {maxSize : Nat} {pmeta v : Layout} (hm : IsTypeLayout maxSize pmeta)
    (hv : v.Valid maxSize) : (customKind pmeta v).Ok maxSize :=
  ⟨hm, fun _ _ h => by
    have : v = _ := Option.some.inj h
    subst this; exact hv⟩

theorem sliceWithHeaderKind_ok {maxSize word : Nat} {h e : Layout}
    (hmax : isPow2 (maxSize + 1) = true) (hw : IsTypeLayout maxSize ⟨word, word⟩)
    (he : IsTypeLayout maxSize e) : (sliceWithHeaderKind maxSize word h e).Ok maxSize :=
  ⟨hw, fun len v hs => by
    obtain ⟨l, hl, rfl, _, _⟩ := sliceWithHeaderLayout_eq_some (len := len) he hs
    exact padToAlign_valid hmax hl⟩

/-! ### header-word operations on `w = 16·v + t` -/

theorem split_lt {bits v t t' : Nat} (hb : 4 ≤ bits) (hw : 16 * v + t < 2 ^ bits) (ht : t' < 16) :
    16 * v + t' < 2 ^ bits := by
  obtain ⟨j, rfl⟩ : ∃ j, bits = 4 + j := ⟨bits - 4, by omega⟩
  rw [Nat.pow_add] at *
  omega

theorem nib_or_lt {t m x : Nat} (ht : t < 16) (hx : x < 16) : (t &&& m ||| x) < 16 :=
  Nat.or_lt_two_pow (n := 4) (Nat.lt_of_le_of_lt Nat.and_le_left ht) hx

theorem untag_split {bits v t : Nat} (hb : 4 ≤ bits) (hw : 16 * v + t < 2 ^ bits) (ht : t < 16) :
    untag bits (16 * v + t) = 16 * v := by
  unfold untag vtableAlign
  rw [lowAndNot bits v t (16 - 1) hb hw ht (by decide)]
  have : t &&& (15 ^^^ (16 - 1)) = 0 := by
    show t &&& 0 = 0
    exact Nat.and_zero t
  rw [this]; rfl

theorem hdrSetColor_split {bits v t c : Nat} (hb : 4 ≤ bits) (hw : 16 * v + t < 2 ^ bits)
    (ht : t < 16) : hdrSetColor bits (16 * v + t) c = 16 * v + (t &&& (15 ^^^ 3) ||| (c &&& 3)) := by
  unfold hdrSetColor tagSet colorMask
  rw [lowAndNot bits v t 3 hb hw ht (by decide),
    lowOr v _ _ (Nat.lt_of_le_of_lt Nat.and_le_left ht)
      (Nat.lt_of_le_of_lt Nat.and_le_right (by decide))]

theorem tagSetBool_split {bits v t mask : Nat} {b : Bool} (hb : 4 ≤ bits)
    (hw : 16 * v + t < 2 ^ bits) (ht : t < 16) (hm : mask < 16) :
    tagSetBool bits mask (16 * v + t) b =
      16 * v + (t &&& (15 ^^^ mask) ||| (if b = true then mask else 0)) := by
  unfold tagSetBool
  rw [lowAndNot bits v t mask hb hw ht hm,
    lowOr v _ _ (Nat.lt_of_le_of_lt Nat.and_le_left ht) (by cases b <;> simp <;> omega)]

/-- The finite facts about 4-bit tags, checked exhaustively by the kernel. -/
theorem nib_facts : ∀ b : Bool, ∀ t, t < 16 → ∀ c, c < 4 →
    ((t &&& (15 ^^^ 3) ||| (c &&& 3)) &&& 3 = c ∧
      (((t &&& (15 ^^^ 3) ||| (c &&& 3)) &&& 4) != 0) = ((t &&& 4) != 0) ∧
      (((t &&& (15 ^^^ 3) ||| (c &&& 3)) &&& 8) != 0) = ((t &&& 8) != 0)) ∧
    ((((t &&& (15 ^^^ 4) ||| (if b = true then 4 else 0)) &&& 4) != 0) = b ∧
      (t &&& (15 ^^^ 4) ||| (if b = true then 4 else 0)) &&& 3 = t &&& 3 ∧
      (((t &&& (15 ^^^ 4) ||| (if b = true then 4 else 0)) &&& 8) != 0) = ((t &&& 8) != 0)) ∧
    ((((t &&& (15 ^^^ 8) ||| (if b = true then 8 else 0)) &&& 8) != 0) = b ∧
      (t &&& (15 ^^^ 8) ||| (if b = true then 8 else 0)) &&& 3 = t &&& 3 ∧
      (((t &&& (15 ^^^ 8) ||| (if b = true then 8 else 0)) &&& 4) != 0) = ((t &&& 4) != 0)) := by
  intro b; cases b <;> decide

/-! ### header fields, stores, collector writes -/

theorem wordBytes_length (n w : Nat) : (wordBytes n w).length = n := by
  induction n generalizing w with
  | zero => rfl
  | succ n ih => simp [wordBytes, ih]

theorem bytesWord_wordBytes (n w : Nat) (h : w < 256 ^ n) : bytesWord (wordBytes n w) = w := by
  induction n generalizing w with
  | zero =>
    have : w = 0 := by simpa using h
    subst this; rfl
  | succ n ih =>
    have hd : w / 256 < 256 ^ n := by
      apply Nat.div_lt_of_lt_mul
      rw [Nat.pow_succ, Nat.mul_comm] at h
      exact h
    simp only [wordBytes, bytesWord, ih _ hd]
    have := Nat.div_add_mod w 256
    omega

theorem writeCells_outside (m : Nat → Nat) (lo : Nat) (vals : List Nat) (a : Nat)
    (h : a < lo ∨ lo + vals.length ≤ a) : writeCells m lo vals a = m a := by
  unfold writeCells
  rw [if_neg (by omega)]

theorem Store.run_outside (m : Nat → Nat) (s : Store) (a : Nat)
    (h : a < s.lo ∨ s.lo + s.bytes.length ≤ a) : s.run m a = m a :=
  writeCells_outside m s.lo s.bytes a h

theorem foldl_run_outside (ss : List Store) (m : Nat → Nat) (a : Nat)
    (h : ∀ s ∈ ss, a < s.lo ∨ s.lo + s.bytes.length ≤ a) : ss.foldl Store.run m a = m a := by
  induction ss generalizing m with
  | nil => rfl
  | cons s ss ih =>
    rw [List.foldl_cons, ih _ (fun s' hs' => h s' (List.mem_cons_of_mem _ hs'))]
    exact Store.run_outside m s a (h s List.mem_cons_self)

/-- A header mutator stores one word inside the `GcHeader` struct at `hp`. -/
theorem HeaderWrite.store_in_header {f : HeaderFields} {hdr : Layout} (hf : f.Fits hdr)
    (bits hp : Nat) (m : Nat → Nat) (w : HeaderWrite) :
    hp ≤ (w.store f bits hp m).lo ∧
      (w.store f bits hp m).lo + (w.store f bits hp m).bytes.length ≤ hp + hdr.size ∧
      (w.store f bits hp m).bytes.length = f.word ∧
      ((w.store f bits hp m).lo = hp + f.vtableOff ∨ (w.store f bits hp m).lo = hp + f.nextOff) := by
  obtain ⟨h1, h2⟩ := hf
  cases w <;> simp [HeaderWrite.store, wordBytes_length] <;> omega

end GcArena.Layout
