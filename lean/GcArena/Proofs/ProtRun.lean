import GcArena.Proofs.MutFrame
/-!
  Protection of a marked object over arbitrary histories: from a mark-phase state in which `t` is
  gray or black, through any sequence of API operations — callbacks of every kind with any
  mutator operations, collection calls of every method — for as long as the current cycle is not
  completed (no new `'Z'`, the `Sweep → Sleep` switch, in the step log), `t` stays allocated,
  undestructed and out of the running sweep's reach, and no event about it is logged.
-/
namespace GcArena

/-! ### Every op that keeps the arena alive is a mutator op or moves the context by micro-steps -/

theorem step_kind {a : Arena} (h : Inv a) (op : Op) (hal : (a.step op).1.alive = true) :
    op.isMutator = true ∨ CollectRel a (a.step op).1 := by
  cases op with
  | collect m k f o => exact Or.inr (step_collect_rel h m k f o)
  | dropArena =>
    right
    have hnot : (!a.alive) = false := by rw [h.alive]; rfl
    unfold Arena.step at hal ⊢
    rw [hnot] at hal ⊢
    simp only [Bool.false_eq_true, if_false, Arena.stepBody] at hal ⊢
    split
    · exact ⟨rfl, rfl, rfl, rfl, [], rfl, fun _ => rfl⟩
    · rename_i hcb
      rw [if_neg hcb] at hal
      cases hal
  | _ => exact Or.inl rfl

theorem alive_of_run_alive {a : Arena} {op : Op} {ops : List Op}
    (hal : ((a.step op).1.run ops).alive = true) : (a.step op).1.alive = true := by
  cases hd : (a.step op).1.alive with
  | true => rfl
  | false => rw [run_dead hd] at hal; rw [hd] at hal; cases hal

/-! ### The step log counts completed cycles -/

/-- Number of `Sweep → Sleep` switches (`'Z'`) in the step log: completed cycles. -/
def zc (c : Ctx) : Nat := c.steps.count 'Z'

theorem micro_steps {c c' : Ctx} {root} (m : Micro) (hs : c.micro root m = some c') :
    ∃ ch, c'.steps = ch :: c.steps ∧ (ch = 'Z' ↔ ∃ b, m = .toSleep b) := by
  cases m with
  | wake =>
    simp only [Ctx.micro] at hs
    split at hs
    · cases hs; exact ⟨'W', rfl, by simp⟩
    · cases hs
  | markStep f =>
    simp only [Ctx.micro] at hs
    split at hs
    · cases hs
      obtain ⟨ch, hz, _, e⟩ := markOne_steps c root f
      exact ⟨ch, e, by simp [hz]⟩
    · cases hs
  | markBreak =>
    simp only [Ctx.micro] at hs
    split at hs
    · cases hs
      obtain ⟨ch, hz, _, e⟩ := markOne_steps c root none
      exact ⟨ch, e, by simp [hz]⟩
    · cases hs
  | toSweep =>
    simp only [Ctx.micro] at hs
    split at hs
    · cases hs; exact ⟨'S', rfl, by simp⟩
    · cases hs
  | sweepStep =>
    simp only [Ctx.micro] at hs
    split at hs
    · cases hs
      obtain ⟨ch, hz, _, e⟩ := sweepOne_steps c
      exact ⟨ch, e, by simp [hz]⟩
    · cases hs
  | sweepEnd =>
    simp only [Ctx.micro] at hs
    split at hs
    · cases hs
      obtain ⟨ch, hz, _, e⟩ := sweepOne_steps c
      exact ⟨ch, e, by simp [hz]⟩
    · cases hs
  | toSleep b =>
    simp only [Ctx.micro] at hs
    split at hs
    · cases hs; exact ⟨'Z', rfl, by simp⟩
    · cases hs

theorem micro_zc {c c' : Ctx} {root} (m : Micro) (hs : c.micro root m = some c') :
    zc c ≤ zc c' ∧ (zc c' = zc c ↔ ∀ b, m ≠ .toSleep b) := by
  obtain ⟨ch, e, hz⟩ := micro_steps m hs
  unfold zc
  rw [e, List.count_cons]
  by_cases hch : ch = 'Z'
  · subst hch
    obtain ⟨b, hb⟩ := hz.mp rfl
    refine ⟨by simp, ?_⟩
    constructor
    · intro h; simp at h
    · intro h; exact absurd hb (h b)
  · have : (ch == 'Z') = false := by simpa using hch
    rw [this]
    refine ⟨by simp, ?_⟩
    constructor
    · intro _ b hb; exact hch (hz.mpr ⟨b, hb⟩)
    · intro _; simp

theorem micros_zc_mono {root} (ms : List Micro) : ∀ {c c' : Ctx}, c.micros root ms = some c' →
    zc c ≤ zc c' := by
  induction ms with
  | nil => intro c c' hs; simp only [Ctx.micros] at hs; cases hs; exact Nat.le_refl _
  | cons m ms ih =>
    intro c c' hs
    simp only [Ctx.micros] at hs
    cases hm : c.micro root m with
    | none => rw [hm] at hs; cases hs
    | some c1 =>
      rw [hm] at hs
      exact Nat.le_trans (micro_zc m hm).1 (ih hs)

/-- A micro-step sequence that completes no cycle contains no `Sweep → Sleep` switch. -/
theorem micros_noSleep {root} (ms : List Micro) : ∀ {c c' : Ctx}, c.micros root ms = some c' →
    zc c' = zc c → ∀ m, m ∈ ms → ∀ b, m ≠ .toSleep b := by
  induction ms with
  | nil => intro c c' _ _ m hm; cases hm
  | cons m0 ms ih =>
    intro c c' hs hz m hm
    simp only [Ctx.micros] at hs
    cases hm0 : c.micro root m0 with
    | none => rw [hm0] at hs; cases hs
    | some c1 =>
      rw [hm0] at hs
      have h1 := micro_zc m0 hm0
      have h2 := micros_zc_mono ms hs
      have e1 : zc c1 = zc c := by omega
      have e2 : zc c' = zc c1 := by omega
      simp only [List.mem_cons] at hm
      rcases hm with hm | hm
      · subst hm; exact h1.2.mp e1
      · exact ih hs e2 m hm

/-! ### Protection under collector steps, with the events emitted -/

theorem Prot.safe {c : Ctx} {root temps hole} (h : CInvH c root temps hole) {t : Nat} (p : Prot c t) :
    Safe c t := by
  rcases p with ⟨hp, o, ho, hc⟩ | ⟨_, hs⟩
  · exact ⟨o, ho, h.markedLive t o ho hc, fun hps => by rw [hp] at hps; cases hps⟩
  · exact hs

theorem micro_prot_events {c c' : Ctx} {root} {t : Nat} (h : CInv c root []) (m : Micro)
    (hs : c.micro root m = some c') (p : Prot c t) :
    ∃ evs, NewEvents c c' evs ∧ ∀ e, e ∈ evs → e.target ≠ t := by
  have none_ : c'.log = c.log → ∃ evs, NewEvents c c' evs ∧ ∀ e, e ∈ evs → e.target ≠ t :=
    fun hl => ⟨[], by simpa [NewEvents] using hl, fun e he => by cases he⟩
  have sweep_ : c.phase = .sweep → ∃ evs, NewEvents c c.sweepOne.1 evs ∧ ∀ e, e ∈ evs → e.target ≠ t := by
    intro hp
    obtain ⟨evs, hn, he⟩ := sweepOne_events h hp
    refine ⟨evs, hn, fun e hem heq => (he e hem).2.1 ?_⟩
    rw [heq]; exact p.safe h
  cases m with
  | wake =>
    simp only [Ctx.micro] at hs
    split at hs
    · cases hs; exact none_ rfl
    · cases hs
  | markStep f =>
    simp only [Ctx.micro] at hs
    split at hs
    · cases hs; rename_i hp
      simp only [Bool.and_eq_true, decide_eq_true_eq] at hp
      exact none_ (markOne_spec h hp.1 f).2.log
    · cases hs
  | markBreak =>
    simp only [Ctx.micro] at hs
    split at hs
    · cases hs; rename_i hp
      simp only [Bool.and_eq_true, decide_eq_true_eq] at hp
      exact none_ (markOne_spec h hp.1 none).2.log
    · cases hs
  | toSweep =>
    simp only [Ctx.micro] at hs
    split at hs
    · cases hs; exact none_ rfl
    · cases hs
  | toSleep b =>
    simp only [Ctx.micro] at hs
    split at hs
    · cases hs; exact none_ rfl
    · cases hs
  | sweepStep =>
    simp only [Ctx.micro] at hs
    split at hs
    · cases hs; rename_i hp
      simp only [Bool.and_eq_true, decide_eq_true_eq] at hp
      exact sweep_ hp.1
    · cases hs
  | sweepEnd =>
    simp only [Ctx.micro] at hs
    split at hs
    · cases hs; rename_i hp
      simp only [Bool.and_eq_true, decide_eq_true_eq] at hp
      exact sweep_ hp.1
    · cases hs

/-- The new part of the log says nothing about `t`. -/
def LogAvoids (c c' : Ctx) (t : Nat) : Prop :=
  ∃ evs, c'.log = evs ++ c.log ∧ ∀ e, e ∈ evs → e.target ≠ t

theorem LogAvoids.refl (c : Ctx) (t : Nat) : LogAvoids c c t := ⟨[], rfl, fun _ he => by cases he⟩

theorem LogAvoids.trans {a b c : Ctx} {t : Nat} (h1 : LogAvoids a b t) (h2 : LogAvoids b c t) :
    LogAvoids a c t := by
  obtain ⟨e1, l1, a1⟩ := h1
  obtain ⟨e2, l2, a2⟩ := h2
  refine ⟨e2 ++ e1, by rw [l2, l1, List.append_assoc], ?_⟩
  intro e he
  rw [List.mem_append] at he
  rcases he with he | he
  · exact a2 e he
  · exact a1 e he

theorem micros_prot_events {root} {t : Nat} (ms : List Micro) : ∀ {c c' : Ctx}, CInv c root [] →
    c.micros root ms = some c' → (∀ m, m ∈ ms → ∀ b, m ≠ .toSleep b) → Prot c t →
    Prot c' t ∧ LogAvoids c c' t := by
  induction ms with
  | nil => intro c c' _ hs _ p; simp only [Ctx.micros] at hs; cases hs; exact ⟨p, LogAvoids.refl _ _⟩
  | cons m ms ih =>
    intro c c' h hs hm p
    simp only [Ctx.micros] at hs
    cases hc1 : c.micro root m with
    | none => rw [hc1] at hs; cases hs
    | some c1 =>
      rw [hc1] at hs
      have p1 := micro_prot h m hc1 (hm m (by simp)) p
      obtain ⟨evs, hn, hav⟩ := micro_prot_events h m hc1 p
      obtain ⟨p2, l2⟩ := ih (micro_inv h m hc1) hs (fun m' hm' => hm m' (List.mem_cons_of_mem _ hm')) p1
      exact ⟨p2, LogAvoids.trans ⟨evs, hn, hav⟩ l2⟩

/-! ### Protection under mutator operations -/

theorem step_prot {a : Arena} (h : Inv a) (op : Op) (hop : op.isMutator = true) {t : Nat}
    (p : Prot a.ctx t) : Prot (a.step op).1.ctx t := by
  have m := step_mutFacts h op hop
  have hph : (a.step op).1.ctx.phase = a.ctx.phase := (step_quiet h op hop).phase
  rcases p with ⟨hp, o, ho, hc⟩ | ⟨hp, o, ho, hl, hb⟩
  · obtain ⟨o', ho', _, _, cl, _⟩ := m.keep t o ho
    refine Or.inl ⟨hph.trans hp, o', ho', ?_⟩
    cases hcol : o'.color <;> rcases hc with hc | hc <;> simp_all [cls]
  · obtain ⟨o', ho', l, _, _, hcol, _⟩ := m.keep t o ho
    refine Or.inr ⟨hph.trans hp, o', ho', l.trans hl, ?_⟩
    intro _ hmem
    rw [m.rest] at hmem
    rw [hcol (by rw [hp]; simp)]
    exact hb hp hmem

/-! ### Over whole histories -/

/-- What one step contributes: completed cycles only grow, and if none was completed the
    protection and the log discipline carry over. -/
def ProtRel (t : Nat) (a a' : Arena) : Prop :=
  zc a.ctx ≤ zc a'.ctx ∧
    (zc a'.ctx = zc a.ctx → Prot a.ctx t → Prot a'.ctx t ∧ LogAvoids a.ctx a'.ctx t)

theorem step_protRel {a : Arena} (h : Inv a) (op : Op) (hal : (a.step op).1.alive = true) (t : Nat) :
    ProtRel t a (a.step op).1 := by
  rcases step_kind h op hal with hop | rel
  · have m := step_mutFacts h op hop
    have hz : zc (a.step op).1.ctx = zc a.ctx := by unfold zc; rw [m.steps]
    refine ⟨by rw [hz]; exact Nat.le_refl _, fun _ p => ⟨step_prot h op hop p, ?_⟩⟩
    exact ⟨[], by simpa using (step_quiet h op hop).log, fun _ he => by cases he⟩
  · obtain ⟨ms, hms, hnil⟩ := rel.reach
    by_cases hcb : a.cb = none
    · have h0 := h.cinv0 hcb
      refine ⟨micros_zc_mono ms hms, fun hz p => ?_⟩
      exact micros_prot_events ms h0 hms (micros_noSleep ms hms hz) p
    · have := hnil hcb
      subst this
      simp only [Ctx.micros, Option.some.injEq] at hms
      unfold ProtRel
      rw [← hms]
      exact ⟨Nat.le_refl _, fun _ p => ⟨p, LogAvoids.refl _ _⟩⟩

theorem run_protRel (t : Nat) (ops : List Op) : ∀ (a : Arena), Inv a → (a.run ops).alive = true →
    ProtRel t a (a.run ops) ∧ Inv (a.run ops) := by
  induction ops with
  | nil => intro a h _; exact ⟨⟨Nat.le_refl _, fun _ p => ⟨p, LogAvoids.refl _ _⟩⟩, h⟩
  | cons op ops ih =>
    intro a h hal
    simp only [Arena.run] at hal ⊢
    have hal1 := alive_of_run_alive hal
    have h1 := inv_step h op hal1
    obtain ⟨z1, k1⟩ := step_protRel h op hal1 t
    obtain ⟨⟨z2, k2⟩, hinv⟩ := ih _ h1 hal
    refine ⟨⟨Nat.le_trans z1 z2, fun hz p => ?_⟩, hinv⟩
    have e1 : zc (a.step op).1.ctx = zc a.ctx := by omega
    have e2 : zc ((a.step op).1.run ops).ctx = zc (a.step op).1.ctx := by omega
    obtain ⟨p1, l1⟩ := k1 e1 p
    obtain ⟨p2, l2⟩ := k2 e2 p1
    exact ⟨p2, l1.trans l2⟩

/-- "No new `'Z'` in the step log" in terms of the count. -/
theorem zc_eq_of_suffix {c c' : Ctx} {new : List Char} (e : c'.steps = new ++ c.steps) (hz : 'Z' ∉ new) :
    zc c' = zc c := by
  unfold zc
  rw [e, List.count_append, List.count_eq_zero_of_not_mem hz]
  simp

end GcArena
