import GcArena.Proofs.CycleRun
/-!
  Self-driven collection calls never leave the collector *parked* — in `Phase::Sweep` with nothing
  left to sweep — and hence, inside one cycle, never with an empty arena: the only way to have an
  empty arena in a non-sleep phase of a cycle that woke with allocations is to be parked, and the
  loop's debt test refuses to stop there (repair of defect D5).  Only a *replayed* collection
  call (an oracle can cut a call anywhere) can stop there.
-/
namespace GcArena

/-- `Phase::Sweep` with nothing left to sweep. -/
def Parked (c : Ctx) : Prop := c.phase = .sweep ∧ c.rest = []

/-- Awake, not marking an empty arena, not parked. -/
structure GoodA (c : Ctx) : Prop where
  awake : c.phase ≠ .sleep
  markNE : c.phase = .mark → c.metrics.totalGcs ≠ 0
  notParked : ¬ Parked c

theorem hasDebt_nonempty {m : Metrics} (h : m.hasDebt = true) : m.totalGcs ≠ 0 := by
  intro h0
  simp only [Metrics.hasDebt, decide_eq_true_eq] at h
  unfold Metrics.allocationDebt at h
  rw [if_pos h0] at h
  exact absurd h Rat.lt_irrefl

theorem GoodA.nonempty {c : Ctx} {root temps} (g : GoodA c) (h : CInv c root temps) :
    c.metrics.totalGcs ≠ 0 := by
  cases hp : c.phase with
  | drop => exact absurd hp h.notDrop
  | sleep => exact absurd hp g.awake
  | mark => exact g.markNE hp
  | sweep =>
    have hr : c.rest ≠ [] := fun hr => g.notParked ⟨hp, hr⟩
    rw [h.count]
    intro h0
    have : c.pre ++ c.rest = [] := List.eq_nil_of_length_eq_zero h0
    exact hr (List.append_eq_nil_iff.mp this).2

/-- The driver loop, self-driven: if it appended no `'Z'` it ends awake, not parked, and not
    marking an empty arena. -/
theorem collectLoop_goodA {root ru stop fault} (fuel : Nat) :
    ∀ (c : Ctx) (hs : Bool) (k : Nat) (c' : Ctx) (ex : Exit), CInv c root [] →
      (c.phase = .sleep → c.metrics.hasDebt = true) →
      (c.phase = .mark → c.metrics.totalGcs ≠ 0) → (Parked c → ¬ stop ≤ Stop.atSweep) →
      Ctx.collectLoop root ru stop fault fuel c hs k = (c', ex) →
      ∃ new, c'.steps = new ++ c.steps ∧ ('Z' ∉ new → ex ≠ .outOfFuel → GoodA c') := by
  induction fuel with
  | zero =>
    intro c hs k c' ex _ _ _ _ h
    simp only [Ctx.collectLoop, Prod.mk.injEq] at h
    rw [← h.1, ← h.2]
    exact ⟨[], rfl, fun _ he => absurd rfl he⟩
  | succ fuel ih =>
    intro c hs k c' ex hinv hsl hmk hpk h
    -- return in `c1`, reached by the non-`'Z'` steps `chs`
    have ret : ∀ (c1 : Ctx) (chs : List Char) (e : Exit), c1.steps = chs ++ c.steps → GoodA c1 →
        (c1, e) = (c', ex) →
        ∃ new, c'.steps = new ++ c.steps ∧ ('Z' ∉ new → ex ≠ .outOfFuel → GoodA c') := by
      intro c1 chs e e1 g he
      simp only [Prod.mk.injEq] at he
      rw [← he.1]
      exact ⟨chs, e1, fun _ _ => g⟩
    -- recursive call from `c1`
    have recur : ∀ (c1 : Ctx) (chs : List Char) (hs1 : Bool) (k1 : Nat), c1.steps = chs ++ c.steps →
        CInv c1 root [] → (c1.phase = .sleep → c1.metrics.hasDebt = true) →
        (c1.phase = .mark → c1.metrics.totalGcs ≠ 0) → (Parked c1 → ¬ stop ≤ Stop.atSweep) →
        Ctx.collectLoop root ru stop fault fuel c1 hs1 k1 = (c', ex) →
        ∃ new, c'.steps = new ++ c.steps ∧ ('Z' ∉ new → ex ≠ .outOfFuel → GoodA c') := by
      intro c1 chs hs1 k1 e1 h1 a1 a2 a3 he
      obtain ⟨new2, e2, f2⟩ := ih c1 hs1 k1 c' ex h1 a1 a2 a3 he
      refine ⟨new2 ++ chs, by rw [e2, e1, List.append_assoc], fun hn => ?_⟩
      exact f2 (fun hm => hn (List.mem_append_left _ hm))
    unfold Ctx.collectLoop at h
    cases hp : c.phase with
    | drop => exact absurd hp hinv.notDrop
    | sleep =>
      simp only [hp] at h
      have hd := hsl hp
      have hb : (c.switch .mark).debtBreak ru = false := by
        have : (c.switch .mark).metrics.hasDebt = true := hd
        simp [Ctx.debtBreak, this]
      rw [hb] at h
      simp only [Bool.false_eq_true, if_false] at h
      exact recur _ ['W'] _ _ rfl (wake_spec hinv hp) (fun hq => by simp [Ctx.switch, Ctx.step] at hq)
        (fun _ => hasDebt_nonempty hd) (fun hq => by simp [Parked, Ctx.switch, Ctx.step] at hq) h
    | mark =>
      simp only [hp] at h
      have hne := hmk hp
      have hsp := markOne_spec hinv hp (faultAt fault k) (root := root)
      have p := markOne_markPrim hinv (faultAt fault k) (root := root)
      obtain ⟨ch, hz, _, est⟩ := markOne_steps c root (faultAt fault k)
      have hph1 : (c.markOne root (faultAt fault k)).1.phase = .mark := by rw [p.phase]; exact hp
      have g1 : GoodA (c.markOne root (faultAt fault k)).1 :=
        ⟨(by rw [hph1]; simp), (fun _ => by rw [p.total]; exact hne),
         (fun hq => by rw [Parked, hph1] at hq; cases hq.1)⟩
      cases hg : c.grayRemaining with
      | false =>
        rw [markOne_break _ hg] at h hsp
        simp only at h
        split at h
        · exact ret (c.step 'b') ['b'] _ rfl
            ⟨(by simp [hp]), (fun _ => hne), (fun hq => by simp [Parked, hp] at hq)⟩ h
        · have hg' : (c.step 'b').grayRemaining = false := hg
          have h2 : CInv (c.step 'b').enterSweep root [] := enterSweep_spec hsp.1 hp hg'
          have hrest : (c.step 'b').enterSweep.rest ≠ [] := by
            show c.pre ++ c.rest ≠ []
            intro hnil
            apply hne; rw [hinv.count, hnil]; rfl
          have g2 : GoodA (c.step 'b').enterSweep :=
            ⟨(by simp [Ctx.enterSweep, Ctx.switch, Ctx.step]),
             (fun hq => by simp [Ctx.enterSweep, Ctx.switch, Ctx.step] at hq),
             (fun hq => hrest hq.2)⟩
          split at h
          · exact ret _ ['S', 'b'] _ rfl g2 h
          · exact recur _ ['S', 'b'] _ _ rfl h2 (fun hq => absurd hq g2.awake)
              (fun hq => by simp [Ctx.enterSweep, Ctx.switch, Ctx.step] at hq)
              (fun hq => absurd hq g2.notParked) h
      | true =>
        have hnb := markOne_not_break (root := root) (faultAt fault k) hg
        generalize hmo : c.markOne root (faultAt fault k) = r at h hsp est hph1 g1 hnb
        obtain ⟨c1, fl⟩ := r
        simp only at h hsp est hph1 g1 hnb
        cases fl with
        | «break» => exact absurd rfl hnb
        | unwind => exact ret c1 [ch] _ est g1 h
        | «continue» =>
          simp only at h
          split at h
          · exact ret c1 [ch] _ est g1 h
          · exact recur c1 [ch] _ _ est hsp.1 (fun hq => absurd hq g1.awake) g1.markNE
              (fun hq => absurd hq g1.notParked) h
    | sweep =>
      simp only [hp] at h
      split at h
      · rename_i hst
        exact ret c [] _ rfl ⟨(by rw [hp]; simp), (fun hq => by rw [hp] at hq; cases hq),
          (fun hq => hpk hq hst)⟩ h
      · rename_i hst
        have hsp := sweepOne_spec hinv hp
        cases hr : c.rest with
        | nil =>
          rw [sweepOne_end hr] at h
          simp only at h
          have h1 : CInv (c.step 'e') root [] := hinv.sameView (sameView_step c 'e')
          have h2 : CInv ((c.step 'e').enterSleep hs) root [] := enterSleep_spec h1 hp hr hs
          have e2 : ((c.step 'e').enterSleep hs).steps = ['Z', 'e'] ++ c.steps := rfl
          -- whatever follows, a `'Z'` was appended
          have fin : ∀ new2, c'.steps = new2 ++ ((c.step 'e').enterSleep hs).steps →
              ∃ new, c'.steps = new ++ c.steps ∧ ('Z' ∉ new → ex ≠ .outOfFuel → GoodA c') := by
            intro new2 e
            refine ⟨new2 ++ ['Z', 'e'], by rw [e, e2, List.append_assoc], fun hn => ?_⟩
            exact absurd (List.mem_append_right _ (by simp)) hn
          split at h
          · cases h; exact fin [] rfl
          · split at h
            · cases h
              apply fin []
              split <;> simp
            · split at h
              · cases h; exact fin [] rfl
              · have r := collectLoop_reaches (ru := ru) (stop := stop) (fault := fault) fuel _ hs k h2
                rw [h] at r
                obtain ⟨new2, e, _⟩ := r.cframe h2
                exact fin new2 e
        | cons i rest' =>
          have hne : c.rest ≠ [] := by rw [hr]; simp
          have hfl := sweepOne_flow hne
          obtain ⟨ch, hz, _, est⟩ := sweepOne_steps c
          rw [show c.sweepOne = (c.sweepOne.1, c.sweepOne.2) from rfl, hfl] at h
          simp only at h
          split at h
          · rename_i hb
            exact ret _ [ch] _ est ⟨(by rw [hsp.2]; simp), (fun hq => by rw [hsp.2] at hq; cases hq),
              (fun hq => debtBreak_not_parked hb hq)⟩ h
          · exact recur _ [ch] _ _ est hsp.1 (fun hq => by rw [hsp.2] at hq; cases hq)
              (fun hq => by rw [hsp.2] at hq; cases hq) (fun _ => hst) h

/-- A whole self-driven call: from an awake good state — or asleep in debt (whatever the method:
    a debt-driven one wakes because of the debt, `finish_marking` / `finish_cycle` anyway). -/
theorem doCollection_goodA {c c' : Ctx} {root ru stop fault ex} (hinv : CInv c root [])
    (h0 : GoodA c ∨ (c.phase = .sleep ∧ c.metrics.hasDebt = true))
    (hr : c.doCollection root ru stop fault = (c', ex)) :
    ∃ new, c'.steps = new ++ c.steps ∧ ('Z' ∉ new → GoodA c') := by
  have hfuel : ex ≠ .outOfFuel := by
    have := doCollection_terminates hinv ru stop fault; rw [hr] at this; exact this
  unfold Ctx.doCollection at hr
  split at hr
  · rename_i hb
    simp only [Prod.mk.injEq] at hr
    rw [← hr.1]
    rcases h0 with g | ⟨_, hd⟩
    · exact ⟨[], rfl, fun _ => g⟩
    · simp [hd] at hb
  · obtain ⟨new, e, f⟩ := collectLoop_goodA _ c false 0 c' ex hinv
      (fun hs => by
        rcases h0 with g | ⟨_, h3⟩
        · exact absurd hs g.awake
        · exact h3)
      (fun hm => by
        rcases h0 with g | ⟨h1, _⟩
        · exact g.markNE hm
        · rw [h1] at hm; cases hm)
      (fun hq => by
        rcases h0 with g | ⟨h1, _⟩
        · exact absurd hq g.notParked
        · rw [Parked, h1] at hq; cases hq.1) hr
    exact ⟨new, e, fun hn => f hn hfuel⟩

/-- A `cycle_debt` call that returns with the cycle unfinished did nothing at all, or does not
    return parked. -/
theorem collectLoop_cycle_notParked {root fault} (fuel : Nat) :
    ∀ (c : Ctx) (hs : Bool) (k : Nat) (c' : Ctx), CInv c root [] →
      Ctx.collectLoop root .payDebt .finishCycle fault fuel c hs k = (c', .returned) →
      c'.phase ≠ .sleep → ¬ Parked c' := by
  induction fuel with
  | zero => intro c hs k c' _ h; simp [Ctx.collectLoop] at h
  | succ fuel ih =>
    intro c hs k c' hinv h hns
    have nle1 : ¬ (Stop.finishCycle ≤ Stop.fullyMarked) := by decide
    have nle2 : ¬ (Stop.finishCycle ≤ Stop.atSweep) := by decide
    have ret : ∀ (c1 : Ctx), c1.debtBreak .payDebt = true → (c1, Exit.returned) = (c', Exit.returned) →
        ¬ Parked c' := by
      intro c1 hb he
      simp only [Prod.mk.injEq, and_true] at he
      rw [← he]; exact debtBreak_not_parked hb
    unfold Ctx.collectLoop at h
    cases hp : c.phase with
    | drop => exact absurd hp hinv.notDrop
    | sleep =>
      simp only [hp] at h
      split at h
      · rename_i hb; exact ret _ hb h
      · exact ih _ _ _ _ (wake_spec hinv hp) h hns
    | mark =>
      simp only [hp] at h
      have hsp := markOne_spec hinv hp (faultAt fault k) (root := root)
      cases hg : c.grayRemaining with
      | false =>
        rw [markOne_break _ hg] at h hsp
        simp only [nle1, if_false] at h
        have hg' : (c.step 'b').grayRemaining = false := hg
        have h2 : CInv (c.step 'b').enterSweep root [] := enterSweep_spec hsp.1 hp hg'
        split at h
        · rename_i hb; exact ret _ hb h
        · exact ih _ _ _ _ h2 h hns
      | true =>
        have hnb := markOne_not_break (root := root) (faultAt fault k) hg
        generalize hmo : c.markOne root (faultAt fault k) = r at h hsp hnb
        obtain ⟨c1, fl⟩ := r
        simp only at h hsp hnb
        cases fl with
        | «break» => exact absurd rfl hnb
        | unwind => simp at h
        | «continue» =>
          simp only at h
          split at h
          · rename_i hb; exact ret _ hb h
          · exact ih _ _ _ _ hsp.1 h hns
    | sweep =>
      simp only [hp, nle2, if_false] at h
      have hsp := sweepOne_spec hinv hp
      cases hr : c.rest with
      | nil =>
        rw [sweepOne_end hr] at h
        simp only [if_true, Prod.mk.injEq, and_true] at h
        exfalso; apply hns; rw [← h]; rfl
      | cons i rest' =>
        have hne : c.rest ≠ [] := by rw [hr]; simp
        have hfl := sweepOne_flow hne
        rw [show c.sweepOne = (c.sweepOne.1, c.sweepOne.2) from rfl, hfl] at h
        simp only at h
        split at h
        · rename_i hb; exact ret _ hb h
        · exact ih _ _ _ _ hsp.1 h hns

theorem doCollection_cycle_notParked {c c' : Ctx} {root fault} (hinv : CInv c root [])
    (hr : c.doCollection root .payDebt .finishCycle fault = (c', .returned)) (hns : c'.phase ≠ .sleep) :
    c' = c ∨ ¬ Parked c' := by
  unfold Ctx.doCollection at hr
  split at hr
  · simp only [Prod.mk.injEq, and_true] at hr; exact Or.inl hr.symm
  · exact Or.inr (collectLoop_cycle_notParked _ _ _ _ _ hinv hr hns)

/-! ### Mutator operations leave the sweep list alone -/

theorem stepBody_rest (a : Arena) (fin : Bool) (op : Op) (hop : op.isMutator = true) :
    (a.stepBody fin op).1.ctx.rest = a.ctx.rest := by
  cases op with
  | collect m k f o => simp [Op.isMutator] at hop
  | dropArena => simp [Op.isMutator] at hop
  | setPacing p => rfl
  | adjustDebt x => rfl
  | leave => simp only [Arena.stepBody]; split <;> rfl
  | enter k =>
    simp only [Arena.stepBody]
    split
    · rfl
    · cases k with
      | mutate => rfl
      | mutateRoot => exact (rootBarrier_silent _).rest
      | finalize => simp only; split <;> rfl
  | alloc nt slots =>
    simp only [Arena.stepBody]
    split
    · rfl
    · split
      · rfl
      · split
        · rfl
        · simp only [quiet_push]; rfl
  | readRoot i =>
    simp only [Arena.stepBody]
    split
    · rfl
    · split <;> first | rfl | (simp only [quiet_push])
  | read p i =>
    simp only [Arena.stepBody]
    split
    · rfl
    · split <;> first | rfl | (simp only [quiet_push])
  | downgrade p =>
    simp only [Arena.stepBody]
    split
    · rfl
    · simp only [quiet_push]
  | upgrade w =>
    simp only [Arena.stepBody]
    split
    · rfl
    · have hs := (upgrade_silent a.ctx w).rest
      rw [show a.ctx.upgrade w = ((a.ctx.upgrade w).1, (a.ctx.upgrade w).2) from rfl]
      simp only
      split
      · simp only [quiet_push]; exact hs
      · exact hs
  | isDropped w =>
    simp only [Arena.stepBody]
    split
    · rfl
    · split
      · exact Ctx.fail_rest _ _
      · rfl
  | isDead p =>
    simp only [Arena.stepBody]
    split
    · rfl
    · split
      · exact Ctx.fail_rest _ _
      · rfl
  | resurrect p =>
    simp only [Arena.stepBody]
    split
    · rfl
    · cases p with
      | strong t => exact (resurrect_markPrim _ _).rest
      | weak t =>
        simp only
        split
        · exact Ctx.fail_rest _ _
        · split
          · simp only [quiet_push]; exact (resurrect_markPrim _ _).rest
          · rfl
  | barrier b =>
    simp only [Arena.stepBody]
    split
    · rfl
    · cases b with
      | bb p c =>
        cases c with
        | none => simp only; split <;> first | rfl | exact (backwardBarrier_markPrim _ _ _).rest
        | some c => simp only; split <;> first | rfl | exact (backwardBarrier_markPrim _ _ _).rest
      | bbw p c => simp only; split <;> first | rfl | exact (backwardBarrierWeak_markPrim _ _ _).rest
      | fb p c =>
        cases p with
        | none => simp only; split <;> first | rfl | exact (forwardBarrier_markPrim _ _ _).rest
        | some p => simp only; split <;> first | rfl | exact (forwardBarrier_markPrim _ _ _).rest
      | fbw p c =>
        cases p with
        | none => simp only; split <;> first | rfl | exact (forwardBarrierWeak_markPrim _ _ _).rest
        | some p => simp only; split <;> first | rfl | exact (forwardBarrierWeak_markPrim _ _ _).rest
  | store path p i v =>
    simp only [Arena.stepBody]
    split
    · rfl
    · split
      · rfl
      · split
        · rfl
        · cases path with
          | write =>
            simp only
            rw [(setSlot_same _ p i v).1.rest, (backwardBarrier_markPrim _ _ _).rest]
          | raw =>
            simp only
            split
            · rfl
            · exact (setSlot_same _ p i v).1.rest
          | storeThenBarrier =>
            simp only
            rw [(backwardBarrier_markPrim _ _ _).rest, (setSlot_same _ p i v).1.rest]
  | rootStore i v =>
    simp only [Arena.stepBody]
    split <;> rfl

theorem step_rest (a : Arena) (op : Op) (hop : op.isMutator = true) :
    (a.step op).1.ctx.rest = a.ctx.rest := by
  unfold Arena.step
  split
  · rfl
  · exact stepBody_rest _ _ op hop

/-! ### Operations and operation sequences -/

theorem mutator_goodA {a : Arena} (h : Inv a) (g : GoodA a.ctx) (op : Op) (hop : op.isMutator = true) :
    GoodA (a.step op).1.ctx := by
  have hnot : (!a.alive) = false := by rw [h.alive]; rfl
  have hq := step_quiet h op hop
  have hr := step_rest a op hop
  have htot : a.ctx.metrics.totalGcs ≠ 0 → (a.step op).1.ctx.metrics.totalGcs ≠ 0 := by
    intro hne
    by_cases hkn : op.isKnob = true
    · cases op with
      | setPacing p =>
        have hm : (a.step (.setPacing p)).1.ctx.metrics = a.ctx.metrics.setPacing p := by
          unfold Arena.step; rw [hnot]; rfl
        rw [hm]; exact hne
      | adjustDebt x =>
        have hm : (a.step (.adjustDebt x)).1.ctx.metrics = a.ctx.metrics.adjustDebt x := by
          unfold Arena.step; rw [hnot]; rfl
        rw [hm]; exact hne
      | _ => simp [Op.isKnob] at hkn
    · have hkn' : op.isKnob = false := by simpa using hkn
      cases hf : op.isForwardLike with
      | false =>
        rcases step_plainMet a op hop hkn' hf with e | ⟨_, e⟩ | e <;> rw [e]
        · exact hne
        · show a.ctx.metrics.totalGcs + 1 ≠ 0; omega
        · exact hne
      | true =>
        rcases step_fwdMet a op hf with e | e <;> rw [e] <;> exact hne
  refine ⟨by rw [hq.phase]; exact g.awake, fun hm => htot (g.markNE (by rw [← hq.phase]; exact hm)), ?_⟩
  intro hp
  exact g.notParked ⟨by rw [← hq.phase]; exact hp.1, by rw [← hr]; exact hp.2⟩

/-- The steps a self-driven `marked?` continuation appends, and where it ends. -/
theorem marked?_goodA {a : Arena} (h : Inv a) (g : GoodA a.ctx) (hcb : a.cb = none) (k : Cont) :
    ∃ new, (a.marked? k none).1.ctx.steps = new ++ a.ctx.steps ∧
      ('Z' ∉ new → GoodA (a.marked? k none).1.ctx) := by
  have h0 : CInv a.ctx a.root [] := by have := h.cinv; rw [h.cbTemps hcb] at this; exact this
  have rf : ∃ new, a.ctx.steps = new ++ a.ctx.steps ∧ ('Z' ∉ new → GoodA a.ctx) :=
    ⟨[], rfl, fun _ => g⟩
  unfold Arena.marked?
  split
  · cases k with
    | drop => exact rf
    | finalize => exact rf
    | sweep =>
      simp only
      cases hss : a.startSweeping none with
      | none => exact rf
      | some c' =>
        simp only
        unfold Arena.startSweeping at hss
        simp only [Arena.runCollector] at hss
        split at hss
        · cases hss
          exact doCollection_goodA (ru := .stop) (stop := .atSweep) (fault := none)
            (ex := (a.ctx.doCollection a.root .stop .atSweep none).2) h0 (Or.inl g) rfl
        · cases hss
  · exact rf

/-- A self-driven collection operation, executed awake in a good state — or asleep in debt,
    outside callbacks. -/
theorem collect_goodA {a : Arena} (h : Inv a) (m : Method) (k : Cont) (fault : TraceFault)
    (h0 : GoodA a.ctx ∨ (a.cb = none ∧ a.ctx.phase = .sleep ∧ a.ctx.metrics.hasDebt = true)) :
    ∃ new, (a.step (.collect m k fault none)).1.ctx.steps = new ++ a.ctx.steps ∧
      ('Z' ∉ new → GoodA (a.step (.collect m k fault none)).1.ctx) := by
  have key : ∀ (b : Arena) (fin : Bool), Inv b → b.marked = false →
      (GoodA b.ctx ∨ (b.cb = none ∧ b.ctx.phase = .sleep ∧ b.ctx.metrics.hasDebt = true)) →
      ∃ new, (b.stepBody fin (.collect m k fault none)).1.ctx.steps = new ++ b.ctx.steps ∧
        ('Z' ∉ new → GoodA (b.stepBody fin (.collect m k fault none)).1.ctx) := by
    intro b fin hb hbm hb0
    simp only [Arena.stepBody]
    split
    · -- inside a callback the call is rejected: nothing happens
      rename_i hsome
      refine ⟨[], rfl, fun _ => ?_⟩
      rcases hb0 with g | ⟨hn, _, _⟩
      · exact g
      · rw [hn] at hsome; simp at hsome
    · rename_i hcb0
      have hbcb : b.cb = none := by cases hc : b.cb <;> simp_all
      have hc0 : CInv b.ctx b.root [] := by have := hb.cinv; rw [hb.cbTemps hbcb] at this; exact this
      have hso : Arena.splitOracle none k m = (none, none) := rfl
      rw [hso]
      cases hr : b.runCollector (Arena.methodArgs m).1 (Arena.methodArgs m).2 fault none with
      | none => simp [Arena.runCollector] at hr
      | some res =>
        obtain ⟨c, ex⟩ := res
        have hc := runCollector_inv hb hbcb hr
        have hi := hb.afterCollect hbm hbcb hc
        simp only [Arena.runCollector, Option.some.injEq] at hr
        obtain ⟨new1, e1, f1⟩ := doCollection_goodA hc0
          (hb0.elim Or.inl (fun x => Or.inr x.2)) hr
        simp only
        have mk : ∃ new, (({ b with ctx := c, cover := [] } : Arena).marked? k none).1.ctx.steps
            = new ++ b.ctx.steps ∧
            ('Z' ∉ new → GoodA (({ b with ctx := c, cover := [] } : Arena).marked? k none).1.ctx) := by
          by_cases hz : 'Z' ∈ new1
          · obtain ⟨new2, e2, _⟩ := marked?_cyc hi hbcb k none
            refine ⟨new2 ++ new1, by rw [e2]; show new2 ++ c.steps = _; rw [e1, List.append_assoc],
              fun hn => absurd (List.mem_append_right _ hz) hn⟩
          · obtain ⟨new2, e2, f2⟩ := marked?_goodA hi (f1 hz) hbcb k
            refine ⟨new2 ++ new1, by rw [e2]; show new2 ++ c.steps = _; rw [e1, List.append_assoc],
              fun hn => f2 (fun hm => hn (List.mem_append_left _ hm))⟩
        split
        · exact ⟨new1, e1, f1⟩
        · split
          · exact ⟨new1, e1, f1⟩
          · cases m with
            | markDebt => exact mk
            | finishMarking => exact mk
            | collectDebt => exact ⟨new1, e1, f1⟩
            | cycleDebt => exact ⟨new1, e1, f1⟩
            | finishCycle => exact ⟨new1, e1, f1⟩
  have hnot : (!a.alive) = false := by rw [h.alive]; rfl
  unfold Arena.step
  rw [hnot]
  simp only [Bool.false_eq_true, if_false]
  exact key _ a.marked h.unmark rfl h0

/-- Not a replayed collection call. -/
def Op.selfDriven : Op → Bool
  | .collect _ _ _ (some _) => false
  | _ => true

theorem run_goodA (ops : List Op) : ∀ (a : Arena), Inv a → GoodA a.ctx →
    (∀ op, op ∈ ops → op.selfDriven = true ∧ op.keepsCycle = true) → (a.run ops).alive = true →
    ∃ new, (a.run ops).ctx.steps = new ++ a.ctx.steps ∧ ('Z' ∉ new → GoodA (a.run ops).ctx) := by
  induction ops with
  | nil => intro a _ g _ _; exact ⟨[], rfl, fun _ => g⟩
  | cons op ops ih =>
    intro a h g hall hal
    simp only [Arena.run] at hal ⊢
    have hal1 : (a.step op).1.alive = true := by
      cases hx : (a.step op).1.alive with
      | true => rfl
      | false => rw [run_dead hx] at hal; rw [hx] at hal; cases hal
    have h1 := inv_step h op hal1
    have hall' : ∀ o, o ∈ ops → o.selfDriven = true ∧ o.keepsCycle = true :=
      fun o ho => hall o (List.mem_cons_of_mem _ ho)
    -- this operation
    have hop : ∃ new, (a.step op).1.ctx.steps = new ++ a.ctx.steps ∧
        ('Z' ∉ new → GoodA (a.step op).1.ctx) := by
      by_cases hmut : op.isMutator = true
      · exact ⟨[], by simpa using step_steps a op hmut, fun _ => mutator_goodA h g op hmut⟩
      · cases op with
        | collect m k f o =>
          cases o with
          | none => exact collect_goodA h m k f (Or.inl g)
          | some ms =>
            have := (hall (.collect m k f (some ms)) (by simp)).1
            simp [Op.selfDriven] at this
        | dropArena =>
          have hnot : (!a.alive) = false := by rw [h.alive]; rfl
          unfold Arena.step at hal1 ⊢
          rw [hnot] at hal1 ⊢
          simp only [Bool.false_eq_true, if_false, Arena.stepBody] at hal1 ⊢
          by_cases hcb : a.cb.isSome = true
          · rw [if_pos hcb]; exact ⟨[], rfl, fun _ => g⟩
          · rw [if_neg hcb] at hal1; simp at hal1
        | _ => simp [Op.isMutator] at hmut
    obtain ⟨new1, e1, f1⟩ := hop
    by_cases hz : 'Z' ∈ new1
    · obtain ⟨new2, e2, _⟩ := run_cycRel ops _ h1 (fun o ho => (hall' o ho).2) hal
      exact ⟨new2 ++ new1, by rw [e2, e1, List.append_assoc],
        fun hn => absurd (List.mem_append_right _ hz) hn⟩
    · obtain ⟨new2, e2, f2⟩ := ih _ h1 (f1 hz) hall' hal
      exact ⟨new2 ++ new1, by rw [e2, e1, List.append_assoc],
        fun hn => f2 (fun hm => hn (List.mem_append_left _ hm))⟩

/-- **Inside one cycle, self-driven calls never leave an empty arena awake.**  `a0`: asleep with
    positive debt, outside callbacks; a self-driven collection call (of any method) wakes it; `post`: mutator
    operations and self-driven collection calls only; no `'Z'` appended.  Then a final
    `cycle_debt` that returns with the cycle unfinished returns with a non-empty arena. -/
theorem selfdriven_nonempty {a0 : Arena} (h0 : Inv a0) (hacc0 : Acc a0.ctx) (hcb0 : a0.cb = none)
    (hs : a0.ctx.phase = .sleep) (hd : 0 < a0.ctx.metrics.allocationDebt)
    (m : Method) (k : Cont) (wfault : TraceFault)
    (post : List Op) (hpost : ∀ op, op ∈ post → op.selfDriven = true ∧ op.keepsCycle = true)
    (hal : (a0.run (.collect m k wfault none :: post)).alive = true)
    (hcb : (a0.run (.collect m k wfault none :: post)).cb = none)
    (new : List Char)
    (hsteps : (a0.run (.collect m k wfault none :: post)).ctx.steps = new ++ a0.ctx.steps)
    (hz : 'Z' ∉ new) {fault : TraceFault} {c' : Ctx}
    (hr : (a0.run (.collect m k wfault none :: post)).ctx.doCollection
            (a0.run (.collect m k wfault none :: post)).root .payDebt .finishCycle fault = (c', .returned))
    (hns : c'.phase ≠ .sleep) : c'.metrics.totalGcs ≠ 0 := by
  have hhd : a0.ctx.metrics.hasDebt = true := by simpa [Metrics.hasDebt] using hd
  have hi2 := inv_run_from _ h0 hal
  have hc2 : CInv (a0.run (.collect m k wfault none :: post)).ctx
      (a0.run (.collect m k wfault none :: post)).root [] := by
    have := hi2.cinv; rw [hi2.cbTemps hcb] at this; exact this
  have hacc2 := acc_run_from _ a0 h0 hacc0 hal
  -- the state before the final call is good
  have g2 : GoodA (a0.run (.collect m k wfault none :: post)).ctx := by
    simp only [Arena.run] at hal hsteps ⊢
    have hal1 : (a0.step (.collect m k wfault none)).1.alive = true := by
      cases hx : (a0.step (.collect m k wfault none)).1.alive with
      | true => rfl
      | false => rw [run_dead hx] at hal; rw [hx] at hal; cases hal
    have h1 := inv_step h0 _ hal1
    obtain ⟨new1, e1, f1⟩ := collect_goodA h0 m k wfault (Or.inr ⟨hcb0, hs, hhd⟩)
    by_cases hz1 : 'Z' ∈ new1
    · obtain ⟨new2, e2, _⟩ := run_cycRel post _ h1 (fun o ho => (hpost o ho).2) hal
      have : new2 ++ new1 = new :=
        List.append_cancel_right ((by rw [e2, e1, List.append_assoc] :
          ((a0.step (.collect m k wfault none)).1.run post).ctx.steps = (new2 ++ new1) ++ a0.ctx.steps).symm.trans hsteps)
      exact absurd (this ▸ List.mem_append_right _ hz1) hz
    · obtain ⟨new2, e2, f2⟩ := run_goodA post _ h1 (f1 hz1) hpost hal
      have : new2 ++ new1 = new :=
        List.append_cancel_right ((by rw [e2, e1, List.append_assoc] :
          ((a0.step (.collect m k wfault none)).1.run post).ctx.steps = (new2 ++ new1) ++ a0.ctx.steps).symm.trans hsteps)
      exact f2 (fun hm2 => hz (this ▸ List.mem_append_left _ hm2))
  -- the final call
  have hreach : Reaches (a0.run (.collect m k wfault none :: post)).ctx
      (a0.run (.collect m k wfault none :: post)).root c' := by
    have := doCollection_reaches (ru := .payDebt) (stop := .finishCycle) (fault := fault) hc2
    rw [hr] at this; exact this
  have hc' := hreach.inv hc2
  have hacc' := hreach.acc hc2 hacc2
  obtain ⟨fr, _⟩ := doCollection_cycle_frame hc2 hr hns
  have g' : GoodA c' := by
    refine ⟨hns, fun hmk => ?_, ?_⟩
    · have hf := (hacc'.2.1 hmk).frd
      have hsum := fr.sum
      have := g2.nonempty hc2
      omega
    · rcases doCollection_cycle_notParked hc2 hr hns with e | np
      · rw [e]; exact g2.notParked
      · exact np
  exact g'.nonempty hc'

end GcArena
