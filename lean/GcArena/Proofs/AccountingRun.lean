import GcArena.Proofs.Accounting
/-!
  The accounting invariant over whole histories: `acc_step`, `acc_run`.
-/
namespace GcArena

/-! ### Mutator primitives -/

theorem link_acc {c : Ctx} (li : LI c) (o : Obj) (hw : o.color = .white) (ha : Acc c) :
    Acc (c.link o).1 := by
  have hfresh : c.heap.get c.heap.fresh = none := Heap.get_fresh c.heap
  have hnot : c.heap.fresh ∉ c.pre ++ c.rest := by
    intro hm
    obtain ⟨x, hx⟩ := (li.mem _).mp hm
    rw [hfresh] at hx; cases hx
  have hcol : ∀ j, j ∈ c.pre ++ c.rest → colOf (c.link o).1 j = colOf c j := by
    intro j hj
    have : j ≠ c.heap.fresh := fun he => hnot (he ▸ hj)
    unfold colOf
    simp [Ctx.link, Heap.get_set, this]
  have hnew : colOf (c.link o).1 c.heap.fresh = some .white := by
    unfold colOf
    simp [Ctx.link, hw]
  have hph : (c.link o).1.phase = c.phase := rfl
  have hpre : (c.link o).1.pre = c.heap.fresh :: c.pre := rfl
  have hrest : (c.link o).1.rest = c.rest := rfl
  have hwork : (c.link o).1.metrics.work = c.metrics.work := rfl
  obtain ⟨e1, e2, e3, e4, e5⟩ := work_eq hwork
  refine ⟨fun hs => ?_, fun hs => ?_, fun hs => ?_⟩
  · have := ha.1 (hph ▸ hs)
    unfold SleepAcc at *
    rw [e1, e2, e3, e4, e5]; exact this
  · have hm := ha.2.1 (hph ▸ hs)
    have hB : nB (c.link o).1 ((c.link o).1.pre ++ (c.link o).1.rest) = nB c (c.pre ++ c.rest) := by
      rw [hpre, hrest, List.cons_append, nB_cons]
      have : isBlk (c.link o).1 c.heap.fresh = false := by unfold isBlk; rw [hnew]; rfl
      rw [this, nB_congr _ hcol]; simp
    have hM : nM (c.link o).1 ((c.link o).1.pre ++ (c.link o).1.rest) = nM c (c.pre ++ c.rest) := by
      rw [hpre, hrest, List.cons_append, nM_cons]
      have : isMk (c.link o).1 c.heap.fresh = false := by unfold isMk; rw [hnew]; rfl
      rw [this, nM_congr _ hcol]; simp
    exact ⟨by rw [e3]; exact hm.rem, by rw [e4]; exact hm.drp, by rw [e5]; exact hm.frd,
      by rw [e1, hM]; exact hm.mkd, by rw [e2, hB]; exact hm.trd⟩
  · obtain ⟨rb, rw, dw, dfr, h1, h2, h3, h4, h5, h6, h7⟩ := ha.2.2 (hph ▸ hs)
    have hcol' : ∀ j, j ∈ c.rest → colOf (c.link o).1 j = colOf c j :=
      fun j hj => hcol j (List.mem_append_right _ hj)
    refine ⟨rb, rw, dw, dfr, ?_, ?_, h3, ?_, ?_, ?_, ?_⟩
    · rw [e3]; exact h1
    · rw [e4]; exact h2
    · rw [e5]; exact h4
    · rw [hpre]; simp only [List.length_cons]; omega
    · rw [e2, hrest, nB_congr _ hcol']; exact h6
    · rw [e1, hrest, nM_congr _ hcol']; exact h7

theorem setSlot_same (c : Ctx) (p i : Nat) (v : Slot) :
    AccSame c (Arena.setSlot c p i v) ∧ (Arena.setSlot c p i v).phase = c.phase ∧
    (Arena.setSlot c p i v).metrics = c.metrics := by
  unfold Arena.setSlot
  cases hg : c.heap.get p with
  | none => exact ⟨(silent_fail c _).accSame, Ctx.fail_phase c _, Ctx.fail_metrics c _⟩
  | some o =>
    refine ⟨⟨rfl, rfl, fun j => ?_, rfl⟩, rfl, rfl⟩
    unfold colOf
    simp only [Ctx.setObj_get]
    by_cases hj : j = p
    · subst hj; simp [hg]
    · simp [hj]

theorem setSlot_li {c : Ctx} (li : LI c) (p i : Nat) (v : Slot) : LI (Arena.setSlot c p i v) := by
  unfold Arena.setSlot
  cases hg : c.heap.get p with
  | none => exact (silent_fail c _).li li
  | some o =>
    refine li.same rfl rfl (fun j => ?_)
    simp only [Ctx.setObj_get]
    by_cases hj : j = p
    · subst hj; simp [hg]
    · simp [hj]

theorem backwardBarrier_markPrim (c : Ctx) (p : Nat) (ch : Option Nat) :
    MarkPrim c (c.backwardBarrier p ch) := by
  unfold Ctx.backwardBarrier
  repeat' split
  all_goals first
    | exact MarkPrim.refl _
    | exact (silent_fail _ _).markPrim
    | exact makeGrayAgain_markPrim _ _

theorem backwardBarrierWeak_markPrim (c : Ctx) (p ch : Nat) :
    MarkPrim c (c.backwardBarrierWeak p ch) := by
  unfold Ctx.backwardBarrierWeak
  repeat' split
  all_goals first
    | exact MarkPrim.refl _
    | exact (silent_fail _ _).markPrim
    | exact makeGrayAgain_markPrim _ _

theorem forwardBarrier_markPrim (c : Ctx) (p : Option Nat) (ch : Nat) :
    MarkPrim c (c.forwardBarrier p ch) := by
  unfold Ctx.forwardBarrier
  repeat' split
  all_goals first
    | exact MarkPrim.refl _
    | exact (silent_fail _ _).markPrim
    | exact trace_markPrim _ _

theorem forwardBarrierWeak_markPrim (c : Ctx) (p : Option Nat) (ch : Nat) :
    MarkPrim c (c.forwardBarrierWeak p ch) := by
  unfold Ctx.forwardBarrierWeak
  repeat' split
  all_goals first
    | exact MarkPrim.refl _
    | exact (silent_fail _ _).markPrim
    | exact traceWeak_markPrim _ _

/-- A primitive that does nothing outside the mark phase. -/
theorem guarded_acc {c c' : Ctx} (p : MarkPrim c c') (hne : c.phase ≠ .mark → c' = c) (li : LI c)
    (ha : Acc c) : Acc c' := by
  by_cases hm : c.phase = .mark
  · exact p.acc hm li ha
  · rw [hne hm]; exact ha

theorem backwardBarrier_acc {c : Ctx} (li : LI c) (ha : Acc c) (p : Nat) (ch : Option Nat) :
    Acc (c.backwardBarrier p ch) :=
  guarded_acc (backwardBarrier_markPrim c p ch) (fun h => by simp [Ctx.backwardBarrier, h]) li ha

theorem backwardBarrierWeak_acc {c : Ctx} (li : LI c) (ha : Acc c) (p ch : Nat) :
    Acc (c.backwardBarrierWeak p ch) :=
  guarded_acc (backwardBarrierWeak_markPrim c p ch) (fun h => by simp [Ctx.backwardBarrierWeak, h]) li ha

theorem forwardBarrier_acc {c : Ctx} (li : LI c) (ha : Acc c) (p : Option Nat) (ch : Nat) :
    Acc (c.forwardBarrier p ch) :=
  guarded_acc (forwardBarrier_markPrim c p ch) (fun h => by simp [Ctx.forwardBarrier, h]) li ha

theorem forwardBarrierWeak_acc {c : Ctx} (li : LI c) (ha : Acc c) (p : Option Nat) (ch : Nat) :
    Acc (c.forwardBarrierWeak p ch) :=
  guarded_acc (forwardBarrierWeak_markPrim c p ch) (fun h => by simp [Ctx.forwardBarrierWeak, h]) li ha

theorem upgrade_silent (c : Ctx) (t : Nat) : Silent c (c.upgrade t).1 := by
  unfold Ctx.upgrade
  repeat' split
  all_goals first
    | exact Silent.refl _
    | exact silent_fail _ _

theorem rootBarrier_silent (c : Ctx) : Silent c c.rootBarrier := by
  unfold Ctx.rootBarrier
  split
  · exact ⟨rfl, rfl, rfl, fun _ => rfl, rfl⟩
  · exact Silent.refl c

/-! ### `DropAll` ends in `Phase::Drop`, where the invariant demands nothing -/

theorem dropOne_phase (c : Ctx) (i : Nat) : (c.dropOne i).phase = c.phase := by
  unfold Ctx.dropOne
  split
  · simp
  · split <;> simp

theorem dropList_phase (l : List Nat) : ∀ c : Ctx, (l.foldl Ctx.dropOne c).phase = c.phase := by
  induction l with
  | nil => intro c; rfl
  | cons i l ih => intro c; simp only [List.foldl_cons]; rw [ih, dropOne_phase]

theorem dropAll_phase (c : Ctx) : c.dropAll.phase = .drop := by
  show (c.all.foldl Ctx.dropOne { c with phase := .drop }).phase = .drop
  rw [dropList_phase]

theorem acc_of_drop {c : Ctx} (h : c.phase = .drop) : Acc c := by
  refine ⟨fun hs => ?_, fun hs => ?_, fun hs => ?_⟩ <;> (rw [h] at hs; cases hs)

/-! ### Collection calls -/

theorem runCollector_acc {a : Arena} (h : Inv a) (ha : Acc a.ctx) (hcb : a.cb = none)
    {ru stop fault oracle c ex} (hr : a.runCollector ru stop fault oracle = some (c, ex)) : Acc c := by
  have h0 : CInv a.ctx a.root [] := by have := h.cinv; rw [h.cbTemps hcb] at this; exact this
  unfold Arena.runCollector at hr
  cases oracle with
  | none =>
    simp only [Option.some.injEq] at hr
    have hc : c = (a.ctx.doCollection a.root ru stop fault).1 := by rw [hr]
    rw [hc]
    exact doCollection_acc h0 ha
  | some ms =>
    simp only at hr
    split at hr
    · cases hr
    · rename_i c' hc'
      simp only [Option.some.injEq, Prod.mk.injEq] at hr
      rw [← hr.1]
      exact micros_acc ms h0 ha hc'

theorem marked?_acc {a : Arena} (h : Inv a) (ha : Acc a.ctx) (hcb : a.cb = none)
    (k : Cont) (o2 : Option (List Micro)) : Acc (a.marked? k o2).1.ctx := by
  unfold Arena.marked?
  split
  · cases k with
    | drop => exact ha
    | finalize => exact ha
    | sweep =>
      simp only
      cases hss : a.startSweeping o2 with
      | none => exact ha
      | some c' =>
        simp only
        unfold Arena.startSweeping at hss
        cases hr2 : a.runCollector .stop .atSweep none o2 with
        | none => rw [hr2] at hss; cases hss
        | some res2 =>
          obtain ⟨c2, ex2⟩ := res2
          rw [hr2] at hss
          simp only at hss
          split at hss
          · cases hss; exact runCollector_acc h ha hcb hr2
          · cases hss
  · exact ha

theorem sb_collect_acc {a : Arena} (h : Inv a) (ha : Acc a.ctx) (hm : a.marked = false) (fin : Bool)
    (m : Method) (k : Cont) (fault : TraceFault) (oracle : Option (List Micro)) :
    Acc (a.stepBody fin (.collect m k fault oracle)).1.ctx := by
  simp only [Arena.stepBody]
  split
  · exact ha
  · rename_i hcb0
    have hcb : a.cb = none := by cases hc : a.cb <;> simp_all
    generalize Arena.splitOracle oracle k m = os
    cases hr : a.runCollector (Arena.methodArgs m).1 (Arena.methodArgs m).2 fault os.1 with
    | none => exact ha
    | some res =>
      obtain ⟨c, ex⟩ := res
      simp only
      have hc := runCollector_inv h hcb hr
      have hac := runCollector_acc h ha hcb hr
      have hi := h.afterCollect hm hcb hc
      split
      · exact hac
      · split
        · exact hac
        · cases m with
          | markDebt => exact marked?_acc hi hac hcb k os.2
          | finishMarking => exact marked?_acc hi hac hcb k os.2
          | collectDebt => exact hac
          | cycleDebt => exact hac
          | finishCycle => exact hac

/-! ### Every operation -/

theorem stepBody_acc {a : Arena} (h : Inv a) (ha : Acc a.ctx) (hm : a.marked = false) (fin : Bool)
    (op : Op) : Acc (a.stepBody fin op).1.ctx := by
  have li : LI a.ctx := h.cinv.li
  cases op with
  | collect m k f o => exact sb_collect_acc h ha hm fin m k f o
  | dropArena =>
    simp only [Arena.stepBody]
    split
    · exact ha
    · exact acc_of_drop (dropAll_phase a.ctx)
  | setPacing p =>
    exact AccSame.acc (c := a.ctx) ⟨rfl, rfl, fun _ => rfl, rfl⟩ rfl ha
  | adjustDebt x =>
    exact AccSame.acc (c := a.ctx) ⟨rfl, rfl, fun _ => rfl, rfl⟩ rfl ha
  | leave => simp only [Arena.stepBody]; split <;> exact ha
  | enter k =>
    simp only [Arena.stepBody]
    split
    · exact ha
    · cases k with
      | mutate => exact ha
      | mutateRoot => exact (rootBarrier_silent a.ctx).acc ha
      | finalize => simp only; split <;> exact ha
  | alloc nt slots =>
    simp only [Arena.stepBody]
    split
    · exact ha
    · split
      · exact ha
      · split
        · exact ha
        · simp only [quiet_push]; exact link_acc li _ rfl ha
  | readRoot i =>
    simp only [Arena.stepBody]
    split
    · exact ha
    · split <;> first | exact ha | (simp only [quiet_push]; exact ha)
  | read p i =>
    simp only [Arena.stepBody]
    split
    · exact ha
    · split <;> first | exact ha | (simp only [quiet_push]; exact ha)
  | downgrade p =>
    simp only [Arena.stepBody]
    split
    · exact ha
    · simp only [quiet_push]; exact ha
  | upgrade w =>
    simp only [Arena.stepBody]
    split
    · exact ha
    · have hs := (upgrade_silent a.ctx w).acc ha
      rw [show a.ctx.upgrade w = ((a.ctx.upgrade w).1, (a.ctx.upgrade w).2) from rfl]
      simp only
      split
      · simp only [quiet_push]; exact hs
      · exact hs
  | isDropped w =>
    simp only [Arena.stepBody]
    split
    · exact ha
    · split
      · exact (silent_fail a.ctx _).acc ha
      · exact ha
  | isDead p =>
    simp only [Arena.stepBody]
    split
    · exact ha
    · split
      · exact (silent_fail a.ctx _).acc ha
      · exact ha
  | resurrect p =>
    simp only [Arena.stepBody]
    split
    · exact ha
    · rename_i hg
      simp only [Bool.or_eq_true, Bool.not_eq_true', not_or, Bool.not_eq_false, decide_eq_true_eq,
        Decidable.not_not] at hg
      have hmark : a.ctx.phase = .mark := h.finMark hg.1
      cases p with
      | strong t =>
        simp only
        exact (resurrect_markPrim a.ctx t).acc hmark li ha
      | weak t =>
        simp only
        split
        · exact (silent_fail a.ctx _).acc ha
        · split
          · simp only [quiet_push]
            exact (resurrect_markPrim a.ctx t).acc hmark li ha
          · exact ha
  | barrier b =>
    simp only [Arena.stepBody]
    split
    · exact ha
    · cases b with
      | bb p c =>
        cases c with
        | none => simp only; split <;> first | exact ha | exact backwardBarrier_acc li ha _ _
        | some c => simp only; split <;> first | exact ha | exact backwardBarrier_acc li ha _ _
      | bbw p c => simp only; split <;> first | exact ha | exact backwardBarrierWeak_acc li ha _ _
      | fb p c =>
        cases p with
        | none => simp only; split <;> first | exact ha | exact forwardBarrier_acc li ha _ _
        | some p => simp only; split <;> first | exact ha | exact forwardBarrier_acc li ha _ _
      | fbw p c =>
        cases p with
        | none => simp only; split <;> first | exact ha | exact forwardBarrierWeak_acc li ha _ _
        | some p => simp only; split <;> first | exact ha | exact forwardBarrierWeak_acc li ha _ _
  | store path p i v =>
    simp only [Arena.stepBody]
    split
    · exact ha
    · split
      · exact ha
      · split
        · exact ha
        · cases path with
          | write =>
            simp only
            have h1 := backwardBarrier_acc li ha p none
            obtain ⟨s, hp, _⟩ := setSlot_same (a.ctx.backwardBarrier p none) p i v
            exact s.acc hp h1
          | raw =>
            simp only
            split
            · exact ha
            · obtain ⟨s, hp, _⟩ := setSlot_same a.ctx p i v
              exact s.acc hp ha
          | storeThenBarrier =>
            simp only
            obtain ⟨s, hp, _⟩ := setSlot_same a.ctx p i v
            exact backwardBarrier_acc (setSlot_li li p i v) (s.acc hp ha) p none
  | rootStore i v =>
    simp only [Arena.stepBody]
    split <;> exact ha

/-- The accounting invariant is preserved by every operation, including dropping the arena. -/
theorem acc_step {a : Arena} (h : Inv a) (ha : Acc a.ctx) (op : Op) : Acc (a.step op).1.ctx := by
  have hnot : (!a.alive) = false := by rw [h.alive]; rfl
  unfold Arena.step
  rw [hnot]
  simp only [Bool.false_eq_true, if_false]
  exact stepBody_acc h.unmark ha rfl a.marked op

/-- In every state of every history (vacuously once the arena is dropped: `Phase::Drop`). -/
theorem acc_run (n : Nat) (ops : List Op) : Acc ((Arena.new n).run ops).ctx := by
  suffices ∀ (a : Arena), (a.alive = true → Inv a) → Acc a.ctx → Acc (a.run ops).ctx from
    this _ (fun _ => inv_init n) acc_new
  induction ops with
  | nil => intro a _ ha; exact ha
  | cons op ops ih =>
    intro a hi ha
    simp only [Arena.run]
    cases hal : a.alive with
    | false => rw [step_dead hal]; exact ih a (fun h => by rw [hal] at h; cases h) ha
    | true =>
      have h := hi hal
      exact ih _ (fun h' => inv_step h op h') (acc_step h ha op)

end GcArena
