import GcArena.Spec.Inv
import GcArena.Proofs.HeapLemmas
/-!
  Generic preservation lemma for every mark-phase colour change (`trace`, `trace_weak`,
  `make_gray_again`, `resurrect`, the blackening in `mark_one`): changing the colour of one
  allocated object `t` to a colour of the same or a higher "marking class" preserves the
  invariant, provided the queues are kept in step.
-/
namespace GcArena

/-- Marking class of a colour: white < white-weak < {gray, black}. -/
def cls : Color → Nat
  | .white => 0 | .whiteWeak => 1 | .gray => 2 | .black => 2

theorem PtrMarked.mono {c c' : Ctx} {p : Ptr}
    (hm : ∀ i o, c.heap.get i = some o → ∃ o', c'.heap.get i = some o' ∧ cls o.color ≤ cls o'.color)
    (h : PtrMarked c p) : PtrMarked c' p := by
  cases p with
  | strong t =>
    obtain ⟨o, ho, hc⟩ := h
    obtain ⟨o', ho', hle⟩ := hm t o ho
    refine ⟨o', ho', ?_⟩
    cases hcol : o'.color <;> cases hc <;> simp_all [cls]
  | weak t =>
    obtain ⟨o, ho, hc⟩ := h
    obtain ⟨o', ho', hle⟩ := hm t o ho
    refine ⟨o', ho', ?_⟩
    cases hcol : o'.color <;> cases hcol2 : o.color <;> simp_all [cls]

/-- `c'` is `c` with object `t` recoloured to `col`, everything the invariant reads being
    otherwise the same except the queues. -/
structure Recolored (c c' : Ctx) (t : Nat) (o : Obj) (col : Color) : Prop where
  get_t : c.heap.get t = some o
  heap : ∀ j, c'.heap.get j = if j = t then some { o with color := col } else c.heap.get j
  phase : c'.phase = c.phase
  pre : c'.pre = c.pre
  rest : c'.rest = c.rest
  rnt : c'.rootNeedsTrace = c.rootNeedsTrace
  err : c'.err = c.err
  underflow : c'.metrics.underflow = c.metrics.underflow
  total : c'.metrics.totalGcs = c.metrics.totalGcs

theorem Recolored.safe_iff {c c' t o col} (r : Recolored c c' t o col) (hm : c.phase = .mark) (i : Nat) :
    Safe c' i ↔ Safe c i := by
  unfold Safe
  rw [r.heap, r.phase, r.rest]
  by_cases hi : i = t
  · subst hi; simp [r.get_t, hm]
  · simp [hi]

theorem Recolored.weakOK_iff {c c' t o col} (r : Recolored c c' t o col) (hm : c.phase = .mark) (i : Nat) :
    WeakOK c' i ↔ WeakOK c i := by
  unfold WeakOK
  rw [r.heap, r.phase, r.rest]
  by_cases hi : i = t
  · subst hi; simp [r.get_t, hm]
  · simp [hi]

theorem Recolored.ptrOK_iff {c c' t o col} (r : Recolored c c' t o col) (hm : c.phase = .mark) (p : Ptr) :
    PtrOK c' p ↔ PtrOK c p := by
  cases p with
  | strong i => exact r.safe_iff hm i
  | weak i => exact r.weakOK_iff hm i

theorem Recolored.marked_mono {c c' t o col} (r : Recolored c c' t o col) (hcls : cls o.color ≤ cls col)
    {p : Ptr} (h : PtrMarked c p) : PtrMarked c' p := by
  apply PtrMarked.mono _ h
  intro i oi hoi
  rw [r.heap]
  by_cases hi : i = t
  · subst hi
    rw [r.get_t] at hoi
    cases hoi
    exact ⟨{ o with color := col }, by simp, hcls⟩
  · exact ⟨oi, by simp [hi, hoi], Nat.le_refl _⟩

theorem CInvH.recolor {c c' : Ctx} {root temps hole} {t : Nat} {o : Obj} {col : Color}
    (h : CInvH c root temps hole) (hm : c.phase = .mark) (r : Recolored c c' t o col)
    (hcls : cls o.color ≤ cls col)
    (hlive : col = .gray ∨ col = .black → o.live = true)
    (hq : ∀ i, (i ∈ c'.gray ∨ i ∈ c'.grayAgain) ↔
        ((i ≠ t ∧ (i ∈ c.gray ∨ i ∈ c.grayAgain)) ∨ (i = t ∧ col = .gray)))
    (hnd : (c'.gray ++ c'.grayAgain).Nodup)
    (hblack : col = .black → some t ≠ hole → ∀ p, some p ∈ o.slots → PtrMarked c' p) :
    CInvH c' root temps hole := by
  have hget := r.heap
  have hgt := r.get_t
  constructor
  · rw [r.err]; exact h.noErr
  · rw [r.underflow]; exact h.noUnderflow
  · rw [r.phase]; exact h.notDrop
  · rw [r.pre, r.rest]; exact h.nodup
  · intro i
    rw [r.pre, r.rest, h.memAll, hget]
    by_cases hi : i = t
    · subst hi; simp [hgt]
    · simp [hi]
  · rw [r.phase, r.rest]; exact h.restNil
  · rw [r.total, r.pre, r.rest]; exact h.count
  · -- grayQ
    intro i oi hoi hg
    rw [hq]
    rw [hget] at hoi
    by_cases hi : i = t
    · subst hi
      simp at hoi
      subst hoi
      right; exact ⟨rfl, hg⟩
    · simp [hi] at hoi
      left; exact ⟨hi, h.grayQ i oi hoi hg⟩
  · -- qGray
    intro i hi
    rw [hq] at hi
    rw [hget]
    rcases hi with ⟨hne, hi⟩ | ⟨he, hc⟩
    · simp [hne]; exact h.qGray i hi
    · subst he; simp [hc]
  · exact hnd
  · intro hp; rw [r.phase] at hp; exact absurd hm hp
  · intro hp; rw [r.phase, hm] at hp; cases hp
  · intro hp; rw [r.phase, hm] at hp; cases hp
  · intro hp; rw [r.phase, hm] at hp; cases hp
  · intro hp; rw [r.phase, hm] at hp; cases hp
  · -- markedLive
    intro i oi hoi hc
    rw [hget] at hoi
    by_cases hi : i = t
    · subst hi
      simp at hoi; subst hoi
      exact hlive hc
    · simp [hi] at hoi
      exact h.markedLive i oi hoi hc
  · -- deadNoSlots
    intro i oi hoi hl
    rw [hget] at hoi
    by_cases hi : i = t
    · subst hi
      simp at hoi; subst hoi
      exact h.deadNoSlots i o hgt hl
    · simp [hi] at hoi
      exact h.deadNoSlots i oi hoi hl
  · -- leafNoPtr
    intro i oi hoi hl
    rw [hget] at hoi
    by_cases hi : i = t
    · subst hi
      simp at hoi; subst hoi
      exact h.leafNoPtr i o hgt hl
    · simp [hi] at hoi
      exact h.leafNoPtr i oi hoi hl
  · -- tri
    intro _ i oi hoi hb hh p hp
    rw [hget] at hoi
    by_cases hi : i = t
    · subst hi
      simp at hoi; subst hoi
      exact hblack hb hh p hp
    · simp [hi] at hoi
      exact r.marked_mono hcls (h.tri hm i oi hoi hb hh p hp)
  · -- triRoot
    intro _ hr p hp
    rw [r.rnt] at hr
    exact r.marked_mono hcls (h.triRoot hm hr p hp)
  · -- closed
    intro i oi hoi hs p hp
    rw [r.ptrOK_iff hm]
    rw [r.safe_iff hm] at hs
    rw [hget] at hoi
    by_cases hi : i = t
    · subst hi
      simp at hoi; subst hoi
      exact h.closed i o hgt hs p hp
    · simp [hi] at hoi
      exact h.closed i oi hoi hs p hp
  · intro p hp; rw [r.ptrOK_iff hm]; exact h.rootOK p hp
  · intro p hp; rw [r.ptrOK_iff hm]; exact h.tempsOK p hp

end GcArena
