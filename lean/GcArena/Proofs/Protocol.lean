import GcArena.Proofs.Termination
/-!
  Exit states of the driver loop: what `Context::do_collection` returns with, per `Stop`, and
  the shape of the step log a call appends.  All statements are for every state satisfying the
  invariant, every pacing and every debt.
-/
namespace GcArena

/-! ### Without an injected fault the loop never unwinds -/

theorem markObj_none_flow (c : Ctx) (i : Nat) : (c.markObj i none).2 = .continue := by
  unfold Ctx.markObj
  simp only
  split <;> rfl

theorem markOne_none_flow (c : Ctx) (root : List Slot) : (c.markOne root none).2 ≠ .unwind := by
  unfold Ctx.markOne
  split
  · rw [markObj_none_flow]; simp
  · split
    · rw [markObj_none_flow]; simp
    · split <;> simp

theorem ite_snd_ne {b : Prop} [Decidable b] {x y : Ctx × Exit} {e : Exit} (hx : x.2 ≠ e) (hy : y.2 ≠ e) :
    (if b then x else y).2 ≠ e := by
  split <;> assumption

theorem faultAt_none (k : Nat) : faultAt none k = none := rfl

theorem collectLoop_no_unwind {root ru stop} (fuel : Nat) :
    ∀ (c : Ctx) (hs : Bool) (k : Nat),
      (Ctx.collectLoop root ru stop none fuel c hs k).2 ≠ .unwound := by
  induction fuel with
  | zero => intro c hs k; simp [Ctx.collectLoop]
  | succ fuel ih =>
    intro c hs k
    unfold Ctx.collectLoop
    cases hp : c.phase with
    | drop => simp
    | sleep =>
      simp only
      split
      · simp
      · exact ih _ _ _
    | mark =>
      simp only [faultAt_none]
      generalize (if c.grayRemaining = true then k + 1 else k) = k'
      have hnu := markOne_none_flow c root
      cases hfl : (c.markOne root none).2 with
      | unwind => exact absurd hfl hnu
      | «break» =>
        simp only []
        split
        · simp
        · exact ite_snd_ne (by simp) (ih _ _ _)
      | «continue» =>
        simp only []
        exact ite_snd_ne (by simp) (ih _ _ _)
    | sweep =>
      simp only
      split
      · simp
      · cases hfl : c.sweepOne.2 with
        | «break» =>
          simp only []
          split
          · simp
          · split
            · split <;> simp
            · split
              · simp
              · exact ih _ _ _
        | unwind =>
          simp only []
          split
          · simp
          · exact ih _ _ _
        | «continue» =>
          simp only []
          split
          · simp
          · exact ih _ _ _

/-- A fault-free collection call returns normally. -/
theorem doCollection_returns {c : Ctx} {root} (h : CInv c root []) (ru : RunUntil) (stop : Stop) :
    (c.doCollection root ru stop none).2 = .returned := by
  have h1 := doCollection_terminates h ru stop none
  have h2 : (c.doCollection root ru stop none).2 ≠ .unwound := by
    unfold Ctx.doCollection
    split
    · simp
    · exact collectLoop_no_unwind _ _ _ _
  cases he : (c.doCollection root ru stop none).2 with
  | returned => rfl
  | unwound => exact absurd he h2
  | outOfFuel => exact absurd he h1

/-! ### `finish_marking` (`RunUntil::Stop`, `Stop::FullyMarked`) -/

theorem debtBreak_stop (c : Ctx) : c.debtBreak .stop = false := by
  simp [Ctx.debtBreak]

theorem collectLoop_fullyMarked {root fault} (fuel : Nat) :
    ∀ (c : Ctx) (hs : Bool) (k : Nat), CInv c root [] → c.phase ≠ .sweep →
      (Ctx.collectLoop root .stop .fullyMarked fault fuel c hs k).2 = .returned →
      Arena.isMarked (Ctx.collectLoop root .stop .fullyMarked fault fuel c hs k).1 = true := by
  induction fuel with
  | zero => intro c hs k _ _ hr; simp [Ctx.collectLoop] at hr
  | succ fuel ih =>
    intro c hs k h hns
    unfold Ctx.collectLoop
    cases hp : c.phase with
    | drop => exact absurd hp h.notDrop
    | sweep => exact absurd hp hns
    | sleep =>
      simp only [debtBreak_stop]
      have h1 : CInv (c.switch .mark) root [] := wake_spec h hp
      exact ih _ _ _ h1 (by simp [Ctx.switch, Ctx.step])
    | mark =>
      simp only
      cases hg : c.grayRemaining with
      | false =>
        rw [markOne_break _ hg]
        simp only
        have : Stop.fullyMarked ≤ Stop.fullyMarked := by decide
        simp only [this, if_true]
        intro _
        have hg' : (c.step 'b').grayRemaining = false := hg
        have hp' : (c.step 'b').phase = .mark := hp
        simp [Arena.isMarked, hg', hp', hp]
      | true =>
        have hnb := markOne_not_break (root := root) (faultAt fault k) hg
        cases hfl : (c.markOne root (faultAt fault k)).2 with
        | «break» => exact absurd hfl hnb
        | unwind => simp
        | «continue» =>
          simp only [debtBreak_stop]
          have hsp := markOne_spec h hp (faultAt fault k) (root := root)
          exact ih _ _ _ hsp.1 (by rw [hsp.2.phase, hp]; simp)

/-! ### `finish_cycle` (`RunUntil::Stop`, `Stop::FinishCycle`) -/

theorem collectLoop_finishCycle {root fault} (fuel : Nat) :
    ∀ (c : Ctx) (hs : Bool) (k : Nat), CInv c root [] →
      (Ctx.collectLoop root .stop .finishCycle fault fuel c hs k).2 = .returned →
      (Ctx.collectLoop root .stop .finishCycle fault fuel c hs k).1.phase = .sleep := by
  induction fuel with
  | zero => intro c hs k _ hr; simp [Ctx.collectLoop] at hr
  | succ fuel ih =>
    intro c hs k h
    unfold Ctx.collectLoop
    have nle1 : ¬ (Stop.finishCycle ≤ Stop.fullyMarked) := by decide
    have nle2 : ¬ (Stop.finishCycle ≤ Stop.atSweep) := by decide
    cases hp : c.phase with
    | drop => exact absurd hp h.notDrop
    | sleep =>
      simp only [debtBreak_stop]
      exact ih _ _ _ (wake_spec h hp)
    | mark =>
      simp only
      cases hg : c.grayRemaining with
      | false =>
        rw [markOne_break _ hg]
        simp only [nle1, if_false, debtBreak_stop]
        have hg' : (c.step 'b').grayRemaining = false := hg
        have h1 : CInv (c.step 'b') root [] := h.sameView (sameView_step c 'b')
        exact ih _ _ _ (enterSweep_spec h1 hp hg')
      | true =>
        have hnb := markOne_not_break (root := root) (faultAt fault k) hg
        cases hfl : (c.markOne root (faultAt fault k)).2 with
        | «break» => exact absurd hfl hnb
        | unwind => simp
        | «continue» =>
          simp only [debtBreak_stop]
          exact ih _ _ _ (markOne_spec h hp (faultAt fault k) (root := root)).1
    | sweep =>
      simp only [nle2, if_false]
      cases hr : c.rest with
      | nil =>
        rw [sweepOne_end hr]
        simp only [if_true]
        intro _; rfl
      | cons i rest' =>
        have hne : c.rest ≠ [] := by rw [hr]; simp
        have hfl := sweepOne_flow hne
        rw [show c.sweepOne = (c.sweepOne.1, c.sweepOne.2) from rfl, hfl]
        simp only [debtBreak_stop]
        exact ih _ _ _ (sweepOne_spec h hp).1

/-! ### The step log of one call -/

theorem trace_steps (c : Ctx) (t : Nat) : (c.trace t).steps = c.steps := by
  unfold Ctx.trace
  split
  · simp
  · split <;> (try rfl)
    split <;> split <;> (try split) <;> simp

theorem traceWeak_steps (c : Ctx) (t : Nat) : (c.traceWeak t).steps = c.steps := by
  unfold Ctx.traceWeak
  split
  · simp
  · split <;> simp

theorem traceSlots_steps (ss : List Slot) : ∀ (c : Ctx), (c.traceSlots ss).steps = c.steps := by
  induction ss with
  | nil => intro c; rfl
  | cons s ss ih =>
    intro c
    simp only [Ctx.traceSlots, List.foldl_cons]
    have : (c.traceSlot s).steps = c.steps := by
      cases s with
      | none => rfl
      | some p => cases p with
        | strong t => exact trace_steps c t
        | weak t => exact traceWeak_steps c t
    exact (ih (c.traceSlot s)).trans this

theorem makeGrayAgain_steps (c : Ctx) (i : Nat) : (c.makeGrayAgain i).steps = c.steps := by
  unfold Ctx.makeGrayAgain
  split
  · simp
  · simp only
    split <;> simp

theorem markObj_steps (c : Ctx) (i : Nat) (f : Option Nat) : (c.markObj i f).1.steps = c.steps := by
  unfold Ctx.markObj
  simp only
  split
  · simp
  · split <;> split <;> simp [traceSlots_steps, makeGrayAgain_steps]

/-- One `mark_one` appends exactly one character, and it is not `'Z'` / `'W'`. -/
theorem markOne_steps (c : Ctx) (root : List Slot) (f : Option Nat) :
    ∃ ch, ch ≠ 'Z' ∧ ch ≠ 'W' ∧ (c.markOne root f).1.steps = ch :: c.steps := by
  unfold Ctx.markOne
  split
  · exact ⟨'g', by decide, by decide, by rw [markObj_steps]; rfl⟩
  · split
    · exact ⟨'g', by decide, by decide, by rw [markObj_steps]; rfl⟩
    · split
      · refine ⟨'r', by decide, by decide, ?_⟩
        split
        · show ((c.step 'r').traceSlots root).steps = _
          rw [traceSlots_steps]; rfl
        · show ((c.step 'r').traceSlots _).steps = _
          rw [traceSlots_steps]; rfl
      · exact ⟨'b', by decide, by decide, rfl⟩

theorem sweepOne_steps (c : Ctx) :
    ∃ ch, ch ≠ 'Z' ∧ ch ≠ 'W' ∧ c.sweepOne.1.steps = ch :: c.steps := by
  unfold Ctx.sweepOne
  split
  · exact ⟨'e', by decide, by decide, rfl⟩
  · refine ⟨'x', by decide, by decide, ?_⟩
    simp only
    repeat' split
    all_goals simp [Ctx.step]

/-- What one call with `Stop::FinishCycle` appends to the step log: `'Z'` (the `Sweep → Sleep`
    switch) can only be the newest entry — the loop returns right after it, so it never wakes
    again in the same call. -/
theorem collectLoop_finishCycle_log {root ru fault} (fuel : Nat) :
    ∀ (c : Ctx) (hs : Bool) (k : Nat), CInv c root [] →
      ∃ new, (Ctx.collectLoop root ru .finishCycle fault fuel c hs k).1.steps = new ++ c.steps ∧
        ∀ ch ∈ new.tail, ch ≠ 'Z' := by
  induction fuel with
  | zero => intro c hs k _; exact ⟨[], rfl, by simp⟩
  | succ fuel ih =>
    intro c hs k h
    have nle1 : ¬ (Stop.finishCycle ≤ Stop.fullyMarked) := by decide
    have nle2 : ¬ (Stop.finishCycle ≤ Stop.atSweep) := by decide
    -- extending a recursive result by the characters this iteration appended
    have ext : ∀ (c1 : Ctx) (chs : List Char) (r : Ctx), c1.steps = chs ++ c.steps → (∀ ch ∈ chs, ch ≠ 'Z') →
        (∃ new, r.steps = new ++ c1.steps ∧ ∀ ch ∈ new.tail, ch ≠ 'Z') →
        ∃ new, r.steps = new ++ c.steps ∧ ∀ ch ∈ new.tail, ch ≠ 'Z' := by
      intro c1 chs r e1 hz ⟨new, e2, hn⟩
      refine ⟨new ++ chs, by rw [e2, e1, List.append_assoc], ?_⟩
      intro ch hch
      cases new with
      | nil => exact hz ch (List.mem_of_mem_tail hch)
      | cons a new' =>
        simp only [List.cons_append, List.tail_cons, List.mem_append] at hch
        rcases hch with hch | hch
        · exact hn ch (by simpa using hch)
        · exact hz ch hch
    have here : ∀ (c1 : Ctx) (chs : List Char), c1.steps = chs ++ c.steps → (∀ ch ∈ chs.tail, ch ≠ 'Z') →
        ∃ new, c1.steps = new ++ c.steps ∧ ∀ ch ∈ new.tail, ch ≠ 'Z' :=
      fun c1 chs e hz => ⟨chs, e, hz⟩
    unfold Ctx.collectLoop
    cases hp : c.phase with
    | drop => exact absurd hp h.notDrop
    | sleep =>
      simp only
      have e1 : (c.switch .mark).steps = ['W'] ++ c.steps := rfl
      split
      · exact here _ _ e1 (by simp)
      · exact ext _ _ _ e1 (by simp) (ih _ _ _ (wake_spec h hp))
    | mark =>
      simp only
      cases hg : c.grayRemaining with
      | false =>
        rw [markOne_break _ hg]
        simp only [nle1, if_false]
        have hg' : (c.step 'b').grayRemaining = false := hg
        have h1 : CInv (c.step 'b') root [] := h.sameView (sameView_step c 'b')
        have e1 : (c.step 'b').enterSweep.steps = ['S', 'b'] ++ c.steps := rfl
        split
        · exact here _ _ e1 (by simp)
        · exact ext _ _ _ e1 (by simp) (ih _ _ _ (enterSweep_spec h1 hp hg'))
      | true =>
        have hnb := markOne_not_break (root := root) (faultAt fault k) hg
        obtain ⟨ch, hz, _, est⟩ := markOne_steps c root (faultAt fault k)
        have e1 : (c.markOne root (faultAt fault k)).1.steps = [ch] ++ c.steps := est
        cases hfl : (c.markOne root (faultAt fault k)).2 with
        | «break» => exact absurd hfl hnb
        | unwind =>
          simp only []
          exact here _ _ e1 (by simp)
        | «continue» =>
          simp only []
          split
          · exact here _ _ e1 (by simp)
          · exact ext _ _ _ e1 (by simpa using hz)
              (ih _ _ _ (markOne_spec h hp (faultAt fault k) (root := root)).1)
    | sweep =>
      simp only [nle2, if_false]
      cases hr : c.rest with
      | nil =>
        rw [sweepOne_end hr]
        simp only [if_true]
        exact here _ ['Z', 'e'] rfl (by simp)
      | cons i rest' =>
        have hne : c.rest ≠ [] := by rw [hr]; simp
        have hfl := sweepOne_flow hne
        obtain ⟨ch, hz, _, est⟩ := sweepOne_steps c
        have e1 : c.sweepOne.1.steps = [ch] ++ c.steps := est
        rw [show c.sweepOne = (c.sweepOne.1, c.sweepOne.2) from rfl, hfl]
        simp only
        split
        · exact here _ _ e1 (by simp)
        · exact ext _ _ _ e1 (by simpa using hz) (ih _ _ _ (sweepOne_spec h hp).1)

end GcArena
