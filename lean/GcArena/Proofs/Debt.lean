import GcArena.Proofs.InvRun
/-! Debt facts of the driver loop (exact rationals). -/
namespace GcArena

theorem debt_nonneg (m : Metrics) : 0 ≤ m.allocationDebt := by
  unfold Metrics.allocationDebt
  split
  · exact Rat.le_refl
  · split
    · exact Rat.le_refl
    · grind

theorem debt_zero_of_not_hasDebt (m : Metrics) (h : m.hasDebt = false) : m.allocationDebt = 0 := by
  have h1 := debt_nonneg m
  simp only [Metrics.hasDebt, decide_eq_false_iff_not] at h
  grind

/-- After `finish_cycle(true)` (an atomic full cycle) the debt is zero. -/
theorem debt_zero_after_reset (m : Metrics) : (m.finishCycle true).allocationDebt = 0 := by
  unfold Metrics.finishCycle Metrics.allocationDebt Metrics.cycleDebits
  simp only [if_true]
  split
  · rfl
  · have : (0 : Rat) ≤ (m.pacing.minSleep : Rat) := Rat.natCast_nonneg
    split
    · rfl
    · rename_i h2; exfalso; apply h2
      grind

/-- `collect_debt` (RunUntil::PayDebt, Stop::Full): every normal return has zero debt. -/
theorem collectLoop_payDebt_full_zero {root fault} (fuel : Nat) :
    ∀ (c : Ctx) (hs : Bool) (k : Nat) (c' : Ctx),
      Ctx.collectLoop root .payDebt .full fault fuel c hs k = (c', .returned) →
      c'.phase ≠ .drop → c'.err = none → c'.metrics.allocationDebt = 0 := by
  induction fuel with
  | zero => intro c hs k c' h; simp [Ctx.collectLoop] at h
  | succ fuel ih =>
    intro c hs k c' h hnd herr
    unfold Ctx.collectLoop at h
    have dz : ∀ x : Ctx, x.debtBreak .payDebt = true → x.metrics.allocationDebt = 0 := by
      intro x hx
      simp only [Ctx.debtBreak, decide_true, Bool.true_and, Bool.and_eq_true, Bool.not_eq_true'] at hx
      exact debt_zero_of_not_hasDebt _ hx.1
    cases hp : c.phase with
    | drop =>
      simp only [hp, Prod.mk.injEq] at h
      exfalso
      rw [← h.1] at herr
      exact Ctx.fail_err_ne c .unreachable herr
    | sleep =>
      simp only [hp] at h
      split at h
      · rename_i hb; cases h; exact dz _ hb
      · exact ih _ _ _ _ h hnd herr
    | mark =>
      simp only [hp] at h
      generalize hmo : c.markOne root (faultAt fault k) = r at h
      obtain ⟨c1, fl⟩ := r
      simp only at h
      cases fl with
      | unwind => simp at h
      | «continue» =>
        simp only at h
        split at h
        · rename_i hb; cases h; exact dz _ hb
        · exact ih _ _ _ _ h hnd herr
      | «break» =>
        simp only at h
        have hnle : ¬ (Stop.full ≤ Stop.fullyMarked) := by decide
        simp only [hnle, if_false] at h
        split at h
        · rename_i hb; cases h; exact dz _ hb
        · exact ih _ _ _ _ h hnd herr
    | sweep =>
      simp only [hp] at h
      have hnle : ¬ (Stop.full ≤ Stop.atSweep) := by decide
      simp only [hnle, if_false] at h
      generalize hso : c.sweepOne = r at h
      obtain ⟨c1, fl⟩ := r
      simp only at h
      cases fl with
      | «break» =>
        simp only [show (Stop.full = Stop.finishCycle) = False from by simp, if_false] at h
        split at h
        · rename_i hslept
          simp only [if_true] at h
          cases h
          subst hslept
          simp only [Ctx.enterSleep, Ctx.switch, Ctx.step_metrics, Ctx.withMetrics_metrics]
          exact debt_zero_after_reset _
        · split at h
          · rename_i hb; cases h; exact dz _ hb
          · exact ih _ _ _ _ h hnd herr
      | «continue» =>
        simp only at h
        split at h
        · rename_i hb; cases h; exact dz _ hb
        · exact ih _ _ _ _ h hnd herr
      | unwind =>
        simp only at h
        split at h
        · rename_i hb; cases h; exact dz _ hb
        · exact ih _ _ _ _ h hnd herr

theorem doCollection_collectDebt_zero (c : Ctx) (root : List Slot) (fault : TraceFault) (c' : Ctx)
    (h : c.doCollection root .payDebt .full fault = (c', .returned)) (hnd : c'.phase ≠ .drop)
    (herr : c'.err = none) : c'.metrics.allocationDebt = 0 := by
  unfold Ctx.doCollection at h
  split at h
  · rename_i hb
    cases h
    simp only [decide_true, Bool.true_and, Bool.not_eq_true'] at hb
    exact debt_zero_of_not_hasDebt _ hb
  · exact collectLoop_payDebt_full_zero _ _ _ _ _ h hnd herr

end GcArena
